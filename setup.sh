#!/bin/bash
# Offline setup: an overlay Python 3.12 venv holding z3/cvc5/sympy/jsonschema from the local
# wheelhouse, with the repository's own dependencies visible through a .pth into /venv.
set -e
HERE="$(cd "$(dirname "${BASH_SOURCE[0]}")" && pwd)"
cd "$HERE"
if [ ! -x .venv/bin/python ] || ! .venv/bin/python -c "import z3, sympy, numpy, jsonschema" 2>/dev/null; then
  rm -rf .venv
  /venv/bin/python -m venv .venv
  PIP_NO_INDEX=1 .venv/bin/python -m pip install -q --no-index --find-links /opt/veriftools/wheels z3-solver cvc5 sympy jsonschema
  echo "import site; site.addsitedir('/venv/lib/python3.12/site-packages')" > .venv/lib/python3.12/site-packages/zz_repo_deps.pth
fi
PYTHONPATH="$HERE" .venv/bin/python -c "
import sys; sys.path.insert(0, '/repo')
import z3, numpy, scipy, numpy_groupies, sympy, jsonschema
import pyttb
print('setup ok: z3', z3.get_version_string(), 'numpy', numpy.__version__, 'pyttb from', pyttb.__file__)
"
