"""Contracts for the matricized sparse tensor (C01, C06, C19): sptenmat.__init__, sptensor.to_sptenmat,
sptenmat.to_sptensor."""

import z3

from pyvc import npsym as N
from pyvc import terms as T
from pyvc.contract import Contract, register
from pyvc.ctx import PathAbort
from pyvc.values import Arr, Rec

from .sptensor import sp_from_aggregator, sym_sptensor, seq_view

M_ = "pyttb.sptenmat.sptenmat."
I_ = z3.IntSort()


def _is_partition(S, rdims, cdims, Nn):
    """rdims ++ cdims is a permutation of 0..N-1."""
    Lr, Lc = rdims.shape[0], cdims.shape[0]
    at = lambda q: z3.If(q < T.tz(Lr), T.tz(rdims.fn(q)), T.tz(cdims.fn(q - T.tz(Lr))))
    q1, q2 = z3.Int("pt!q1"), z3.Int("pt!q2")
    L = T.tz(Lr) + T.tz(Lc)
    return S.And(
        L == Nn,
        T.ForAll([q1], z3.Implies(z3.And(0 <= q1, q1 < L), z3.And(0 <= at(q1), at(q1) < Nn))),
        T.ForAll([q1, q2], z3.Implies(z3.And(0 <= q1, q1 < q2, q2 < L), at(q1) != at(q2))),
    )


@register
class sptenmat_init(Contract):
    qual = M_ + "__init__"
    props = ("C01", "C06", "C19")
    doc = (
        "sptenmat(subs, vals, rdims, cdims, tshape) [copy=True, non-negative indices]: rdims ++ cdims must be a "
        "permutation of the modes and every row / column index must be below prod(tshape[rdims]) / prod(tshape[cdims]) "
        "(else raises); the stored (row, col) pairs are pairwise distinct, each is an input pair and carries the SUM of "
        "the values given for that pair, pairs whose sum is zero are dropped; rdims, cdims, tshape are kept."
    )
    inline = ("pyttb.pyttb_utils.gather_wrap_dims",)
    loops = {}

    def setup(self, S, case):
        Nn = S.int("N", 1)
        n = S.int("n", 1)
        tshape = S.vector("tshape", Nn, "int", kind="tuple")
        S.assume(S.forall(0, Nn, lambda q: tshape.fn(q) >= 1, pats=lambda q: [tshape.fn(q)]))
        subs = S.row_matrix("subs", n, 2)
        k = z3.Int("sm!k")
        S.assume(T.ForAll([k], z3.Implies(z3.And(0 <= k, k < n), z3.And(T.tz(subs.fn(k, 0)) >= 0, T.tz(subs.fn(k, 1)) >= 0))))
        vals = S.matrix("vals", n, 1, "real")
        rdims = S.vector("rdims", S.nat("Lr"), "int")
        cdims = S.vector("cdims", S.nat("Lc"), "int")
        for ax in N.mixed_radix_axioms():
            S.ctx.assume(ax)
        return dict(__self__=Rec("sptenmat", {}), subs=subs, vals=vals, rdims=rdims, cdims=cdims, tshape=tshape)

    @staticmethod
    def _sizes(S, a):
        ts, rd, cd = a["tshape"], a["rdims"], a["cdims"]
        rrow = N.spec_row(S.ctx, rd.shape[0], lambda q: T.tz(ts.fn(rd.fn(q))))
        crow = N.spec_row(S.ctx, cd.shape[0], lambda q: T.tz(ts.fn(cd.fn(q))))
        return N.PRODR(rrow), N.PRODR(crow)

    def raises_when(self, S, a):
        Nn = a["tshape"].shape[0]
        yield "dims-are-not-a-partition-of-the-modes", S.Not(_is_partition(S, a["rdims"], a["cdims"], Nn))
        Pr, Pc = self._sizes(S, a)
        subs = a["subs"]
        n = subs.shape[0]
        k = z3.Int("sm!k")
        yield "row-index-too-large", T.Exists([k], z3.And(0 <= k, T.tz(k < n), T.tz(subs.fn(k, 0)) >= Pr))
        yield "column-index-too-large", T.Exists([k], z3.And(0 <= k, T.tz(k < n), T.tz(subs.fn(k, 1)) >= Pc))

    def ensures(self, S, a, ret):
        me = a["__self__"]
        f = me.fields
        yield "fields-set", all(x in f for x in ("subs", "vals", "rdims", "cdims", "tshape"))
        ts, rd, cd = a["tshape"], a["rdims"], a["cdims"]
        q = z3.Int("sm!q")
        yield "tshape-kept", f["tshape"] is ts
        yield "rdims-kept", S.And(S.eq(f["rdims"].shape[0], rd.shape[0]), T.ForAll([q], z3.Implies(z3.And(0 <= q, T.tz(q < rd.shape[0])), T.tz(f["rdims"].fn(q)) == T.tz(rd.fn(q)))))
        yield "cdims-kept", S.And(S.eq(f["cdims"].shape[0], cd.shape[0]), T.ForAll([q], z3.Implies(z3.And(0 <= q, T.tz(q < cd.shape[0])), T.tz(f["cdims"].fn(q)) == T.tz(cd.fn(q)))))
        Pr, Pc = self._sizes(S, a)
        subs_in = a["subs"]
        n = subs_in.shape[0]
        k = z3.Int("sm!k")
        # facts established by the constructor's own checks on a returning path
        yield "lemma:row-indices-below-the-row-size", T.ForAll([k], z3.Implies(z3.And(0 <= k, T.tz(k < n)), T.tz(subs_in.fn(k, 0)) < Pr)), "lemma"
        yield "lemma:column-indices-below-the-column-size", T.ForAll([k], z3.Implies(z3.And(0 <= k, T.tz(k < n)), T.tz(subs_in.fn(k, 1)) < Pc)), "lemma"
        gh = S.body_ghosts.get("argsort")
        Nn = ts.shape[0]
        Lr = T.tz(rd.shape[0])
        dim_at = lambda q_: z3.If(q_ < Lr, T.tz(rd.fn(q_)), T.tz(cd.fn(q_ - Lr)))
        if gh:
            p_, pinv_ = gh[0]
            yield "lemma:dims(q)==rank(q)", T.ForAll([q], z3.Implies(z3.And(0 <= q, q < Nn), z3.And(dim_at(q) == pinv_(q), 0 <= pinv_(q), pinv_(q) < Nn, p_(pinv_(q)) == q)), [pinv_(q)]), "lemma"
        if f["vals"].ndim != 2:
            # every group summed to zero: nothing is stored (the value array is then one-dimensional and empty)
            yield "nothing-stored", S.And(S.eq(f["subs"].shape[0], 0), S.eq(f["vals"].shape[0], 0))
            return
        a2 = dict(subs=a["subs"], vals=a["vals"], shape=(Pr, Pc), function_handle="sum", __case__="sum")
        ret2 = Rec("sptensor", dict(subs=f["subs"], vals=f["vals"], shape=(Pr, Pc)))
        for item in sp_from_aggregator.ensures(sp_from_aggregator(), S, a2, ret2):
            if item[0] == "returns-sptensor":
                continue
            yield item


def _ctor_fresh(self, S, a):
    """Call-site result of the constructor: fields of the new object + the Skolem functions of the
    aggregation postcondition."""
    me = a["__self__"]
    subs_in = a["subs"]
    if not (isinstance(subs_in, Arr) and subs_in.ndim == 2):
        raise PathAbort("sptenmat() call site: subs is not a matrix")
    m = S.nat("sm_nnz")
    rsubs = S.row_matrix("sm_subs", m, 2)
    rvals = S.matrix("sm_vals", m, 1, "real")
    rd, cd = a["rdims"], a["cdims"]
    me.fields.update(subs=rsubs, vals=rvals, tshape=a["tshape"],
                     rdims=Arr(rd.shape, N.snap(rd).fn, "int"), cdims=Arr(cd.shape, N.snap(cd).fn, "int"))
    I_ = z3.IntSort()
    me.ghost = dict(
        gval=T.fresh_fun("gval", I_, z3.RealSort()), pos=T.fresh_fun("gpos", I_, I_), src=T.fresh_fun("gsrc", I_, I_),
        oth=T.fresh_fun("goth", I_, I_), thr=T.fresh_fun("gthr", I_, I_, I_), kind="sum",
    )
    N.ensure_rows(S.ctx, subs_in)
    return me


sptenmat_init.fresh_result = _ctor_fresh
_plain_ensures = sptenmat_init.ensures


def _ctor_ensures(self, S, a, ret):
    if not S.at_call_site:
        yield from _plain_ensures(self, S, a, ret)
        return
    me = a["__self__"]
    f = me.fields
    Pr, Pc = self._sizes(S, a)
    a2 = dict(subs=a["subs"], vals=a["vals"], shape=(Pr, Pc), function_handle="sum", __case__="sum")
    ret2 = Rec("sptensor", dict(subs=f["subs"], vals=f["vals"], shape=(Pr, Pc)))
    ret2.ghost = me.ghost
    for item in sp_from_aggregator.ensures(sp_from_aggregator(), S, a2, ret2):
        if item[0] == "returns-sptensor":
            continue
        yield item


sptenmat_init.ensures = _ctor_ensures


def _ctor_requires(self, S, a):
    subs = a["subs"]
    k = z3.Int("smr!k")
    if isinstance(subs, Arr) and subs.ndim == 2:
        n = subs.shape[0]
        yield "indices-non-negative", T.ForAll([k], z3.Implies(z3.And(0 <= k, T.tz(k < n)), z3.And(T.tz(subs.fn(k, 0)) >= 0, T.tz(subs.fn(k, 1)) >= 0)))
        yield "at-least-one-entry", T.tz(T.ge(n, 1))
    a.setdefault("copy", True)
    yield "copying-constructor", a["copy"] is True


sptenmat_init.requires = _ctor_requires


@register
class sp_to_sptenmat(Contract):
    qual = "pyttb.sptensor.sptensor.to_sptenmat"
    props = ("C01", "C06", "C19")
    doc = (
        "S.to_sptenmat(rdims, cdims) for a tensor with at least one stored entry: rdims ++ cdims must be a permutation of the "
        "modes (else raises); the result keeps tshape, rdims, cdims; its stored (row, col) pairs are pairwise distinct and are "
        "exactly the pairs (RAVEL_F(shape[rdims], s[rdims]), RAVEL_F(shape[cdims], s[cdims])) of the stored subscripts s of S, "
        "each carrying the value of that subscript (the pair map is injective by L1, so nothing is merged or dropped)."
    )
    inline = ("pyttb.pyttb_utils.gather_wrap_dims", "pyttb.sptensor.sptensor.ndims", "pyttb.sptensor.sptensor.nnz")

    def setup(self, S, case):
        A = sym_sptensor(S, "A")
        S.assume(A.ghost["n"] >= 1)
        rdims = S.vector("rdims", S.int("Lr", 1), "int")
        cdims = S.vector("cdims", S.int("Lc", 1), "int")
        return dict(__self__=A, rdims=rdims, cdims=cdims)

    def raises_when(self, S, a):
        A = a["__self__"]
        yield "dims-are-not-a-partition-of-the-modes", S.Not(_is_partition(S, a["rdims"], a["cdims"], A.ghost["N"]))

    def ensures(self, S, a, ret):
        A, rd, cd = a["__self__"], a["rdims"], a["cdims"]
        g = A.ghost
        n, Nn = g["n"], g["N"]
        yield "returns-sptenmat", isinstance(ret, Rec) and ret.cls == "sptenmat"
        f = ret.fields
        q, k, t = z3.Int("tm!q"), z3.Int("tm!k"), z3.Int("tm!t")
        yield "tshape-kept", f["tshape"] is A.fields["shape"]
        yield "rdims-kept", S.And(S.eq(f["rdims"].shape[0], rd.shape[0]), T.ForAll([q], z3.Implies(z3.And(0 <= q, T.tz(q < rd.shape[0])), T.tz(f["rdims"].fn(q)) == T.tz(rd.fn(q)))))
        yield "cdims-kept", S.And(S.eq(f["cdims"].shape[0], cd.shape[0]), T.ForAll([q], z3.Implies(z3.And(0 <= q, T.tz(q < cd.shape[0])), T.tz(f["cdims"].fn(q)) == T.tz(cd.fn(q)))))
        bg = S.body_ghosts
        ca = bg.get("callargs:tt_sub2ind")
        if not ca or len(ca) < 2:
            raise PathAbort("to_sptenmat contract: expected two tt_sub2ind calls")
        (ar, ac) = ca[-2], ca[-1]
        grow_r, grow_c = N.ensure_rows(S.ctx, ar["subs"]), N.ensure_rows(S.ctx, ac["subs"])
        rrow, crow = N.seq_as_row(S.ctx, ar["shape"]), N.seq_as_row(S.ctx, ac["shape"])
        msubs, mvals = f["subs"], f["vals"]
        m = msubs.shape[0]
        ra = A.fields["subs"].rowfn
        Av = A.fields["vals"]
        Lr, Lc = T.tz(rd.shape[0]), T.tz(cd.shape[0])
        ctor_args = bg["callargs:__init__"][-1]
        pin = N.ensure_rows(S.ctx, ctor_args["subs"])     # the (row, col) pairs handed to the constructor
        gh = ret.ghost
        gval, pos, src = gh["gval"], gh["pos"], gh["src"]
        yield "lemma:gathered-row-modes", T.ForAll([k, q], z3.Implies(z3.And(0 <= k, k < n, 0 <= q, q < Lr), z3.And(N.rlen(grow_r(k)) == Lr, N.relem(grow_r(k), q) == N.relem(ra(k), T.tz(rd.fn(q)))))), "lemma"
        yield "lemma:gathered-column-modes", T.ForAll([k, q], z3.Implies(z3.And(0 <= k, k < n, 0 <= q, q < Lc), z3.And(N.rlen(grow_c(k)) == Lc, N.relem(grow_c(k), q) == N.relem(ra(k), T.tz(cd.fn(q)))))), "lemma"
        pair_r = lambda k_: N.RAVELF(rrow, grow_r(k_))
        pair_c = lambda k_: N.RAVELF(crow, grow_c(k_))
        yield "lemma:pairs-handed-to-the-constructor", T.ForAll([k], z3.Implies(z3.And(0 <= k, k < n), z3.And(N.relem(pin(k), 0) == pair_r(k), N.relem(pin(k), 1) == pair_c(k))), [pin(k)]), "lemma"
        # injectivity of the pair map on the stored subscripts
        gha = bg.get("argsort")
        i, j = z3.Int("tm!i"), z3.Int("tm!j")
        w = lambda i_, j_: N.rdiff(ra(i_), ra(j_))
        if gha:
            p_, pinv_ = gha[0]
            rk = lambda x: p_(x)  # position of mode x in rdims ++ cdims (the sorted mode list is 0..N-1)
            yield "lemma:mode-positions", T.ForAll([q], z3.Implies(z3.And(0 <= q, q < Nn), z3.And(
                0 <= rk(q), rk(q) < Nn, z3.If(rk(q) < Lr, T.tz(rd.fn(rk(q))) == q, T.tz(cd.fn(rk(q) - Lr)) == q))), [rk(q)]), "lemma"
            P_ = lambda i_, j_: rk(w(i_, j_))
            yield "lemma:gathered-rows-at-the-differing-mode", T.ForAll(
                [i, j], z3.Implies(z3.And(0 <= i, i < j, j < n), z3.And(
                    0 <= w(i, j), w(i, j) < Nn, N.relem(ra(i), w(i, j)) != N.relem(ra(j), w(i, j)), 0 <= P_(i, j), P_(i, j) < Nn,
                    z3.If(P_(i, j) < Lr,
                          z3.And(N.relem(grow_r(i), P_(i, j)) == N.relem(ra(i), w(i, j)), N.relem(grow_r(j), P_(i, j)) == N.relem(ra(j), w(i, j))),
                          z3.And(N.relem(grow_c(i), P_(i, j) - Lr) == N.relem(ra(i), w(i, j)), N.relem(grow_c(j), P_(i, j) - Lr) == N.relem(ra(j), w(i, j)))))),
                [[ra(i), ra(j)]]), "lemma"
            yield "lemma:distinct-subscripts-give-distinct-pairs", T.ForAll(
                [i, j], z3.Implies(z3.And(0 <= i, i < j, j < n), z3.Or(grow_r(i) != grow_r(j), grow_c(i) != grow_c(j))), [[ra(i), ra(j)]]), "lemma"
            yield "lemma:pair-map-injective", T.ForAll(
                [i, j], z3.Implies(z3.And(0 <= i, i < j, j < n), pin(i) != pin(j)), [[ra(i), ra(j)]]), "lemma"
        mr = N.ensure_rows(S.ctx, msubs)
        yield "every-stored-pair-is-the-pair-of-a-stored-subscript-with-its-value", T.ForAll(
            [t], z3.Implies(z3.And(0 <= t, T.tz(t < m)), z3.And(
                0 <= src(t), src(t) < n, N.relem(mr(t), 0) == pair_r(src(t)), N.relem(mr(t), 1) == pair_c(src(t)),
                T.tz(T.as_real(mvals.fn(t, 0))) == T.tz(Av.fn(src(t), 0)))), [mr(t)])
        yield "every-stored-subscript-appears-with-its-value", T.ForAll(
            [k], z3.Implies(z3.And(0 <= k, k < n), z3.And(
                0 <= pos(k), T.tz(pos(k) < m), N.relem(mr(pos(k)), 0) == pair_r(k), N.relem(mr(pos(k)), 1) == pair_c(k),
                T.tz(T.as_real(mvals.fn(pos(k), 0))) == T.tz(Av.fn(k, 0)))), [ra(k)])
        yield "stored-pairs-pairwise-distinct", T.ForAll([i, j], z3.Implies(z3.And(0 <= i, i < j, T.tz(j < m)), mr(i) != mr(j)))


def sym_sptenmat(S, name="M"):
    """A well-formed sptenmat with at least one stored entry: tshape (order N), rdims ++ cdims a permutation of
    the modes (both non-empty), pairwise distinct (row, col) pairs inside (prod tshape[rdims], prod tshape[cdims])."""
    S.ctx.row_hints = True
    Nn = S.int(name + "_N", 2)
    tshape = S.vector(name + "_tshape", Nn, "int", kind="tuple")
    S.assume(S.forall(0, Nn, lambda q: tshape.fn(q) >= 1, pats=lambda q: [tshape.fn(q)]))
    Lr, Lc = S.int(name + "_Lr", 1), S.int(name + "_Lc", 1)
    rd, cd = S.vector(name + "_rdims", Lr, "int"), S.vector(name + "_cdims", Lc, "int")
    # rdims ++ cdims is a permutation of the modes (same statement as _is_partition, in solver-friendly pieces)
    q1, q2 = z3.Int(name + "!q1"), z3.Int(name + "!q2")
    R_, C_ = (lambda x: T.tz(rd.fn(x))), (lambda x: T.tz(cd.fn(x)))
    S.assume(Lr + Lc == Nn)
    S.assume(T.ForAll([q1], z3.Implies(z3.And(0 <= q1, q1 < Lr), z3.And(0 <= R_(q1), R_(q1) < Nn)), [R_(q1)]))
    S.assume(T.ForAll([q1], z3.Implies(z3.And(0 <= q1, q1 < Lc), z3.And(0 <= C_(q1), C_(q1) < Nn)), [C_(q1)]))
    S.assume(T.ForAll([q1, q2], z3.Implies(z3.And(0 <= q1, q1 < q2, q2 < Lr), R_(q1) != R_(q2)), [[R_(q1), R_(q2)]]))
    S.assume(T.ForAll([q1, q2], z3.Implies(z3.And(0 <= q1, q1 < q2, q2 < Lc), C_(q1) != C_(q2)), [[C_(q1), C_(q2)]]))
    S.assume(T.ForAll([q1, q2], z3.Implies(z3.And(0 <= q1, q1 < Lr, 0 <= q2, q2 < Lc), R_(q1) != C_(q2)), [[R_(q1), C_(q2)]]))
    n = S.int(name + "_nnz", 1)
    subs = S.row_matrix(name + "_subs", n, 2)
    vals = S.matrix(name + "_vals", n, 1, "real")
    for ax in N.mixed_radix_axioms():
        S.ctx.assume(ax)
    rrow = N.spec_row(S.ctx, Lr, lambda q: T.tz(tshape.fn(rd.fn(q))))
    crow = N.spec_row(S.ctx, Lc, lambda q: T.tz(tshape.fn(cd.fn(q))))
    k, l = z3.Int(name + "!k"), z3.Int(name + "!l")
    rf = subs.rowfn
    S.assume(T.ForAll([k], z3.Implies(z3.And(0 <= k, k < n), z3.And(
        0 <= N.relem(rf(k), 0), N.relem(rf(k), 0) < N.PRODR(rrow), 0 <= N.relem(rf(k), 1), N.relem(rf(k), 1) < N.PRODR(crow))), [rf(k)]))
    S.assume(T.ForAll([k, l], z3.Implies(z3.And(0 <= k, k < l, l < n), rf(k) != rf(l)), [[rf(k), rf(l)]]))
    rec = Rec("sptenmat", dict(subs=subs, vals=vals, rdims=rd, cdims=cd, tshape=tshape))
    rec.ghost = dict(N=Nn, n=n, rrow=rrow, crow=crow, Lr=Lr, Lc=Lc)
    return rec


@register
class sptenmat_to_sptensor(Contract):
    qual = M_ + "to_sptensor"
    props = ("C01", "C06")
    doc = (
        "M.to_sptensor() for a well-formed sptenmat with stored entries and both mode lists non-empty: the result has shape "
        "tshape, one stored subscript per stored pair in the same order and with the same value, subscript k restricted to "
        "rdims / cdims = UNRAVEL_F(tshape[rdims], row_k) / UNRAVEL_F(tshape[cdims], col_k); the result is well-formed "
        "(subscripts inside tshape, pairwise distinct by L1)."
    )
    inline = ("pyttb.sptensor.sptensor.__init__", "pyttb.pyttb_utils.parse_shape", "pyttb.pyttb_utils.tt_sizecheck", "pyttb.pyttb_utils.parse_one_d")

    def setup(self, S, case):
        return dict(__self__=sym_sptenmat(S))

    def ensures(self, S, a, ret):
        M = a["__self__"]
        g = M.ghost
        n, Nn, Lr, Lc = g["n"], g["N"], g["Lr"], g["Lc"]
        f = M.fields
        yield "returns-sptensor", isinstance(ret, Rec) and ret.cls == "sptensor"
        subs, vals, shape = ret.fields["subs"], ret.fields["vals"], ret.fields["shape"]
        slen, sat = seq_view(shape)
        q, k = z3.Int("ts!q"), z3.Int("ts!k")
        yield "shape-is-tshape", S.And(S.eq(slen, Nn), T.ForAll([q], z3.Implies(z3.And(0 <= q, q < Nn), sat(q) == T.tz(f["tshape"].fn(q)))))
        yield "arrays", S.And(subs.ndim == 2, vals.ndim == 2, S.eq(subs.shape[0], n), S.eq(subs.shape[1], Nn), S.eq(vals.shape[0], n), S.eq(vals.shape[1], 1))
        yield "values-unchanged-in-order", T.ForAll([k], z3.Implies(z3.And(0 <= k, k < n), T.tz(T.as_real(vals.fn(k, 0))) == T.tz(f["vals"].fn(k, 0))))
        rf = f["subs"].rowfn
        rd, cd = f["rdims"], f["cdims"]
        Ur = lambda k_: N.UNRAVELF(g["rrow"], N.relem(rf(k_), 0))
        Uc = lambda k_: N.UNRAVELF(g["crow"], N.relem(rf(k_), 1))
        sp_rows = [r for r in S.ctx.ghosts.get("row", [])]
        for r_ in sp_rows:
            for s_ in (g["rrow"], g["crow"]):
                if r_ is not s_:
                    S.ctx.assume(N.row_ext(r_, s_))
                    S.ctx.assume(N.row_ext(s_, r_))
        cs = S.body_ghosts.get("colscatter")
        if cs and len(cs) >= 2:
            (has1, last1), (has2, last2) = cs[0], cs[1]
            yield "lemma:row-mode-columns-are-written-once", T.ForAll([q], z3.Implies(z3.And(0 <= q, q < Lr), z3.And(has1(T.tz(rd.fn(q))), last1(T.tz(rd.fn(q))) == q, z3.Not(has2(T.tz(rd.fn(q)))))), [rd.fn(q)]), "lemma"
            yield "lemma:column-mode-columns-are-written-once", T.ForAll([q], z3.Implies(z3.And(0 <= q, q < Lc), z3.And(has2(T.tz(cd.fn(q))), last2(T.tz(cd.fn(q))) == q)), [cd.fn(q)]), "lemma"
        yield "row-modes-are-UNRAVEL-of-the-row-index", T.ForAll(
            [k, q], z3.Implies(z3.And(0 <= k, k < n, 0 <= q, q < Lr), T.tz(subs.fn(k, T.tz(rd.fn(q)))) == N.relem(Ur(k), q))), "lemma"
        yield "column-modes-are-UNRAVEL-of-the-column-index", T.ForAll(
            [k, q], z3.Implies(z3.And(0 <= k, k < n, 0 <= q, q < Lc), T.tz(subs.fn(k, T.tz(cd.fn(q)))) == N.relem(Uc(k), q))), "lemma"
        m_ = z3.Int("ts!m")
        yield "subscripts-inside-tshape", T.ForAll(
            [k, m_], z3.Implies(z3.And(0 <= k, k < n, 0 <= m_, m_ < Nn), z3.And(0 <= T.tz(subs.fn(k, m_)), T.tz(subs.fn(k, m_)) < sat(m_))))
        i, j, c = z3.Int("ts!i"), z3.Int("ts!j"), z3.Int("ts!c")
        # distinct pairs differ in the row or the column index; UNRAVEL is injective on 0..P-1 (L1); the differing
        # unravelled position is a mode of the result
        dr = lambda i_, j_: N.rdiff(Ur(i_), Ur(j_))
        dc = lambda i_, j_: N.rdiff(Uc(i_), Uc(j_))
        col = lambda i_, j_: z3.If(N.relem(rf(i_), 0) != N.relem(rf(j_), 0), T.tz(rd.fn(dr(i_, j_))), T.tz(cd.fn(dc(i_, j_))))
        yield "lemma:different-row-index-gives-different-row-modes", T.ForAll(
            [i, j], z3.Implies(z3.And(0 <= i, i < j, j < n, N.relem(rf(i), 0) != N.relem(rf(j), 0)),
                               z3.And(Ur(i) != Ur(j), 0 <= dr(i, j), dr(i, j) < Lr, N.relem(Ur(i), dr(i, j)) != N.relem(Ur(j), dr(i, j)))), [[rf(i), rf(j)]]), "lemma"
        yield "lemma:different-column-index-gives-different-column-modes", T.ForAll(
            [i, j], z3.Implies(z3.And(0 <= i, i < j, j < n, N.relem(rf(i), 1) != N.relem(rf(j), 1)),
                               z3.And(Uc(i) != Uc(j), 0 <= dc(i, j), dc(i, j) < Lc, N.relem(Uc(i), dc(i, j)) != N.relem(Uc(j), dc(i, j)))), [[rf(i), rf(j)]]), "lemma"
        e_ = lambda i_, j_: N.rdiff(rf(i_), rf(j_))
        yield "lemma:distinct-pairs-differ-in-row-or-column-index", T.ForAll(
            [i, j], z3.Implies(z3.And(0 <= i, i < j, j < n), z3.And(
                0 <= e_(i, j), e_(i, j) < 2, N.relem(rf(i), e_(i, j)) != N.relem(rf(j), e_(i, j)),
                z3.Or(N.relem(rf(i), 0) != N.relem(rf(j), 0), N.relem(rf(i), 1) != N.relem(rf(j), 1)))), [[rf(i), rf(j)]]), "lemma"
        yield "lemma:result-values-at-the-differing-row-mode", T.ForAll(
            [i, j], z3.Implies(z3.And(0 <= i, i < j, j < n, N.relem(rf(i), 0) != N.relem(rf(j), 0)), z3.And(
                T.tz(subs.fn(i, T.tz(rd.fn(dr(i, j))))) == N.relem(Ur(i), dr(i, j)), T.tz(subs.fn(j, T.tz(rd.fn(dr(i, j))))) == N.relem(Ur(j), dr(i, j)),
                0 <= T.tz(rd.fn(dr(i, j))), T.tz(rd.fn(dr(i, j))) < Nn)), [[rf(i), rf(j)]]), "lemma"
        yield "lemma:result-values-at-the-differing-column-mode", T.ForAll(
            [i, j], z3.Implies(z3.And(0 <= i, i < j, j < n, N.relem(rf(i), 1) != N.relem(rf(j), 1)), z3.And(
                T.tz(subs.fn(i, T.tz(cd.fn(dc(i, j))))) == N.relem(Uc(i), dc(i, j)), T.tz(subs.fn(j, T.tz(cd.fn(dc(i, j))))) == N.relem(Uc(j), dc(i, j)),
                0 <= T.tz(cd.fn(dc(i, j))), T.tz(cd.fn(dc(i, j))) < Nn)), [[rf(i), rf(j)]]), "lemma"
        yield "rows-pairwise-distinct(witness)", T.ForAll(
            [i, j], z3.Implies(z3.And(0 <= i, i < j, j < n), z3.And(0 <= col(i, j), col(i, j) < Nn, T.tz(subs.fn(i, col(i, j))) != T.tz(subs.fn(j, col(i, j))))), [[rf(i), rf(j)]])


T_ = "pyttb.tenmat.tenmat."


@register
class tenmat_init(Contract):
    qual = T_ + "__init__"
    props = ("C01", "C19", "C05")
    doc = (
        "tenmat(data, rdims, cdims, tshape) for a real matrix data: the number of entries of data must equal prod(tshape) and "
        "prod(tshape[rdims]) * prod(tshape[cdims]), and rdims ++ cdims must be a permutation of the modes (else raises); the "
        "object then holds an entry-wise copy of data and copies of rdims / cdims, and tshape."
    )
    inline = ("pyttb.pyttb_utils.gather_wrap_dims", "pyttb.pyttb_utils.parse_shape", "pyttb.pyttb_utils.tt_sizecheck", "pyttb.tenmat.tenmat.order",
              "pyttb.tenmat.tenmat._matches_order", "pyttb.pyttb_utils.to_memory_order")

    def setup(self, S, case):
        Nn = S.int("N", 1)
        tshape = S.vector("tshape", Nn, "int", kind="tuple")
        S.assume(S.forall(0, Nn, lambda q: tshape.fn(q) >= 1, pats=lambda q: [tshape.fn(q)]))
        r, c = S.int("rows", 1), S.int("cols", 1)
        data = S.matrix("data", r, c, "real")
        rdims = S.vector("rdims", S.nat("Lr"), "int")
        cdims = S.vector("cdims", S.nat("Lc"), "int")
        for ax in N.mixed_radix_axioms():
            S.ctx.assume(ax)
        S.ctx.row_hints = True
        S.ctx.index_errors_raise = True
        return dict(__self__=Rec("tenmat", {}), data=data, rdims=rdims, cdims=cdims, tshape=tshape)

    @staticmethod
    def _rows(S, a):
        ts, rd, cd, data = a["tshape"], a["rdims"], a["cdims"], a["data"]
        rrow = N.spec_row(S.ctx, rd.shape[0], lambda x: T.tz(ts.fn(rd.fn(x))))
        crow = N.spec_row(S.ctx, cd.shape[0], lambda x: T.tz(ts.fn(cd.fn(x))))
        # the empty product is 1 (ground instances for every shape row of this path)
        for r_ in list(S.ctx.ghosts.get("row", [])):
            S.ctx.assume(z3.Implies(N.rlen(r_) == 0, N.PRODR(r_) == 1), trusted="lemma: the empty product is 1")
        return rrow, crow, N.seq_as_row(S.ctx, ts), N.seq_as_row(S.ctx, (data.shape[0], data.shape[1]))

    def raises_when(self, S, a):
        Nn = a["tshape"].shape[0]
        yield "dims-are-not-a-partition-of-the-modes", S.Not(_is_partition(S, a["rdims"], a["cdims"], Nn))
        rrow, crow, srow, drow = self._rows(S, a)
        yield "entry-count-differs-from-prod(tshape)", N.PRODR(drow) != N.PRODR(srow)

    def may_raise(self, S, a):
        # modes outside -N..N-1 make NumPy's indexing raise before the partition check; a wrong product of the two
        # mode-size products is rejected too (stated as permitted: it involves the product of two symbolic products)
        yield "anything-the-must-raise-clauses-name-or-a-size-product-mismatch", True

    def ensures(self, S, a, ret):
        me = a["__self__"]
        f = me.fields
        yield "fields-set", z3.BoolVal(all(x in f for x in ("data", "rindices", "cindices", "tshape")))
        data, rd, cd = a["data"], a["rdims"], a["cdims"]
        q, i, j = z3.Int("tm!q"), z3.Int("tm!i"), z3.Int("tm!j")
        D = f["data"]
        yield "data-copied", S.And(D.ndim == 2, S.eq(D.shape[0], data.shape[0]), S.eq(D.shape[1], data.shape[1]), T.ForAll(
            [i, j], z3.Implies(z3.And(0 <= i, T.tz(i < data.shape[0]), 0 <= j, T.tz(j < data.shape[1])), T.tz(T.as_real(D.fn(i, j))) == T.tz(data.fn(i, j)))))
        yield "rdims-kept", S.And(S.eq(f["rindices"].shape[0], rd.shape[0]), T.ForAll([q], z3.Implies(z3.And(0 <= q, T.tz(q < rd.shape[0])), T.tz(f["rindices"].fn(q)) == T.tz(rd.fn(q)))))
        yield "cdims-kept", S.And(S.eq(f["cindices"].shape[0], cd.shape[0]), T.ForAll([q], z3.Implies(z3.And(0 <= q, T.tz(q < cd.shape[0])), T.tz(f["cindices"].fn(q)) == T.tz(cd.fn(q)))))
        # the size checks of the constructor, as facts about every accepted call
        rrow, crow, srow, drow = self._rows(S, a)
        yield "accepted-only-if-entry-count-equals-prod(tshape)", N.PRODR(drow) == N.PRODR(srow)
        yield "accepted-only-if-entry-count-equals-row-size-times-column-size", N.PRODR(rrow) * N.PRODR(crow) == N.PRODR(drow)


# ======================================================================= element-wise operations on matricized tensors

def sym_tenmat(S, name):
    """A matricized dense tensor with an r x c data matrix (r, c >= 1); mode lists and tensor shape are symbolic vectors
    (the element-wise operations do not look into them)."""
    r, c = S.int(name + "_rows", 1), S.int(name + "_cols", 1)
    Nn = S.int(name + "_N", 1)
    rec = Rec("tenmat", dict(data=S.matrix(name + "_data", r, c, "real"),
                             rindices=S.vector(name + "_rdims", S.nat(name + "_Lr"), "int"),
                             cindices=S.vector(name + "_cdims", S.nat(name + "_Lc"), "int"),
                             tshape=S.vector(name + "_tshape", Nn, "int", kind="tuple")))
    rec.ghost = dict(rows=r, cols=c)
    return rec


def _tenmat_copy(it, pos, kw, self_val):
    """tenmat.copy(): a new object with an entry-wise copy of the data and the same mode lists / tensor shape (the copying
    constructor is verified under its own contract)"""
    d = N.snap(self_val.fields["data"])
    new = Rec("tenmat", dict(self_val.fields))
    new.fields["data"] = Arr(d.shape, d.fn, d.dtype)
    return new


class _TenmatPlusMinus(Contract):
    props = ("C19", "C01")
    sign = 1
    inline = ("pyttb.tenmat.tenmat.shape",)

    def abstract_calls(self, S, a):
        return {T_ + "copy": _tenmat_copy}

    def case_names(self):
        return ["tenmat", "scalar"]

    def setup(self, S, case):
        A = sym_tenmat(S, "A")
        if case == "scalar":
            return dict(__self__=A, other=S.real("c"), __scalar__=True)
        return dict(__self__=A, other=sym_tenmat(S, "B"))

    def raises_when(self, S, a):
        if not a.get("__scalar__"):
            gA, gB = a["__self__"].ghost, a["other"].ghost
            yield "matrix-shapes-differ", z3.Or(gA["rows"] != gB["rows"], gA["cols"] != gB["cols"])

    def ensures(self, S, a, ret):
        A, o = a["__self__"], a["other"]
        yield "returns-a-new-tenmat", isinstance(ret, Rec) and ret.cls == "tenmat" and ret is not A and ret is not o
        if not (isinstance(ret, Rec) and isinstance(ret.fields.get("data"), Arr) and ret.fields["data"].ndim == 2):
            return
        D, DA = N.snap(ret.fields["data"]), N.snap(A.fields["data"])
        gA = A.ghost
        i, j = z3.Int("tm!i"), z3.Int("tm!j")
        sg = type(self).sign
        rhs = (lambda i_, j_: T.tz(o)) if a.get("__scalar__") else (lambda i_, j_: T.tz(N.snap(o.fields["data"]).fn(i_, j_)))
        yield "same-matrix-shape", S.And(S.eq(D.shape[0], gA["rows"]), S.eq(D.shape[1], gA["cols"]))
        yield "entry-wise-combination", T.ForAll([i, j], z3.Implies(z3.And(0 <= i, i < gA["rows"], 0 <= j, j < gA["cols"]),
                                                                   T.tz(D.fn(i, j)) == T.tz(DA.fn(i, j)) + sg * rhs(i, j)))
        yield "mode-lists-and-tensor-shape-of-the-receiver", all(ret.fields.get(k) is A.fields.get(k) for k in ("rindices", "cindices", "tshape"))


@register
class tenmat_add(_TenmatPlusMinus):
    qual = T_ + "__add__"
    doc = ("A + B for two matricized tensors: the matrix shapes must be equal (else raises -- equal tensor shapes are not "
           "enough); the result is a new tenmat with A's mode lists and tensor shape whose data are the entry-wise sums; "
           "A + c adds the scalar to every entry.")
    sign = 1


@register
class tenmat_sub(_TenmatPlusMinus):
    qual = T_ + "__sub__"
    doc = "A - B / A - c: as A + B with entry-wise differences."
    sign = -1


# ======================================================================= sptenmat.full (C01: sparse matricization -> dense matricization)

def _abs_tenmat_init(it, pos, kw, self_val):
    """tenmat(data, rdims, cdims, tshape): the new object holds an entry-wise copy of data, copies of the mode lists and
    tshape (verified under its own contract); the constructor's acceptance conditions -- the mode lists partition the modes,
    the entry count is prod(tshape) and is row size times column size -- become obligations at this call site"""
    names = ["data", "rdims", "cdims", "tshape"]
    args = dict(zip(names, pos))
    args.update({k: v for k, v in kw.items() if k in names})
    data, rd, cd, ts = (args.get(n_) for n_ in names)
    ctx = it.ctx
    if isinstance(ts, Arr) and (rd is None) != (cd is None) and isinstance(rd if cd is None else cd, Arr):
        # one mode list omitted: the constructor takes the remaining modes in ascending order (gather_wrap_dims)
        given = rd if cd is None else cd
        Nn_, Lg = T.tz(ts.shape[0]), T.tz(given.shape[0])
        Lo = T.fresh_int("Lrest")
        rest = Arr.fresh("restdims", (Lo,), "int")
        q1, q2 = T.fresh_int("q"), T.fresh_int("q")
        ro, gv = (lambda x: T.tz(rest.fn(x))), (lambda x: T.tz(given.fn(x)))
        wit = T.fresh_fun("restpos", z3.IntSort(), z3.IntSort())
        ctx.assume(z3.And(Lo >= 0, Lo + Lg == Nn_), trusted="numpy:setdiff1d (remaining modes, ascending)")
        ctx.assume(T.ForAll([q1], z3.Implies(z3.And(0 <= q1, q1 < Lo), z3.And(0 <= ro(q1), ro(q1) < Nn_)), [ro(q1)]))
        ctx.assume(T.ForAll([q1, q2], z3.Implies(z3.And(0 <= q1, q1 < q2, q2 < Lo), ro(q1) < ro(q2)), [[ro(q1), ro(q2)]]))
        ctx.assume(T.ForAll([q1, q2], z3.Implies(z3.And(0 <= q1, q1 < Lo, 0 <= q2, q2 < Lg), ro(q1) != gv(q2)), [[ro(q1), gv(q2)]]))
        if cd is None:
            cd = rest
        else:
            rd = rest
    if not (isinstance(data, Arr) and data.ndim == 2 and isinstance(rd, Arr) and isinstance(cd, Arr) and isinstance(ts, Arr)):
        raise PathAbort("tenmat() call site: unsupported arguments", it.ctx.cur_line)
    from pyvc.contract import S as _S
    S_ = _S(ctx, it, at_call_site=True)
    ctx.oblige(_is_partition(S_, rd, cd, T.tz(ts.shape[0])), "tenmat():mode-lists-partition-the-modes", kind="requires")
    rrow = N.spec_row(ctx, rd.shape[0], lambda x: T.tz(ts.fn(rd.fn(x))))
    crow = N.spec_row(ctx, cd.shape[0], lambda x: T.tz(ts.fn(cd.fn(x))))
    srow = N.seq_as_row(ctx, ts)
    ctx.oblige(T.tz(data.shape[0]) * T.tz(data.shape[1]) == N.PRODR(srow), "tenmat():entry-count-is-prod(tshape)", kind="requires")
    ctx.oblige(N.PRODR(rrow) * N.PRODR(crow) == T.tz(data.shape[0]) * T.tz(data.shape[1]), "tenmat():entry-count-is-row-size-times-column-size", kind="requires")
    d = N.snap(data)
    self_val.fields.update(data=Arr(d.shape, d.fn, "real"), rindices=rd, cindices=cd, tshape=ts)
    return None


@register
class sptenmat_full(Contract):
    qual = M_ + "full"
    props = ("C01",)
    doc = ("M.full() for a well-formed sptenmat with stored entries (both mode lists non-empty): a dense tenmat with the same mode "
           "lists and tensor shape whose data matrix has prod(tshape[rdims]) x prod(tshape[cdims]) entries, entry (i, j) being "
           "the value stored for the pair (i, j) and 0 where no pair is stored -- the same matrix, dense.  The dense constructor's "
           "acceptance conditions are obligations at the call site; 'the two side products multiply to prod(tshape)' is the "
           "partition-product lemma L11 (assumed).")
    inline = (M_ + "shape", M_ + "order", T_ + "__setitem__")

    def abstract_calls(self, S, a):
        return {T_ + "__init__": _abs_tenmat_init}

    def setup(self, S, case):
        M = sym_sptenmat(S, "M")
        g = M.ghost
        # look-up function of the stored pairs (exists because the pairs are pairwise distinct)
        find = z3.Function(T.fresh_name("M_find"), I_, I_, I_)
        n, subs = g["n"], M.fields["subs"]
        k, i, j = z3.Int("mf!k"), z3.Int("mf!i"), z3.Int("mf!j")
        sr, sc = (lambda k_: T.tz(subs.fn(k_, 0))), (lambda k_: T.tz(subs.fn(k_, 1)))
        S.ctx.assume(T.ForAll([k], z3.Implies(z3.And(0 <= k, k < n), find(sr(k), sc(k)) == k), [[sr(k), sc(k)]]))
        S.ctx.assume(T.ForAll([i, j], z3.Or(find(i, j) == -1, z3.And(0 <= find(i, j), find(i, j) < n, sr(find(i, j)) == i, sc(find(i, j)) == j)), [find(i, j)]))
        # lemma L11 (assumed): for mode lists that partition the modes the two side products multiply to the product of all sizes
        srow = N.seq_as_row(S.ctx, M.fields["tshape"])
        S.ctx.assume(N.PRODR(g["rrow"]) * N.PRODR(g["crow"]) == N.PRODR(srow),
                     trusted="lemma:L11 for mode lists that partition the modes, prod(tshape[rdims]) * prod(tshape[cdims]) = prod(tshape) (re-ordering a finite product; assumed)")
        g["find"] = find
        return dict(__self__=M)

    def ensures(self, S, a, ret):
        M = a["__self__"]
        g = M.ghost
        ok = isinstance(ret, Rec) and ret.cls == "tenmat" and isinstance(ret.fields.get("data"), Arr) and ret.fields["data"].ndim == 2
        yield "returns-a-dense-tenmat", ok
        if not ok:
            return
        D = N.snap(ret.fields["data"])
        Pr, Pc = N.PRODR(g["rrow"]), N.PRODR(g["crow"])
        yield "row-size", S.eq(D.shape[0], Pr)
        yield "column-size", S.eq(D.shape[1], Pc)
        q, i, j = z3.Int("mf!q"), z3.Int("mf!ei"), z3.Int("mf!ej")
        rd, cd = M.fields["rdims"], M.fields["cdims"]
        f = ret.fields
        yield "rdims-kept", S.And(S.eq(f["rindices"].shape[0], rd.shape[0]), T.ForAll([q], z3.Implies(z3.And(0 <= q, T.tz(q < rd.shape[0])), T.tz(f["rindices"].fn(q)) == T.tz(rd.fn(q)))))
        yield "cdims-kept", S.And(S.eq(f["cindices"].shape[0], cd.shape[0]), T.ForAll([q], z3.Implies(z3.And(0 <= q, T.tz(q < cd.shape[0])), T.tz(f["cindices"].fn(q)) == T.tz(cd.fn(q)))))
        yield "tshape-kept", f["tshape"] is M.fields["tshape"]
        find, vals = g["find"], M.fields["vals"]
        yield "entries-are-the-stored-values-and-zero-elsewhere", T.ForAll(
            [i, j], z3.Implies(z3.And(0 <= i, i < Pr, 0 <= j, j < Pc),
                               T.tz(T.as_real(D.fn(i, j))) == z3.If(find(i, j) >= 0, T.tz(vals.fn(find(i, j), 0)), z3.RealVal(0))), [find(i, j)])
