"""Contracts for the Tucker tensor class (C19: rejection of inconsistent cores and factors)."""

import z3

from pyvc import npsym as N
from pyvc import terms as T
from pyvc.contract import Contract, register
from pyvc.ctx import PathAbort
from pyvc.values import Arr, Opaque, Rec, SymList

I_ = z3.IntSort()
TT_ = "pyttb.ttensor.ttensor."


@register
class tt_validate(Contract):
    qual = TT_ + "_validate_ttensor"
    props = ("C19", "C01")
    doc = ("The consistency check every ttensor constructor call ends with, for any core order Nc >= 1, core shape and any "
           "list of Nf matrices: it raises unless Nf = Nc and factor k has exactly core.shape[k] columns for every k; "
           "otherwise it returns without changing anything.  Loop invariants over the factors.")

    def setup(self, S, case):
        Nc, Nf = S.int("Nc", 1), S.nat("Nf")
        cshape = S.vector("cshape", Nc, "int", kind="tuple")
        S.assume(S.forall(0, Nc, lambda q: cshape.fn(q) >= 0, pats=lambda q: [cshape.fn(q)]))
        rows = z3.Function(T.fresh_name("tt_rows"), I_, I_)
        cols = z3.Function(T.fresh_name("tt_cols"), I_, I_)
        fm = z3.Function(T.fresh_name("tt_fm"), I_, I_, I_, z3.RealSort())
        m = z3.Int("tv!m")
        S.assume(T.ForAll([m], z3.And(rows(m) >= 0, cols(m) >= 0), [rows(m)]))
        S.assume(T.ForAll([m], cols(m) >= 0, [cols(m)]))
        fms = SymList(Nf, lambda mm: Arr((rows(T.tz(mm)), cols(T.tz(mm))), lambda i, j, mm=mm: fm(T.tz(mm), T.tz(i), T.tz(j)), "real"), kind="list")
        core = Rec("tensor", dict(shape=cshape))
        me = Rec("ttensor", dict(core=core, factor_matrices=fms))
        return dict(__self__=me, __g__=dict(Nc=Nc, Nf=Nf, cshape=cshape, cols=cols))

    def raises_when(self, S, a):
        g = a["__g__"]
        k = z3.Int("tv!k")
        yield "number-of-factors-differs-from-the-core-order", g["Nf"] != g["Nc"]
        yield "a-factor-has-the-wrong-number-of-columns", z3.And(g["Nf"] == g["Nc"], T.Exists(
            [k], z3.And(0 <= k, k < g["Nc"], g["cols"](k) != T.tz(g["cshape"].fn(k)))))

    @staticmethod
    def _cols_ok(a, k):
        g = a["__g__"]
        q = z3.Int("tv!q")
        return T.ForAll([q], z3.Implies(z3.And(0 <= q, q < T.tz(k)), g["cols"](q) == T.tz(g["cshape"].fn(q))), [g["cols"](q)])

    loops = {0: dict(modifies=[], inv=lambda S, a, env, i: True),
             1: dict(modifies=[], inv=lambda S, a, env, i: tt_validate._cols_ok(a, i))}

    def ensures(self, S, a, ret):
        yield "returns-nothing", ret is None


# ======================================================================= ttensor.permute (C07)

def _is_perm(S, order, Nn):
    L = order.shape[0]
    q1, q2 = z3.Int("tp!q1"), z3.Int("tp!q2")
    return S.And(S.eq(L, Nn), S.forall(0, L, lambda q: S.And(0 <= order.fn(q), order.fn(q) < Nn)),
                 T.ForAll([q1, q2], z3.Implies(z3.And(0 <= q1, q1 < q2, T.tz(q2 < L)), T.tz(order.fn(q1)) != T.tz(order.fn(q2)))))


def _abs_core_permute(it, pos, kw, self_val):
    """core.permute(order) of the (dense or sparse) core: a new tensor whose mode m is mode order[m] of the core -- proved for
    sparse cores under sptensor.permute's own contract, bounded for dense cores (c07.index_maps)"""
    order = N.snap(pos[0] if pos else kw["order"])
    old = self_val.fields["shape"]
    new = Rec(self_val.cls, dict(shape=Arr((old.shape[0],), lambda m: old.fn(order.fn(m)), "int", kind="tuple")))
    new.ghost = dict(permuted_from=self_val, order=order)
    it.ctx.log_ghost("core:permute", new)
    return new


def _abs_ttensor_init(it, pos, kw, self_val):
    """ttensor(core, factors): the new object holds the core and (copies of) the factors in the given order; the consistency
    check of the constructor (proved under ttensor._validate_ttensor: one factor per core mode, factor k with core.shape[k]
    columns) becomes an obligation at this call site"""
    core, factors = pos[0], pos[1]
    ctx = it.ctx
    if isinstance(factors, (list, tuple)):
        items = list(factors)

        def item(mm, items=items):
            if isinstance(mm, int):
                return items[mm]
            if len(items) == 1:
                return items[0]
            raise PathAbort("ttensor() call site: concrete factor list indexed symbolically", ctx.cur_line)
        factors = SymList(len(items), item, kind="list")
    if not isinstance(factors, SymList):
        raise PathAbort("ttensor() call site: factors is not a list of matrices", ctx.cur_line)
    cshape = core.fields["shape"]
    ctx.oblige(T.eq(factors.length, cshape.shape[0]), "ttensor():one-factor-per-core-mode", kind="requires")
    m = T.fresh_int("tm")
    ctx.oblige(T.ForAll([m], z3.Implies(z3.And(0 <= m, T.lt(m, cshape.shape[0])), T.tz(T.eq(factors.item(m).shape[1], cshape.fn(m))))),
               "ttensor():factor-k-has-core.shape[k]-columns", kind="requires")
    self_val.fields.update(core=core, factor_matrices=SymList(factors.length, factors.item, "list"))
    return None


@register
class tt_permute(Contract):
    qual = TT_ + "permute"
    props = ("C07", "C19")
    doc = ("T.permute(order) for a Tucker tensor of any order: order must be a permutation of the modes (else raises); the "
           "result is a new Tucker tensor whose core is the core permuted by the same order and whose factor m is factor "
           "order[m] of T (entry-wise) -- so mode m of the result is mode order[m] of T in core and factors alike, and the "
           "constructor's consistency check is met (an obligation here).  The permutation of the core itself is sptensor.permute "
           "(proved under its own contract) or tensor.permute (bounded).")
    inline = ("pyttb.ttensor.ttensor.ndims", "pyttb.pyttb_utils.parse_one_d")

    def abstract_calls(self, S, a):
        return {"pyttb.sptensor.sptensor.permute": _abs_core_permute, "pyttb.tensor.tensor.permute": _abs_core_permute,
                TT_ + "__init__": _abs_ttensor_init}

    def setup(self, S, case):
        Nn = S.int("N", 1)
        cshape = S.vector("cshape", Nn, "int", kind="tuple")
        S.assume(S.forall(0, Nn, lambda q: cshape.fn(q) >= 1, pats=lambda q: [cshape.fn(q)]))
        rows = z3.Function(T.fresh_name("tt_rows"), I_, I_)
        fm = z3.Function(T.fresh_name("tt_fm"), I_, I_, I_, z3.RealSort())
        m = z3.Int("tp!m")
        S.assume(T.ForAll([m], rows(m) >= 1, [rows(m)]))
        fms = SymList(Nn, lambda mm: Arr((rows(T.tz(mm)), T.tz(cshape.fn(mm))), lambda i, j, mm=mm: fm(T.tz(mm), T.tz(i), T.tz(j)), "real"), kind="list")
        me = Rec("ttensor", dict(core=Rec("sptensor", dict(shape=cshape)), factor_matrices=fms))
        me.ghost = dict(N=Nn, cshape=cshape, rows=rows, fm=fm)
        order = S.vector("order", S.nat("L"), "int")
        return dict(__self__=me, order=order)

    def raises_when(self, S, a):
        yield "not-a-permutation", S.Not(_is_perm(S, a["order"], a["__self__"].ghost["N"]))

    def ensures(self, S, a, ret):
        me, order = a["__self__"], a["order"]
        g = me.ghost
        ok = isinstance(ret, Rec) and ret.cls == "ttensor" and ret is not me and isinstance(ret.fields.get("factor_matrices"), SymList)
        yield "returns-a-new-ttensor", ok
        if not ok:
            return
        core, fms = ret.fields["core"], ret.fields["factor_matrices"]
        cg = getattr(core, "ghost", None) or {}
        yield "core-is-the-core-permuted-by-order", cg.get("permuted_from") is me.fields["core"] and cg.get("order") is not None
        q, i, r = z3.Int("tp!eq"), z3.Int("tp!ei"), z3.Int("tp!er")
        if cg.get("order") is not None:
            yield "core-permuted-by-the-given-order", T.ForAll([q], z3.Implies(z3.And(0 <= q, q < g["N"]), T.tz(cg["order"].fn(q)) == T.tz(order.fn(q))))
        gh = S.body_ghosts.get("argsort")
        if gh:
            p_, pinv_ = gh[-1]
            yield "lemma:order(q)==rank(q)", T.ForAll([q], z3.Implies(z3.And(0 <= q, q < g["N"]), z3.And(T.tz(order.fn(q)) == pinv_(q), 0 <= pinv_(q), pinv_(q) < g["N"])), [order.fn(q)]), "lemma"
        yield "one-factor-per-mode", S.eq(fms.length, g["N"])
        item = fms.item(q)
        oq = T.tz(order.fn(q))
        yield "factor-m-is-factor-order[m]", T.ForAll(
            [q, i, r], z3.Implies(z3.And(0 <= q, q < g["N"], 0 <= i, i < g["rows"](oq), 0 <= r, r < T.tz(g["cshape"].fn(oq))),
                                  z3.And(T.tz(T.eq(item.shape[0], g["rows"](oq))), T.tz(T.eq(item.shape[1], g["cshape"].fn(oq))),
                                         T.tz(T.as_real(item.fn(i, r))) == g["fm"](oq, i, r))))


# ======================================================================= nvecs: ordering and sign logic (C14)

def _abs_unfolding(it, pos, kw, self_val):
    """X.to_tenmat(rdims=[n]): the mode-n unfolding, a matrix with shape[n] rows (entries not needed: the clauses proved here
    are relative to the eigen-solver's answer)"""
    d = self_val.ghost["dn"]
    cols = T.fresh_int("ucols")
    it.ctx.assume(cols >= 1)
    return Rec("tenmat", dict(data=Arr.fresh("Xn", (d, cols), "real")))


def _abs_tenmat_double(it, pos, kw, self_val):
    """tenmat.double(): the data matrix"""
    return self_val.fields["data"]


class tensor_nvecs(Contract):
    qual = "pyttb.tensor.tensor.nvecs"
    props = ("C14",)
    doc = ("X.nvecs(n, r, flipsign): whatever eigenvalues w and eigenvector matrix v the eigen-solver returns for the Gram "
           "matrix of the mode-n unfolding, the result has shape[n] rows and r columns, column j is (up to sign) the COLUMN of "
           "v that belongs to the j-th largest |w| (columns re-ordered, rows untouched), and with flipsign the entry of largest "
           "magnitude of every column is non-negative, each column being +/- the solver's column.  That w, v are eigenpairs of "
           "the Gram matrix, and the Gram matrix itself (a matrix product), are assumed / bounded.")

    def abstract_calls(self, S, a):
        return {"pyttb.tensor.tensor.to_tenmat": _abs_unfolding, "pyttb.tenmat.tenmat.double": _abs_tenmat_double}

    def case_names(self):
        return ["flipsign", "no-flipsign"]

    def setup(self, S, case):
        S.ctx.matmul_havoc = True
        dn = S.int("dn", 1)
        me = Rec("tensor", {})
        me.ghost = dict(dn=dn)
        r = S.int("r", 1)
        S.assume(r <= dn)
        a = dict(__self__=me, n=S.int("n", 0), r=r)
        if case == "no-flipsign":
            a["flipsign"] = False
        return a

    @staticmethod
    def _parts(S):
        eg, ag = S.body_ghosts.get("eig"), S.body_ghosts.get("argsort")
        if not eg or not ag:
            return None
        e = eg[-1]
        w0, v0 = N.snap(e["w"]), N.snap(e["v"])
        pf, pinv = ag[-1]
        return e, (lambda t_: T.tz(w0.fn(t_))), (lambda i_, c_: T.tz(v0.fn(i_, c_))), pf

    @staticmethod
    def _columns(S, a, vmat, done, idx):
        """columns < done carry their sign, the others are still the solver's columns (re-ordered)"""
        parts = tensor_nvecs._parts(S)
        if parts is None or not isinstance(vmat, Arr) or vmat.ndim != 2:
            return False
        e, wv, vv, pf = parts
        dn, r = a["__self__"].ghost["dn"], a["r"]
        V = N.snap(vmat)
        i, j = z3.Int("nv!i"), z3.Int("nv!j")
        col = lambda i_, j_: vv(i_, pf(j_))
        if idx is None:
            sg = lambda j_: z3.RealVal(1)
        else:
            ix = N.snap(idx)
            sg = lambda j_: z3.If(z3.And(j_ < T.tz(done), col(T.tz(ix.fn(j_)), j_) < 0), z3.RealVal(-1), z3.RealVal(1))
        return z3.And(T.tz(T.eq(V.shape[0], dn)), T.tz(T.eq(V.shape[1], r)),
                      T.ForAll([i, j], z3.Implies(z3.And(0 <= i, i < dn, 0 <= j, j < r), T.tz(T.as_real(V.fn(i, j))) == sg(j) * col(i, j)), [V.fn(i, j)]))

    loops = {0: dict(modifies=["v"], inv=lambda S, a, env, i: tensor_nvecs._columns(S, a, env["v"], i, env["idx"]))}

    def ensures(self, S, a, ret):
        yield "matrix", isinstance(ret, Arr) and ret.ndim == 2
        parts = self._parts(S)
        yield "eigen-solver-called-and-its-answer-sorted", parts is not None
        if parts is None or not (isinstance(ret, Arr) and ret.ndim == 2):
            return
        e, wv, vv, pf = parts
        dn, r = a["__self__"].ghost["dn"], a["r"]
        k = T.tz(e["k"])
        j, j2, i = z3.Int("nv!ej"), z3.Int("nv!ej2"), z3.Int("nv!ei")
        absw = lambda t_: z3.If(wv(t_) < 0, -wv(t_), wv(t_))
        yield "column-order-is-a-permutation-of-the-solver's-columns", z3.And(
            T.ForAll([j], z3.Implies(z3.And(0 <= j, j < k), z3.And(0 <= pf(j), pf(j) < k)), [pf(j)]),
            T.ForAll([j, j2], z3.Implies(z3.And(0 <= j, j < j2, j2 < k), pf(j) != pf(j2)), [[pf(j), pf(j2)]]))
        yield "by-decreasing-magnitude-of-the-eigenvalue", T.ForAll(
            [j, j2], z3.Implies(z3.And(0 <= j, j < j2, j2 < k), absw(pf(j)) >= absw(pf(j2))), [[pf(j), pf(j2)]])
        flip = a.get("flipsign", True) is not False
        idx = S.it.top_env.get("idx") if flip else None
        yield "columns-of-the-solver-re-ordered-and-signed", self._columns(S, a, ret, r, idx), "lemma"
        if flip and isinstance(idx, Arr):
            ix, V = N.snap(idx), N.snap(ret)
            rv = lambda i_, j_: T.tz(T.as_real(V.fn(i_, j_)))
            am = lambda j_: T.tz(ix.fn(j_))
            yield "largest-entry-of-every-column-is-non-negative", T.ForAll(
                [i, j], z3.Implies(z3.And(0 <= i, i < dn, 0 <= j, j < r),
                                   z3.And(0 <= am(j), am(j) < dn, rv(am(j), j) >= 0, rv(am(j), j) >= rv(i, j), rv(am(j), j) >= -rv(i, j))))


def _abs_self(it, pos, kw, self_val):
    """copy / reshape / squeeze of the sparse tensor on the way to its mode-n unfolding: abstracted (the clauses proved here are
    relative to the eigen-solver's answer; the unfolding itself is C01 / C07)"""
    return self_val


def _abs_spmatrix(it, pos, kw, self_val):
    """spmatrix() of the unfolded sparse tensor: a matrix with shape[n] rows"""
    cols = T.fresh_int("ucols")
    it.ctx.assume(cols >= 1)
    return Arr.fresh("Xn", (self_val.ghost["dn"], cols), "real")


def _abs_identity(it, pos, kw, self_val=None):
    """to_memory_order(v, order): the same values"""
    return pos[0]


@register
class tensor_nvecs_(tensor_nvecs):
    qual = "pyttb.tensor.tensor.nvecs"


@register
class sptensor_nvecs(tensor_nvecs):
    qual = "pyttb.sptensor.sptensor.nvecs"
    inline = ("pyttb.sptensor.sptensor.ndims", "pyttb.sptensor.sptensor.order")

    def abstract_calls(self, S, a):
        Q = "pyttb.sptensor.sptensor."
        return {Q + "copy": _abs_self, Q + "reshape": _abs_self, Q + "squeeze": _abs_self, Q + "spmatrix": _abs_spmatrix,
                "pyttb.pyttb_utils.to_memory_order": _abs_identity}

    def setup(self, S, case):
        a = super().setup(S, case)
        me = a["__self__"]
        me.cls = "sptensor"
        Nn = S.int("N", 1)
        me.fields["shape"] = S.vector("shape", Nn, "int", kind="tuple")
        me.fields["subs"] = S.matrix("subs", S.nat("nnz"), Nn, "int")
        S.assume(a["n"] < Nn)
        return a


@register
class ktensor_nvecs(tensor_nvecs):
    qual = "pyttb.ktensor.ktensor.nvecs"
    inline = ("pyttb.ktensor.ktensor.ndims",)
    loops = {0: dict(modifies=["M"], inv=lambda S, a, env, i: True),
             1: tensor_nvecs.loops[0]}

    def abstract_calls(self, S, a):
        return {}

    def setup(self, S, case):
        from contracts.gcp import sym_ktensor
        a = super().setup(S, case)
        K = sym_ktensor(S, "K")
        K.ghost["dn"] = a["__self__"].ghost["dn"]
        S.assume(a["n"] < K.ghost["N"])
        S.assume(T.tz(K.ghost["shape"].fn(a["n"])) == K.ghost["dn"])
        a["__self__"] = K
        return a


def _abs_core_ttm(it, pos, kw, self_val):
    """core.ttm(V): the core multiplied in every mode (C02; result abstract)"""
    new = Rec("sptensor", dict(self_val.fields))
    new.ghost = dict(self_val.ghost)
    new.ghost["cn"] = self_val.ghost["dn"]       # mode n is multiplied by the factor itself: it gets the tensor's size
    return new


def _abs_core_unfold(it, pos, kw, self_val):
    """(core or product).to_sptenmat / full().to_tenmat with mode n in the columns, then double(): a matrix with one column per
    index of mode n (abstract)"""
    out = Rec("sptenmat", {})
    out.ghost = dict(mat=Arr.fresh("Gn", (self_val.ghost["orows"], self_val.ghost["cn"]), "real"))
    return out


def _abs_unfold_double(it, pos, kw, self_val):
    """double() of the abstract unfolding"""
    return self_val.ghost["mat"]


@register
class ttensor_nvecs(tensor_nvecs):
    qual = "pyttb.ttensor.ttensor.nvecs"
    inline = ("pyttb.ttensor.ttensor.order",)
    loops = {0: dict(modifies=["V"], inv=lambda S, a, env, i: True, havoc=lambda S, a, env, name: Opaque("list-of-factors-and-Gram-matrices")),
             1: tensor_nvecs.loops[0]}

    def abstract_calls(self, S, a):
        Q = "pyttb.sptensor.sptensor."
        return {Q + "ttm": _abs_core_ttm, Q + "to_sptenmat": _abs_core_unfold, "pyttb.sptenmat.sptenmat.double": _abs_unfold_double}

    def setup(self, S, case):
        a = super().setup(S, case)
        dn = a["__self__"].ghost["dn"]
        Nn = S.int("N", 1)
        cn = S.int("cn", 1)                       # size of the core in mode n
        rows = z3.Function(T.fresh_name("tn_rows"), I_, I_)
        cols = z3.Function(T.fresh_name("tn_cols"), I_, I_)
        fm = z3.Function(T.fresh_name("tn_fm"), I_, I_, I_, z3.RealSort())
        m = z3.Int("tn!m")
        S.assume(T.ForAll([m], z3.And(rows(m) >= 1, cols(m) >= 1), [rows(m)]))
        S.assume(a["n"] < Nn)
        S.assume(rows(T.tz(a["n"])) == dn)
        S.assume(cols(T.tz(a["n"])) == cn)
        fms = SymList(Nn, lambda mm: Arr((rows(T.tz(mm)), cols(T.tz(mm))), lambda i, j, mm=mm: fm(T.tz(mm), T.tz(i), T.tz(j)), "real"), kind="list")
        core = Rec("sptensor", {})
        core.ghost = dict(cn=cn, dn=dn, orows=S.int("orows", 1))      # orows: product of the core sizes of the other modes
        me = Rec("ttensor", dict(core=core, factor_matrices=fms))
        me.ghost = dict(dn=dn)
        a["__self__"] = me
        return a
