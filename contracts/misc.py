"""Contracts for the Tucker tensor class (C19: rejection of inconsistent cores and factors)."""

import z3

from pyvc import npsym as N
from pyvc import terms as T
from pyvc.contract import Contract, register
from pyvc.ctx import PathAbort
from pyvc.values import Arr, Rec, SymList

I_ = z3.IntSort()
TT_ = "pyttb.ttensor.ttensor."


@register
class tt_validate(Contract):
    qual = TT_ + "_validate_ttensor"
    props = ("C19", "C01")
    doc = ("The consistency check every ttensor constructor call ends with, for any core order Nc >= 1, core shape and any "
           "list of Nf matrices: it raises unless Nf = Nc and factor k has exactly core.shape[k] columns for every k; "
           "otherwise it returns without changing anything.  Loop invariants over the factors.")

    def setup(self, S, case):
        Nc, Nf = S.int("Nc", 1), S.nat("Nf")
        cshape = S.vector("cshape", Nc, "int", kind="tuple")
        S.assume(S.forall(0, Nc, lambda q: cshape.fn(q) >= 0, pats=lambda q: [cshape.fn(q)]))
        rows = z3.Function(T.fresh_name("tt_rows"), I_, I_)
        cols = z3.Function(T.fresh_name("tt_cols"), I_, I_)
        fm = z3.Function(T.fresh_name("tt_fm"), I_, I_, I_, z3.RealSort())
        m = z3.Int("tv!m")
        S.assume(T.ForAll([m], z3.And(rows(m) >= 0, cols(m) >= 0), [rows(m)]))
        S.assume(T.ForAll([m], cols(m) >= 0, [cols(m)]))
        fms = SymList(Nf, lambda mm: Arr((rows(T.tz(mm)), cols(T.tz(mm))), lambda i, j, mm=mm: fm(T.tz(mm), T.tz(i), T.tz(j)), "real"), kind="list")
        core = Rec("tensor", dict(shape=cshape))
        me = Rec("ttensor", dict(core=core, factor_matrices=fms))
        return dict(__self__=me, __g__=dict(Nc=Nc, Nf=Nf, cshape=cshape, cols=cols))

    def raises_when(self, S, a):
        g = a["__g__"]
        k = z3.Int("tv!k")
        yield "number-of-factors-differs-from-the-core-order", g["Nf"] != g["Nc"]
        yield "a-factor-has-the-wrong-number-of-columns", z3.And(g["Nf"] == g["Nc"], T.Exists(
            [k], z3.And(0 <= k, k < g["Nc"], g["cols"](k) != T.tz(g["cshape"].fn(k)))))

    @staticmethod
    def _cols_ok(a, k):
        g = a["__g__"]
        q = z3.Int("tv!q")
        return T.ForAll([q], z3.Implies(z3.And(0 <= q, q < T.tz(k)), g["cols"](q) == T.tz(g["cshape"].fn(q))), [g["cols"](q)])

    loops = {0: dict(modifies=[], inv=lambda S, a, env, i: True),
             1: dict(modifies=[], inv=lambda S, a, env, i: tt_validate._cols_ok(a, i))}

    def ensures(self, S, a, ret):
        yield "returns-nothing", ret is None
