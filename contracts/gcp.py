"""Contracts for pyttb.gcp.samplers (C13): what a sampler returns, for every random stream.

The random primitives are external: np.random.uniform draws arbitrary reals in [low, high),
np.random.choice(n, size) arbitrary integers in [0, n), np.random.poisson a non-negative integer.
Everything proved here holds for every such draw, i.e. for all seeds.
"""

import z3

from pyvc import npsym as N
from pyvc import terms as T
from pyvc.contract import Contract, register
from pyvc.ctx import PathAbort
from pyvc.values import Arr, Rec

from .sptensor import den, sym_sptensor

G = "pyttb.gcp.samplers."
INL = ("pyttb.sptensor.sptensor.nnz", "pyttb.sptensor.sptensor.ndims", "pyttb.tensor.tensor.ndims")


def _rows_in_shape(S, subs, srow, Nn, m):
    rf = N.ensure_rows(S.ctx, subs)
    t = z3.Int("smp!t")
    return T.ForAll([t], z3.Implies(z3.And(0 <= t, T.tz(t < m)), N.INRNG(srow, rf(t))))


@register
class smp_nonzeros(Contract):
    qual = G + "nonzeros"
    props = ("C13",)
    doc = (
        "nonzeros(data, samples, with_replacement): returns `samples` (subscript row, value) pairs, each of them a "
        "stored entry of data (row nidx[t] and its value: the value is Den(data) at the returned subscript); "
        "asking for more distinct entries than are stored raises; sampling from a tensor without nonzeros raises."
    )
    inline = INL

    def case_names(self):
        return ["with-replacement", "without-replacement"]

    def setup(self, S, case):
        D = sym_sptensor(S, "D")
        return dict(data=D, samples=S.nat("samples"), with_replacement=(case == "with-replacement"))

    def raises_when(self, S, a):
        D = a["data"]
        if not a["with_replacement"]:
            yield "more-distinct-samples-than-nonzeros", a["samples"] > D.ghost["n"]

    def may_raise(self, S, a):
        D = a["data"]
        yield "nothing-to-sample-from", S.And(D.ghost["n"] == 0, a["samples"] > 0)

    def fresh_result(self, S, a):
        D = a["data"]
        subs = N.fresh_row_matrix("nzsubs", a["samples"], D.ghost["N"])
        S.assume(N.row_matrix_wf(subs))
        return (subs, Arr.fresh("nzvals", (a["samples"],), "real"))

    def ensures(self, S, a, ret):
        D, m = a["data"], a["samples"]
        g = D.ghost
        n, Nn = g["n"], g["N"]
        yield "returns-pair", isinstance(ret, tuple) and len(ret) == 2
        subs, vals = ret
        yield "one-value-per-subscript", S.And(subs.ndim == 2, vals.ndim == 1, S.eq(subs.shape[0], m), S.eq(vals.shape[0], m),
                                               S.Or(S.eq(m, 0), S.eq(subs.shape[1], Nn)))
        rf = N.ensure_rows(S.ctx, subs)
        t = z3.Int("nz!t")
        if S.at_call_site:
            pick = T.fresh_fun("nidx", z3.IntSort(), z3.IntSort())
        else:
            ch = S.body_ghosts.get("choice")
            pick = (lambda x: T.tz(ch[-1].fn(x))) if ch else (lambda x: x)
        Dr = D.fields["subs"].rowfn
        yield "sample-is-a-stored-entry", T.ForAll([t], z3.Implies(z3.And(0 <= t, t < m), z3.And(
            0 <= pick(t), pick(t) < n, rf(t) == Dr(pick(t)), T.tz(vals.fn(t)) == T.tz(D.fields["vals"].fn(pick(t), 0)))), [rf(t)])
        yield "value-is-the-data-at-the-subscript", T.ForAll([t], z3.Implies(z3.And(0 <= t, t < m), T.tz(vals.fn(t)) == den(D, rf(t))), [rf(t)])
        yield "subscripts-inside-the-tensor", T.ForAll([t], z3.Implies(z3.And(0 <= t, t < m), N.INRNG(g["srow"], rf(t))), [rf(t)])


def _dense_tensor(S, name):
    """A dense tensor as far as the samplers use it: a shape of symbolic order (the data array is opaque)."""
    Nn = S.int(name + "_N", 1)
    shape = S.vector(name + "_shape", Nn, "int", kind="tuple")
    S.assume(S.forall(0, Nn, lambda q: shape.fn(q) >= 1, pats=lambda q: [shape.fn(q)]))
    rec = Rec("tensor", dict(shape=shape, data=Arr.fresh(name + "_data", (S.nat(name + "_cells"),), "real")))
    for ax in N.mixed_radix_axioms():
        S.ctx.assume(ax)
    rec.ghost = dict(N=Nn, srow=N.seq_as_row(S.ctx, shape))
    return rec


@register
class smp_uniform(Contract):
    qual = G + "uniform"
    props = ("C13",)
    doc = (
        "uniform(data, samples): `samples` subscript rows, every one inside the tensor, one value and one weight per "
        "row, every weight equal to prod(shape)/samples (so the weights total prod(shape)).  The values are data[subs] "
        "(dense tensor read: outside the executor, see C04)."
    )
    inline = INL
    opaque_calls = ("pyttb.tensor.tensor.__getitem__",)

    def setup(self, S, case):
        return dict(data=_dense_tensor(S, "X"), samples=S.nat("samples"))

    def ensures(self, S, a, ret):
        X, m = a["data"], a["samples"]
        g = X.ghost
        yield "returns-triple", isinstance(ret, tuple) and len(ret) == 3
        subs, vals, wgts = ret
        yield "one-row-and-weight-per-sample", S.And(subs.ndim == 2, wgts.ndim == 1, S.eq(subs.shape[0], m), S.eq(subs.shape[1], g["N"]), S.eq(wgts.shape[0], m))
        yield "subscripts-inside-the-tensor", _rows_in_shape(S, subs, g["srow"], g["N"], m)
        t = z3.Int("un!t")
        P = z3.ToReal(N.PRODR(g["srow"]))
        yield "weights-total-the-number-of-entries", T.ForAll([t], z3.Implies(z3.And(0 <= t, t < m), z3.ToReal(m) * T.tz(T.as_real(wgts.fn(t))) == P))


@register
class smp_zeros(Contract):
    qual = G + "zeros"
    props = ("C13",)
    doc = (
        "zeros(data, nz_idx, samples) [with replacement, default over-sampling rate; data has at least one zero entry; "
        "nz_idx contains the linear index of every stored nonzero]: returns at most `samples` subscript rows, every one "
        "inside the tensor and every one a true zero of data (Den(data) = 0 there), for every random draw."
    )
    inline = INL

    def setup(self, S, case):
        D = sym_sptensor(S, "D")
        g = D.ghost
        L = S.nat("L")
        nz = S.vector("nz_idx", L, "int")
        # precondition (established by the Sampler constructor: nz_idx = sort(tt_sub2ind(shape, subs))):
        # the linear index of every stored row occurs in nz_idx
        where = T.fresh_fun("nzpos", z3.IntSort(), z3.IntSort())
        k = z3.Int("zs!k")
        rf = D.fields["subs"].rowfn
        S.assume(T.ForAll([k], z3.Implies(z3.And(0 <= k, k < g["n"]), z3.And(0 <= where(k), where(k) < L, T.tz(nz.fn(where(k))) == N.RAVELF(g["srow"], rf(k)))), [rf(k)]))
        S.assume(L == g["n"])
        # at least one zero entry (otherwise the requested count is divided by zero)
        S.assume(N.PRODR(g["srow"]) > g["n"])
        return dict(data=D, nz_idx=nz, samples=S.nat("samples"))

    def fresh_result(self, S, a):
        D = a["data"]
        subs = N.fresh_row_matrix("zsubs", S.nat("zcount"), D.ghost["N"])
        S.assume(N.row_matrix_wf(subs))
        return subs

    def requires(self, S, a):
        D, nz = a["data"], a["nz_idx"]
        g = D.ghost
        yield "tensor-has-a-zero-entry", N.PRODR(g["srow"]) > g["n"]
        k = z3.Int("zs!k")
        rf = D.fields["subs"].rowfn
        mem, _ = N.isin_fn(S.ctx, nz)
        yield "nz_idx-holds-every-stored-linear-index", T.ForAll([k], z3.Implies(z3.And(0 <= k, k < g["n"]), mem(N.RAVELF(g["srow"], rf(k)))))

    def ensures(self, S, a, ret):
        D, m = a["data"], a["samples"]
        g = D.ghost
        yield "returns-matrix", isinstance(ret, Arr) and ret.ndim == 2
        yield "at-most-the-requested-count", S.And(0 <= ret.shape[0], S.le(ret.shape[0], m), S.Or(S.eq(ret.shape[0], 0), S.eq(ret.shape[1], g["N"])))
        rf = N.ensure_rows(S.ctx, ret)
        t = z3.Int("zs!t")
        cnt = ret.shape[0]
        yield "subscripts-inside-the-tensor", T.ForAll([t], z3.Implies(z3.And(0 <= t, T.tz(t < cnt)), N.INRNG(g["srow"], rf(t))), [rf(t)])
        yield "every-returned-subscript-is-a-true-zero", T.ForAll([t], z3.Implies(z3.And(0 <= t, T.tz(t < cnt)), D.ghost["find"](rf(t)) == -1), [rf(t)])


def _nz_idx_precondition(S, D, name="nz_idx"):
    g = D.ghost
    L = S.nat("L")
    nz = S.vector(name, L, "int")
    where = T.fresh_fun("nzpos", z3.IntSort(), z3.IntSort())
    k = z3.Int("zs!k")
    rf = D.fields["subs"].rowfn
    S.assume(T.ForAll([k], z3.Implies(z3.And(0 <= k, k < g["n"]), z3.And(0 <= where(k), where(k) < L, T.tz(nz.fn(where(k))) == N.RAVELF(g["srow"], rf(k)))), [rf(k)]))
    S.assume(L == g["n"])
    return nz


class _Stratified(Contract):
    props = ("C13",)
    inline = INL
    true_zeros = True

    def ensures(self, S, a, ret):
        D = a["data"]
        g = D.ghost
        n, Nn, srow = g["n"], g["N"], g["srow"]
        p = a["num_nonzeros"]
        yield "returns-triple", isinstance(ret, tuple) and len(ret) == 3
        subs, vals, wgts = ret
        yield "arrays", S.And(subs.ndim == 2, vals.ndim == 1, wgts.ndim == 1)
        m = subs.shape[0]
        yield "one-value-and-one-weight-per-sample", S.And(S.eq(vals.shape[0], m), S.eq(wgts.shape[0], m), S.le(p, m))
        if not self.true_zeros:
            yield "all-requested-samples-returned", S.eq(m, p + a["num_zeros"])
        else:
            yield "at-most-the-requested-zero-samples", S.le(m, p + a["num_zeros"])
        z = m - p
        rf = N.ensure_rows(S.ctx, subs)
        t = z3.Int("st!t")
        yield "subscripts-inside-the-tensor", T.ForAll([t], z3.Implies(z3.And(0 <= t, T.tz(t < m)), N.INRNG(srow, rf(t))), [rf(t)])
        yield "nonzero-samples-carry-the-data-value", T.ForAll([t], z3.Implies(z3.And(0 <= t, t < p), T.tz(T.as_real(vals.fn(t))) == den(D, rf(t))), [rf(t)])
        yield "zero-samples-carry-value-zero", T.ForAll([t], z3.Implies(z3.And(p <= t, T.tz(t < m)), T.tz(T.as_real(vals.fn(t))) == 0))
        if self.true_zeros:
            yield "zero-samples-are-true-zeros", T.ForAll([t], z3.Implies(z3.And(p <= t, T.tz(t < m)), g["find"](rf(t)) == -1), [rf(t)])
        P = z3.ToReal(N.PRODR(srow))
        pop_zero = (P - z3.ToReal(n)) if self.true_zeros else P
        yield "nonzero-weights-total-nnz", T.ForAll([t], z3.Implies(z3.And(0 <= t, t < p), z3.ToReal(p) * T.tz(T.as_real(wgts.fn(t))) == z3.ToReal(n)))
        yield "zero-weights-total-the-zero-population", T.ForAll([t], z3.Implies(z3.And(p <= t, T.tz(t < m)), z3.ToReal(T.tz(z)) * T.tz(T.as_real(wgts.fn(t))) == pop_zero))


@register
class smp_stratified(_Stratified):
    qual = G + "stratified"
    doc = (
        "stratified(data, nz_idx, num_nonzeros, num_zeros) [nz_idx as for zeros(); data has a zero entry]: the first "
        "num_nonzeros samples are stored entries with their values, each weighted nnz/num_nonzeros; the remaining "
        "(at most num_zeros) samples are true zeros with value 0, each weighted (prod(shape)-nnz)/(their count); "
        "every subscript inside the tensor; exactly one value and one weight per sample."
    )

    def setup(self, S, case):
        D = sym_sptensor(S, "D")
        S.assume(N.PRODR(D.ghost["srow"]) > D.ghost["n"])
        return dict(data=D, nz_idx=_nz_idx_precondition(S, D), num_nonzeros=S.nat("num_nonzeros"), num_zeros=S.nat("num_zeros"))

    def may_raise(self, S, a):
        yield "nothing-to-sample-from", S.And(a["data"].ghost["n"] == 0, a["num_nonzeros"] > 0)


@register
class smp_semistrat(_Stratified):
    qual = G + "semistrat"
    true_zeros = False
    doc = (
        "semistrat(data, num_nonzeros, num_zeros): the first num_nonzeros samples are stored entries with their values, "
        "each weighted nnz/num_nonzeros; the remaining num_zeros samples are uniformly drawn subscripts inside the "
        "tensor, reported with value 0 (by design not checked against the data: the estimator corrects for it) and "
        "weighted prod(shape)/num_zeros; exactly one value and one weight per sample."
    )

    def setup(self, S, case):
        D = sym_sptensor(S, "D")
        return dict(data=D, num_nonzeros=S.nat("num_nonzeros"), num_zeros=S.nat("num_zeros"))

    def may_raise(self, S, a):
        yield "nothing-to-sample-from", S.And(a["data"].ghost["n"] == 0, a["num_nonzeros"] > 0)


# ----------------------------------------------------------------------------- optimizers

O = "pyttb.gcp.optimizers."
R_ = z3.RealSort()
I_ = z3.IntSort()


def sym_ktensor(S, name):
    """A Kruskal tensor of symbolic order and rank: weights (R,), factor matrix m of shape (shape[m], R)."""
    Nn = S.int(name + "_N", 1)
    Rr = S.int(name + "_R", 1)
    shape = S.vector(name + "_shape", Nn, "int", kind="tuple")
    S.assume(S.forall(0, Nn, lambda q: shape.fn(q) >= 1, pats=lambda q: [shape.fn(q)]))
    fm = z3.Function(T.fresh_name(name + "_fm"), I_, I_, I_, R_)
    from pyvc.values import SymList
    fms = SymList(Nn, lambda m: Arr((T.tz(shape.fn(m)), Rr), lambda i, j, m=m: fm(T.tz(m), T.tz(i), T.tz(j)), "real"), kind="list")
    rec = Rec("ktensor", dict(weights=Arr.fresh(name + "_w", (Rr,), "real"), factor_matrices=fms))
    rec.ghost = dict(N=Nn, R=Rr, shape=shape, fm=fm)
    return rec


def sym_gradient(S, K, name="G"):
    g = K.ghost
    gf = z3.Function(T.fresh_name(name), I_, I_, I_, R_)
    from pyvc.values import SymList
    return SymList(g["N"], lambda m: Arr((T.tz(g["shape"].fn(m)), g["R"]), lambda i, j, m=m: gf(T.tz(m), T.tz(i), T.tz(j)), "real"), kind="list"), gf


class _UpdateStep(Contract):
    props = ("C13",)
    doc = (
        "update_step(model, gradient, lower_bound): returns one factor matrix per mode, of the model's shape, every "
        "entry >= lower_bound (projection onto the bound), for every model, gradient, step size and solver state."
    )
    inline = ("pyttb.ktensor.ktensor.shape", "pyttb.ktensor.ktensor.ncomponents", "pyttb.ktensor.ktensor.ndims")

    def solver(self, S):
        raise NotImplementedError

    def setup(self, S, case):
        K = sym_ktensor(S, "K")
        G, gf = sym_gradient(S, K)
        return dict(__self__=self.solver(S, K), model=K, gradient=G, lower_bound=S.real("lb"), __gf__=gf)

    def ensures(self, S, a, ret):
        K, lb = a["model"], a["lower_bound"]
        g = K.ghost
        yield "returns-(factors, step)", isinstance(ret, tuple) and len(ret) == 2
        fms, step = ret
        from pyvc.values import SymList
        yield "one-factor-per-mode", isinstance(fms, SymList) and S.eq(fms.length, g["N"])
        m = z3.Int("us!m")
        item = fms.item(m)
        yield "factor-shapes-unchanged", isinstance(item, Arr) and item.ndim == 2 and T.ForAll(
            [m], z3.Implies(z3.And(0 <= m, m < g["N"]), z3.And(T.tz(T.eq(item.shape[0], g["shape"].fn(m))), T.tz(T.eq(item.shape[1], g["R"])))))
        i, j = z3.Int("us!i"), z3.Int("us!j")
        yield "entries-respect-the-lower-bound", T.ForAll(
            [m, i, j], z3.Implies(z3.And(0 <= m, m < g["N"], 0 <= i, T.tz(T.lt(i, g["shape"].fn(m))), 0 <= j, j < g["R"]),
                                  T.tz(T.as_real(item.fn(i, j))) >= lb))


@register
class sgd_update(_UpdateStep):
    qual = O + "SGD.update_step"

    def solver(self, S, K):
        return Rec("SGD", dict(_decay=S.real("decay"), _nfails=S.nat("nfails"), _rate=S.real("rate")))


@register
class adagrad_update(_UpdateStep):
    qual = O + "Adagrad.update_step"

    def solver(self, S, K):
        return Rec("Adagrad", dict(_gnormsum=S.real("gnormsum")))


@register
class adam_update(_UpdateStep):
    qual = O + "Adam.update_step"
    doc = _UpdateStep.doc + "  (Adam: proved for an initialised solver state, _total_iterations > 0 with one moment matrix per mode; the first call, which allocates the moments in a loop over the modes, is covered by the bounded stand-in only.)"

    def solver(self, S, K):
        mom1, _ = sym_gradient(S, K, "M1")
        mom2, _ = sym_gradient(S, K, "M2")
        ti = S.int("total_iterations", 1)
        return Rec("Adam", dict(_decay=S.real("decay"), _nfails=S.nat("nfails"), _rate=S.real("rate"), _total_iterations=ti,
                                _epoch_iters=S.int("epoch_iters", 1), _beta_1=S.real("b1"), _beta_2=S.real("b2"), _epsilon=S.real("eps"),
                                _m=mom1, _v=mom2, _m_prev=[], _v_prev=[]))


# ----------------------------------------------------------------------------- the epoch loop

F_OBJ = z3.Function("F_est", I_, R_)  # estimated objective on the fixed function sample, as a function of the factor token


def _model(tok):
    return Rec("ktensor", dict(factor_matrices=tok, weights=z3.Int(T.fresh_name("wtok"))))


@register
class stochastic_solve(Contract):
    qual = O + "StochasticSolver.solve"
    props = ("C13",)
    doc = (
        "StochasticSolver.solve (shared by SGD, Adam, Adagrad), with the numerics abstracted: a model is identified by the "
        "token of its factor matrices, estimate(model, function sample) is an uninterpreted function F of that token, "
        "update_step returns an arbitrary new token.  For every number of epochs, every outcome of every epoch and every "
        "stopping pattern: the returned model is the best model seen at an epoch boundary -- F(returned) <= F(start), "
        "F(returned) <= every entry of the reported trace, F(returned) equals one of them, trace[0] = F(start), the trace has "
        "n_epoch + 2 entries and n_epoch < max_iters."
    )
    inline = ("pyttb.gcp.samplers.GCPSampler.crng",)

    def setup(self, S, case):
        me = Rec("StochasticSolver", dict(_max_iters=S.int("max_iters", 1), _epoch_iters=S.int("epoch_iters", 1), _printitn=0,
                                          _nfails=S.nat("nfails0"), _max_fails=S.int("max_fails"), _f_est_tol=S.real("f_est_tol"),
                                          _rate=S.real("rate"), _decay=S.real("decay")))
        t0 = S.int("tok0")
        from pyvc.values import Opaque
        smp = Rec("GCPSampler", dict(_crng=Opaque("crng")))
        return dict(__self__=me, initial_model=_model(t0), data=Opaque("data"), function_handle=Opaque("callable:f"),
                    gradient_handle=Opaque("callable:g"), lower_bound=S.real("lb"), sampler=smp, __t0__=t0)

    def abstract_calls(self, S, a):
        from pyvc.values import Opaque

        def copy(it, pos, kw, self_val):
            """a copy is a model with the same factor token"""
            return Rec("ktensor", dict(self_val.fields))

        def estimate(it, pos, kw, self_val):
            """objective estimate = F(factor token of the model); gradient estimate = an (empty) opaque list"""
            if "gradient_handle" in kw:
                return []
            return F_OBJ(T.tz(pos[0].fields["factor_matrices"]))

        def update_step(it, pos, kw, self_val):
            """an arbitrary new factor token and an arbitrary step"""
            return (z3.Int(T.fresh_name("tok")), T.fresh_real("step"))

        def sample(it, pos, kw, self_val):
            """an opaque (subscripts, values, weights) triple"""
            return (Opaque("subs"), Opaque("vals"), Opaque("wgts"))

        def reset(it, pos, kw, self_val):
            """reset(): the failure counter starts at zero"""
            self_val.fields["_nfails"] = 0
            return None

        def noop(it, pos, kw, self_val):
            """no effect on the quantities of this contract"""
            return None

        return {
            "pyttb.ktensor.ktensor.copy": copy, "pyttb.gcp.fg_est.estimate": estimate, O + "StochasticSolver.update_step": update_step,
            "pyttb.gcp.samplers.GCPSampler.function_sample": sample, "pyttb.gcp.samplers.GCPSampler.gradient_sample": sample,
            O + "StochasticSolver.reset": reset, O + "StochasticSolver.set_failed_epoch": noop,
        }

    # ---- loops: 0 = epochs, 1 = iterations of one epoch
    @staticmethod
    def _epoch_inv(S, a, env, i):
        me, t0 = a["__self__"], a["__t0__"]
        model, best = env["model"], env["best_model"]
        tr = env["fest_trace"]
        if not (isinstance(model, Rec) and isinstance(best, Rec) and isinstance(tr, Arr)):
            return False
        tb = T.tz(best.fields["factor_matrices"])
        e = z3.Int("ep!e")
        Fb = F_OBJ(tb)
        return S.And(
            # the working model and the best model are different objects (an update of one must not reach the other)
            z3.BoolVal(model is not best),
            T.tz(model.fields["factor_matrices"]) == tb,
            T.tz(T.as_real(env["f_est"])) == Fb, T.tz(T.as_real(env["f_est_prev"])) == Fb,
            Fb <= F_OBJ(t0),
            S.eq(tr.shape[0], T.add(me.fields["_max_iters"], 1)),
            T.tz(T.as_real(tr.fn(0))) == F_OBJ(t0),
            T.ForAll([e], z3.Implies(z3.And(0 <= e, e <= T.tz(i)), T.tz(T.as_real(tr.fn(e))) >= Fb)),
            T.Exists([e], z3.And(0 <= e, e <= T.tz(i), T.tz(T.as_real(tr.fn(e))) == Fb)),
            T.tz(me.fields["_nfails"]) >= 0,
            T.tz(env["n_epoch"]) == z3.If(T.tz(i) == 0, 0, T.tz(i) - 1),
        )

    @staticmethod
    def _epoch_havoc(S, a, env, name):
        me = a["__self__"]
        if name in ("model", "best_model"):
            return _model(z3.Int(T.fresh_name("tok")))
        if name in ("fest_trace", "step_trace", "time_trace"):
            return Arr.fresh(name, (T.add(me.fields["_max_iters"], 1),), "real")
        if name == "n_epoch":
            me.fields["_nfails"] = T.fresh_int("nfails")   # the failure counter is modified by the loop as well
            return T.fresh_int("n_epoch")
        return T.fresh_real(name)

    @staticmethod
    def _iter_havoc(S, a, env, name):
        if name == "model":
            return _model(z3.Int(T.fresh_name("tok")))
        return T.fresh_real(name)

    loops = {
        0: dict(modifies=["model", "best_model", "fest_trace", "step_trace", "time_trace", "n_epoch", "f_est", "f_est_prev", "step"],
                inv=lambda S, a, env, i: stochastic_solve._epoch_inv(S, a, env, i),
                havoc=lambda S, a, env, name: stochastic_solve._epoch_havoc(S, a, env, name)),
        1: dict(modifies=["model", "step"], inv=lambda S, a, env, i: True,
                havoc=lambda S, a, env, name: stochastic_solve._iter_havoc(S, a, env, name)),
    }

    def ensures(self, S, a, ret):
        me, t0 = a["__self__"], a["__t0__"]
        yield "returns-(model, info)", z3.BoolVal(isinstance(ret, tuple) and len(ret) == 2 and isinstance(ret[0], Rec) and isinstance(ret[1], dict))
        model, info = ret
        Fm = F_OBJ(T.tz(model.fields["factor_matrices"]))
        tr = info["f_est_trace"]
        ne = T.tz(info["n_epoch"])
        e = z3.Int("ep!e")
        yield "no-worse-than-the-start", Fm <= F_OBJ(t0)
        yield "trace-has-one-entry-per-completed-epoch-plus-the-start", S.And(isinstance(tr, Arr) and tr.ndim == 1, S.eq(tr.shape[0], ne + 2), 0 <= ne, ne < T.tz(me.fields["_max_iters"]))
        yield "trace-starts-with-the-start-value", T.tz(T.as_real(tr.fn(0))) == F_OBJ(t0)
        yield "returned-model-is-no-worse-than-any-trace-entry", T.ForAll([e], z3.Implies(z3.And(0 <= e, e < ne + 2), T.tz(T.as_real(tr.fn(e))) >= Fm))
        yield "returned-model-attains-a-trace-entry", T.Exists([e], z3.And(0 <= e, e < ne + 2, T.tz(T.as_real(tr.fn(e))) == Fm))


# ======================================================================= estimate_helper (C12)

from pyvc.values import HeapList, SymList


def _havoc_list(S, env, name, tag, track_init=True):
    """Loop havoc for a local list of matrices (Uexp / Zexp): arbitrary shapes, entries and initialisation state."""
    hp = env[name]
    if not isinstance(hp, HeapList):
        raise PathAbort(f"estimate_helper contract: {name} is not a list of matrices")
    F = z3.Function(T.fresh_name(tag + "_e"), I_, I_, I_, R_)
    RW = z3.Function(T.fresh_name(tag + "_rows"), I_, I_)
    CL = z3.Function(T.fresh_name(tag + "_cols"), I_, I_)
    IN = z3.Function(T.fresh_name(tag + "_init"), I_, z3.BoolSort())
    hp.entry = lambda m, i, j: F(T.tz(m), T.tz(i), T.tz(j))
    hp.rows = lambda m: RW(T.tz(m))
    hp.cols = lambda m: CL(T.tz(m))
    hp.init = lambda m: IN(T.tz(m))
    return hp


@register
class estimate_helper(Contract):
    qual = "pyttb.gcp.fg_est.estimate_helper"
    props = ("C12",)
    doc = ("estimate_helper(factors, subs) for N >= 2 factor matrices (rows_m x R) and an S x N matrix of in-range sample "
           "subscripts (S >= 1): the second result is a list of N matrices of shape S x R with "
           "Zexp[k][s, r] = prod_{m != k} U_m[subs[s, m], r] -- the multilinear part of the chain rule that turns "
           "d loss / d model into the gradient w.r.t. the entries of factor k.  The products over the symbolic number of modes "
           "are specification functions: PRE(k) = prod_{m < k}, SUF(k) = prod_{m >= k}; three loop invariants (gather, "
           "prefix pass, suffix pass); the local lists are `[placeholder] * N` lists whose slots must be re-bound before use "
           "(obligations).  The model values (first result) are a sum over the components and are not specified here.")

    def setup(self, S, case):
        Nn, Rr, Sn = S.int("N", 2), S.int("R", 1), S.int("S", 1)
        rows = z3.Function(T.fresh_name("eh_rows"), I_, I_)
        fm = z3.Function(T.fresh_name("eh_fm"), I_, I_, I_, R_)
        m = z3.Int("eh!m")
        S.assume(T.ForAll([m], rows(m) >= 1, [rows(m)]))
        factors = SymList(Nn, lambda mm: Arr((rows(T.tz(mm)), Rr), lambda i, j, mm=mm: fm(T.tz(mm), T.tz(i), T.tz(j)), "real"), kind="list")
        subs = S.matrix("subs", Sn, Nn, "int")
        s_, q = z3.Int("eh!s"), z3.Int("eh!q")
        S.assume(T.ForAll([s_, q], z3.Implies(z3.And(0 <= s_, s_ < Sn, 0 <= q, q < Nn),
                                              z3.And(0 <= T.tz(subs.fn(s_, q)), T.tz(subs.fn(s_, q)) < rows(q))), [subs.fn(s_, q)]))
        U = lambda k_, s__, r_: fm(k_, T.tz(subs.fn(s__, k_)), r_)
        PRE = z3.Function(T.fresh_name("PRE"), I_, I_, I_, R_)
        SUF = z3.Function(T.fresh_name("SUF"), I_, I_, I_, R_)
        k, r = z3.Int("eh!k"), z3.Int("eh!r")
        S.ctx.assume(T.ForAll([s_, r], PRE(0, s_, r) == 1, [PRE(0, s_, r)]))
        S.ctx.assume(T.ForAll([k, s_, r], z3.Implies(k >= 0, PRE(k + 1, s_, r) == PRE(k, s_, r) * U(k, s_, r)), [PRE(k + 1, s_, r)]))
        S.ctx.assume(T.ForAll([s_, r], SUF(Nn, s_, r) == 1, [SUF(Nn, s_, r)]))
        S.ctx.assume(T.ForAll([k, s_, r], z3.Implies(z3.And(0 <= k, k < Nn), SUF(k, s_, r) == U(k, s_, r) * SUF(k + 1, s_, r)), [SUF(k, s_, r)]))
        return dict(factors=factors, subs=subs, __g__=dict(N=Nn, R=Rr, S=Sn, U=U, PRE=PRE, SUF=SUF))

    # shape + initialisation + entries of the slots lo <= m < hi of a list, as spec(m, s, r)
    @staticmethod
    def _slots(a, hp, lo, hi, spec, tag):
        g = a["__g__"]
        m, s_, r = z3.Int(tag + "!m"), z3.Int(tag + "!s"), z3.Int(tag + "!r")
        inr = z3.And(T.tz(lo) <= m, m < T.tz(hi))
        ent = hp.entry
        return z3.And(
            T.ForAll([m], z3.Implies(inr, z3.And(T.tz(hp.init(m)), T.tz(hp.rows(m)) == g["S"], T.tz(hp.cols(m)) == g["R"])), [hp.rows(m)]),
            T.ForAll([m, s_, r], z3.Implies(z3.And(inr, 0 <= s_, s_ < g["S"], 0 <= r, r < g["R"]),
                                           T.tz(T.as_real(ent(m, s_, r))) == spec(m, s_, r)), [ent(m, s_, r)]))

    @staticmethod
    def _inv_gather(S, a, env, i):
        g = a["__g__"]
        hp = env["Uexp"]
        return z3.And(T.tz(T.eq(hp.length, g["N"])), estimate_helper._slots(a, hp, 0, i, g["U"], "ug"))

    @staticmethod
    def _uexp_done(a, env):
        g = a["__g__"]
        return estimate_helper._slots(a, env["Uexp"], 0, g["N"], g["U"], "ud")

    @staticmethod
    def _inv_prefix(S, a, env, i):
        g = a["__g__"]
        hp = env["Zexp"]
        return z3.And(T.tz(T.eq(hp.length, g["N"])), estimate_helper._uexp_done(a, env),
                      estimate_helper._slots(a, hp, 1, T.tz(i) + 2, g["PRE"], "zp"))

    @staticmethod
    def _inv_suffix(S, a, env, i):
        g = a["__g__"]
        hp = env["Zexp"]
        Nn, PRE, SUF = g["N"], g["PRE"], g["SUF"]
        k = Nn - 2 - T.tz(i)                    # the mode the next iteration handles; modes k+1 .. N-2 are finished
        return z3.And(T.tz(T.eq(hp.length, Nn)), estimate_helper._uexp_done(a, env),
                      estimate_helper._slots(a, hp, 0, 1, lambda m, s_, r: SUF(k + 1, s_, r), "z0"),
                      estimate_helper._slots(a, hp, 1, k + 1, PRE, "z1"),
                      estimate_helper._slots(a, hp, k + 1, Nn, lambda m, s_, r: PRE(m, s_, r) * SUF(m + 1, s_, r), "z2"))

    loops = {0: dict(modifies=["Uexp"], inv=lambda S, a, env, i: estimate_helper._inv_gather(S, a, env, i),
                     havoc=lambda S, a, env, name: _havoc_list(S, env, name, "ux")),
             1: dict(modifies=["Zexp"], inv=lambda S, a, env, i: estimate_helper._inv_prefix(S, a, env, i),
                     havoc=lambda S, a, env, name: _havoc_list(S, env, name, "zx")),
             2: dict(modifies=["Zexp"], inv=lambda S, a, env, i: estimate_helper._inv_suffix(S, a, env, i),
                     havoc=lambda S, a, env, name: _havoc_list(S, env, name, "zy"))}

    def ensures(self, S, a, ret):
        g = a["__g__"]
        yield "returns-(model-values, list)", isinstance(ret, tuple) and len(ret) == 2 and isinstance(ret[1], HeapList)
        if not (isinstance(ret, tuple) and len(ret) == 2 and isinstance(ret[1], HeapList)):
            return
        Z = ret[1]
        yield "one-matrix-per-mode", S.eq(Z.length, g["N"])
        yield "leave-one-out-products", self._slots(a, Z, 0, g["N"], lambda m, s_, r: g["PRE"](m, s_, r) * g["SUF"](m + 1, s_, r), "ze")
        mv = ret[0]
        yield "one-model-value-per-sample", isinstance(mv, Arr) and mv.ndim == 1 and S.eq(mv.shape[0], g["S"])
