"""Contracts for pyttb.ktensor.ktensor (C08, C19): constructor and structural operations.

A Kruskal tensor denotes Den(K)(i) = sum_r w[r] * prod_m U_m[i_m, r].  The operations under contract here
re-index components or modes; their postconditions are stated component-wise (weights and factor entries of the
result in terms of those of the operands).  That the denoted array is then unchanged / negated / scaled /
the sum follows by re-indexing a finite sum, which is not restated as an obligation.
"""

import z3

from pyvc import npsym as N
from pyvc import terms as T
from pyvc.contract import Contract, register
from pyvc.ctx import PathAbort
from pyvc.values import Arr, Rec, SymList

from .gcp import sym_ktensor

K_ = "pyttb.ktensor.ktensor."
I_ = z3.IntSort()


def _fm_entry(fms, m, i, j):
    item = fms.item(m) if isinstance(fms, SymList) else None
    return T.tz(T.as_real(item.fn(i, j)))


def _pick(items, mm):
    """Element mm (symbolic) of a concrete list of matrices, as one matrix with If-merged shape and entries."""
    if isinstance(mm, int):
        return items[mm]
    def merge(get):
        r = get(items[-1])
        for k in range(len(items) - 2, -1, -1):
            r = T.Ite(T.eq(mm, k), get(items[k]), r)
        return r
    return Arr((merge(lambda x: x.shape[0]), merge(lambda x: x.shape[1])), lambda i, j: merge(lambda x: x.fn(i, j)), "real")


def sym_factor_list(S, name="U"):
    """An arbitrary list of N >= 1 real matrices: matrix m has rows(m) x cols(m) entries fm(m, i, j)."""
    Nn = S.int(name + "_N", 1)
    rows = z3.Function(T.fresh_name(name + "_rows"), I_, I_)
    cols = z3.Function(T.fresh_name(name + "_cols"), I_, I_)
    fm = z3.Function(T.fresh_name(name + "_fm"), I_, I_, I_, z3.RealSort())
    m = z3.Int(name + "!m")
    S.assume(T.ForAll([m], z3.And(rows(m) >= 0, cols(m) >= 0), [rows(m)]))
    S.assume(T.ForAll([m], cols(m) >= 0, [cols(m)]))
    lst = SymList(Nn, lambda mm: Arr((rows(T.tz(mm)), cols(T.tz(mm))), lambda i, j, mm=mm: fm(T.tz(mm), T.tz(i), T.tz(j)), "real"), kind="list")
    return lst, dict(N=Nn, rows=rows, cols=cols, fm=fm)


@register
class kt_init(Contract):
    qual = K_ + "__init__"
    props = ("C08", "C19", "C05")
    doc = (
        "ktensor(factor_matrices, weights) [copy=True] for ANY list of real matrices and any real weight vector: every factor "
        "matrix must have the same number R of columns as the first and the weights must have length R (else raises); the new "
        "object holds entry-wise copies of the factor matrices in order and of the weights (all ones when omitted)."
    )
    inline = ("pyttb.ktensor.ktensor.order", "pyttb.ktensor.ktensor._matches_order", "pyttb.pyttb_utils.to_memory_order")

    def case_names(self):
        return ["with-weights", "default-weights"]

    def setup(self, S, case):
        lst, g = sym_factor_list(S)
        a = dict(__self__=Rec("ktensor", {}), factor_matrices=lst, __g__=g)
        if case == "with-weights":
            a["weights"] = S.vector("w", S.nat("Lw"), "real")
        return a

    @staticmethod
    def _g(S, a):
        """Shape functions of the argument list (given by setup, or read off the list at a call site)."""
        if "__g__" in a:
            return a["__g__"]
        fms = a.get("factor_matrices")
        if isinstance(fms, (list, tuple)):
            items = list(fms)
            if not items or not all(isinstance(x, Arr) and x.ndim == 2 for x in items):
                raise PathAbort("ktensor() call site: factor list is not a list of matrices")
            fms = SymList(len(items), lambda mm, items=items: items[mm] if isinstance(mm, int) else _pick(items, mm), kind="list")
            a["factor_matrices"] = fms
        if not isinstance(fms, SymList):
            raise PathAbort("ktensor() call site: unsupported factor_matrices value")
        probe = fms.item(z3.Int("kg!m"))
        if not (isinstance(probe, Arr) and probe.ndim == 2):
            raise PathAbort("ktensor() call site: list items are not matrices")
        g = dict(N=fms.length, rows=lambda mm: T.tz(fms.item(mm).shape[0]), cols=lambda mm: T.tz(fms.item(mm).shape[1]),
                 fm=lambda mm, i, j: T.tz(T.as_real(fms.item(mm).fn(i, j))))
        a["__g__"] = g
        return g

    def fresh_result(self, S, a):
        """Definitional at call sites: the new object holds the argument values (entry-wise copies)."""
        me = a["__self__"]
        g = self._g(S, a)
        fms = a["factor_matrices"]
        R = g["cols"](0)
        w = a.get("weights")
        if w is None:
            w = Arr((R,), lambda r: z3.RealVal(1), "real")
        elif not (isinstance(w, Arr) and w.ndim == 1):
            raise PathAbort("ktensor() call site: weights is not a vector")
        else:
            ws = N.snap(w)
            w = Arr(ws.shape, ws.fn, "real")
        me.fields.update(weights=w, factor_matrices=SymList(fms.length, fms.item, "list"))
        me.ghost = dict(N=g["N"], R=R)
        return me

    def requires(self, S, a):
        a.setdefault("copy", True)
        yield "copying-constructor-or-default", a["copy"] is True or a["copy"] is False

    def raises_when(self, S, a):
        g = self._g(S, a)
        m = z3.Int("ki!m")
        yield "column-counts-differ", T.Exists([m], z3.And(0 <= m, m < g["N"], g["cols"](m) != g["cols"](0)))
        if "weights" in a:
            yield "weights-length-differs-from-the-column-count", T.tz(a["weights"].shape[0]) != g["cols"](0)

    def ensures(self, S, a, ret):
        if S.at_call_site:
            return  # the call-site result is built definitionally from the arguments
        me, g = a["__self__"], self._g(S, a)
        f = me.fields
        yield "fields-set", "weights" in f and "factor_matrices" in f
        w, fms = f["weights"], f["factor_matrices"]
        R = g["cols"](0)
        r, m, i = z3.Int("ki!r"), z3.Int("ki!m"), z3.Int("ki!i")
        yield "weights-length", isinstance(w, Arr) and w.ndim == 1 and S.eq(w.shape[0], R)
        if "weights" in a:
            yield "weights-copied", T.ForAll([r], z3.Implies(z3.And(0 <= r, r < R), T.tz(T.as_real(w.fn(r))) == T.tz(a["weights"].fn(r))))
        else:
            yield "weights-all-one", T.ForAll([r], z3.Implies(z3.And(0 <= r, r < R), T.tz(T.as_real(w.fn(r))) == 1))
        yield "one-factor-per-mode", isinstance(fms, SymList) and S.eq(fms.length, g["N"])
        item = fms.item(m)
        yield "factor-shapes", isinstance(item, Arr) and item.ndim == 2 and T.ForAll(
            [m], z3.Implies(z3.And(0 <= m, m < g["N"]), z3.And(T.tz(T.eq(item.shape[0], g["rows"](m))), T.tz(T.eq(item.shape[1], R)))))
        yield "factor-entries-copied", T.ForAll(
            [m, i, r], z3.Implies(z3.And(0 <= m, m < g["N"], 0 <= i, i < g["rows"](m), 0 <= r, r < R),
                                  T.tz(T.as_real(item.fn(i, r))) == g["fm"](m, i, r)))


def _is_perm(S, order, Nn):
    L = order.shape[0]
    q1, q2 = z3.Int("kp!q1"), z3.Int("kp!q2")
    return S.And(
        S.eq(L, Nn),
        S.forall(0, L, lambda q: S.And(0 <= order.fn(q), order.fn(q) < Nn)),
        T.ForAll([q1, q2], z3.Implies(z3.And(0 <= q1, q1 < q2, T.tz(q2 < L)), T.tz(order.fn(q1)) != T.tz(order.fn(q2)))),
    )


def _kt_result(ret):
    return isinstance(ret, Rec) and ret.cls == "ktensor" and isinstance(ret.fields.get("factor_matrices"), SymList) and isinstance(ret.fields.get("weights"), Arr)


KT_INLINE = ("pyttb.ktensor.ktensor.ndims", "pyttb.ktensor.ktensor.ncomponents", "pyttb.ktensor.ktensor.shape", "pyttb.pyttb_utils.parse_one_d")


@register
class kt_permute(Contract):
    qual = K_ + "permute"
    props = ("C07", "C08", "C19")
    doc = (
        "K.permute(order): order must be a permutation of the modes (else raises); factor matrix m of the result is factor "
        "matrix order[m] of K (entry-wise), the weights are unchanged."
    )
    inline = KT_INLINE

    def setup(self, S, case):
        K = sym_ktensor(S, "K")
        order = S.vector("order", S.nat("L"), "int")
        return dict(__self__=K, order=order)

    def raises_when(self, S, a):
        yield "not-a-permutation", S.Not(_is_perm(S, a["order"], a["__self__"].ghost["N"]))

    def ensures(self, S, a, ret):
        K, order = a["__self__"], a["order"]
        g = K.ghost
        yield "returns-ktensor", _kt_result(ret)
        w, fms = ret.fields["weights"], ret.fields["factor_matrices"]
        r, m, i = z3.Int("kp!r"), z3.Int("kp!m"), z3.Int("kp!i")
        gh = S.body_ghosts.get("argsort")
        if gh:
            p_, pinv_ = gh[-1]
            yield "lemma:order(q)==rank(q)", T.ForAll([m], z3.Implies(z3.And(0 <= m, m < g["N"]), z3.And(T.tz(order.fn(m)) == pinv_(m), 0 <= pinv_(m), pinv_(m) < g["N"])), [order.fn(m)]), "lemma"
        yield "weights-unchanged", S.And(S.eq(w.shape[0], g["R"]), T.ForAll([r], z3.Implies(z3.And(0 <= r, r < g["R"]), T.tz(T.as_real(w.fn(r))) == T.tz(K.fields["weights"].fn(r)))))
        yield "one-factor-per-mode", S.eq(fms.length, g["N"])
        item = fms.item(m)
        om = T.tz(order.fn(m))
        yield "factor-m-is-factor-order[m]", T.ForAll(
            [m, i, r], z3.Implies(z3.And(0 <= m, m < g["N"], 0 <= i, T.tz(T.lt(i, g["shape"].fn(om))), 0 <= r, r < g["R"]),
                                  z3.And(T.tz(T.eq(item.shape[0], g["shape"].fn(om))), T.tz(T.eq(item.shape[1], g["R"])),
                                         T.tz(T.as_real(item.fn(i, r))) == g["fm"](om, i, r))))


class _Componentwise(Contract):
    """Operations that keep every factor matrix and map the weights entry-wise."""
    props = ("C08",)
    inline = KT_INLINE
    wmap = staticmethod(lambda w, a: w)

    def setup(self, S, case):
        return dict(__self__=sym_ktensor(S, "K"))

    def ensures(self, S, a, ret):
        K = a["__self__"]
        g = K.ghost
        yield "returns-ktensor", _kt_result(ret)
        w, fms = ret.fields["weights"], ret.fields["factor_matrices"]
        r, m, i = z3.Int("kc!r"), z3.Int("kc!m"), z3.Int("kc!i")
        wm = type(self).wmap
        yield "weights", S.And(S.eq(w.shape[0], g["R"]), T.ForAll([r], z3.Implies(z3.And(0 <= r, r < g["R"]), T.tz(T.as_real(w.fn(r))) == wm(T.tz(K.fields["weights"].fn(r)), a))))
        yield "one-factor-per-mode", S.eq(fms.length, g["N"])
        item = fms.item(m)
        yield "factor-matrices-unchanged", T.ForAll(
            [m, i, r], z3.Implies(z3.And(0 <= m, m < g["N"], 0 <= i, T.tz(T.lt(i, g["shape"].fn(m))), 0 <= r, r < g["R"]),
                                  z3.And(T.tz(T.eq(item.shape[0], g["shape"].fn(m))), T.tz(T.eq(item.shape[1], g["R"])),
                                         T.tz(T.as_real(item.fn(i, r))) == g["fm"](m, i, r))))


@register
class kt_neg(_Componentwise):
    qual = K_ + "__neg__"
    doc = "-K: same factor matrices, every weight negated (so the denoted array is negated)."
    wmap = staticmethod(lambda w, a: -w)


@register
class kt_copy(_Componentwise):
    qual = K_ + "copy"
    doc = "K.copy(): same weights and factor matrices, entry-wise."


@register
class kt_mul_scalar(_Componentwise):
    qual = K_ + "__mul__"
    doc = "K * c (real scalar): same factor matrices, every weight multiplied by c (so the denoted array is scaled by c)."
    wmap = staticmethod(lambda w, a: a["other"] * w)

    def setup(self, S, case):
        return dict(__self__=sym_ktensor(S, "K"), other=S.real("c"))


def _fresh_matrix_list(S, name):
    """Havoc value for a list of matrices being built by a loop."""
    L = S.nat(name + "_len")
    rows = z3.Function(T.fresh_name(name + "_rows"), I_, I_)
    cols = z3.Function(T.fresh_name(name + "_cols"), I_, I_)
    fm = z3.Function(T.fresh_name(name + "_fm"), I_, I_, I_, z3.RealSort())
    return SymList(L, lambda mm: Arr((rows(T.tz(mm)), cols(T.tz(mm))), lambda i, j, mm=mm: fm(T.tz(mm), T.tz(i), T.tz(j)), "real"), kind="list")


def _list_inv(S, lst, i, spec):
    """Invariant of `for k in range(N): lst.append(f(k))`: lst has i items and item m is spec(m) entry-wise.
    spec(m) -> (rows, cols, entry(ii, jj))."""
    if isinstance(lst, list):
        return S.And(len(lst) == 0, S.eq(i, 0))
    if not isinstance(lst, SymList):
        return False
    m, ii, jj = z3.Int("li!m"), z3.Int("li!i"), z3.Int("li!j")
    it = lst.item(m)
    rows, cols, entry = spec(m)
    return S.And(
        S.eq(lst.length, i),
        T.ForAll([m], z3.Implies(z3.And(0 <= m, T.tz(m < i)), z3.And(T.tz(T.eq(it.shape[0], rows)), T.tz(T.eq(it.shape[1], cols))))),
        T.ForAll([m, ii, jj], z3.Implies(z3.And(0 <= m, T.tz(m < i), 0 <= ii, ii < rows, 0 <= jj, jj < cols), T.tz(T.as_real(it.fn(ii, jj))) == entry(ii, jj))),
    )


class _AddSub(Contract):
    props = ("C08", "C19")
    inline = KT_INLINE
    sign = 1

    def setup(self, S, case):
        A = sym_ktensor(S, "A")
        B = sym_ktensor(S, "B")
        return dict(__self__=A, other=B)

    @staticmethod
    def _spec(a):
        A, B = a["__self__"], a["other"]
        gA, gB = A.ghost, B.ghost
        def spec(m):
            return T.tz(gA["shape"].fn(m)), gA["R"] + gB["R"], (lambda ii, jj: z3.If(jj < gA["R"], gA["fm"](m, ii, jj), gB["fm"](m, ii, jj - gA["R"])))
        return spec

    loops = {0: dict(modifies=["factor_matrices"],
                     inv=lambda S, a, env, i: _list_inv(S, env["factor_matrices"], i, _AddSub._spec(a)),
                     havoc=lambda S, a, env, name: _fresh_matrix_list(S, "acc"))}

    def raises_when(self, S, a):
        A, B = a["__self__"], a["other"]
        gA, gB = A.ghost, B.ghost
        q = z3.Int("ks!q")
        yield "shapes-differ", z3.Or(gA["N"] != gB["N"], T.Exists([q], z3.And(0 <= q, q < gA["N"], T.tz(gA["shape"].fn(q)) != T.tz(gB["shape"].fn(q)))))

    def ensures(self, S, a, ret):
        A, B = a["__self__"], a["other"]
        gA, gB = A.ghost, B.ghost
        yield "returns-ktensor", _kt_result(ret)
        w, fms = ret.fields["weights"], ret.fields["factor_matrices"]
        r = z3.Int("ks!r")
        sg = type(self).sign
        R = gA["R"] + gB["R"]
        yield "weights-concatenated", S.And(S.eq(w.shape[0], R), T.ForAll([r], z3.Implies(z3.And(0 <= r, r < R), T.tz(T.as_real(w.fn(r))) == z3.If(
            r < gA["R"], T.tz(A.fields["weights"].fn(r)), sg * T.tz(B.fields["weights"].fn(r - gA["R"]))))))
        yield "factor-matrices-concatenated-column-wise", _list_inv(S, fms, gA["N"], self._spec(a))


@register
class kt_add(_AddSub):
    qual = K_ + "__add__"
    doc = ("A + B (two ktensors of the same shape, else raises): the components of A followed by those of B (weights and factor "
           "columns concatenated), so the denoted array is the sum.")
    sign = 1


@register
class kt_sub(_AddSub):
    qual = K_ + "__sub__"
    doc = "A - B: as A + B with the weights of B negated, so the denoted array is the difference."
    sign = -1
