"""Contracts for pyttb.ktensor.ktensor (C08, C19): constructor and structural operations.

A Kruskal tensor denotes Den(K)(i) = sum_r w[r] * prod_m U_m[i_m, r].  The operations under contract here
re-index components or modes; their postconditions are stated component-wise (weights and factor entries of the
result in terms of those of the operands).  That the denoted array is then unchanged / negated / scaled /
the sum follows by re-indexing a finite sum, which is not restated as an obligation.
"""

import z3

from pyvc import npsym as N
from pyvc import terms as T
from pyvc.contract import Contract, register
from pyvc.ctx import PathAbort
from pyvc.values import Arr, Opaque, Rec, SymList

from .gcp import sym_ktensor

K_ = "pyttb.ktensor.ktensor."
I_ = z3.IntSort()


def _fm_entry(fms, m, i, j):
    item = fms.item(m) if isinstance(fms, SymList) else None
    return T.tz(T.as_real(item.fn(i, j)))


def _pick(items, mm):
    """Element mm (symbolic) of a concrete list of matrices, as one matrix with If-merged shape and entries."""
    if isinstance(mm, int):
        return items[mm]
    def merge(get):
        r = get(items[-1])
        for k in range(len(items) - 2, -1, -1):
            r = T.Ite(T.eq(mm, k), get(items[k]), r)
        return r
    return Arr((merge(lambda x: x.shape[0]), merge(lambda x: x.shape[1])), lambda i, j: merge(lambda x: x.fn(i, j)), "real")


def sym_factor_list(S, name="U"):
    """An arbitrary list of N >= 1 real matrices: matrix m has rows(m) x cols(m) entries fm(m, i, j)."""
    Nn = S.int(name + "_N", 1)
    rows = z3.Function(T.fresh_name(name + "_rows"), I_, I_)
    cols = z3.Function(T.fresh_name(name + "_cols"), I_, I_)
    fm = z3.Function(T.fresh_name(name + "_fm"), I_, I_, I_, z3.RealSort())
    m = z3.Int(name + "!m")
    S.assume(T.ForAll([m], z3.And(rows(m) >= 0, cols(m) >= 0), [rows(m)]))
    S.assume(T.ForAll([m], cols(m) >= 0, [cols(m)]))
    lst = SymList(Nn, lambda mm: Arr((rows(T.tz(mm)), cols(T.tz(mm))), lambda i, j, mm=mm: fm(T.tz(mm), T.tz(i), T.tz(j)), "real"), kind="list")
    return lst, dict(N=Nn, rows=rows, cols=cols, fm=fm)


@register
class kt_init(Contract):
    qual = K_ + "__init__"
    props = ("C08", "C19", "C05")
    doc = (
        "ktensor(factor_matrices, weights) [copy=True] for ANY list of real matrices and any real weight vector: every factor "
        "matrix must have the same number R of columns as the first and the weights must have length R (else raises); the new "
        "object holds entry-wise copies of the factor matrices in order and of the weights (all ones when omitted)."
    )
    inline = ("pyttb.ktensor.ktensor.order", "pyttb.ktensor.ktensor._matches_order", "pyttb.pyttb_utils.to_memory_order")

    def case_names(self):
        return ["with-weights", "default-weights"]

    def setup(self, S, case):
        lst, g = sym_factor_list(S)
        a = dict(__self__=Rec("ktensor", {}), factor_matrices=lst, __g__=g)
        if case == "with-weights":
            a["weights"] = S.vector("w", S.nat("Lw"), "real")
        return a

    @staticmethod
    def _g(S, a):
        """Shape functions of the argument list (given by setup, or read off the list at a call site)."""
        if "__g__" in a:
            return a["__g__"]
        fms = a.get("factor_matrices")
        if isinstance(fms, (list, tuple)):
            items = list(fms)
            if not items or not all(isinstance(x, Arr) and x.ndim == 2 for x in items):
                raise PathAbort("ktensor() call site: factor list is not a list of matrices")
            fms = SymList(len(items), lambda mm, items=items: items[mm] if isinstance(mm, int) else _pick(items, mm), kind="list")
            a["factor_matrices"] = fms
        if not isinstance(fms, SymList):
            raise PathAbort("ktensor() call site: unsupported factor_matrices value")
        probe = fms.item(z3.Int("kg!m"))
        if not (isinstance(probe, Arr) and probe.ndim == 2):
            raise PathAbort("ktensor() call site: list items are not matrices")
        g = dict(N=fms.length, rows=lambda mm: T.tz(fms.item(mm).shape[0]), cols=lambda mm: T.tz(fms.item(mm).shape[1]),
                 fm=lambda mm, i, j: T.tz(T.as_real(fms.item(mm).fn(i, j))))
        a["__g__"] = g
        return g

    def fresh_result(self, S, a):
        """Definitional at call sites: the new object holds the argument values (entry-wise copies)."""
        me = a["__self__"]
        g = self._g(S, a)
        fms = a["factor_matrices"]
        R = g["cols"](0)
        w = a.get("weights")
        if w is None:
            w = Arr((R,), lambda r: z3.RealVal(1), "real")
        elif not (isinstance(w, Arr) and w.ndim == 1):
            raise PathAbort("ktensor() call site: weights is not a vector")
        else:
            ws = N.snap(w)
            w = Arr(ws.shape, ws.fn, "real")
        me.fields.update(weights=w, factor_matrices=SymList(fms.length, fms.item, "list"))
        me.ghost = dict(N=g["N"], R=R)
        return me

    def requires(self, S, a):
        a.setdefault("copy", True)
        yield "copying-constructor-or-default", a["copy"] is True or a["copy"] is False

    def raises_when(self, S, a):
        g = self._g(S, a)
        m = z3.Int("ki!m")
        yield "column-counts-differ", T.Exists([m], z3.And(0 <= m, m < g["N"], g["cols"](m) != g["cols"](0)))
        if "weights" in a:
            yield "weights-length-differs-from-the-column-count", T.tz(a["weights"].shape[0]) != g["cols"](0)

    def ensures(self, S, a, ret):
        if S.at_call_site:
            return  # the call-site result is built definitionally from the arguments
        me, g = a["__self__"], self._g(S, a)
        f = me.fields
        yield "fields-set", "weights" in f and "factor_matrices" in f
        w, fms = f["weights"], f["factor_matrices"]
        R = g["cols"](0)
        r, m, i = z3.Int("ki!r"), z3.Int("ki!m"), z3.Int("ki!i")
        yield "weights-length", isinstance(w, Arr) and w.ndim == 1 and S.eq(w.shape[0], R)
        if "weights" in a:
            yield "weights-copied", T.ForAll([r], z3.Implies(z3.And(0 <= r, r < R), T.tz(T.as_real(w.fn(r))) == T.tz(a["weights"].fn(r))))
        else:
            yield "weights-all-one", T.ForAll([r], z3.Implies(z3.And(0 <= r, r < R), T.tz(T.as_real(w.fn(r))) == 1))
        yield "one-factor-per-mode", isinstance(fms, SymList) and S.eq(fms.length, g["N"])
        item = fms.item(m)
        yield "factor-shapes", isinstance(item, Arr) and item.ndim == 2 and T.ForAll(
            [m], z3.Implies(z3.And(0 <= m, m < g["N"]), z3.And(T.tz(T.eq(item.shape[0], g["rows"](m))), T.tz(T.eq(item.shape[1], R)))))
        yield "factor-entries-copied", T.ForAll(
            [m, i, r], z3.Implies(z3.And(0 <= m, m < g["N"], 0 <= i, i < g["rows"](m), 0 <= r, r < R),
                                  T.tz(T.as_real(item.fn(i, r))) == g["fm"](m, i, r)))


def _is_perm(S, order, Nn):
    L = order.shape[0]
    q1, q2 = z3.Int("kp!q1"), z3.Int("kp!q2")
    return S.And(
        S.eq(L, Nn),
        S.forall(0, L, lambda q: S.And(0 <= order.fn(q), order.fn(q) < Nn)),
        T.ForAll([q1, q2], z3.Implies(z3.And(0 <= q1, q1 < q2, T.tz(q2 < L)), T.tz(order.fn(q1)) != T.tz(order.fn(q2)))),
    )


def _kt_result(ret):
    return isinstance(ret, Rec) and ret.cls == "ktensor" and isinstance(ret.fields.get("factor_matrices"), SymList) and isinstance(ret.fields.get("weights"), Arr)


KT_INLINE = ("pyttb.ktensor.ktensor.ndims", "pyttb.ktensor.ktensor.ncomponents", "pyttb.ktensor.ktensor.shape", "pyttb.pyttb_utils.parse_one_d")


@register
class kt_permute(Contract):
    qual = K_ + "permute"
    props = ("C07", "C08", "C19")
    doc = (
        "K.permute(order): order must be a permutation of the modes (else raises); factor matrix m of the result is factor "
        "matrix order[m] of K (entry-wise), the weights are unchanged."
    )
    inline = KT_INLINE

    def setup(self, S, case):
        K = sym_ktensor(S, "K")
        order = S.vector("order", S.nat("L"), "int")
        return dict(__self__=K, order=order)

    def raises_when(self, S, a):
        yield "not-a-permutation", S.Not(_is_perm(S, a["order"], a["__self__"].ghost["N"]))

    def ensures(self, S, a, ret):
        K, order = a["__self__"], a["order"]
        g = K.ghost
        yield "returns-ktensor", _kt_result(ret)
        w, fms = ret.fields["weights"], ret.fields["factor_matrices"]
        r, m, i = z3.Int("kp!r"), z3.Int("kp!m"), z3.Int("kp!i")
        gh = S.body_ghosts.get("argsort")
        if gh:
            p_, pinv_ = gh[-1]
            yield "lemma:order(q)==rank(q)", T.ForAll([m], z3.Implies(z3.And(0 <= m, m < g["N"]), z3.And(T.tz(order.fn(m)) == pinv_(m), 0 <= pinv_(m), pinv_(m) < g["N"])), [order.fn(m)]), "lemma"
        yield "weights-unchanged", S.And(S.eq(w.shape[0], g["R"]), T.ForAll([r], z3.Implies(z3.And(0 <= r, r < g["R"]), T.tz(T.as_real(w.fn(r))) == T.tz(K.fields["weights"].fn(r)))))
        yield "one-factor-per-mode", S.eq(fms.length, g["N"])
        item = fms.item(m)
        om = T.tz(order.fn(m))
        yield "factor-m-is-factor-order[m]", T.ForAll(
            [m, i, r], z3.Implies(z3.And(0 <= m, m < g["N"], 0 <= i, T.tz(T.lt(i, g["shape"].fn(om))), 0 <= r, r < g["R"]),
                                  z3.And(T.tz(T.eq(item.shape[0], g["shape"].fn(om))), T.tz(T.eq(item.shape[1], g["R"])),
                                         T.tz(T.as_real(item.fn(i, r))) == g["fm"](om, i, r))))


class _Componentwise(Contract):
    """Operations that keep every factor matrix and map the weights entry-wise."""
    props = ("C08",)
    inline = KT_INLINE
    wmap = staticmethod(lambda w, a: w)

    def setup(self, S, case):
        return dict(__self__=sym_ktensor(S, "K"))

    def ensures(self, S, a, ret):
        K = a["__self__"]
        g = K.ghost
        yield "returns-ktensor", _kt_result(ret)
        w, fms = ret.fields["weights"], ret.fields["factor_matrices"]
        r, m, i = z3.Int("kc!r"), z3.Int("kc!m"), z3.Int("kc!i")
        wm = type(self).wmap
        yield "weights", S.And(S.eq(w.shape[0], g["R"]), T.ForAll([r], z3.Implies(z3.And(0 <= r, r < g["R"]), T.tz(T.as_real(w.fn(r))) == wm(T.tz(K.fields["weights"].fn(r)), a))))
        yield "one-factor-per-mode", S.eq(fms.length, g["N"])
        item = fms.item(m)
        yield "factor-matrices-unchanged", T.ForAll(
            [m, i, r], z3.Implies(z3.And(0 <= m, m < g["N"], 0 <= i, T.tz(T.lt(i, g["shape"].fn(m))), 0 <= r, r < g["R"]),
                                  z3.And(T.tz(T.eq(item.shape[0], g["shape"].fn(m))), T.tz(T.eq(item.shape[1], g["R"])),
                                         T.tz(T.as_real(item.fn(i, r))) == g["fm"](m, i, r))))


@register
class kt_neg(_Componentwise):
    qual = K_ + "__neg__"
    doc = "-K: same factor matrices, every weight negated (so the denoted array is negated)."
    wmap = staticmethod(lambda w, a: -w)


@register
class kt_copy(_Componentwise):
    qual = K_ + "copy"
    doc = "K.copy(): same weights and factor matrices, entry-wise."


@register
class kt_mul_scalar(_Componentwise):
    qual = K_ + "__mul__"
    doc = "K * c (real scalar): same factor matrices, every weight multiplied by c (so the denoted array is scaled by c)."
    wmap = staticmethod(lambda w, a: a["other"] * w)

    def setup(self, S, case):
        return dict(__self__=sym_ktensor(S, "K"), other=S.real("c"))


def _fresh_matrix_list(S, name):
    """Havoc value for a list of matrices being built by a loop."""
    L = S.nat(name + "_len")
    rows = z3.Function(T.fresh_name(name + "_rows"), I_, I_)
    cols = z3.Function(T.fresh_name(name + "_cols"), I_, I_)
    fm = z3.Function(T.fresh_name(name + "_fm"), I_, I_, I_, z3.RealSort())
    return SymList(L, lambda mm: Arr((rows(T.tz(mm)), cols(T.tz(mm))), lambda i, j, mm=mm: fm(T.tz(mm), T.tz(i), T.tz(j)), "real"), kind="list")


def _list_inv(S, lst, i, spec):
    """Invariant of `for k in range(N): lst.append(f(k))`: lst has i items and item m is spec(m) entry-wise.
    spec(m) -> (rows, cols, entry(ii, jj))."""
    if isinstance(lst, list):
        return S.And(len(lst) == 0, S.eq(i, 0))
    if not isinstance(lst, SymList):
        return False
    m, ii, jj = z3.Int("li!m"), z3.Int("li!i"), z3.Int("li!j")
    it = lst.item(m)
    rows, cols, entry = spec(m)
    return S.And(
        S.eq(lst.length, i),
        T.ForAll([m], z3.Implies(z3.And(0 <= m, T.tz(m < i)), z3.And(T.tz(T.eq(it.shape[0], rows)), T.tz(T.eq(it.shape[1], cols))))),
        T.ForAll([m, ii, jj], z3.Implies(z3.And(0 <= m, T.tz(m < i), 0 <= ii, ii < rows, 0 <= jj, jj < cols), T.tz(T.as_real(it.fn(ii, jj))) == entry(ii, jj))),
    )


class _AddSub(Contract):
    props = ("C08", "C19")
    inline = KT_INLINE
    sign = 1

    def setup(self, S, case):
        A = sym_ktensor(S, "A")
        B = sym_ktensor(S, "B")
        return dict(__self__=A, other=B)

    @staticmethod
    def _spec(a):
        A, B = a["__self__"], a["other"]
        gA, gB = A.ghost, B.ghost
        def spec(m):
            return T.tz(gA["shape"].fn(m)), gA["R"] + gB["R"], (lambda ii, jj: z3.If(jj < gA["R"], gA["fm"](m, ii, jj), gB["fm"](m, ii, jj - gA["R"])))
        return spec

    loops = {0: dict(modifies=["factor_matrices"],
                     inv=lambda S, a, env, i: _list_inv(S, env["factor_matrices"], i, _AddSub._spec(a)),
                     havoc=lambda S, a, env, name: _fresh_matrix_list(S, "acc"))}

    def raises_when(self, S, a):
        A, B = a["__self__"], a["other"]
        gA, gB = A.ghost, B.ghost
        q = z3.Int("ks!q")
        yield "shapes-differ", z3.Or(gA["N"] != gB["N"], T.Exists([q], z3.And(0 <= q, q < gA["N"], T.tz(gA["shape"].fn(q)) != T.tz(gB["shape"].fn(q)))))

    def ensures(self, S, a, ret):
        A, B = a["__self__"], a["other"]
        gA, gB = A.ghost, B.ghost
        yield "returns-ktensor", _kt_result(ret)
        w, fms = ret.fields["weights"], ret.fields["factor_matrices"]
        r = z3.Int("ks!r")
        sg = type(self).sign
        R = gA["R"] + gB["R"]
        yield "weights-concatenated", S.And(S.eq(w.shape[0], R), T.ForAll([r], z3.Implies(z3.And(0 <= r, r < R), T.tz(T.as_real(w.fn(r))) == z3.If(
            r < gA["R"], T.tz(A.fields["weights"].fn(r)), sg * T.tz(B.fields["weights"].fn(r - gA["R"]))))))
        yield "factor-matrices-concatenated-column-wise", _list_inv(S, fms, gA["N"], self._spec(a))


@register
class kt_add(_AddSub):
    qual = K_ + "__add__"
    doc = ("A + B (two ktensors of the same shape, else raises): the components of A followed by those of B (weights and factor "
           "columns concatenated), so the denoted array is the sum.")
    sign = 1


@register
class kt_sub(_AddSub):
    qual = K_ + "__sub__"
    doc = "A - B: as A + B with the weights of B negated, so the denoted array is the difference."
    sign = -1


# ======================================================================= in-place re-parameterisations
#
# The factor matrices are held in a HeapList (pyvc/values.py): a symbolic-length list of matrices with in-place
# element writes and re-binding of elements.  Postconditions are component-wise: weights and factor entries of the
# object after the call in terms of those before it (ghost functions w0 / fm0 fixed at entry).

from pyvc.values import HeapList


def sym_ktensor_mut(S, name="K"):
    """A Kruskal tensor of symbolic order N >= 1 and rank R >= 1 whose factor list can be written in place."""
    Nn = S.int(name + "_N", 1)
    Rr = S.int(name + "_R", 1)
    shape = S.vector(name + "_shape", Nn, "int", kind="tuple")
    S.assume(S.forall(0, Nn, lambda q: shape.fn(q) >= 1, pats=lambda q: [shape.fn(q)]))
    fm0 = z3.Function(T.fresh_name(name + "_fm0"), I_, I_, I_, z3.RealSort())
    w0 = z3.Function(T.fresh_name(name + "_w0"), I_, z3.RealSort())
    heap = HeapList(Nn, rows=lambda m: T.tz(shape.fn(m)), cols=lambda m: Rr,
                    entry=lambda m, i, j: fm0(T.tz(m), T.tz(i), T.tz(j)))
    rec = Rec("ktensor", dict(weights=Arr((Rr,), lambda j: w0(T.tz(j)), "real"), factor_matrices=heap))
    rec.ghost = dict(N=Nn, R=Rr, shape=shape, fm=fm0, w=w0)
    return rec


def _havoc_kt(S, K, tag):
    """Loop havoc: arbitrary weights and factor entries (shapes are kept: the loops under contract do not re-shape)."""
    g = K.ghost
    F = z3.Function(T.fresh_name(tag + "_fm"), I_, I_, I_, z3.RealSort())
    W = z3.Function(T.fresh_name(tag + "_w"), I_, z3.RealSort())
    heap = K.fields["factor_matrices"]
    heap.entry = lambda m, i, j: F(T.tz(m), T.tz(i), T.tz(j))
    K.fields["weights"] = Arr((g["R"],), lambda j: W(T.tz(j)), "real")
    return K


def _kt_state(K):
    heap = K.fields["factor_matrices"]
    w = N.snap(K.fields["weights"])
    ent = heap.entry
    return (lambda j: T.tz(T.as_real(w.fn(j)))), (lambda m, i, j: T.tz(T.as_real(ent(m, i, j)))), w


@register
class kt_redistribute(Contract):
    qual = K_ + "redistribute"
    props = ("C08",)
    doc = ("K.redistribute(mode), 0 <= mode < N, in place: column r of factor `mode` is multiplied by weight r, every "
           "weight becomes 1, every other factor entry is unchanged (so each rank-one term w_r * prod_m U_m[i_m, r] keeps "
           "its value); returns the object itself.  Loop invariant over the components.")
    inline = KT_INLINE

    def setup(self, S, case):
        K = sym_ktensor_mut(S)
        mode = S.int("mode", 0)
        S.assume(mode < K.ghost["N"])
        return dict(__self__=K, mode=mode)

    @staticmethod
    def _inv(S, a, env, r):
        K = env["self"]
        g = K.ghost
        mode, R, Nn = a["mode"], g["R"], g["N"]
        w, ent, warr = _kt_state(K)
        r = T.tz(r)
        j, m, i = z3.Int("rd!j"), z3.Int("rd!m"), z3.Int("rd!i")
        shp = lambda m_: T.tz(g["shape"].fn(m_))
        return z3.And(
            T.tz(T.eq(warr.shape[0], R)),
            T.ForAll([j], z3.Implies(z3.And(0 <= j, j < R), w(j) == z3.If(j < r, z3.RealVal(1), g["w"](j))), [w(j)]),
            T.ForAll([m, i, j], z3.Implies(z3.And(0 <= m, m < Nn, 0 <= i, i < shp(m), 0 <= j, j < R),
                                           ent(m, i, j) == z3.If(z3.And(m == mode, j < r), g["fm"](m, i, j) * g["w"](j), g["fm"](m, i, j))), [ent(m, i, j)]))

    loops = {0: dict(modifies=["self"],
                     inv=lambda S, a, env, i: kt_redistribute._inv(S, a, env, i),
                     havoc=lambda S, a, env, name: _havoc_kt(S, env["self"], "rd"))}

    def ensures(self, S, a, ret):
        K = a["__self__"]
        g = K.ghost
        yield "returns-the-object-itself", ret is K
        yield "state-as-after-all-components", self._inv(S, a, dict(self=K), g["R"])


@register
class kt_arrange_perm(Contract):
    qual = K_ + "arrange"
    props = ("C08", "C19")
    doc = ("K.arrange(permutation=p) for an index vector p of length R with entries in 0..R-1, in place: weight j becomes the "
           "old weight p[j] and column j of every factor the old column p[j] (components re-ordered, each rank-one term kept); "
           "a vector of another length raises; permutation together with weight_factor raises.  K.arrange() without arguments: "
           "K.normalize() (its contract, applied at the call site: the in-place postcondition of one contract used inside another) "
           "followed by a re-ordering by a permutation p of the components such that the weights are non-negative and in "
           "decreasing order and component j is the normalised component p[j].  Loop invariants over the modes.  "
           "arrange(weight_factor=n), for every n including 0: additionally factor n absorbs the sorted weights and the weights become one.")
    inline = KT_INLINE

    def case_names(self):
        return ["permutation", "permutation-and-weight-factor", "by-weight", "by-weight-absorbed"]

    def setup(self, S, case):
        K = sym_ktensor_mut(S)
        if case == "by-weight":
            return dict(__self__=K, __byweight__=True)
        if case == "by-weight-absorbed":
            wf = S.int("weight_factor", 0)
            S.assume(wf < K.ghost["N"])
            return dict(__self__=K, __byweight__=True, weight_factor=wf)
        L = S.nat("L")
        p = S.vector("p", L, "int")
        R = K.ghost["R"]
        S.assume(S.forall(0, L, lambda q: S.And(p.fn(q) >= 0, p.fn(q) < R), pats=lambda q: [p.fn(q)]))
        a = dict(__self__=K, permutation=p, __L__=L)
        if case == "permutation-and-weight-factor":
            a["weight_factor"] = S.int("wf", 0)
        return a

    def raises_when(self, S, a):
        if a.get("__byweight__"):
            return
        yield "length-differs-from-the-number-of-components", a["__L__"] != a["__self__"].ghost["R"]
        if "weight_factor" in a:
            yield "permutation-and-weight-factor-together", True

    @staticmethod
    def _sorted_state(S, a, K, pre, parr, k):
        """After K.normalize(): weights wabs, entries sn (named through the pre-state functions of the call).  Then component j
        is the normalised component p[j]: for the weights, and for the factors of the first k modes."""
        g = K.ghost
        R, Nn = g["R"], g["N"]
        w, ent, warr = _kt_state(K)
        heap = K.fields["factor_matrices"]
        pp = N.snap(parr)
        j, m, i = z3.Int("as!j"), z3.Int("as!m"), z3.Int("as!i")
        shp = lambda m_: T.tz(g["shape"].fn(m_))
        wn = lambda j_: pre["w"](j_) * pre["P"](Nn, j_)
        wabs = lambda j_: z3.If(wn(j_) < 0, -wn(j_), wn(j_))
        sn = lambda m_, i_, j_: z3.If(z3.And(m_ == 0, wn(j_) < 0), -_normalised(pre, m_, i_, j_, 2), _normalised(pre, m_, i_, j_, 2))
        pj = T.tz(pp.fn(j))
        return z3.And(
            T.tz(T.eq(warr.shape[0], R)),
            T.ForAll([j], z3.Implies(z3.And(0 <= j, j < R), w(j) == wabs(pj)), [w(j)]),
            T.ForAll([m], z3.Implies(z3.And(0 <= m, m < Nn), z3.And(T.tz(heap.rows(m)) == shp(m), T.tz(heap.cols(m)) == R)), [shp(m)]),
            T.ForAll([m, i, j], z3.Implies(z3.And(0 <= m, m < Nn, 0 <= i, i < shp(m), 0 <= j, j < R),
                                           ent(m, i, j) == z3.If(m < T.tz(k), sn(m, i, pj), sn(m, i, j))), [ent(m, i, j)]))

    @staticmethod
    def _inv_sort(S, a, env, k):
        pre = S.body_ghosts.get("normalize:pre")
        if not pre or not isinstance(env.get("p"), Arr):
            return False
        return kt_arrange_perm._sorted_state(S, a, env["self"], pre[-1], env["p"], k)

    @staticmethod
    def _inv(S, a, env, k):
        K = env["self"]
        g = K.ghost
        R, Nn, p = g["R"], g["N"], N.snap(a["permutation"])
        w, ent, warr = _kt_state(K)
        heap = K.fields["factor_matrices"]
        k = T.tz(k)
        j, m, i = z3.Int("ar!j"), z3.Int("ar!m"), z3.Int("ar!i")
        shp = lambda m_: T.tz(g["shape"].fn(m_))
        pj = T.tz(p.fn(j))
        return z3.And(
            T.tz(T.eq(warr.shape[0], R)),
            T.ForAll([j], z3.Implies(z3.And(0 <= j, j < R), w(j) == g["w"](pj)), [w(j)]),
            T.ForAll([m], z3.Implies(z3.And(0 <= m, m < Nn), z3.And(T.tz(heap.rows(m)) == shp(m), T.tz(heap.cols(m)) == R)), [shp(m)]),
            T.ForAll([m, i, j], z3.Implies(z3.And(0 <= m, m < Nn, 0 <= i, i < shp(m), 0 <= j, j < R),
                                           ent(m, i, j) == z3.If(m < k, g["fm"](m, i, pj), g["fm"](m, i, j))), [ent(m, i, j)]))

    loops = {0: dict(modifies=["self"],
                     inv=lambda S, a, env, i: kt_arrange_perm._inv(S, a, env, i),
                     havoc=lambda S, a, env, name: _havoc_kt(S, env["self"], "ar")),
             1: dict(modifies=["self"],
                     inv=lambda S, a, env, i: kt_arrange_perm._inv_sort(S, a, env, i),
                     havoc=lambda S, a, env, name: _havoc_kt(S, env["self"], "as"))}

    def ensures(self, S, a, ret):
        K = a["__self__"]
        yield "returns-nothing", ret is None
        if a.get("__byweight__"):
            g = K.ghost
            pre = S.body_ghosts.get("normalize:pre")
            parr = S.it.top_env.get("p")
            yield "normalised-first-then-sorted", bool(pre) and isinstance(parr, Arr)
            if not (pre and isinstance(parr, Arr)):
                return
            pre = pre[-1]
            if a.get("weight_factor") is not None:
                # arrange(weight_factor=n): as arrange(), then factor n is multiplied column-wise by the (sorted) weights and
                # every weight becomes one -- also for n = 0
                wf, R, Nn = a["weight_factor"], g["R"], g["N"]
                w, ent, warr = _kt_state(K)
                pp = N.snap(parr)
                j, m, i = z3.Int("aw!j"), z3.Int("aw!m"), z3.Int("aw!i")
                shp = lambda m_: T.tz(g["shape"].fn(m_))
                wn = lambda j_: pre["w"](j_) * pre["P"](Nn, j_)
                wabs = lambda j_: z3.If(wn(j_) < 0, -wn(j_), wn(j_))
                sn = lambda m_, i_, j_: z3.If(z3.And(m_ == 0, wn(j_) < 0), -_normalised(pre, m_, i_, j_, 2), _normalised(pre, m_, i_, j_, 2))
                pj = T.tz(pp.fn(j))
                yield "weights-are-one", z3.And(T.tz(T.eq(warr.shape[0], R)), T.ForAll([j], z3.Implies(z3.And(0 <= j, j < R), w(j) == 1), [w(j)]))
                yield "other-factors-sorted-normalised", T.ForAll(
                    [m, i, j], z3.Implies(z3.And(0 <= m, m < Nn, m != wf, 0 <= i, i < shp(m), 0 <= j, j < R), ent(m, i, j) == sn(m, i, pj)))
                yield "chosen-factor-absorbs-the-sorted-weights", T.ForAll(
                    [i, j], z3.Implies(z3.And(0 <= i, i < shp(wf), 0 <= j, j < R), ent(wf, i, j) == sn(wf, i, pj) * wabs(pj)))
                return
            yield "component-j-is-the-normalised-component-p[j]", self._sorted_state(S, a, K, pre, parr, g["N"]), "lemma"
            pp = N.snap(parr)
            j, j2 = z3.Int("as!ej"), z3.Int("as!ej2")
            R = g["R"]
            w, ent, warr = _kt_state(K)
            yield "p-is-a-permutation-of-the-components", z3.And(
                T.tz(T.eq(pp.shape[0], R)),
                T.ForAll([j], z3.Implies(z3.And(0 <= j, j < R), z3.And(0 <= T.tz(pp.fn(j)), T.tz(pp.fn(j)) < R))),
                T.ForAll([j, j2], z3.Implies(z3.And(0 <= j, j < j2, j2 < R), T.tz(pp.fn(j)) != T.tz(pp.fn(j2)))))
            yield "weights-non-negative", T.ForAll([j], z3.Implies(z3.And(0 <= j, j < R), w(j) >= 0))
            yield "weights-in-decreasing-order", T.ForAll([j], z3.Implies(z3.And(0 <= j, j + 1 < R), w(j) >= w(j + 1)))
            return
        yield "components-re-ordered", self._inv(S, a, dict(self=K), K.ghost["N"])


@register
class kt_extract(Contract):
    qual = K_ + "extract"
    props = ("C08", "C19")
    doc = ("K.extract(idx) for an index vector idx of length 1..R (any entries): a new Kruskal tensor whose component j is "
           "component idx[j] of K (weight and the column of every factor), K itself unchanged; an index outside 0..R-1, an "
           "empty selection or more than R indices raise.  K.extract(k) with an int is the one-component case.  Two loop "
           "invariants (validation of the indices; one factor per mode).")
    inline = KT_INLINE

    def case_names(self):
        return ["index-vector", "single-int"]

    def setup(self, S, case):
        K = sym_ktensor(S, "K")
        if case == "single-int":
            k = S.int("k")
            return dict(__self__=K, idx=k, __comp__=(1, lambda j: k))
        L = S.nat("L")
        idx = S.vector("idx", L, "int")
        return dict(__self__=K, idx=idx, __comp__=(L, lambda j: T.tz(idx.fn(j))))

    def raises_when(self, S, a):
        R = a["__self__"].ghost["R"]
        L, comp = a["__comp__"]
        j = z3.Int("ex!rj")
        yield "no-or-too-many-components", z3.Or(T.tz(L) == 0, T.tz(L) > R)
        yield "component-index-out-of-range", T.Exists([j], z3.And(0 <= j, j < T.tz(L), z3.Or(comp(j) < 0, comp(j) >= R)))

    @staticmethod
    def _inv_validate(S, a, env, k):
        R = a["__self__"].ghost["R"]
        L, comp = a["__comp__"]
        bad_list = env["invalid_entries"]
        n_bad = len(bad_list) if isinstance(bad_list, list) else bad_list.shape[0]
        k = T.tz(k)
        j = z3.Int("ex!vj")
        bad = lambda j_: z3.Or(comp(j_) < 0, comp(j_) >= R)
        wit = z3.Int("ex!wit")
        return z3.And(T.tz(n_bad) >= 0,
                      z3.Implies(T.tz(n_bad) > 0, T.Exists([j], z3.And(0 <= j, j < k, bad(j)))),
                      T.ForAll([j], z3.Implies(z3.And(0 <= j, j < k, bad(j)), T.tz(n_bad) > 0)))

    @staticmethod
    def _spec(a):
        g = a["__self__"].ghost
        L, comp = a["__comp__"]
        return lambda m: (T.tz(g["shape"].fn(m)), T.tz(L), (lambda ii, jj: g["fm"](m, ii, comp(jj))))

    loops = {0: dict(modifies=["invalid_entries"],
                     inv=lambda S, a, env, i: kt_extract._inv_validate(S, a, env, i),
                     havoc=lambda S, a, env, name: Arr.fresh("invalid", (S.nat("n_invalid"),), "int", kind="list")),
             1: dict(modifies=["new_factor_matrices"],
                     inv=lambda S, a, env, i: _list_inv(S, env["new_factor_matrices"], i, kt_extract._spec(a)),
                     havoc=lambda S, a, env, name: _fresh_matrix_list(S, "sel"))}

    def ensures(self, S, a, ret):
        K = a["__self__"]
        g = K.ghost
        L, comp = a["__comp__"]
        yield "returns-a-new-ktensor", _kt_result(ret) and ret is not K
        if not _kt_result(ret):
            return
        w, fms = ret.fields["weights"], ret.fields["factor_matrices"]
        r = z3.Int("ex!r")
        yield "weights-selected", S.And(S.eq(w.shape[0], L), T.ForAll([r], z3.Implies(z3.And(0 <= r, r < T.tz(L)), T.tz(T.as_real(w.fn(r))) == T.tz(K.fields["weights"].fn(comp(r))))))
        yield "factor-columns-selected", _list_inv(S, fms, g["N"], self._spec(a))


def _colnorm(g, m, r, normtype):
    """Norm (of type normtype) of column r of the ORIGINAL factor m: the specification-level value the code must use.
    CN(m, r) is a name for NRM(column r of factor m) (defining axiom in _norm_facts)."""
    return g["CN"](T.tz(m), T.tz(r))


def _normalised(g, m, i, r, normtype):
    """Entry (i, r) of factor m after its column r was scaled to unit norm (left as it is when the column is zero)."""
    t = _colnorm(g, m, r, normtype)
    return z3.If(t > 0, (1 / t) * g["fm"](m, i, r), g["fm"](m, i, r))


def _norm_facts(S, g, normtype):
    """CN(m, r) := NRM(column r of the original factor m), with the two norm facts (>= 0, = 0 only for the zero vector)
    that the executor assumes for every np.linalg.norm call."""
    g["CN"] = z3.Function(T.fresh_name("CN"), I_, I_, z3.RealSort())
    m, r, i = z3.Int("nf!m"), z3.Int("nf!r"), z3.Int("nf!i")
    t = g["CN"](m, r)
    S.ctx.assume(T.ForAll([m, r], t == N.vector_norm_spec(lambda i_: g["fm"](m, T.tz(i_), r), T.tz(g["shape"].fn(m)), normtype), [t]))
    ax1 = T.ForAll([m, r], t >= 0, [t])
    ax2 = T.ForAll([m, r, i], z3.Implies(z3.And(t == 0, 0 <= i, i < T.tz(g["shape"].fn(m))), g["fm"](m, i, r) == 0), [[t, g["fm"](m, i, r)]])
    S.ctx.assume(ax1, trusted="numpy:linalg.norm(vector) = uninterpreted function of the entries; >= 0; = 0 iff the vector is zero")
    S.ctx.assume(ax2)
    g["norm_axioms"] = (ax1, ax2)


@register
class kt_normalize(Contract):
    qual = K_ + "normalize"
    props = ("C08",)
    doc = ("K.normalize(...) in place, for every order N, shape, rank R, weights of either sign or zero, zero columns, every "
           "integer norm type p >= 1.  [mode=n]: every column r of factor n is divided by its p-norm t_r (left alone when it is "
           "the zero column) and weight r is multiplied by t_r; other factors unchanged.  [default]: every column of every "
           "factor is divided by its norm, weight r becomes |w_r * prod_m t_{m,r}| and the columns of the FIRST factor whose "
           "scaled weight is negative change sign.  [weight_factor=n]: as default, then factor n is multiplied column-wise by "
           "the weights and the weights become 1.  In the first two forms each rank-one term keeps its value, "
           "w'_r * prod_m U'_m[i_m, r] = w_r * prod_m U_m[i_m, r] (products over the symbolic number of modes are recursive "
           "specification functions; two inductions over the modes, base and step discharged as isolated nonlinear-arithmetic "
           "obligations).  Every division is by a non-zero number (obligation).  The norm is an uninterpreted function of the "
           "column entries with the facts >= 0 and = 0 iff zero; 'the scaled column has unit norm' needs homogeneity of the "
           "norm, which is outside the solver.  Nested loop invariants (modes x components).  Not covered: weight_factor='all' "
           "(fractional powers), sort=True (goes through arrange).")
    inline = KT_INLINE

    def case_names(self):
        return ["single-mode", "all-modes", "absorb-into-one-factor"]

    def setup(self, S, case):
        K = sym_ktensor_mut(S)
        S.ctx.div_checks = True       # 1.0 / tmp must be guarded: "divisor is not zero" is an obligation here
        p = S.int("normtype", 1)
        _norm_facts(S, K.ghost, p)
        if case in ("all-modes", "absorb-into-one-factor"):
            g = K.ghost
            # P(k, r): product of the norms of column r over the first k factors (specification function)
            g["P"] = z3.Function(T.fresh_name("P"), I_, I_, z3.RealSort())
            k, r = z3.Int("pp!k"), z3.Int("pp!r")
            pa = [T.ForAll([r], g["P"](0, r) == 1, [g["P"](0, r)]),
                  T.ForAll([k, r], z3.Implies(k >= 0, g["P"](k + 1, r) == g["P"](k, r) * g["CN"](k, r)), [g["P"](k + 1, r)])]
            for ax in pa:
                S.ctx.assume(ax)
            g["P_axiom_ids"] = tuple(ax.get_id() for ax in pa)
            if case == "absorb-into-one-factor":
                wf = S.int("weight_factor", 0)
                S.assume(wf < g["N"])
                return dict(__self__=K, normtype=p, weight_factor=wf, __all__=True)
            return dict(__self__=K, normtype=p, __all__=True)
        mode = S.int("mode", 0)
        S.assume(mode < K.ghost["N"])
        return dict(__self__=K, mode=mode, normtype=p)

    @staticmethod
    def _inv_all(S, a, env, k, r=None):
        """k modes are done; with r: additionally columns < r of mode k."""
        K = env["self"]
        g = K.ghost
        R, Nn, p, P = g["R"], g["N"], a["normtype"], g["P"]
        w, ent, warr = _kt_state(K)
        k = T.tz(k)
        j, m, i = z3.Int("na!j"), z3.Int("na!m"), z3.Int("na!i")
        shp = lambda m_: T.tz(g["shape"].fn(m_))
        if r is None:
            wexp = g["w"](j) * P(k, j)
            done = m < k
        else:
            r = T.tz(r)
            wexp = z3.If(j < r, g["w"](j) * P(k + 1, j), g["w"](j) * P(k, j))
            done = z3.Or(m < k, z3.And(m == k, j < r))
        return z3.And(
            T.tz(T.eq(warr.shape[0], R)),
            T.ForAll([j], z3.Implies(z3.And(0 <= j, j < R), w(j) == wexp), [w(j)]),
            T.ForAll([m, i, j], z3.Implies(z3.And(0 <= m, m < Nn, 0 <= i, i < shp(m), 0 <= j, j < R),
                                           ent(m, i, j) == z3.If(done, _normalised(g, m, i, j, p), g["fm"](m, i, j))), [ent(m, i, j)]))

    @staticmethod
    def _inv_mode(S, a, env, r):
        K = env["self"]
        g = K.ghost
        mode, R, Nn, p = a["mode"], g["R"], g["N"], a["normtype"]
        w, ent, warr = _kt_state(K)
        r = T.tz(r)
        j, m, i = z3.Int("nm!j"), z3.Int("nm!m"), z3.Int("nm!i")
        shp = lambda m_: T.tz(g["shape"].fn(m_))
        return z3.And(
            T.tz(T.eq(warr.shape[0], R)),
            T.ForAll([j], z3.Implies(z3.And(0 <= j, j < R), w(j) == z3.If(j < r, g["w"](j) * _colnorm(g, mode, j, p), g["w"](j))), [w(j)]),
            T.ForAll([m, i, j], z3.Implies(z3.And(0 <= m, m < Nn, 0 <= i, i < shp(m), 0 <= j, j < R),
                                           ent(m, i, j) == z3.If(z3.And(m == mode, j < r), _normalised(g, m, i, j, p), g["fm"](m, i, j))), [ent(m, i, j)]))

    # ---- call sites: only the default form K.normalize() (all modes, weights kept, no sorting)
    def fresh_result(self, S, a):
        K = a["__self__"]
        heap = K.fields.get("factor_matrices")
        if not (isinstance(K, Rec) and isinstance(heap, HeapList)) or a.get("mode") is not None or a.get("weight_factor") is not None \
                or a.get("sort") not in (None, False):
            raise PathAbort("ktensor.normalize contract at a call site: only K.normalize() on a mutable factor list is supported")
        g0 = K.ghost
        # the state before the call, named by fresh functions (the postcondition speaks about it)
        FM0 = z3.Function(T.fresh_name("pre_fm"), I_, I_, I_, z3.RealSort())
        W0 = z3.Function(T.fresh_name("pre_w"), I_, z3.RealSort())
        w, ent, _ = _kt_state(K)
        m, i, j = z3.Int("pc!m"), z3.Int("pc!i"), z3.Int("pc!j")
        shp = lambda m_: T.tz(g0["shape"].fn(m_))
        S.ctx.assume(T.ForAll([m, i, j], z3.Implies(z3.And(0 <= m, m < g0["N"], 0 <= i, i < shp(m), 0 <= j, j < g0["R"]), FM0(m, i, j) == ent(m, i, j)), [FM0(m, i, j)]))
        S.ctx.assume(T.ForAll([j], z3.Implies(z3.And(0 <= j, j < g0["R"]), W0(j) == w(j)), [W0(j)]))
        pre = dict(N=g0["N"], R=g0["R"], shape=g0["shape"], fm=FM0, w=W0)
        p = a.get("normtype", 2)
        _norm_facts(S, pre, p)
        pre["P"] = z3.Function(T.fresh_name("P"), I_, I_, z3.RealSort())
        k, r = z3.Int("pp!k"), z3.Int("pp!r")
        S.ctx.assume(T.ForAll([r], pre["P"](0, r) == 1, [pre["P"](0, r)]))
        S.ctx.assume(T.ForAll([k, r], z3.Implies(k >= 0, pre["P"](k + 1, r) == pre["P"](k, r) * pre["CN"](k, r)), [pre["P"](k + 1, r)]))
        a["__pre__"], a["__all__"], a["normtype"] = pre, True, p
        S.ctx.log_ghost("normalize:pre", pre)
        _havoc_kt(S, K, "post")
        return K

    loops = {0: dict(modifies=["self"],
                     inv=lambda S, a, env, i: kt_normalize._inv_mode(S, a, env, i),
                     havoc=lambda S, a, env, name: _havoc_kt(S, env["self"], "nm")),
             1: dict(modifies=["self"],
                     inv=lambda S, a, env, i: kt_normalize._inv_all(S, a, env, i),
                     havoc=lambda S, a, env, name: _havoc_kt(S, env["self"], "no")),
             2: dict(modifies=["self"],
                     inv=lambda S, a, env, i: kt_normalize._inv_all(S, a, env, env["mode_idx"], i),
                     havoc=lambda S, a, env, name: _havoc_kt(S, env["self"], "ni"))}

    def ensures(self, S, a, ret):
        K = a["__self__"]
        g = K.ghost
        yield "returns-the-object-itself", ret is K
        if a.get("__all__"):
            yield from self._ensures_all(S, a, K)
            return
        if S.at_call_site:
            raise PathAbort("ktensor.normalize contract at a call site: unsupported form")
        yield "columns-scaled-by-their-norm-weights-multiplied", self._inv_mode(S, a, dict(self=K), g["R"])
        # each rank-one term keeps its value.  Stated for an arbitrary entry (i0, j0) (fresh constants, constrained to the
        # index range only, so this is the universally quantified statement); the four facts about that entry are
        # instances of the clauses above, and the arithmetic core is then proved from those four alone (nonlinear real
        # arithmetic without the quantified context)
        w, ent, warr = _kt_state(K)
        i0, j0 = z3.Int("nm!i0"), z3.Int("nm!j0")
        mode = a["mode"]
        rng = z3.And(0 <= i0, i0 < T.tz(g["shape"].fn(mode)), 0 <= j0, j0 < g["R"])
        t0, f0 = _colnorm(g, mode, j0, a["normtype"]), g["fm"](mode, i0, j0)
        L = [z3.Implies(rng, w(j0) == g["w"](j0) * t0),
             z3.Implies(rng, ent(mode, i0, j0) == z3.If(t0 > 0, (1 / t0) * f0, f0)),
             z3.Implies(rng, t0 >= 0),
             z3.Implies(rng, z3.Implies(t0 == 0, f0 == 0))]
        for k, h in enumerate(L):
            if k >= 2:
                # instances of the two norm facts: proved from that fact alone
                yield f"lemma:facts-about-an-arbitrary-entry.{k}", h, dict(isolated=[g["norm_axioms"][k - 2]], lemma=True)
            else:
                yield f"lemma:facts-about-an-arbitrary-entry.{k}", h, "lemma"
        yield "rank-one-terms-keep-their-value", z3.Implies(rng, w(j0) * ent(mode, i0, j0) == g["w"](j0) * f0), dict(isolated=L)


def _kt_normalize_ensures_all(self, S, a, K):
    g = a.get("__pre__") or K.ghost
    R, Nn, p, P = g["R"], g["N"], a["normtype"], g["P"]
    w, ent, warr = _kt_state(K)
    j, m, i = z3.Int("ne!j"), z3.Int("ne!m"), z3.Int("ne!i")
    shp = lambda m_: T.tz(g["shape"].fn(m_))
    wn = lambda j_: g["w"](j_) * P(Nn, j_)        # weight after the normalisation loops, before the sign step
    gs, cs = S.body_ghosts.get("select"), S.body_ghosts.get("colscatter")
    if gs and cs and not S.at_call_site:
        # witnesses: a component with a negative scaled weight is selected by np.where (at rank rk(j)), hence hit by the
        # column assignment; and every column that is hit was selected
        (Ksel, sel, rk), (has, last) = gs[0], cs[-1]
        yield "lemma:negative-weights-are-selected", T.ForAll(
            [j], z3.Implies(z3.And(0 <= j, j < R, wn(j) < 0), z3.And(0 <= rk(j), rk(j) < Ksel, sel(rk(j)) == j)), [rk(j)]), "lemma"
        yield "lemma:selected-columns-are-flipped", T.ForAll([j], z3.Implies(z3.And(0 <= j, j < R, wn(j) < 0), has(j)), [has(j)]), "lemma"
        yield "lemma:only-selected-columns-are-flipped", T.ForAll([j], z3.Implies(z3.And(0 <= j, j < R, has(j)), wn(j) < 0), [has(j)]), "lemma"
    wabs = lambda j_: z3.If(wn(j_) < 0, -wn(j_), wn(j_))
    if a.get("weight_factor") is not None:
        wf = a["weight_factor"]
        signed = lambda m_, i_, j_: z3.If(z3.And(m_ == 0, wn(j_) < 0), -_normalised(g, m_, i_, j_, p), _normalised(g, m_, i_, j_, p))
        yield "weights-are-one", z3.And(T.tz(T.eq(warr.shape[0], R)), T.ForAll([j], z3.Implies(z3.And(0 <= j, j < R), w(j) == 1), [w(j)]))
        yield "other-factors-normalised", T.ForAll(
            [m, i, j], z3.Implies(z3.And(0 <= m, m < Nn, m != wf, 0 <= i, i < shp(m), 0 <= j, j < R), ent(m, i, j) == signed(m, i, j)))
        yield "chosen-factor-absorbs-the-weights", T.ForAll(
            [i, j], z3.Implies(z3.And(0 <= i, i < shp(wf), 0 <= j, j < R), ent(wf, i, j) == signed(wf, i, j) * wabs(j)))
        return
    yield "weights-are-the-absolute-scaled-weights", z3.And(
        T.tz(T.eq(warr.shape[0], R)),
        T.ForAll([j], z3.Implies(z3.And(0 <= j, j < R), w(j) == wabs(j)), [w(j)]))
    cols_clause = T.ForAll(
        [m, i, j], z3.Implies(z3.And(0 <= m, m < Nn, 0 <= i, i < shp(m), 0 <= j, j < R),
                              ent(m, i, j) == z3.If(z3.And(m == 0, wn(j) < 0), -_normalised(g, m, i, j, p), _normalised(g, m, i, j, p))), [ent(m, i, j)])
    yield "columns-normalised-first-factor-carries-the-sign", cols_clause, "lemma"
    if S.at_call_site:
        return      # callers get the two state clauses; term preservation is a consequence proved under this contract's own name

    # ---- every rank-one term keeps its value: w'_r * prod_m U'_m[i_m, r] = w_r * prod_m U_m[i_m, r] for an arbitrary
    # component r0 and multi-index ix (fresh symbols constrained to their ranges only).  The products over the symbolic
    # number of modes are specification functions defined by recursion (T0: original entries, T1: normalised entries, TF:
    # entries of the object after the call); the two facts about them are proved by induction over the modes -- base and
    # step are obligations (each from the handful of definitions it needs: nonlinear real arithmetic), the induction
    # principle itself is the trusted step.
    RS = z3.RealSort()
    r0 = z3.Int("nt!r0")
    ix = z3.Function(T.fresh_name("ix"), I_, I_)
    T0, T1, TF = (z3.Function(T.fresh_name(nm), I_, RS) for nm in ("T0", "T1", "TF"))
    k, k0 = z3.Int("nt!k"), z3.Int("nt!k0")
    CN = g["CN"]
    u0 = lambda m_: g["fm"](m_, ix(m_), r0)
    un = lambda m_: z3.If(CN(m_, r0) > 0, (1 / CN(m_, r0)) * u0(m_), u0(m_))
    uf = lambda m_: ent(m_, ix(m_), r0)
    rng = z3.And(0 <= r0, r0 < R)
    H_ix = T.ForAll([m], z3.Implies(z3.And(0 <= m, m < Nn), z3.And(0 <= ix(m), ix(m) < shp(m))), [ix(m)])
    defs = [T0(0) == 1, T.ForAll([k], z3.Implies(k >= 0, T0(k + 1) == T0(k) * u0(k)), [T0(k + 1)]),
            T1(0) == 1, T.ForAll([k], z3.Implies(k >= 0, T1(k + 1) == T1(k) * un(k)), [T1(k + 1)]),
            TF(0) == 1, T.ForAll([k], z3.Implies(k >= 0, TF(k + 1) == TF(k) * uf(k)), [TF(k + 1)])]
    for d in defs + [H_ix, rng]:
        S.ctx.assume(d)       # definitions of the specification products; ix / r0 are arbitrary in range
    ax1, ax2 = g["norm_axioms"]
    Pdefs = [a_ for a_ in S.ctx.assumptions if a_.get_id() in g.get("P_axiom_ids", ())]
    s_ = z3.If(wn(r0) < 0, z3.RealVal(-1), z3.RealVal(1))
    # induction 1:  P(k, r0) * T1(k) = T0(k)   for 0 <= k <= N
    L1 = lambda kk: P(kk, r0) * T1(kk) == T0(kk)
    yield "induction-1:base", L1(0), dict(isolated=[defs[0], defs[2]] + Pdefs)
    yield "induction-1:step", z3.Implies(z3.And(0 <= k0, k0 < Nn, L1(k0)), L1(k0 + 1)), dict(isolated=[defs[1], defs[3], H_ix, rng, ax1, ax2] + Pdefs)
    ind1 = T.ForAll([k], z3.Implies(z3.And(0 <= k, k <= Nn), L1(k)), [T0(k)])
    S.ctx.assume(ind1, trusted="induction over the modes (base and step are discharged obligations; the induction principle is assumed)")
    # induction 2:  TF(k) = s * T1(k)   for 1 <= k <= N   (only the first factor carries the sign)
    L2 = lambda kk: TF(kk) == s_ * T1(kk)
    inst0 = z3.Implies(z3.And(0 <= k0, k0 < Nn), uf(k0) == z3.If(z3.And(k0 == 0, wn(r0) < 0), -un(k0), un(k0)))
    yield "lemma:final-entry-of-an-arbitrary-mode", inst0, "lemma"
    inst00 = uf(0) == z3.If(wn(r0) < 0, -un(0), un(0))
    yield "lemma:final-entry-of-the-first-mode", inst00, "lemma"
    yield "induction-2:base", L2(1), dict(isolated=[defs[2], defs[3], defs[4], defs[5], inst00])
    yield "induction-2:step", z3.Implies(z3.And(1 <= k0, k0 < Nn, L2(k0)), L2(k0 + 1)), dict(isolated=[defs[3], defs[5], inst0])
    ind2 = T.ForAll([k], z3.Implies(z3.And(1 <= k, k <= Nn), L2(k)), [TF(k)])
    S.ctx.assume(ind2)
    # conclusion
    wfin = w(r0) == z3.If(wn(r0) < 0, -wn(r0), wn(r0))
    yield "lemma:final-weight-of-an-arbitrary-component", wfin, "lemma"
    atN = [L1(Nn), L2(Nn)]
    yield "lemma:induction-1-at-N", atN[0], "lemma"
    yield "lemma:induction-2-at-N", atN[1], "lemma"
    yield "rank-one-terms-keep-their-value", w(r0) * TF(Nn) == g["w"](r0) * T0(Nn), dict(isolated=[wfin] + atN)


kt_normalize._ensures_all = _kt_normalize_ensures_all


@register
class kt_isequal(Contract):
    qual = K_ + "isequal"
    props = ("C08", "C01")
    doc = ("A.isequal(B) for two Kruskal tensors of the same shape: True exactly when they have the same number of components, "
           "equal weights and entry-wise equal factor matrices in every mode; a non-ktensor operand gives False.  Loop "
           "invariant over the modes (the loop returns early at the first differing factor).")
    inline = KT_INLINE

    def setup(self, S, case):
        A = sym_ktensor(S, "A")
        B = sym_ktensor(S, "B")
        gA, gB = A.ghost, B.ghost
        # same order and shape (isequal is only meaningful then; array_equal of differently shaped factors is False)
        S.assume(gA["N"] == gB["N"])
        q = z3.Int("ie!q")
        S.assume(T.ForAll([q], z3.Implies(z3.And(0 <= q, q < gA["N"]), T.tz(gA["shape"].fn(q)) == T.tz(gB["shape"].fn(q))), [gA["shape"].fn(q)]))
        return dict(__self__=A, other=B)

    @staticmethod
    def _same_upto(a, k):
        A, B = a["__self__"], a["other"]
        gA, gB = A.ghost, B.ghost
        m, i, j = z3.Int("ie!m"), z3.Int("ie!i"), z3.Int("ie!j")
        return T.ForAll([m, i, j], z3.Implies(z3.And(0 <= m, m < T.tz(k), 0 <= i, i < T.tz(gA["shape"].fn(m)), 0 <= j, j < gA["R"]),
                                              gA["fm"](m, i, j) == gB["fm"](m, i, j)), [gA["fm"](m, i, j)])

    loops = {0: dict(modifies=[], inv=lambda S, a, env, i: kt_isequal._same_upto(a, i))}

    def ensures(self, S, a, ret):
        A, B = a["__self__"], a["other"]
        gA, gB = A.ghost, B.ghost
        r = z3.Int("ie!r")
        same_w = T.ForAll([r], z3.Implies(z3.And(0 <= r, r < gA["R"]), T.tz(A.fields["weights"].fn(r)) == T.tz(B.fields["weights"].fn(r))))
        same = z3.And(gA["R"] == gB["R"], same_w, self._same_upto(a, gA["N"]))
        yield "boolean", T.is_scalar(ret) or isinstance(ret, bool)
        rt = T.tz(ret) if not isinstance(ret, bool) else z3.BoolVal(ret)
        yield "true-only-if-equal", z3.Implies(rt, same)
        yield "true-if-equal", z3.Implies(same, rt)


@register
class kt_issymmetric(Contract):
    qual = K_ + "issymmetric"
    props = ("C15",)
    doc = ("K.issymmetric() for a Kruskal tensor whose modes all have the same size d (any order N, rank R): the answer is "
           "True exactly when every two factor matrices are entry-wise equal -- the test is exact, no tolerance; with "
           "return_diffs the matrix of differences is returned as well, zero exactly at the pairs of equal factors (and below "
           "the diagonal).  Nested loop invariants over the pairs of modes.  (Modes of different sizes: bounded only -- the "
           "code stores np.inf there, which the real-number encoding cannot represent.)")
    inline = KT_INLINE

    def case_names(self):
        return ["answer-only", "with-diffs"]

    def setup(self, S, case):
        Nn, Rr, d = S.int("K_N", 1), S.int("K_R", 1), S.int("d", 1)
        fm = z3.Function(T.fresh_name("K_fm"), I_, I_, I_, z3.RealSort())
        fms = SymList(Nn, lambda m: Arr((d, Rr), lambda i, j, m=m: fm(T.tz(m), T.tz(i), T.tz(j)), "real"), kind="list")
        K = Rec("ktensor", dict(weights=Arr.fresh("K_w", (Rr,), "real"), factor_matrices=fms))
        K.ghost = dict(N=Nn, R=Rr, d=d, fm=fm)
        a = dict(__self__=K)
        if case == "with-diffs":
            a["return_diffs"] = True
        return a

    @staticmethod
    def _eq(g, x, y):
        r, c = z3.Int("sy!r"), z3.Int("sy!c")
        return T.ForAll([r, c], z3.Implies(z3.And(0 <= r, r < g["d"], 0 <= c, c < g["R"]), g["fm"](x, r, c) == g["fm"](y, r, c)))

    @staticmethod
    def _inv(S, a, env, i, jcount=None):
        """Rows < i of the strict upper triangle are decided (and, with jcount, the first jcount pairs of row i);
        every other entry of diffs is still 0."""
        g = a["__self__"].ghost
        D = N.snap(env["diffs"])
        Nn = g["N"]
        i = T.tz(i)
        x, y = z3.Int("sy!x"), z3.Int("sy!y")
        dv = lambda x_, y_: T.tz(T.as_real(D.fn(x_, y_)))
        if jcount is None:
            decided = z3.And(x < i, x < y)
        else:
            decided = z3.And(x < y, z3.Or(x < i, z3.And(x == i, y < i + 1 + T.tz(jcount))))
        inr = z3.And(0 <= x, x < Nn, 0 <= y, y < Nn)
        return z3.And(
            T.tz(T.eq(D.shape[0], Nn)), T.tz(T.eq(D.shape[1], Nn)),
            T.ForAll([x, y], z3.Implies(z3.And(inr, decided, dv(x, y) == 0), kt_issymmetric._eq(g, x, y)), [D.fn(x, y)]),
            T.ForAll([x, y], z3.Implies(z3.And(inr, decided, kt_issymmetric._eq(g, x, y)), dv(x, y) == 0), [D.fn(x, y)]),
            T.ForAll([x, y], z3.Implies(z3.And(inr, z3.Not(decided)), dv(x, y) == 0), [D.fn(x, y)]))

    loops = {0: dict(modifies=["diffs"], inv=lambda S, a, env, i: kt_issymmetric._inv(S, a, env, i)),
             1: dict(modifies=["diffs"], inv=lambda S, a, env, k: kt_issymmetric._inv(S, a, env, env["i"], k))}

    def ensures(self, S, a, ret):
        g = a["__self__"].ghost
        x, y = z3.Int("sy!ex"), z3.Int("sy!ey")
        allsame = T.ForAll([x, y], z3.Implies(z3.And(0 <= x, x < y, y < g["N"]), self._eq(g, x, y)))
        if a.get("return_diffs"):
            yield "returns-(answer, diffs)", isinstance(ret, tuple) and len(ret) == 2
            ans, D = ret
            yield "diffs-zero-exactly-at-equal-pairs", self._inv(S, a, dict(diffs=D), g["N"])
        else:
            ans = ret
        rt = T.tz(ans) if not isinstance(ans, bool) else z3.BoolVal(ans)
        yield "symmetric-answer-only-if-all-factors-equal", z3.Implies(rt, allsame)
        yield "symmetric-answer-if-all-factors-equal", z3.Implies(allsame, rt)


# ======================================================================= get_mttkrp_factors (C19 / C02)

def _abs_kt_copy(it, pos, kw, self_val):
    """ktensor.copy(): a new object with the same weights and factor entries (verified under its own contract), here with a
    mutable factor list because the caller goes on to redistribute the weights in place"""
    g = self_val.ghost
    w = N.snap(self_val.fields["weights"])
    src = self_val.fields["factor_matrices"]
    ent = (lambda m, i, j: src.item(m).fn(i, j))
    heap = HeapList(g["N"], rows=lambda m: T.tz(g["shape"].fn(m)), cols=lambda m: g["R"], entry=lambda m, i, j: ent(T.tz(m), T.tz(i), T.tz(j)))
    new = Rec("ktensor", dict(weights=Arr(w.shape, w.fn, "real"), factor_matrices=heap))
    new.ghost = dict(g)
    return new


def _abs_kt_redistribute(it, pos, kw, self_val):
    """ktensor.redistribute(mode): column r of factor `mode` is multiplied by weight r, every weight becomes 1 (verified under
    its own contract); an out-of-range mode raises IndexError"""
    mode = pos[0] if pos else kw["mode"]
    g = self_val.ghost
    if isinstance(mode, int) and mode >= 0:
        it.ctx.raise_unless(T.lt(mode, g["N"]), "IndexError", "list index out of range")
    heap = self_val.fields["factor_matrices"]
    w = N.snap(self_val.fields["weights"])
    old = heap.entry
    heap.entry = lambda m, i, j: T.Ite(T.eq(m, mode), T.mul(old(m, i, j), w.fn(j)), old(m, i, j))
    self_val.fields["weights"] = Arr(w.shape, lambda j: 1.0, "real")
    return self_val


@register
class get_mttkrp_factors(Contract):
    qual = "pyttb.pyttb_utils.get_mttkrp_factors"
    props = ("C19", "C02")
    doc = ("The operand check shared by every mttkrp: a list of matrices is returned as it is if it has exactly `ndims` "
           "members and rejected otherwise; a Kruskal operand K is replaced by the list of its factor matrices with the weights "
           "multiplied into factor 1 (if n == 0) or factor 0 (otherwise) -- never into the factor that is skipped -- and is "
           "rejected unless K has exactly `ndims` modes; K itself is not changed.  (ndims >= 2: MTTKRP is refused for 1-way tensors.)")

    def abstract_calls(self, S, a):
        return {K_ + "copy": _abs_kt_copy, K_ + "redistribute": _abs_kt_redistribute}

    def case_names(self):
        return ["list", "ktensor"]

    def setup(self, S, case):
        nd = S.int("ndims", 2)       # every mttkrp refuses tensors with fewer than two modes before / while calling this
        n = S.int("n", 0)
        S.assume(n < nd)
        if case == "list":
            lst, g = sym_factor_list(S)
            return dict(U=lst, n=n, ndims=nd, __g__=g)
        K = sym_ktensor(S, "K")
        return dict(U=K, n=n, ndims=nd, __K__=K)

    def raises_when(self, S, a):
        if "__K__" in a:
            g = a["__K__"].ghost
            yield "operand-has-another-number-of-modes-than-the-tensor", g["N"] != a["ndims"]
        else:
            yield "list-has-another-length-than-the-tensor-has-modes", a["__g__"]["N"] != a["ndims"]

    def ensures(self, S, a, ret):
        if "__K__" not in a:
            yield "the-list-itself", ret is a["U"]
            return
        K = a["__K__"]
        g = K.ghost
        yield "a-list-of-matrices", isinstance(ret, SymList)
        if not isinstance(ret, SymList):
            return
        yield "one-factor-per-mode", S.eq(ret.length, g["N"])
        m, i, r = z3.Int("mf!m"), z3.Int("mf!i"), z3.Int("mf!r")
        target = z3.If(T.tz(a["n"]) == 0, z3.IntVal(1), z3.IntVal(0))
        item = ret.item(m)
        wv = lambda r_: T.tz(K.fields["weights"].fn(r_))
        yield "weights-absorbed-into-a-factor-that-is-not-skipped", T.ForAll(
            [m, i, r], z3.Implies(z3.And(0 <= m, m < g["N"], 0 <= i, i < T.tz(g["shape"].fn(m)), 0 <= r, r < g["R"]),
                                  T.tz(T.as_real(item.fn(i, r))) == z3.If(m == target, g["fm"](m, i, r) * wv(r), g["fm"](m, i, r))))
        yield "absorbing-factor-differs-from-the-skipped-one", target != T.tz(a["n"])


# ======================================================================= values of a Kruskal tensor at given subscripts

def _abs_find(it, pos, kw, self_val):
    """W.find(): the subscripts of the nonzeros of the mask, each inside W.shape (values not used)"""
    from pyvc.contract import S as _S
    ctx = it.ctx
    wshape = self_val.fields["shape"]
    nv = T.fresh_int("nvals")
    ctx.assume(nv >= 0)
    Nw = wshape.shape[0]
    subs = Arr.fresh("wsubs", (nv, Nw), "int")
    s_, q = T.fresh_int("s"), T.fresh_int("q")
    ctx.assume(T.ForAll([s_, q], z3.Implies(z3.And(0 <= s_, s_ < nv, 0 <= q, T.lt(q, Nw)),
                                            z3.And(0 <= T.tz(subs.fn(s_, q)), T.tz(T.lt(subs.fn(s_, q), wshape.fn(q))))), [subs.fn(s_, q)]))
    ctx.log_ghost("mask:wsubs", subs)
    return (subs, Opaque("mask-values"))


@register
class kt_mask(Contract):
    qual = K_ + "mask"
    props = ("C02", "C08", "C19")
    doc = ("K.mask(W) for a mask W of the same order whose shape does not exceed K's in any mode (else raises): one value per "
           "nonzero of W, the value of the Kruskal tensor there -- vals[s] = sum_j w_j * prod_k U_k[subs[s, k], j], stated with "
           "two recursive specification functions (product over the modes, sum over the components) and proved with two nested "
           "loop invariants; this is the defining formula of the array a Kruskal tensor denotes, evaluated at given subscripts.")
    inline = KT_INLINE

    def abstract_calls(self, S, a):
        return {"pyttb.sptensor.sptensor.find": _abs_find, "pyttb.tensor.tensor.find": _abs_find}

    def case_names(self):
        return ["sparse-mask"]

    def setup(self, S, case):
        K = sym_ktensor(S, "K")
        g = K.ghost
        Nw = S.int("Nw", 1)
        wshape = S.vector("wshape", Nw, "int", kind="tuple")
        S.assume(S.forall(0, Nw, lambda q: wshape.fn(q) >= 1, pats=lambda q: [wshape.fn(q)]))
        W = Rec("sptensor", dict(shape=wshape))
        RS = z3.RealSort()
        TERM = z3.Function(T.fresh_name("TERM"), I_, I_, I_, RS)     # TERM(k, j, s): w_j * product over the first k modes
        ACC = z3.Function(T.fresh_name("ACC"), I_, I_, RS)           # ACC(j, s): sum over the first j components
        g["TERM"], g["ACC"], g["W"] = TERM, ACC, W
        return dict(__self__=K, W=W, __Nw__=Nw, __wshape__=wshape)

    def raises_when(self, S, a):
        g = a["__self__"].ghost
        q = z3.Int("mk!q")
        yield "order-differs", a["__Nw__"] != g["N"]
        yield "mask-larger-than-the-tensor", z3.And(a["__Nw__"] == g["N"], T.Exists(
            [q], z3.And(0 <= q, q < g["N"], T.tz(a["__wshape__"].fn(q)) > T.tz(g["shape"].fn(q)))))

    @staticmethod
    def _defs(S, a, subs):
        """Defining equations of TERM / ACC for the subscripts the mask delivered (assumed once they are known)."""
        K = a["__self__"]
        g = K.ghost
        if g.get("defs_for") is subs:
            return
        g["defs_for"] = subs
        TERM, ACC = g["TERM"], g["ACC"]
        k, j, s_ = z3.Int("mk!k"), z3.Int("mk!j"), z3.Int("mk!s")
        wv = lambda j_: T.tz(K.fields["weights"].fn(j_))
        S.ctx.assume(T.ForAll([j, s_], TERM(0, j, s_) == wv(j), [TERM(0, j, s_)]))
        S.ctx.assume(T.ForAll([k, j, s_], z3.Implies(k >= 0, TERM(k + 1, j, s_) == TERM(k, j, s_) * g["fm"](k, T.tz(subs.fn(s_, k)), j)), [TERM(k + 1, j, s_)]))
        S.ctx.assume(T.ForAll([s_], ACC(0, s_) == 0, [ACC(0, s_)]))
        S.ctx.assume(T.ForAll([j, s_], z3.Implies(j >= 0, ACC(j + 1, s_) == ACC(j, s_) + TERM(g["N"], j, s_)), [ACC(j + 1, s_)]))

    @staticmethod
    def _col(S, a, env, name, spec):
        v = N.snap(env[name])
        subs = env["wsubs"]
        kt_mask._defs(S, a, subs)
        nv = subs.shape[0]
        s_ = z3.Int("mk!cs")
        if not (isinstance(v, Arr) and v.ndim == 2):
            return False
        return z3.And(T.tz(T.eq(v.shape[0], nv)), T.tz(T.eq(v.shape[1], 1)),
                      T.ForAll([s_], z3.Implies(z3.And(0 <= s_, T.tz(s_ < nv)), T.tz(T.as_real(v.fn(s_, 0))) == spec(s_)), [v.fn(s_, 0)]))

    loops = {0: dict(modifies=["vals"], inv=lambda S, a, env, j: kt_mask._col(S, a, env, "vals", lambda s_: a["__self__"].ghost["ACC"](T.tz(j), s_))),
             1: dict(modifies=["tmpvals"], inv=lambda S, a, env, k: kt_mask._col(S, a, env, "tmpvals", lambda s_: a["__self__"].ghost["TERM"](T.tz(k), T.tz(env["j"]), s_)))}

    def ensures(self, S, a, ret):
        g = a["__self__"].ghost
        subs = S.body_ghosts.get("mask:wsubs")
        yield "one-value-per-mask-entry", isinstance(ret, Arr) and ret.ndim == 2 and bool(subs)
        if not (isinstance(ret, Arr) and ret.ndim == 2 and subs):
            return
        yield "values-of-the-Kruskal-tensor-at-the-mask-subscripts", self._col(S, a, dict(vals=ret, wsubs=subs[-1]), "vals", lambda s_: g["ACC"](g["R"], s_))


# ======================================================================= tovec (C08: the parameter vector)

@register
class kt_tovec(Contract):
    qual = K_ + "tovec"
    props = ("C08",)
    doc = ("K.tovec(include_weights) for every order, shape and rank: a vector of length R * (sum(shape) [+ 1]) holding the "
           "weights first (when included) and then the factor matrices mode by mode, each column by column: "
           "x[base + R * SS(m) + r * shape[m] + i] = U_m[i, r], where SS(m) = shape[0] + ... + shape[m-1] is the prefix-sum "
           "function of the shape (defined by recursion) and base = R or 0.  Nested loop invariants (modes x components); "
           "that every slice written lies inside the vector needs SS(m) <= SS(N), proved by induction over the modes.")
    inline = KT_INLINE

    def case_names(self):
        return ["with-weights", "factors-only"]

    def setup(self, S, case):
        S.ctx.prefix_sums = True
        K = sym_ktensor(S, "K")
        a = dict(__self__=K)
        if case == "factors-only":
            a["include_weights"] = False
        a["__base__"] = K.ghost["R"] if case == "with-weights" else 0
        return a

    @staticmethod
    def _ss(S):
        gs = S.body_ghosts.get("sum")
        return gs[-1]["ps"] if gs else None

    @staticmethod
    def _inv(S, a, env, k, r=None):
        K = a["__self__"]
        g = K.ghost
        R, Nn, base = g["R"], g["N"], a["__base__"]
        SS = kt_tovec._ss(S)
        if SS is None:
            return False
        x = N.snap(env["x"])
        off = T.tz(env["offset"])
        k = T.tz(k)
        d = lambda m_: T.tz(g["shape"].fn(m_))
        m, c, i, t = z3.Int("tv!m"), z3.Int("tv!c"), z3.Int("tv!i"), z3.Int("tv!t")
        xv = lambda t_: T.tz(T.as_real(x.fn(t_)))
        # POS(m, c, i): position of entry (i, c) of factor m in the vector -- a name for base + R*SS(m) + c*shape[m] + i, so
        # that the nonlinear sub-terms stay out of the clauses that only compare positions
        if g.get("POS_for") is not SS:
            g["POS_for"] = SS
            g["POS"] = z3.Function(T.fresh_name("POS"), I_, I_, I_, I_)
            m0, c0, i0 = z3.Int("tv!m0"), z3.Int("tv!c0"), z3.Int("tv!i0")
            S.ctx.assume(T.ForAll([m0, c0, i0], g["POS"](m0, c0, i0) == base + R * SS(m0) + c0 * d(m0) + i0, [g["POS"](m0, c0, i0)]))
        pos = g["POS"]
        if r is None:
            done = m < k
            off_exp = base + R * SS(k)
        else:
            r = T.tz(r)
            done = z3.Or(m < k, z3.And(m == k, c < r))
            off_exp = base + R * SS(k) + r * d(k)
        cl = [T.tz(T.eq(x.shape[0], R * (SS(Nn) + (1 if a.get("include_weights", True) is not False else 0)))),
              off == off_exp,
              # every position written so far lies below the current offset (so the next slice overwrites none of them)
              T.ForAll([m, c, i], z3.Implies(z3.And(0 <= m, m < Nn, 0 <= c, c < R, 0 <= i, i < d(m), done), z3.And(pos(m, c, i) >= base, pos(m, c, i) < off) if a.get("include_weights", True) is not False else pos(m, c, i) < off)),
              T.ForAll([m, c, i], z3.Implies(z3.And(0 <= m, m < Nn, 0 <= c, c < R, 0 <= i, i < d(m), done), xv(pos(m, c, i)) == g["fm"](m, i, c)))]
        if a.get("include_weights", True) is not False:
            cl.append(T.ForAll([t], z3.Implies(z3.And(0 <= t, t < R), xv(t) == T.tz(K.fields["weights"].fn(t)))))
        return z3.And(*cl)

    loops = {0: dict(modifies=["x", "offset"], inv=lambda S, a, env, i: kt_tovec._inv(S, a, env, i)),
             1: dict(modifies=["x", "offset"], inv=lambda S, a, env, i: kt_tovec._inv(S, a, env, env["__loop_indices__"][0], i))}

    def ensures(self, S, a, ret):
        K = a["__self__"]
        g = K.ghost
        yield "returns-a-vector", isinstance(ret, Arr) and ret.ndim == 1
        SS = self._ss(S)
        yield "length-uses-the-shape-sum", SS is not None
        if SS is None or not isinstance(ret, Arr):
            return
        yield "layout", self._inv(S, a, dict(x=ret, offset=a["__base__"] + g["R"] * SS(g["N"])), g["N"])


# ======================================================================= update (C08: from the parameter vector)

@register
class kt_update(Contract):
    qual = K_ + "update"
    props = ("C08", "C19")
    doc = ("K.update(modes, data) for a strictly ascending list of modes from {-1 (the weights), 0, ..., N-1}, in place: the "
           "data vector is consumed left to right, chunk t (of R entries for the weights, shape[m] * R entries for factor m) "
           "starting at LOC(t), the sum of the sizes of the earlier chunks (defined by recursion); the weights / factor m named "
           "at position t become that chunk (a factor column by column: entry (i, c) = data[LOC(t) + i + shape[m] * c]); "
           "everything not named is unchanged; a data vector that is too short raises (modes >= N: bounded only).  The layout is the one "
           "tovec writes, so update(all modes, K.tovec()) restores K.  Loop invariant over the list of modes.")
    inline = KT_INLINE + ("pyttb.ktensor.ktensor.order",)

    def setup(self, S, case):
        K = sym_ktensor_mut(S)
        g = K.ghost
        L = S.nat("L")
        modes = S.vector("modes", L, "int")
        q1, q2 = z3.Int("up!q1"), z3.Int("up!q2")
        mo = lambda t_: T.tz(modes.fn(t_))
        S.assume(T.ForAll([q1], z3.Implies(z3.And(0 <= q1, q1 < L), z3.And(mo(q1) >= -1, mo(q1) < K.ghost["N"])), [mo(q1)]))
        S.assume(T.ForAll([q1, q2], z3.Implies(z3.And(0 <= q1, q1 < q2, q2 < L), mo(q1) < mo(q2)), [[mo(q1), mo(q2)]]))
        D = S.nat("D")
        data = S.vector("data", D, "real")
        R, Nn = g["R"], g["N"]
        d = lambda m_: T.tz(g["shape"].fn(m_))
        size = lambda m_: z3.If(m_ == -1, R, d(m_) * R)
        LOC = z3.Function(T.fresh_name("LOC"), I_, I_)
        IDX = z3.Function(T.fresh_name("IDX"), I_, I_)      # IDX(m): the position of mode m in the list, or -1
        t, m = z3.Int("up!t"), z3.Int("up!m")
        S.ctx.assume(LOC(0) == 0)
        S.ctx.assume(T.ForAll([t], z3.Implies(z3.And(0 <= t, t < L), LOC(t + 1) == LOC(t) + size(mo(t))), [LOC(t + 1)]))
        S.ctx.assume(T.ForAll([t], z3.Implies(z3.And(0 <= t, t < L), IDX(mo(t)) == t), [mo(t)]))
        S.ctx.assume(T.ForAll([m], z3.Or(IDX(m) == -1, z3.And(0 <= IDX(m), IDX(m) < L, mo(IDX(m)) == m)), [IDX(m)]))
        # lemma L9 for the chunk offsets (every chunk has a non-negative size): LOC is monotone
        S.ctx.assume(T.ForAll([t, m], z3.Implies(z3.And(0 <= t, t <= m, m <= L), LOC(t) <= LOC(m)), [[LOC(t), LOC(m)]]),
                     trusted="lemma:L9 prefix sums of non-negative integers are non-negative and monotone (induction, assumed)")
        g.update(LOC=LOC, IDX=IDX, L=L, mo=mo, D=D, size=size)
        return dict(__self__=K, modes=modes, data=data)

    def raises_when(self, S, a):
        g = a["__self__"].ghost
        yield "data-too-short", g["D"] < g["LOC"](g["L"])

    @staticmethod
    def _state(S, a, K, tdone):
        g = K.ghost
        R, Nn, LOC, IDX = g["R"], g["N"], g["LOC"], g["IDX"]
        data = N.snap(a["data"])
        dv = lambda p_: T.tz(T.as_real(data.fn(p_)))
        w, ent, warr = _kt_state(K)
        heap = K.fields["factor_matrices"]
        d = lambda m_: T.tz(g["shape"].fn(m_))
        tdone = T.tz(tdone)
        j, m, i = z3.Int("up!j"), z3.Int("up!sm"), z3.Int("up!i")
        named = lambda m_: z3.And(0 <= IDX(m_), IDX(m_) < tdone)
        return z3.And(
            T.tz(T.eq(warr.shape[0], R)),
            T.ForAll([j], z3.Implies(z3.And(0 <= j, j < R), w(j) == z3.If(named(-1), dv(LOC(IDX(-1)) + j), g["w"](j))), [w(j)]),
            T.ForAll([m], z3.Implies(z3.And(0 <= m, m < Nn), z3.And(T.tz(heap.rows(m)) == d(m), T.tz(heap.cols(m)) == R)), [d(m)]),
            T.ForAll([m, i, j], z3.Implies(z3.And(0 <= m, m < Nn, 0 <= i, i < d(m), 0 <= j, j < R),
                                           ent(m, i, j) == z3.If(named(m), dv(LOC(IDX(m)) + i + d(m) * j), g["fm"](m, i, j))), [ent(m, i, j)]))

    @staticmethod
    def _inv(S, a, env, t):
        K = env["self"]
        g = K.ghost
        return z3.And(T.tz(env["loc"]) == g["LOC"](T.tz(t)), T.tz(env["loc"]) <= g["D"], kt_update._state(S, a, K, t))

    loops = {0: dict(modifies=["self", "loc"], inv=lambda S, a, env, t: kt_update._inv(S, a, env, t),
                     havoc=lambda S, a, env, name: (_havoc_kt(S, env["self"], "up") if name == "self" else T.fresh_int("loc")))}

    def ensures(self, S, a, ret):
        K = a["__self__"]
        yield "returns-the-object-itself", ret is K
        yield "named-parts-replaced-by-their-chunks-the-rest-unchanged", self._state(S, a, K, K.ghost["L"])


# ======================================================================= from_vector (C08: the vector round trip, constructor side)

@register
class kt_from_vector(Contract):
    qual = K_ + "from_vector"
    props = ("C08",)
    doc = ("ktensor.from_vector(data, shape, contains_weights) for a 1-D real vector and ANY shape tuple (any order, entries >= 0, "
           "not all zero when there are no weights): with s = sum(shape) (+ 1 with weights) the number of components is "
           "R = len(data) / s and the call raises when that is not a whole number; the weights are data[0:R] (all ones without "
           "weights) and entry (i, c) of factor m is data[base + R * SS(m) + c * shape[m] + i] with SS the prefix-sum function of "
           "the shape and base = R or 0 -- the very layout K.tovec() is proved to write, so from_vector(K.tovec(w), K.shape, w) "
           "rebuilds K entry by entry (case round-trip: the data vector is assumed to have the layout of tovec's postcondition "
           "for some K0; the result must equal K0).  Loop invariant over the modes for the list being appended to.")
    inline = KT_INLINE + ("pyttb.pyttb_utils.parse_shape", "pyttb.pyttb_utils.isvector", "pyttb.pyttb_utils.isrow")

    def case_names(self):
        return ["with-weights", "factors-only", "round-trip"]

    def setup(self, S, case):
        S.ctx.prefix_sums = True
        S.ctx.div_checks = True
        S.ctx.div_as_product = True
        Nn = S.nat("N")
        shape = S.vector("shape", Nn, "int", kind="tuple")
        q = z3.Int("fv!q")
        S.assume(T.ForAll([q], z3.Implies(z3.And(0 <= q, q < Nn), T.tz(shape.fn(q)) >= 0), [shape.fn(q)]))
        D = S.nat("D")
        data = S.vector("data", D, "real")
        cw = case != "factors-only"
        if not cw:
            # sum(shape) > 0: some mode has a positive size (otherwise the component count is 0/0)
            w = S.nat("wpos")
            S.assume(z3.And(w < Nn, T.tz(shape.fn(w)) >= 1))
        a = dict(data=data, shape=shape, contains_weights=cw)
        a["__D__"], a["__N__"], a["__case__"] = D, Nn, case
        if case == "round-trip":
            # data is K0.tovec(): D = R0 * (SS(N) + 1), weights first, then the factors column by column
            R0 = S.nat("R0")
            W0 = z3.Function(T.fresh_name("W0"), I_, z3.RealSort())
            F0 = z3.Function(T.fresh_name("F0"), I_, I_, I_, z3.RealSort())
            a["__K0__"] = dict(R=R0, W=W0, F=F0)
            # hypothesis of this case, over the shape's own prefix-sum function (one definitional function per array value: the
            # body's sum(shape) names the same one)
            SS = N.prefix_sum_fn(S.ctx, shape)
            d = lambda m_: T.tz(shape.fn(m_))
            m, c, i, t = z3.Int("fv!m0"), z3.Int("fv!c0"), z3.Int("fv!i0"), z3.Int("fv!t0")
            dv = lambda t_: T.tz(T.as_real(data.fn(t_)))
            S.assume(D == R0 * (SS(Nn) + 1))
            S.assume(T.ForAll([t], z3.Implies(z3.And(0 <= t, t < R0), dv(t) == W0(t))))
            S.assume(T.ForAll([m, c, i], z3.Implies(z3.And(0 <= m, m < Nn, 0 <= c, c < R0, 0 <= i, i < d(m)),
                                                    dv(R0 + R0 * SS(m) + c * d(m) + i) == F0(m, i, c))))
        return a

    # ------------------------------------------------------------------ specification helpers
    @staticmethod
    def _ss(S):
        gs = S.body_ghosts.get("sum")
        return gs[0]["ps"] if gs else None

    @staticmethod
    def _layout(S, a, R):
        """(d, base, pos): mode sizes, offset of the factor part, position of entry (i, c) of factor m."""
        shape = a["shape"]
        SS = kt_from_vector._ss(S)
        d = lambda m_: T.tz(shape.fn(m_))
        base = R if a["contains_weights"] else 0
        return d, base, (lambda m_, c_, i_: base + R * SS(m_) + c_ * d(m_) + i_)

    @staticmethod
    def _inv(S, a, env, k):
        SS = kt_from_vector._ss(S)
        if SS is None:
            return False
        R = T.tz(env["num_components"])
        d, base, pos = kt_from_vector._layout(S, a, R)
        lst = env["factor_matrices"]
        k = T.tz(k)
        if isinstance(lst, list) and not lst:
            return k == 0  # the empty list before the first iteration
        if not isinstance(lst, SymList):
            return False
        data = N.snap(a["data"])
        m, c, i = z3.Int("fv!m"), z3.Int("fv!c"), z3.Int("fv!i")
        item = lambda m_: lst.item(m_)
        return z3.And(
            T.tz(T.eq(lst.length, k)),
            T.ForAll([m], z3.Implies(z3.And(0 <= m, m < k), z3.And(T.tz(T.eq(item(m).shape[0], d(m))), T.tz(T.eq(item(m).shape[1], R))))),
            T.ForAll([m, c, i], z3.Implies(z3.And(0 <= m, m < k, 0 <= c, c < R, 0 <= i, i < d(m)),
                                           T.tz(T.as_real(item(m).fn(i, c))) == T.tz(T.as_real(data.fn(pos(m, c, i)))))))

    @staticmethod
    def _havoc(S, a, env, name):
        """The list after some iterations: matrices of the right shapes with arbitrary entries (the invariant pins the length)."""
        R = env["num_components"]
        shape = a["shape"]
        L = S.nat("fvL")
        F = z3.Function(T.fresh_name("FV"), I_, I_, I_, z3.RealSort())
        return SymList(L, lambda m_: Arr((shape.fn(T.tz(m_)), R), lambda i_, c_, m_=m_: F(T.tz(m_), T.tz(i_), T.tz(c_)), "real"), kind="list")

    loops = {0: dict(modifies=["factor_matrices"], inv=lambda S, a, env, i: kt_from_vector._inv(S, a, env, i),
                     havoc=lambda S, a, env, name: kt_from_vector._havoc(S, a, env, name))}

    def raises_when(self, S, a):
        # decided on the shape's prefix-sum function (definitional; the same one the body's sum(shape) names)
        SS = N.prefix_sum_fn(S.ctx, a["shape"])
        s = SS(a["__N__"]) + (1 if a["contains_weights"] else 0)
        r = z3.Int("fv!r")
        yield "length-is-not-a-multiple-of-the-per-component-size", z3.Not(z3.Exists([r], z3.And(r >= 0, r * s == a["__D__"])))

    def ensures(self, S, a, ret):
        yield "returns-a-ktensor", isinstance(ret, Rec) and ret.cls == "ktensor"
        SS = self._ss(S)
        yield "uses-the-shape-sum", SS is not None
        if SS is None or not isinstance(ret, Rec):
            return
        Nn, D, shape = a["__N__"], a["__D__"], a["shape"]
        data = N.snap(a["data"])
        w, fms = ret.fields.get("weights"), ret.fields.get("factor_matrices")
        yield "has-weights-and-factors", isinstance(w, Arr) and w.ndim == 1 and isinstance(fms, SymList)
        if not (isinstance(w, Arr) and isinstance(fms, SymList)):
            return
        R = T.tz(w.shape[0])
        d, base, pos = self._layout(S, a, R)
        s = SS(Nn) + (1 if a["contains_weights"] else 0)
        m, c, i, t = z3.Int("fv!m"), z3.Int("fv!c"), z3.Int("fv!i"), z3.Int("fv!t")
        dv = lambda t_: T.tz(T.as_real(data.fn(t_)))
        yield "component-count", R * s == D
        yield "one-factor-per-mode", T.tz(T.eq(fms.length, Nn))
        yield "factor-shapes", T.ForAll([m], z3.Implies(z3.And(0 <= m, m < Nn), z3.And(T.tz(T.eq(fms.item(m).shape[0], d(m))), T.tz(T.eq(fms.item(m).shape[1], R)))))
        if a["contains_weights"]:
            yield "weights-are-the-leading-entries", T.ForAll([t], z3.Implies(z3.And(0 <= t, t < R), T.tz(T.as_real(w.fn(t))) == dv(t)))
        else:
            yield "weights-are-ones", T.ForAll([t], z3.Implies(z3.And(0 <= t, t < R), T.tz(T.as_real(w.fn(t))) == 1))
        yield "factor-entries-by-position", T.ForAll([m, c, i], z3.Implies(z3.And(0 <= m, m < Nn, 0 <= c, c < R, 0 <= i, i < d(m)),
                                                                          T.tz(T.as_real(fms.item(m).fn(i, c))) == dv(pos(m, c, i))))
        K0 = a.get("__K0__")
        if K0 is not None:
            R0, W0, F0 = K0["R"], K0["W"], K0["F"]
            yield "round-trip:same-rank", R == R0
            yield "round-trip:same-weights", T.ForAll([t], z3.Implies(z3.And(0 <= t, t < R0), T.tz(T.as_real(w.fn(t))) == W0(t)))
            yield "round-trip:same-factors", T.ForAll([m, c, i], z3.Implies(z3.And(0 <= m, m < Nn, 0 <= c, c < R0, 0 <= i, i < d(m)),
                                                                           T.tz(T.as_real(fms.item(m).fn(i, c))) == F0(m, i, c)))


# ======================================================================= symmetrize (C15: the Kruskal result is symmetric)

def _abs_kt_normalize_all(it, pos, kw, self_val):
    """K.normalize('all') in place: the weights are spread over the factors -- abstracted to ARBITRARY new weights and factor
    entries of the same shapes (that form of normalize is bounded only; nothing proved here depends on the values)"""
    g = self_val.ghost
    F = z3.Function(T.fresh_name("nall_fm"), I_, I_, I_, z3.RealSort())
    W = z3.Function(T.fresh_name("nall_w"), I_, z3.RealSort())
    heap = self_val.fields["factor_matrices"]
    heap.entry = lambda m, i, j: F(T.tz(m), T.tz(i), T.tz(j))
    heap.gen += 1
    self_val.fields["weights"] = Arr((g["R"],), lambda j: W(T.tz(j)), "real")
    return self_val


@register
class kt_symmetrize(Contract):
    qual = K_ + "symmetrize"
    props = ("C15",)
    doc = ("K.symmetrize() for a Kruskal tensor of any order and rank: a tensor whose mode sizes are not all equal is rejected; "
           "otherwise the result is a NEW Kruskal tensor with one factor matrix per mode, all of them entry-wise equal (shape "
           "shape[0] x R) and R weights -- i.e. it is symmetric in all modes and passes ktensor.issymmetric (whose contract says: "
           "True exactly when every two factor matrices are entry-wise equal).  The values (sign alignment, averaging) are not "
           "specified here; normalize('all'), the column inner products and the averaging are abstracted (arbitrary values).")
    inline = KT_INLINE

    def abstract_calls(self, S, a):
        return {K_ + "copy": _abs_kt_copy, K_ + "normalize": _abs_kt_normalize_all}

    def setup(self, S, case):
        S.ctx.matmul_havoc = True
        K = sym_ktensor(S, "K")
        return dict(__self__=K)

    # the loops only change values (sign flips, running sum): every written variable keeps its shape, which is all the
    # postcondition needs -- the invariants say exactly that, the havoc is "arbitrary values of that shape"
    @staticmethod
    def _havoc(S, a, env, name):
        g = a["__self__"].ghost
        if name == "K":
            return _havoc_kt(S, env["K"], "sy")
        if name == "weights":
            return env["K"].fields["weights"]  # the local is an alias of the object's weight vector
        return Arr.fresh("V", (T.tz(g["shape"].fn(0)), g["R"]), "real")

    @staticmethod
    def _inv(S, a, env):
        g = a["__self__"].ghost
        V = env["V"]
        if not (isinstance(V, Arr) and V.ndim == 2):
            return False
        return z3.And(T.tz(T.eq(V.shape[0], g["shape"].fn(0))), T.tz(T.eq(V.shape[1], g["R"])))

    loops = {0: dict(modifies=["K", "weights", "V"], inv=lambda S, a, env, i: kt_symmetrize._inv(S, a, env), havoc=lambda S, a, env, name: kt_symmetrize._havoc(S, a, env, name)),
             1: dict(modifies=["K", "weights"], inv=lambda S, a, env, i: True, havoc=lambda S, a, env, name: kt_symmetrize._havoc(S, a, env, name)),
             2: dict(modifies=["weights", "V"], inv=lambda S, a, env, i: kt_symmetrize._inv(S, a, env), havoc=lambda S, a, env, name: (kt_symmetrize._havoc(S, a, env, "K") and None) if False else kt_symmetrize._havoc2(S, a, env, name))}

    @staticmethod
    def _havoc2(S, a, env, name):
        g = a["__self__"].ghost
        if name == "weights":
            W = z3.Function(T.fresh_name("sy_w"), I_, z3.RealSort())
            env["K"].fields["weights"] = Arr((g["R"],), lambda j: W(T.tz(j)), "real")
            return env["K"].fields["weights"]
        return Arr.fresh("V", (T.tz(g["shape"].fn(0)), g["R"]), "real")

    def raises_when(self, S, a):
        g = a["__self__"].ghost
        m = z3.Int("sy!m")
        yield "mode-sizes-differ", T.Exists([m], z3.And(0 <= m, m < g["N"], T.tz(g["shape"].fn(m)) != T.tz(g["shape"].fn(0))))

    def ensures(self, S, a, ret):
        K = a["__self__"]
        g = K.ghost
        ok = isinstance(ret, Rec) and ret.cls == "ktensor" and ret is not K and isinstance(ret.fields.get("factor_matrices"), SymList)
        yield "returns-a-new-ktensor", ok
        if not ok:
            return
        fms, w = ret.fields["factor_matrices"], ret.fields["weights"]
        m, i, c = z3.Int("sy!em"), z3.Int("sy!ei"), z3.Int("sy!ec")
        I0 = T.tz(g["shape"].fn(0))
        yield "one-factor-per-mode", S.eq(fms.length, g["N"])
        yield "weights-one-per-component", S.eq(w.shape[0], g["R"])
        yield "factor-shapes", T.ForAll([m], z3.Implies(z3.And(0 <= m, m < g["N"]), z3.And(T.tz(T.eq(fms.item(m).shape[0], I0)), T.tz(T.eq(fms.item(m).shape[1], g["R"])))))
        yield "all-factor-matrices-entry-wise-equal", T.ForAll([m, i, c], z3.Implies(z3.And(0 <= m, m < g["N"], 0 <= i, i < I0, 0 <= c, c < g["R"]),
                                                                                  T.tz(T.as_real(fms.item(m).fn(i, c))) == T.tz(T.as_real(fms.item(0).fn(i, c)))))


# ======================================================================= tolist (C08: the list of factor matrices)

@register
class kt_tolist(Contract):
    qual = K_ + "tolist"
    props = ("C08",)
    quantified_pc = True   # the branch "all weights are one" is decided by a quantified hypothesis
    doc = ("K.tolist() for a Kruskal tensor whose weights are all one (the case in which the list alone determines the tensor): "
           "the result is a list with one matrix per mode, entry-wise equal to the factor matrices -- so ktensor(K.tolist()) "
           "(proved constructor: copies the list, weights one) reproduces K exactly.  K.tolist(mode) with a mode that is not "
           "an int in range raises.  Other weights (the weights are spread with fractional powers) and tolist(mode) values: bounded.")
    inline = KT_INLINE

    def abstract_calls(self, S, a):
        # only reached by tolist(mode) with a valid mode (bounded) -- present so that a path that wrongly accepts a bad mode
        # returns (and fails the must-raise obligation) instead of stopping the executor
        return {K_ + "copy": _abs_kt_copy, K_ + "normalize": _abs_kt_normalize_all}

    def case_names(self):
        return ["unit-weights", "bad-mode"]

    def setup(self, S, case):
        K = sym_ktensor(S, "K")
        g = K.ghost
        if case == "bad-mode":
            mode = S.int("mode")
            S.assume(z3.Or(mode < 0, mode >= g["N"]))
            return dict(__self__=K, mode=mode, __bad__=True)
        r = z3.Int("tl!r")
        S.assume(T.ForAll([r], z3.Implies(z3.And(0 <= r, r < g["R"]), T.tz(K.fields["weights"].fn(r)) == 1), [K.fields["weights"].fn(r)]))
        return dict(__self__=K)

    def raises_when(self, S, a):
        if a.get("__bad__"):
            yield "mode-not-in-range", True

    def ensures(self, S, a, ret):
        K = a["__self__"]
        g = K.ghost
        ok = isinstance(ret, SymList)
        yield "returns-a-list-of-matrices", ok
        if not ok:
            return
        src = K.fields["factor_matrices"]
        yield "a-new-list", ret is not src
        m, i, c = z3.Int("tl!m"), z3.Int("tl!i"), z3.Int("tl!c")
        d = lambda m_: T.tz(g["shape"].fn(m_))
        yield "one-matrix-per-mode", S.eq(ret.length, g["N"])
        yield "shapes", T.ForAll([m], z3.Implies(z3.And(0 <= m, m < g["N"]), z3.And(T.tz(T.eq(ret.item(m).shape[0], d(m))), T.tz(T.eq(ret.item(m).shape[1], g["R"])))))
        yield "entries-are-the-factor-entries", T.ForAll([m, i, c], z3.Implies(z3.And(0 <= m, m < g["N"], 0 <= i, i < d(m), 0 <= c, c < g["R"]),
                                                                           T.tz(T.as_real(ret.item(m).fn(i, c))) == g["fm"](m, i, c)))
