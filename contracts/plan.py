"""Which functions under contract and which bounded stand-in checks decide each property."""

U = "pyttb.pyttb_utils."

SP = "pyttb.sptensor.sptensor."

PLAN = {
    "C03": dict(
        level="proof",
        functions=[SP + "__mul__", U + "tt_ismember_rows"],
        standin=["c03.binary", "c03.unary"],
        proved=["sptensor * sptensor and sptensor * scalar: Den(result) = product of the denotations, result well-formed, for all orders/shapes/nnz/stored orders; shape mismatch raises"],
        bounded=["all other operators (+ - / logical_* == != < <= > >=, scalar / dense / sparse right-hand sides, unary ops) against dense NumPy semantics on every pair of patterns of small shapes"],
        explanation="C03: deductive proof for the operators under contract; every operator is additionally swept by the bounded stand-in.",
        budget_quick=60, budget_thorough=900,
    ),
    "C06": dict(
        level="proof",
        functions=[SP + "__mul__", U + "tt_ismember_rows"],
        standin=["c06.unary_wf_order", "c06.binary_order", "c03.binary"],
        proved=["well-formedness of sptensor * sptensor / scalar results (one value per subscript, in range, pairwise distinct, no explicit zero) independent of stored order (the contract does not mention order)"],
        bounded=["well-formedness and order independence of every other public sparse operation: all n! stored orders for <= 4 nonzeros"],
        explanation="C06: WF obligations on the functions under contract; bounded stand-in for the rest.",
        budget_quick=60, budget_thorough=600,
    ),
    "C07": dict(
        level="other",
        functions=[],
        standin=["c07.index_maps"],
        bounded=["permute / reshape / squeeze on dense, sparse, Kruskal, Tucker holders: all N! orders, all factorisations, subset reshape, round trips (shapes <= 12 cells)"],
        explanation="C07: bounded stand-in only so far (contracts for sptensor.permute/reshape/squeeze pending).",
        budget_quick=40, budget_thorough=300,
    ),
    "C01": dict(
        level="other",
        functions=[],
        standin=["c01.dense_sparse", "c01.matricize", "c01.structured_to_dense"],
        bounded=["dense<->sparse, tensor<->tenmat, sptensor<->sptenmat for every ordered mode partition, Kruskal/Tucker/sum -> dense"],
        explanation="C01: bounded stand-in only so far.",
        budget_quick=40, budget_thorough=300,
    ),
    "C17": dict(
        level="proof",
        functions=[U + "tt_dimscheck", U + "tt_ismember_rows", U + "tt_sub2ind", U + "tt_ind2sub"],
        standin=["c17.sub2ind_ind2sub", "c17.dimscheck", "c17.row_helpers", "c17.khatrirao", "c17.parsers"],
        proved=[
            "tt_dimscheck: sorted sdims, rearrangement of dims / complement of exclude_dims, multiplicand alignment (vidx), every rejection",
            "tt_ismember_rows: membership, last matching position, -1 for unmatched, for all row counts and column counts",
            "tt_sub2ind / tt_ind2sub: results are RAVEL/UNRAVEL of the rows, in range, inverse of each other (lemma L1), negative indices, empty inputs, out-of-range rejection",
        ],
        bounded=[
            "tt_intersect_rows / tt_setdiff_rows / tt_union_rows against set algebra (all pairs of row matrices with <= 3 rows over a 2-3 letter alphabet)",
            "khatrirao = column-wise Kronecker product (<= 4 matrices)",
            "parse_shape / gather_wrap_dims decision tables",
        ],
        lemmas=["lemma L1: RAVEL_F/C and UNRAVEL_F/C are mutually inverse bijections (validated exhaustively for shapes <= 24 cells by c17.sub2ind_ind2sub against an independent mixed-radix formula)"],
        explanation="C17: proof obligations over the real ASTs of the index/row helpers plus a bounded stand-in for the helpers not yet under contract.",
        budget_quick=40, budget_thorough=300,
    ),
}

NOT_APPLICABLE = {
    "C11": "CP-APR: the clauses are about the numerical trajectory of three iterative floating-point optimisers (likelihood no worse than the start, KKT diagnostics, objective equal to a recomputed log-likelihood); no per-function contract over NumPy glue decides them, and a bounded run would be testing, not this technique. Its frame clause (data and caller's guess unmodified) is decided under C05.",
}
