"""Which functions under contract and which bounded stand-in checks decide each property."""

U = "pyttb.pyttb_utils."

PLAN = {
    "C17": dict(
        level="proof",
        functions=[U + "tt_dimscheck", U + "tt_ismember_rows", U + "tt_sub2ind", U + "tt_ind2sub"],
        standin=["c17.sub2ind_ind2sub", "c17.dimscheck", "c17.row_helpers", "c17.khatrirao", "c17.parsers"],
        proved=[
            "tt_dimscheck: sorted sdims, rearrangement of dims / complement of exclude_dims, multiplicand alignment (vidx), every rejection",
            "tt_ismember_rows: membership, last matching position, -1 for unmatched, for all row counts and column counts",
            "tt_sub2ind / tt_ind2sub: results are RAVEL/UNRAVEL of the rows, in range, inverse of each other (lemma L1), negative indices, empty inputs, out-of-range rejection",
        ],
        bounded=[
            "tt_intersect_rows / tt_setdiff_rows / tt_union_rows against set algebra (all pairs of row matrices with <= 3 rows over a 2-3 letter alphabet)",
            "khatrirao = column-wise Kronecker product (<= 4 matrices)",
            "parse_shape / gather_wrap_dims decision tables",
        ],
        lemmas=["lemma L1: RAVEL_F/C and UNRAVEL_F/C are mutually inverse bijections (validated exhaustively for shapes <= 24 cells by c17.sub2ind_ind2sub against an independent mixed-radix formula)"],
        explanation="C17: proof obligations over the real ASTs of the index/row helpers plus a bounded stand-in for the helpers not yet under contract.",
        budget_quick=40, budget_thorough=300,
    ),
}
