"""Which functions under contract and which bounded stand-in checks decide each property.

`functions`  : qualified names with a registered contract (proof stage, pyvc -> z3/cvc5)
`extra`      : obligation providers decided by another back end (sympy / AST)
`standin`    : bounded stand-in checks (never counted as proved)
`proved` / `bounded` / `not_addressed` : the honest split of the property's clauses
"""

U = "pyttb.pyttb_utils."
SP = "pyttb.sptensor.sptensor."

PLAN = {
    "C01": dict(
        level="proof",
        functions=[U + "tt_sub2ind", U + "tt_ind2sub"],
        standin=["c01.dense_sparse", "c01.matricize", "c01.structured_to_dense", "c03.unary"],
        proved=["the index maps every conversion is built on: tt_sub2ind / tt_ind2sub are RAVEL/UNRAVEL of each row and mutually inverse (lemma L1), for all orders and shapes"],
        bounded=["dense<->sparse (every pattern, every stored order), tensor<->tenmat and sptensor<->sptenmat for every ordered mode partition incl. empty sides and fc/bc/t, Kruskal/Tucker/sum -> dense, shapes <= 16 cells"],
        explanation="C01: proof of the linear-index layer; the conversions themselves are exercised by the bounded stand-in.",
        budget_quick=40, budget_thorough=300,
    ),
    "C02": dict(
        level="proof",
        functions=[U + "tt_dimscheck"],
        standin=["c02.ttv_ttm", "c02.mttkrp_innerprod_norm", "c02.contract_collapse_scale_ttt", "c17.khatrirao"],
        proved=["mode selection and multiplicand alignment shared by every kernel of every class (tt_dimscheck): sorted modes, complement of excluded modes, vidx pairs multiplicand and mode for lists of length |dims| and N, all rejections"],
        bounded=["ttv / ttm / mttkrp / mttkrps / ttt / ttsv / innerprod / norm / contract / collapse / scale / mask / reconstruct on dense, sparse, Kruskal, Tucker and sum holders against einsum definitions (every ordered mode selection, dims and exclude_dims, transpose flag)"],
        explanation="C02: proof of the alignment layer; kernels by bounded stand-in.",
        budget_quick=60, budget_thorough=600,
    ),
    "C03": dict(
        level="proof",
        functions=[SP + "__mul__", U + "tt_ismember_rows"],
        standin=["c03.binary", "c03.unary"],
        proved=["sptensor * sptensor and sptensor * scalar: Den(result) = product of the denotations and the result is well-formed, for all orders / shapes / nnz / stored orders; shape mismatch raises"],
        bounded=["all other operators (+ - / logical_* == != < <= > >=, scalar / dense / sparse right-hand sides, unary ops) against dense NumPy semantics on every pair of patterns of small shapes"],
        explanation="C03: deductive proof for the operators under contract; every operator is additionally swept by the bounded stand-in.",
        budget_quick=60, budget_thorough=900,
    ),
    "C04": dict(
        level="proof",
        functions=[U + "tt_sub2ind", U + "tt_ind2sub", U + "tt_ismember_rows"],
        standin=["c04.histories"],
        proved=["linear <-> subscript conversion used by every linear read/write (first index fastest, negative indices, out-of-range rejection); row look-up used by sparse reads and writes (tt_ismember_rows)"],
        bounded=["all read/write sequences of length <= 2 over every key form x right-hand-side form, sampled sequences of length 3-4, dense and sparse in lock-step against a reference array, incl. growth of extent and order"],
        explanation="C04: proof of the index helpers; histories by bounded stand-in.",
        budget_quick=40, budget_thorough=400,
    ),
    "C05": dict(
        level="exploration",
        functions=[],
        standin=["c05.operations", "c05.algorithms"],
        bounded=["~150 public operations per shape x 6 shapes (identity permutations, size-preserving reshapes, singleton modes): operands bit-for-bit unchanged, no array reachable from the result shares memory with an operand; 8 algorithm entry points with caller-supplied guesses"],
        explanation="C05: bounded stand-in (memory-sharing and mutation audit on the real objects); the ownership domain of DESIGN 2.6 is not built.",
        budget_quick=30, budget_thorough=120,
    ),
    "C06": dict(
        level="proof",
        functions=[SP + "__mul__", U + "tt_ismember_rows"],
        standin=["c06.unary_wf_order", "c06.binary_order", "c03.binary"],
        proved=["well-formedness of sptensor * sptensor / scalar results (one value per subscript, in range, pairwise distinct, no explicit zero); the contract does not mention stored order, so the result's denotation is order independent"],
        bounded=["well-formedness and order independence of every other public sparse operation: all n! stored orders for <= 4 nonzeros"],
        explanation="C06: WF obligations on the functions under contract; bounded stand-in for the rest.",
        budget_quick=60, budget_thorough=600,
    ),
    "C07": dict(
        level="proof",
        functions=[U + "tt_sub2ind", U + "tt_ind2sub"],
        standin=["c07.index_maps", "c06.unary_wf_order"],
        proved=["F-order index maps used by sparse reshape (tt_sub2ind followed by tt_ind2sub) are inverse bijections"],
        bounded=["permute / reshape / squeeze on dense, sparse, Kruskal, Tucker holders: all N! orders, all factorisations, subset reshape in every order of the listed modes, round trips (shapes <= 12 cells)"],
        explanation="C07: proof of the index layer; the operations by bounded stand-in.",
        budget_quick=40, budget_thorough=300,
    ),
    "C08": dict(
        level="exploration",
        functions=[],
        standin=["c08.reparam", "c08.vector_list_algebra"],
        bounded=["normalize (all variants), arrange, fixsigns, redistribute, extract, tovec/from_vector/update/tolist, + - neg scalar*, score on shapes incl. 1-way and singleton modes, ranks 1-4, weights of either sign / zero, zero columns"],
        explanation="C08: bounded stand-in only (rank-one-term abstraction of DESIGN not built).",
        budget_quick=30, budget_thorough=200,
    ),
    "C09": dict(
        level="exploration",
        functions=[],
        standin=["c09.cp_als", "c05.algorithms"],
        bounded=["cp_als on tiny problems x data kinds x ranks x starts x mode orders x optdims x sign fixing x printing x iteration limits: normal form, reported fit/residual recomputed, normal equations of the last updated mode, iteration limit, returned guess, monotone fit (tolerance 1e-9)"],
        explanation="C09: bounded stand-in only.",
        budget_quick=40, budget_thorough=300,
    ),
    "C10": dict(
        level="exploration",
        functions=[],
        standin=["c10.tucker"],
        bounded=["hosvd (tolerances, requested ranks, both strategies, mode orders, data scales 1e-6..1e5) and tucker_als (starts, limits, exact-fit problems): orthonormal factors, core relation, error bound, exact ranks, reported fit, monotone fit"],
        explanation="C10: bounded stand-in only.",
        budget_quick=30, budget_thorough=200,
    ),
    "C12": dict(
        level="proof",
        functions=[],
        extra=["pyvc.symcheck.derivative_obligations", "pyvc.symcheck.setup_pairing_obligations"],
        standin=["c12.handles", "c12.evaluate_estimate", "c02.mttkrp_innerprod_norm"],
        proved=["for each of the ten built-in losses the gradient handle is the derivative of the function handle on the loss's domain (sympy, from the real AST; Huber region by region)", "fg_setup.setup pairs every objective with its own loss, its own gradient, the same extra parameter and the lower bound of the loss's domain"],
        bounded=["evaluate(): objective = weighted loss sum, gradients = finite differences of the objective, sparse data = dense data; estimate() on every entry equals evaluate(); mttkrps = per-mode mttkrp"],
        explanation="C12: derivative obligations discharged by sympy on the real function bodies; tensor-level identities by bounded stand-in.",
        budget_quick=30, budget_thorough=200,
        technique="contract-based deductive verification: derivative obligations generated from the real AST and discharged by sympy; AST pairing obligations; bounded stand-in for tensor-level clauses",
    ),
    "C13": dict(
        level="exploration",
        functions=[],
        standin=["c13.samplers", "c13.solvers"],
        bounded=["sampler triples for every sampler kind and counts up to / beyond the available entries; SGD/Adam/Adagrad solves over rates from tiny to divergent (roll-backs, also back to back), trace vs. returned model, bounds, L-BFGS-B monotone, reuse of optimizer objects"],
        explanation="C13: bounded stand-in only.",
        budget_quick=30, budget_thorough=200,
    ),
    "C14": dict(
        level="exploration",
        functions=[],
        standin=["c14.nvecs"],
        bounded=["nvecs for every mode and count (iterative and dense paths) on dense / sparse / Kruskal / Tucker holders with well separated spectra: real orthonormal eigenvectors of the Gram matrix in decreasing order, sign convention, same subspace"],
        explanation="C14: bounded stand-in only.",
        budget_quick=30, budget_thorough=120,
    ),
    "C15": dict(
        level="exploration",
        functions=[],
        standin=["c15.symmetry"],
        bounded=["symmetrize / issymmetric for one or two disjoint groups (proper subsets included), both versions, details on/off, generic / symmetric / integer data; Kruskal symmetrise for even/odd order and weights of either sign"],
        explanation="C15: bounded stand-in only.",
        budget_quick=30, budget_thorough=120,
    ),
    "C16": dict(
        level="exploration",
        functions=[],
        standin=["c16.roundtrip"],
        bounded=["export/import round trip for dense, sparse (unsorted entries, both index bases), Kruskal and matrices (C-, F-ordered, views) over shapes incl. 1-way / singleton modes and doubles across the exponent range"],
        explanation="C16: bounded stand-in only.",
        budget_quick=30, budget_thorough=120,
    ),
    "C17": dict(
        level="proof",
        functions=[U + "tt_dimscheck", U + "tt_ismember_rows", U + "tt_sub2ind", U + "tt_ind2sub"],
        standin=["c17.sub2ind_ind2sub", "c17.dimscheck", "c17.row_helpers", "c17.khatrirao", "c17.parsers"],
        proved=[
            "tt_dimscheck: sorted sdims, rearrangement of dims / complement of exclude_dims, multiplicand alignment (vidx), every rejection",
            "tt_ismember_rows: membership, last matching position, -1 for unmatched, for all row counts and column counts",
            "tt_sub2ind / tt_ind2sub: results are RAVEL/UNRAVEL of the rows, in range, inverse of each other (lemma L1), negative indices, empty inputs, out-of-range rejection",
        ],
        bounded=[
            "tt_intersect_rows / tt_setdiff_rows / tt_union_rows against set algebra (all pairs of row matrices with <= 3 rows over a 2-3 letter alphabet)",
            "khatrirao = column-wise Kronecker product (<= 4 matrices)",
            "parse_shape / gather_wrap_dims decision tables",
        ],
        lemmas=["lemma L1: RAVEL_F/C and UNRAVEL_F/C are mutually inverse bijections (validated exhaustively for shapes <= 24 cells by c17.sub2ind_ind2sub against an independent mixed-radix formula)"],
        explanation="C17: proof obligations over the real ASTs of the index/row helpers plus a bounded stand-in for the helpers not yet under contract.",
        budget_quick=40, budget_thorough=300,
    ),
    "C18": dict(
        level="exploration",
        functions=[],
        standin=["c18.presentation"],
        bounded=["pairs of runs differing only in presentation (dense vs sparse incl. empty slices, printing, same seed, positive scaling 1e-6..1e5, mode relabelling) for cp_als, cp_apr x3, hosvd, tucker_als, gcp_opt/L-BFGS-B on tiny problems"],
        explanation="C18: bounded stand-in only (non-interference analysis of DESIGN not built).",
        budget_quick=40, budget_thorough=200,
    ),
    "C19": dict(
        level="proof",
        functions=[U + "tt_dimscheck", U + "tt_sub2ind", U + "tt_ind2sub", SP + "__mul__"],
        standin=["c19.rejections", "c17.dimscheck"],
        proved=["must-raise obligations of the functions under contract: tt_dimscheck (both selectors given, negative / out-of-range modes, out-of-range excludes, M > N, M not in {N, |dims|}), tt_sub2ind / tt_ind2sub (subscript or index outside the shape), sptensor * sptensor (shape mismatch)"],
        bounded=["~180 (operation, violated precondition) pairs over three shapes: each raises and leaves its receiver unchanged"],
        explanation="C19: prefix must-raise obligations for the functions under contract; the rest of the rejection table by bounded stand-in.",
        budget_quick=30, budget_thorough=120,
    ),
    "C20": dict(
        level="exploration",
        functions=[],
        standin=["c20.generators", "c06.unary_wf_order"],
        bounded=["tenones/tenzeros/tenrand/from_function/tendiag/sptendiag/teneye shapes and entries; sptenrand/from_function counts, distinctness, reproducibility; from_aggregator with arbitrary multiplicities, zero values, cancellation and four reducers"],
        explanation="C20: bounded stand-in only.",
        budget_quick=30, budget_thorough=120,
    ),
}

NOT_APPLICABLE = {
    "C11": "CP-APR: the clauses are about the numerical trajectory of three iterative floating-point optimisers (likelihood no worse than the start, KKT diagnostics, objective equal to a recomputed log-likelihood); no per-function contract over NumPy glue decides them, and a bounded run would be testing, not this technique. Its frame clause (data and caller's guess unmodified) is checked under C05.",
}
