"""Sidecar contracts for the real pyttb functions (keyed by qualified name)."""
