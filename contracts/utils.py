"""Contracts for pyttb.pyttb_utils (property C17; reused by every other property)."""

import z3

from pyvc import npsym as N
from pyvc import terms as T
from pyvc.contract import Contract, register
from pyvc.ctx import PathAbort
from pyvc.values import Arr


def seq_at(shape):
    """q -> element q of a shape given as Arr (symbolic length) or as a Python tuple of terms."""
    if isinstance(shape, Arr):
        return lambda q: T.tz(shape.fn(q))
    items = list(shape)

    def at(q):
        if isinstance(q, int):
            return T.tz(items[q])
        r = T.tz(items[-1]) if items else z3.IntVal(0)
        for k in range(len(items) - 2, -1, -1):
            r = z3.If(q == k, T.tz(items[k]), r)
        return r

    return at


@register
class tt_dimscheck(Contract):
    qual = "pyttb.pyttb_utils.tt_dimscheck"
    props = ("C17", "C02", "C19")
    doc = (
        "sdims is sorted ascending and is a rearrangement of dims (or exactly the ascending "
        "complement of exclude_dims in 0..N-1, or 0..N-1); with M multiplicands: M == len(sdims) "
        "=> dims[vidx[i]] == sdims[i] and vidx is a permutation; M == N != len(sdims) => vidx == sdims; "
        "raises when both dims and exclude_dims are given, on a negative dim, on an exclude outside "
        "0..N-1, when M > N and when M is neither N nor len(sdims)."
    )
    inline = ("pyttb.pyttb_utils.parse_one_d",)

    def case_names(self):
        out = []
        for d in ("none", "dims", "excl", "both"):
            for m in ("M", "noM"):
                out.append(f"{d}-{m}")
        return out

    def setup(self, S, case):
        d, m = case.split("-")
        Nn = S.int("N")
        a = dict(N=Nn, M=None, dims=None, exclude_dims=None)
        if m == "M":
            a["M"] = S.int("M")
        if d in ("dims", "both"):
            P = S.nat("P")
            a["dims"] = S.vector("dims", P, "int")
        if d in ("excl", "both"):
            E = S.nat("E")
            a["exclude_dims"] = S.vector("excl", E, "int")
        return a

    def raises_when(self, S, a):
        Nn, M, dims, ex = a["N"], a["M"], a["dims"], a["exclude_dims"]
        if dims is not None and ex is not None:
            yield "both-given", True
            return
        if dims is not None:
            P = dims.shape[0]
            yield "negative-dim", S.exists(0, P, lambda q: dims.fn(q) < 0)
            yield "dim-out-of-range", S.exists(0, P, lambda q: dims.fn(q) >= Nn)
        elif ex is not None:
            E = ex.shape[0]
            yield "exclude-out-of-range", S.exists(0, E, lambda q: S.Or(ex.fn(q) < 0, ex.fn(q) >= Nn))
            P = None
        else:
            P = Nn
            yield "negative-N", False
        if M is not None:
            yield "more-multiplicands-than-modes", M > Nn
            if P is not None:
                yield "bad-multiplicand-count", S.And(M != Nn, M != T.tz(T.smax(0, P)) if dims is None else M != T.tz(P))

    def may_raise(self, S, a):
        # with exclude_dims the number of remaining modes is not nameable here: a wrong
        # multiplicand count can only be rejected when M != N
        if a["exclude_dims"] is not None and a["dims"] is None and a["M"] is not None:
            yield "bad-multiplicand-count(exclude)", a["M"] != a["N"]

    def ensures(self, S, a, ret):
        Nn, M, dims, ex = a["N"], a["M"], a["dims"], a["exclude_dims"]
        sdims, vidx = ret
        L = sdims.shape[0]
        yield "sdims-sorted", S.forall_vars(
            (i := z3.Int("i!s"), j := z3.Int("j!s")),
            S.Implies(S.And(0 <= i, i < j, j < L), sdims.fn(i) <= sdims.fn(j)),
        )
        if dims is not None:
            P = dims.shape[0]
            yield "len-equals-len-dims", S.eq(L, P)
            gh = S.body_ghosts.get("argsort")
            if gh:
                p_, pinv_ = gh[-1]
                fp = lambda t: p_(T.tz(t)) if not callable(getattr(p_, "__call__", None)) or True else p_(t)
                yield "each-sdim-is-a-dim(witness p(i))", S.forall(0, L, lambda i: S.And(0 <= p_(i), p_(i) < P, sdims.fn(i) == dims.fn(p_(i)))), "lemma"
                yield "each-dim-is-an-sdim(witness pinv(j))", S.forall(0, P, lambda j: S.And(0 <= pinv_(j), pinv_(j) < L, sdims.fn(pinv_(j)) == dims.fn(j))), "lemma"
            else:
                yield "each-sdim-is-a-dim", S.forall(0, L, lambda i: S.exists(0, P, lambda j: sdims.fn(i) == dims.fn(j)))
                yield "each-dim-is-an-sdim", S.forall(0, P, lambda j: S.exists(0, L, lambda i: sdims.fn(i) == dims.fn(j)))
            yield "sdims-in-range", S.forall(0, L, lambda i: S.And(0 <= sdims.fn(i), sdims.fn(i) < Nn))
        elif ex is not None:
            E = ex.shape[0]
            yield "sdims-strictly-increasing", S.forall(0, L - 1, lambda i: sdims.fn(i) < sdims.fn(i + 1))
            yield "sdims-in-range-not-excluded", S.forall(
                0, L, lambda i: S.And(0 <= sdims.fn(i), sdims.fn(i) < Nn, S.forall(0, E, lambda q: ex.fn(q) != sdims.fn(i)))
            )
            gs = S.body_ghosts.get("setdiff1d")
            if gs:
                _, sdpos, sdslot = gs[-1]
                yield "every-non-excluded-mode-present(witness slot(v))", S.forall(
                    0, Nn, lambda v: S.Implies(S.forall(0, E, lambda q: ex.fn(q) != v), S.And(0 <= sdslot(v), sdslot(v) < L, sdims.fn(sdslot(v)) == v))), "lemma"
            else:
                yield "every-non-excluded-mode-present", S.forall(
                    0, Nn, lambda v: S.Implies(S.forall(0, E, lambda q: ex.fn(q) != v), S.exists(0, L, lambda i: sdims.fn(i) == v))
                )
        else:
            yield "all-modes", S.And(S.eq(L, T.smax(0, Nn)), S.forall(0, L, lambda i: sdims.fn(i) == i))
        if M is None:
            yield "no-vidx", vidx is None
        else:
            yield "vidx-present", isinstance(vidx, Arr)
            if isinstance(vidx, Arr):
                yield "vidx-length", S.eq(vidx.shape[0], L)
                if dims is not None:
                    yield "P==M: multiplicand vidx[i] belongs to mode sdims[i]", S.Implies(
                        M == T.tz(L),
                        S.forall(0, L, lambda i: S.And(0 <= vidx.fn(i), vidx.fn(i) < L, dims.fn(vidx.fn(i)) == sdims.fn(i))),
                    )
                    yield "P==M: vidx injective", S.Implies(
                        M == T.tz(L),
                        S.forall_vars(
                            (i := z3.Int("i!v"), j := z3.Int("j!v")),
                            S.Implies(S.And(0 <= i, i < j, j < L), vidx.fn(i) != vidx.fn(j)),
                        ),
                    )
                yield "M==N!=P: vidx == sdims", S.Implies(
                    S.And(M == Nn, M != T.tz(L)), S.forall(0, L, lambda i: vidx.fn(i) == sdims.fn(i))
                )
                yield "P==M (no dims): vidx[i] indexes sdims order", S.Implies(
                    M == T.tz(L), S.forall(0, L, lambda i: S.And(0 <= vidx.fn(i), vidx.fn(i) < L))
                )


@register
class tt_ismember_rows(Contract):
    qual = "pyttb.pyttb_utils.tt_ismember_rows"
    props = ("C17", "C03", "C06")
    doc = (
        "matched[k] <=> some row of source equals row k of search; matched[k] => results[k] is the "
        "LAST position j with source[j] == search[k]; not matched[k] => results[k] == -1; both outputs "
        "have one entry per search row.  Requires both operands 2-D with the same, non-zero column count."
    )

    def setup(self, S, case):
        p, m = S.nat("p"), S.nat("m")
        c = S.int("c", 1)
        return dict(search=S.row_matrix("search", p, c), source=S.row_matrix("source", m, c))

    @staticmethod
    def _degenerate(a):
        return a["search"].ndim != 2 or a["source"].ndim != 2

    def requires(self, S, a):
        search, source = a["search"], a["source"]
        if self._degenerate(a):
            # the code returns "nothing matched" as soon as either operand is empty; a non-matrix
            # operand is only meaningful when it is an empty placeholder
            for nm, x in (("search", search), ("source", source)):
                if x.ndim != 2:
                    yield f"non-matrix-{nm}-is-empty", S.eq(N.size_of(S.ctx, x), 0)
            yield "search-has-a-leading-extent", search.ndim >= 1
        else:
            yield "same-nonzero-column-count", S.And(S.eq(search.shape[1], source.shape[1]), S.ge(search.shape[1], 1))

    def fresh_result(self, S, a):
        p = a["search"].shape[0]
        if not self._degenerate(a):
            N.ensure_rows(S.ctx, a["search"])
            N.ensure_rows(S.ctx, a["source"])
        matched = Arr.fresh("matched", (p,), "bool")
        results = Arr.fresh("location", (p,), "int")
        return matched, results

    def ensures(self, S, a, ret):
        search, source = a["search"], a["source"]
        matched, results = ret
        if self._degenerate(a):
            p = search.shape[0]
            yield "shapes", S.And(S.eq(matched.shape[0], p), S.eq(results.shape[0], p))
            yield "nothing-matched", S.forall(0, p, lambda k: S.And(S.Not(matched.fn(k)), results.fn(k) == -1))
            return
        p, m = search.shape[0], source.shape[0]
        yield "shapes", S.And(matched.ndim == 1, results.ndim == 1, S.eq(matched.shape[0], p), S.eq(results.shape[0], p))
        rs, rc = search.rowfn, source.rowfn
        k, j = z3.Int("k!e"), z3.Int("j!e")
        yield "matched-sound", S.forall_vars(
            [k],
            S.Implies(
                S.And(0 <= k, k < p, matched.fn(k)),
                S.And(0 <= results.fn(k), results.fn(k) < m, rc(results.fn(k)) == rs(k)),
            ),
        )
        yield "matched-complete", S.forall_vars(
            [k, j], S.Implies(S.And(0 <= k, k < p, 0 <= j, j < m, rc(j) == rs(k)), matched.fn(k))
        )
        yield "last-match", S.forall_vars(
            [k, j], S.Implies(S.And(0 <= k, k < p, 0 <= j, j < m, rc(j) == rs(k)), j <= results.fn(k))
        )
        yield "unmatched-minus-one", S.forall_vars(
            [k], S.Implies(S.And(0 <= k, k < p, S.Not(matched.fn(k))), results.fn(k) == -1)
        )


def _shape_tuple(S, name, Nn):
    """A shape: tuple of symbolic length Nn with positive entries."""
    shp = S.vector(name, Nn, "int", kind="tuple")
    S.assume(S.forall(0, Nn, lambda q: shp.fn(q) >= 1, pats=lambda q: [shp.fn(q)]))
    return shp


@register
class tt_sub2ind(Contract):
    qual = "pyttb.pyttb_utils.tt_sub2ind"
    props = ("C17", "C01", "C04", "C07")
    doc = (
        "For subs (k x N, every row inside shape) returns the k linear indices "
        "RAVEL_order(shape, subs[i]) (first subscript fastest for the default order 'F'); "
        "an empty subs gives an empty result; a row outside the shape raises."
    )

    def case_names(self):
        return ["F-default", "F", "C"]

    def setup(self, S, case):
        Nn = S.int("N", 1)
        k = S.nat("k")
        shape = _shape_tuple(S, "shape", Nn)
        subs = S.row_matrix("subs", k, Nn)
        a = dict(shape=shape, subs=subs)
        if case != "F-default":
            a["order"] = case
        return a

    def _inr(self, S, a):
        srow = N.seq_as_row(S.ctx, a["shape"])
        subs = a["subs"]
        rf = N.ensure_rows(S.ctx, subs)
        return srow, S.forall(0, subs.shape[0], lambda i: N.INRNG(srow, rf(i)))

    def raises_when(self, S, a):
        srow, inr = self._inr(S, a)
        yield "subscript-outside-shape", S.Not(inr)

    def fresh_result(self, S, a):
        return Arr.fresh("sub2ind", (a["subs"].shape[0],), "int")

    def ensures(self, S, a, ret):
        subs = a["subs"]
        k = subs.shape[0]
        srow = N.seq_as_row(S.ctx, a["shape"])
        RAV = N.RAVELC if a.get("order", "F") == "C" else N.RAVELF
        yield "one-index-per-row", S.And(ret.ndim == 1, S.eq(ret.shape[0], k))
        rf = N.ensure_rows(S.ctx, subs)
        yield "index-is-RAVEL-of-row", S.forall(0, k, lambda i: ret.fn(i) == RAV(srow, rf(i)))
        yield "index-in-0..prod-1", S.forall(
            0, k, lambda i: S.And(0 <= ret.fn(i), ret.fn(i) < N.PRODR(srow))
        )


@register
class tt_ind2sub(Contract):
    qual = "pyttb.pyttb_utils.tt_ind2sub"
    props = ("C17", "C01", "C04", "C07", "C05")
    doc = (
        "For idx with -P <= idx[i] < P (P = prod(shape)) returns the k x N subscript matrix whose "
        "row i is UNRAVEL_order(shape, idx[i] mod P) and lies inside shape; empty idx gives 0 x N; "
        "an index outside [-P, P) raises.  (Frame 'idx is not modified' is a C05 obligation.)"
    )

    def case_names(self):
        return ["F-default", "C"]

    def setup(self, S, case):
        Nn = S.int("N", 1)
        k = S.nat("k")
        shape = _shape_tuple(S, "shape", Nn)
        idx = S.vector("idx", k, "int")
        a = dict(shape=shape, idx=idx)
        if case == "C":
            a["order"] = "C"
        # ghost: the caller's values before the call (the function writes into idx)
        a["__old_idx__"] = idx.fn
        srow = N.seq_as_row(S.ctx, shape)
        P = N.PRODR(srow)
        # prod(shape) as computed by math.prod is PROD_R of the shape row
        a["__P__"] = P
        return a

    @staticmethod
    def _ghosts(S, a):
        if "__old_idx__" not in a:
            # call site: the value of idx at the call, P = PROD_R(shape row)
            if not (isinstance(a["idx"], Arr) and a["idx"].ndim == 1):
                raise PathAbort("tt_ind2sub contract: idx is not a 1-D array at this call site")
            a["__old_idx__"] = N.snap(a["idx"]).fn
            a["__P__"] = N.PRODR(N.seq_as_row(S.ctx, a["shape"]))
        return a["__old_idx__"], a["__P__"]

    def fresh_result(self, S, a):
        k = a["idx"].shape[0]
        Nn = a["shape"].shape[0] if isinstance(a["shape"], Arr) else len(a["shape"])
        r = N.fresh_row_matrix("ind2sub", k, Nn)
        S.assume(N.row_matrix_wf(r))
        return r

    def raises_when(self, S, a):
        old, P = self._ghosts(S, a)
        k = a["idx"].shape[0]
        yield "index-out-of-range", S.exists(0, k, lambda i: S.Or(old(i) < -P, old(i) >= P))

    def ensures(self, S, a, ret):
        old, P = self._ghosts(S, a)
        k = a["idx"].shape[0]
        Nn = a["shape"].shape[0] if isinstance(a["shape"], Arr) else len(a["shape"])
        srow = N.seq_as_row(S.ctx, a["shape"])
        shp_at = seq_at(a["shape"])
        UNR = N.UNRAVELC if a.get("order", "F") == "C" else N.UNRAVELF
        RAV = N.RAVELC if a.get("order", "F") == "C" else N.RAVELF
        yield "k-by-N", S.And(ret.ndim == 2, S.eq(ret.shape[0], k), S.Or(S.eq(k, 0), S.eq(ret.shape[1], Nn)))
        wrap = lambda v: z3.If(v < 0, v + P, v)
        yield "row-is-UNRAVEL-of-index", S.forall(
            0, k, lambda i: S.forall(0, Nn, lambda m: ret.fn(i, m) == N.relem(UNR(srow, wrap(old(i))), m))
        )
        yield "row-inside-shape", S.forall(
            0, k, lambda i: S.forall(0, Nn, lambda m: S.And(0 <= ret.fn(i, m), ret.fn(i, m) < shp_at(m)))
        )
        yield "inverse-of-sub2ind", S.forall(0, k, lambda i: RAV(srow, UNR(srow, wrap(old(i)))) == wrap(old(i)))


def _row_ghosts(S, A, B):
    """unique / argsort ghosts of the body, looked up by the matrix they were computed from (so that the
    witness lemmas do not depend on the order in which the body happens to call the primitives)."""
    g = S.body_ghosts
    us, ass = g.get("unique@src", []), g.get("argsort@src", [])

    def uniq(M):
        for e in us:
            if e["rowfn"] is getattr(M, "rowfn", None):
                return e
        return None

    def asort(u):
        if u is None or u["idx_arr"] is None:
            return None
        for e in ass:
            if e["src"] is u["idx_arr"]:
                return e["ghost"]
        return None
    uA, uB = uniq(A), uniq(B)
    pA, pB = asort(uA), asort(uB)
    if uA is None or uB is None or pA is None or pB is None:
        return None
    return uA["ghost"], uB["ghost"], pA, pB


def _distinct_rows(S, A, tag):
    """requires-style assumption: the rows of A are pairwise distinct (ghost: position of a row)."""
    n = A.shape[0]
    pos = z3.Function(T.fresh_name(tag + "_pos"), N.Row, z3.IntSort())
    i = z3.Int(tag + "!i")
    S.assume(T.ForAll([i], z3.Implies(z3.And(0 <= i, T.tz(i < n)), pos(A.rowfn(i)) == i), [A.rowfn(i)]))
    return pos


def _any_rows_clauses(S, A, B, ret, which):
    """Specification of tt_intersect_rows / tt_setdiff_rows for arbitrary A (rows may repeat) -- the form the
    property states: the result lists positions of A, one per distinct row (the first occurrence of that row in A),
    for exactly the rows of A that do (intersect) / do not (setdiff) occur in B; intersect never lists a row twice,
    setdiff is strictly ascending."""
    n, m = A.shape[0], B.shape[0]
    ra, rb = N.ensure_rows(S.ctx, A), N.ensure_rows(S.ctx, B)
    L = ret.shape[0]
    rt = lambda t_: T.tz(ret.fn(t_))
    t, u, i, j, k_ = z3.Int("t!y"), z3.Int("u!y"), z3.Int("i!y"), z3.Int("j!y"), z3.Int("k!y")
    g = S.body_ghosts
    us, ass = g.get("unique@src", []), g.get("argsort@src", [])
    uA = next((e for e in us if e["rowfn"] is getattr(A, "rowfn", None)), None)
    uB = next((e for e in us if e["rowfn"] is getattr(B, "rowfn", None)), None)
    asort = lambda ue: next((e["ghost"] for e in ass if ue is not None and e["src"] is ue["idx_arr"]), None)
    gA, gB = asort(uA), asort(uB)
    both = uA is not None and uB is not None and gA is not None and gB is not None and g.get("select") and g.get("call:tt_ismember_rows")
    if uA is not None and gA is not None:
        (mA, idxA, invA), (pA, pinvA) = uA["ghost"], gA
        ai = lambda i_: pinvA(invA(i_))           # position of row i of A in A' (distinct rows of A by first occurrence)
        arow = lambda q_: ra(idxA(pA(q_)))        # row q of A'
        yield "lemma:row-i-of-A-sits-at-a(i)-in-A'", T.ForAll(
            [i], z3.Implies(z3.And(0 <= i, T.tz(i < n)), z3.And(0 <= ai(i), ai(i) < mA, arow(ai(i)) == ra(i), idxA(pA(ai(i))) <= i)), [ra(i)]), "lemma"
        yield "lemma:position-k-of-A'-is-a-first-occurrence", T.ForAll(
            [k_, i], z3.Implies(z3.And(0 <= k_, k_ < mA, 0 <= i, T.tz(i < n), ra(i) == arow(k_)), z3.And(ai(i) == k_, idxA(pA(k_)) <= i)), [[arow(k_), ra(i)]]), "lemma"
    if both:
        (mB, idxB, invB), (pB, pinvB) = uB["ghost"], gB
        (_, sel, rk) = g["select"][-1]
        matched, loc = g["call:tt_ismember_rows"][0]
        sj = lambda j_: pinvB(invB(j_))           # position of row j of B in B'
        yield "lemma:row-j-of-B-sits-at-s(j)-in-B'", T.ForAll(
            [j], z3.Implies(z3.And(0 <= j, T.tz(j < m)), z3.And(0 <= sj(j), sj(j) < mB, rb(idxB(pB(sj(j)))) == rb(j))), [rb(j)]), "lemma"
        yield "lemma:s(j)-is-matched-at-a(i)", T.ForAll(
            [i, j], z3.Implies(z3.And(0 <= i, T.tz(i < n), 0 <= j, T.tz(j < m), ra(i) == rb(j)),
                               z3.And(T.tz(matched.fn(sj(j))), T.tz(loc.fn(sj(j))) == ai(i))), [[ra(i), rb(j)]]), "lemma"
    yield "positions-of-A", T.ForAll([t], z3.Implies(z3.And(0 <= t, T.tz(t < L)), z3.And(0 <= rt(t), T.tz(rt(t) < n))))
    yield "each-position-is-the-first-occurrence-of-its-row", T.ForAll(
        [t, i], z3.Implies(z3.And(0 <= t, T.tz(t < L), 0 <= i, i < rt(t)), ra(i) != ra(rt(t))))
    if which == "intersect":
        yield "listed-rows-occur-in-B", T.ForAll(
            [t], z3.Implies(z3.And(0 <= t, T.tz(t < L)), T.Exists([j], z3.And(0 <= j, T.tz(j < m), rb(j) == ra(rt(t))))))
        if both:
            w = lambda j_: rk(sj(j_))
            yield "every-common-row-listed(witness)", T.ForAll(
                [i, j], z3.Implies(z3.And(0 <= i, T.tz(i < n), 0 <= j, T.tz(j < m), ra(i) == rb(j)),
                                   z3.And(0 <= w(j), T.tz(w(j) < L), ra(rt(w(j))) == ra(i))), [[ra(i), rb(j)]])
        else:
            yield "every-common-row-listed", T.ForAll(
                [i, j], z3.Implies(z3.And(0 <= i, T.tz(i < n), 0 <= j, T.tz(j < m), ra(i) == rb(j)),
                                   T.Exists([t], z3.And(0 <= t, T.tz(t < L), ra(rt(t)) == ra(i)))))
        yield "no-row-listed-twice", T.ForAll([t, u], z3.Implies(z3.And(0 <= t, t < u, T.tz(u < L)), ra(rt(t)) != ra(rt(u))))
    else:
        yield "strictly-ascending", T.ForAll([t, u], z3.Implies(z3.And(0 <= t, t < u, T.tz(u < L)), rt(t) < rt(u)))
        yield "listed-rows-do-not-occur-in-B", T.ForAll(
            [t, j], z3.Implies(z3.And(0 <= t, T.tz(t < L), 0 <= j, T.tz(j < m)), rb(j) != ra(rt(t))))
        absent = lambda i_: T.ForAll([j], z3.Implies(z3.And(0 <= j, T.tz(j < m)), rb(j) != ra(i_)))
        if uA is not None and g.get("setdiff1d"):
            # row i of A is value idxA(invA(i)) of the first argument of setdiff1d, at index invA(i)
            (_, sdpos, sdslot) = g["setdiff1d"][-1]
            w = lambda i_: sdslot(invA(i_))
            yield "every-absent-row-listed(witness)", T.ForAll(
                [i], z3.Implies(z3.And(0 <= i, T.tz(i < n), absent(i)), z3.And(0 <= w(i), T.tz(w(i) < L), ra(rt(w(i))) == ra(i))), [ra(i)])
        else:
            yield "every-absent-row-listed", T.ForAll(
                [i], z3.Implies(z3.And(0 <= i, T.tz(i < n), absent(i)), T.Exists([t], z3.And(0 <= t, T.tz(t < L), ra(rt(t)) == ra(i)))))


def _rows_requires(S, a):
    A, B = a["MatrixA"], a["MatrixB"]
    yield "operands-are-matrices", A.ndim == 2 and B.ndim == 2
    if A.ndim == 2 and B.ndim == 2:
        yield "same-nonzero-column-count", S.And(S.eq(A.shape[1], B.shape[1]), S.ge(A.shape[1], 1))
        ra = N.ensure_rows(S.ctx, A)
        N.ensure_rows(S.ctx, B)
        i, j = z3.Int("rq!i"), z3.Int("rq!j")
        yield "rows-of-first-argument-pairwise-distinct", T.ForAll([i, j], z3.Implies(z3.And(0 <= i, i < j, T.tz(j < A.shape[0])), ra(i) != ra(j)))


@register
class tt_intersect_rows(Contract):
    qual = "pyttb.pyttb_utils.tt_intersect_rows"
    props = ("C17", "C03", "C06", "C04")
    doc = (
        "For A with pairwise distinct rows (every call site: stored subscripts of a well-formed "
        "sptensor, allsubs()) and arbitrary B (repeated rows allowed): the result lists, without "
        "repetition, exactly the positions i of A whose row occurs in B, ordered by the first "
        "occurrence of that row in B."
    )

    def case_names(self):
        return ["distinct-rows", "any-rows"]

    def setup(self, S, case):
        n, m = S.nat("n"), S.nat("m")
        c = S.int("c", 1)
        A = S.row_matrix("A", n, c)
        B = S.row_matrix("B", m, c)
        if case == "any-rows":
            return dict(MatrixA=A, MatrixB=B, __any__=True)
        posA = _distinct_rows(S, A, "A")
        return dict(MatrixA=A, MatrixB=B, __posA__=posA)

    def requires(self, S, a):
        # the stronger position-wise form used at call sites needs distinct rows in A; the function itself is
        # specified (and verified) for arbitrary A in the case "any-rows"
        yield from _rows_requires(S, a)

    def fresh_result(self, S, a):
        L = S.nat("L")
        r = Arr.fresh("common", (L,), "int")
        r.ghost["where"] = T.fresh_fun("where", z3.IntSort(), z3.IntSort())
        r.ghost["bw"] = T.fresh_fun("bwit", z3.IntSort(), z3.IntSort())
        return r

    def ensures(self, S, a, ret):
        A, B = a["MatrixA"], a["MatrixB"]
        n, m = A.shape[0], B.shape[0]
        ra, rb = N.ensure_rows(S.ctx, A), N.ensure_rows(S.ctx, B)
        yield "vector", ret.ndim == 1
        L = ret.shape[0]
        t, u, i, j = z3.Int("t!x"), z3.Int("u!x"), z3.Int("i!x"), z3.Int("j!x")
        if S.at_call_site:
            where, bw = ret.ghost["where"], ret.ghost["bw"]
            rt = lambda t_: T.tz(ret.fn(t_))
            yield "positions-of-common-rows", T.ForAll(
                [t], z3.Implies(z3.And(0 <= t, T.tz(t < L)), z3.And(0 <= rt(t), T.tz(rt(t) < n), 0 <= bw(t), T.tz(bw(t) < m), rb(bw(t)) == ra(rt(t)), where(rt(t)) == t)), [ret.fn(t)])
            yield "every-common-row-listed", T.ForAll(
                [i, j], z3.Implies(z3.And(0 <= i, T.tz(i < n), 0 <= j, T.tz(j < m), ra(i) == rb(j)), z3.And(0 <= where(i), T.tz(where(i) < L), rt(where(i)) == i)), [[ra(i), rb(j)]])
            ret.in_range_of = n
            ret.distinct = True
            return
        if a.get("__any__"):
            yield from _any_rows_clauses(S, A, B, ret, "intersect")
            return
        yield "positions-of-common-rows", T.ForAll(
            [t], z3.Implies(z3.And(0 <= t, T.tz(t < L)), z3.And(0 <= T.tz(ret.fn(t)), T.tz(ret.fn(t) < n),
                                                          T.Exists([j], z3.And(0 <= j, T.tz(j < m), rb(j) == ra(T.tz(ret.fn(t))))))))
        g = S.body_ghosts
        rg = _row_ghosts(S, A, B)
        if rg is not None and g.get("select") and g.get("call:tt_ismember_rows"):
            # Proof by explicit witnesses.  Row j of B is unique row invB(j), which sits at position
            # s(j) = pinvB(invB(j)) of the first-occurrence ordering B' that is searched; A' = A because
            # the rows of A are distinct (pigeonhole); the rank of s(j) among the matched rows is rk(s(j)).
            (mA, idxA, invA), (mB, idxB, invB), (pA, pinvA), (pB, pinvB) = rg
            (_, sel, rk) = g["select"][-1]
            matched, loc = g["call:tt_ismember_rows"][0]
            sj = lambda j_: pinvB(invB(j_))
            yield "lemma:A'-is-A", z3.And(mA == T.tz(n), T.ForAll([i], z3.Implies(z3.And(0 <= i, T.tz(i < n)), idxA(pA(i)) == i), [pA(i)])), "lemma"
            yield "lemma:row-j-of-B-sits-at-s(j)-in-B'", T.ForAll(
                [j], z3.Implies(z3.And(0 <= j, T.tz(j < m)), z3.And(0 <= sj(j), sj(j) < mB, rb(idxB(pB(sj(j)))) == rb(j))), [rb(j)]), "lemma"
            yield "lemma:s(j)-is-matched-at-i", T.ForAll(
                [i, j], z3.Implies(z3.And(0 <= i, T.tz(i < n), 0 <= j, T.tz(j < m), ra(i) == rb(j)),
                                   z3.And(T.tz(matched.fn(sj(j))), T.tz(loc.fn(sj(j))) == i)), [[ra(i), rb(j)]]), "lemma"
            w = lambda j_: rk(sj(j_))
            yield "every-common-row-listed(witness)", T.ForAll(
                [i, j], z3.Implies(z3.And(0 <= i, T.tz(i < n), 0 <= j, T.tz(j < m), ra(i) == rb(j)),
                                   z3.And(0 <= w(j), T.tz(w(j) < L), T.tz(ret.fn(w(j))) == i)), [[ra(i), rb(j)]]), "lemma"
        else:
            yield "every-common-row-listed", T.ForAll(
                [i, j], z3.Implies(z3.And(0 <= i, T.tz(i < n), 0 <= j, T.tz(j < m), ra(i) == rb(j)),
                                   T.Exists([t], z3.And(0 <= t, T.tz(t < L), T.tz(ret.fn(t)) == i))))
        yield "no-repetition", T.ForAll(
            [t, u], z3.Implies(z3.And(0 <= t, t < u, T.tz(u < L)), T.tz(ret.fn(t)) != T.tz(ret.fn(u))))


@register
class tt_setdiff_rows(Contract):
    qual = "pyttb.pyttb_utils.tt_setdiff_rows"
    props = ("C17", "C03", "C06", "C04")
    doc = (
        "For A with pairwise distinct rows and arbitrary B: the result is the strictly ascending "
        "list of exactly the positions i of A whose row does not occur in B."
    )

    def case_names(self):
        return ["distinct-rows", "any-rows"]

    def setup(self, S, case):
        n, m = S.nat("n"), S.nat("m")
        c = S.int("c", 1)
        A = S.row_matrix("A", n, c)
        B = S.row_matrix("B", m, c)
        if case == "any-rows":
            return dict(MatrixA=A, MatrixB=B, __any__=True)
        posA = _distinct_rows(S, A, "A")
        return dict(MatrixA=A, MatrixB=B, __posA__=posA)

    def requires(self, S, a):
        yield from _rows_requires(S, a)

    def fresh_result(self, S, a):
        L = S.nat("L")
        r = Arr.fresh("absent", (L,), "int")
        r.ghost["where"] = T.fresh_fun("where", z3.IntSort(), z3.IntSort())
        return r

    def ensures(self, S, a, ret):
        A, B = a["MatrixA"], a["MatrixB"]
        n, m = A.shape[0], B.shape[0]
        ra, rb = N.ensure_rows(S.ctx, A), N.ensure_rows(S.ctx, B)
        yield "vector", ret.ndim == 1
        L = ret.shape[0]
        t, u, i, j = z3.Int("t!x"), z3.Int("u!x"), z3.Int("i!x"), z3.Int("j!x")
        if S.at_call_site:
            where = ret.ghost["where"]
            rt = lambda t_: T.tz(ret.fn(t_))
            yield "strictly-ascending", T.ForAll([t, u], z3.Implies(z3.And(0 <= t, t < u, T.tz(u < L)), rt(t) < rt(u)), [[ret.fn(t), ret.fn(u)]])
            yield "positions-of-rows-absent-from-B", T.ForAll(
                [t], z3.Implies(z3.And(0 <= t, T.tz(t < L)), z3.And(0 <= rt(t), T.tz(rt(t) < n), where(rt(t)) == t,
                                                              T.ForAll([j], z3.Implies(z3.And(0 <= j, T.tz(j < m)), rb(j) != ra(rt(t))), [rb(j)]))), [ret.fn(t)])
            yield "every-absent-row-listed", T.ForAll(
                [i], z3.Implies(z3.And(0 <= i, T.tz(i < n), T.ForAll([j], z3.Implies(z3.And(0 <= j, T.tz(j < m)), rb(j) != ra(i)), [rb(j)])),
                                z3.And(0 <= where(i), T.tz(where(i) < L), rt(where(i)) == i)), [ra(i)])
            ret.in_range_of = n
            ret.distinct = True
            ret.sorted_strict = True
            return
        if a.get("__any__"):
            yield from _any_rows_clauses(S, A, B, ret, "setdiff")
            return
        g = S.body_ghosts
        rg = _row_ghosts(S, A, B)
        full = rg is not None and g.get("select") and g.get("call:tt_ismember_rows") and g.get("setdiff1d")
        if full:
            (mA, idxA, invA), (mB, idxB, invB), (pA, pinvA), (pB, pinvB) = rg
            (_, sel, rk) = g["select"][-1]
            matched, loc = g["call:tt_ismember_rows"][0]
            (_, sdpos, sdslot) = g["setdiff1d"][-1]
            sj = lambda j_: pinvB(invB(j_))
            yield "lemma:A'-is-A", z3.And(mA == T.tz(n), T.ForAll([i], z3.Implies(z3.And(0 <= i, T.tz(i < n)), idxA(pA(i)) == i), [pA(i)])), "lemma"
            yield "lemma:idxA-onto", T.ForAll([i], z3.Implies(z3.And(0 <= i, T.tz(i < n)), z3.And(0 <= pA(i), pA(i) < mA, idxA(pA(i)) == i)), [pA(i)]), "lemma"
            yield "lemma:row-j-of-B-sits-at-s(j)-in-B'", T.ForAll(
                [j], z3.Implies(z3.And(0 <= j, T.tz(j < m)), z3.And(0 <= sj(j), sj(j) < mB, rb(idxB(pB(sj(j)))) == rb(j))), [rb(j)]), "lemma"
            yield "lemma:s(j)-is-matched-at-i", T.ForAll(
                [i, j], z3.Implies(z3.And(0 <= i, T.tz(i < n), 0 <= j, T.tz(j < m), ra(i) == rb(j)),
                                   z3.And(T.tz(matched.fn(sj(j))), T.tz(loc.fn(sj(j))) == i)), [[ra(i), rb(j)]]), "lemma"
        yield "strictly-ascending", T.ForAll([t, u], z3.Implies(z3.And(0 <= t, t < u, T.tz(u < L)), T.tz(ret.fn(t)) < T.tz(ret.fn(u))))
        yield "positions-of-rows-absent-from-B", T.ForAll(
            [t, j], z3.Implies(z3.And(0 <= t, T.tz(t < L), 0 <= j, T.tz(j < m)),
                               z3.And(0 <= T.tz(ret.fn(t)), T.tz(ret.fn(t) < n), rb(j) != ra(T.tz(ret.fn(t))))))
        if full:
            # witness for completeness: position i of A is value idxA(pA(i)) = i of the first argument of
            # setdiff1d, at index pA(i); its slot in the result is sdslot(pA(i))
            w = lambda i_: sdslot(pA(i_))
            yield "every-absent-row-listed(witness)", T.ForAll(
                [i], z3.Implies(z3.And(0 <= i, T.tz(i < n), T.ForAll([j], z3.Implies(z3.And(0 <= j, T.tz(j < m)), rb(j) != ra(i)))),
                                z3.And(0 <= w(i), T.tz(w(i) < L), T.tz(ret.fn(w(i))) == i)), [ra(i)]), "lemma"
        else:
            yield "every-absent-row-listed", T.ForAll(
                [i], z3.Implies(z3.And(0 <= i, T.tz(i < n), T.ForAll([j], z3.Implies(z3.And(0 <= j, T.tz(j < m)), rb(j) != ra(i)))),
                                T.Exists([t], z3.And(0 <= t, T.tz(t < L), T.tz(ret.fn(t)) == i))))


@register
class tt_union_rows(Contract):
    qual = "pyttb.pyttb_utils.tt_union_rows"
    props = ("C17", "C03")
    doc = (
        "For arbitrary A and B (rows may repeat): the result lists, without repetition, exactly the rows that "
        "occur in A or in B -- first the distinct rows of B that do not occur in A, then the distinct rows of A, each group "
        "in order of first occurrence; if one operand has no rows, the distinct rows of the other one."
    )

    def case_names(self):
        return ["non-empty", "A-empty", "B-empty"]

    def setup(self, S, case):
        if case != "non-empty":
            S.ctx.select_count_fact = True   # "a selection that skips nothing selects everything" (lemma L8)
        n = S.int("n", 1) if case != "A-empty" else 0
        m = S.int("m", 1) if case != "B-empty" else 0
        c = S.int("c", 1)
        A = S.row_matrix("A", n, c)
        B = S.row_matrix("B", m, c)
        return dict(MatrixA=A, MatrixB=B, __case__=case)

    def _one_sided(self, S, a, ret):
        """One operand has no rows: the result lists the distinct rows of the other one, in order of first occurrence."""
        A, B = a["MatrixA"], a["MatrixB"]
        X = B if a["__case__"] == "A-empty" else A
        k, rx = X.shape[0], X.rowfn
        yield "matrix", isinstance(ret, Arr) and ret.ndim == 2
        L = ret.shape[0]
        rr = N.ensure_rows(S.ctx, ret)
        t, u, i = z3.Int("un!t"), z3.Int("un!u"), z3.Int("un!i")
        g = S.body_ghosts
        ux = next((e for e in g.get("unique@src", []) if e["rowfn"] is rx), None)
        px = next((e["ghost"] for e in g.get("argsort@src", []) if ux is not None and e["src"] is ux["idx_arr"]), None)
        if ux is None or px is None:
            raise PathAbort("tt_union_rows contract: expected ghosts of unique / argsort of the non-empty operand")
        (mX, idxX, invX), (pX, pinvX) = ux["ghost"], px
        yield "length-is-the-number-of-distinct-rows", S.eq(L, mX)
        src = lambda t_: idxX(pX(t_))
        yield "lemma:result-rows-are-rows-of-the-operand", T.ForAll(
            [t], z3.Implies(z3.And(0 <= t, T.tz(t < L)), z3.And(0 <= src(t), T.tz(src(t) < k), rr(t) == rx(src(t)))), [rr(t)]), "lemma"
        w = lambda i_: pinvX(invX(i_))
        yield "every-row-of-the-operand-occurs", T.ForAll([i], z3.Implies(z3.And(0 <= i, T.tz(i < k)), z3.And(0 <= w(i), T.tz(w(i) < L), rr(w(i)) == rx(i))), [rx(i)])
        yield "rows-pairwise-distinct", T.ForAll([t, u], z3.Implies(z3.And(0 <= t, t < u, T.tz(u < L)), rr(t) != rr(u)))
        yield "in-order-of-first-occurrence", T.ForAll([t, u], z3.Implies(z3.And(0 <= t, t < u, T.tz(u < L)), src(t) < src(u)))

    def ensures(self, S, a, ret):
        if a.get("__case__") in ("A-empty", "B-empty"):
            yield from self._one_sided(S, a, ret)
            return
        A, B = a["MatrixA"], a["MatrixB"]
        n, m = A.shape[0], B.shape[0]
        ra, rb = A.rowfn, B.rowfn
        yield "matrix", isinstance(ret, Arr) and ret.ndim == 2
        L = ret.shape[0]
        rr = N.ensure_rows(S.ctx, ret)
        t, u, i, j = z3.Int("un!t"), z3.Int("un!u"), z3.Int("un!i"), z3.Int("un!j")
        g = S.body_ghosts
        rg = _row_ghosts(S, A, B)
        if rg is None or not g.get("select") or not g.get("call:tt_ismember_rows"):
            raise PathAbort("tt_union_rows contract: expected ghosts of unique / argsort / where / tt_ismember_rows")
        (mA, idxA, invA), (mB, idxB, invB), (pA, pinvA), (pB, pinvB) = rg
        (K, sel, rk) = g["select"][-1]
        matched, loc = g["call:tt_ismember_rows"][0]
        yield "length", S.eq(L, K + mA)
        # where each result row comes from
        srcB = lambda t_: idxB(pB(sel(t_)))
        srcA = lambda t_: idxA(pA(t_ - K))
        yield "lemma:first-part-are-rows-of-B", T.ForAll([t], z3.Implies(z3.And(0 <= t, t < K), z3.And(0 <= srcB(t), T.tz(srcB(t) < m), rr(t) == rb(srcB(t)))), [rr(t)]), "lemma"
        yield "lemma:second-part-are-rows-of-A", T.ForAll([t], z3.Implies(z3.And(K <= t, T.tz(t < L)), z3.And(0 <= srcA(t), T.tz(srcA(t) < n), rr(t) == ra(srcA(t)))), [rr(t)]), "lemma"
        yield "every-result-row-occurs-in-A-or-B", T.ForAll(
            [t], z3.Implies(z3.And(0 <= t, T.tz(t < L)), z3.Or(z3.And(t < K, rr(t) == rb(srcB(t))), z3.And(t >= K, rr(t) == ra(srcA(t))))), [rr(t)])
        # every row of A occurs: row i is unique row invA(i), at position K + pinvA(invA(i))
        wA = lambda i_: K + pinvA(invA(i_))
        yield "every-row-of-A-occurs", T.ForAll([i], z3.Implies(z3.And(0 <= i, T.tz(i < n)), z3.And(0 <= wA(i), T.tz(wA(i) < L), rr(wA(i)) == ra(i))), [ra(i)]), "lemma"
        # every row of B occurs: unique row invB(j) sits at sorted position s(j); if it is not found among the rows of A it
        # is selected with rank rk(s(j)); otherwise it equals the row of A it was found at
        sj = lambda j_: pinvB(invB(j_))
        wB = lambda j_: z3.If(T.tz(loc.fn(sj(j_))) < 0, rk(sj(j_)), K + T.tz(loc.fn(sj(j_))))
        yield "lemma:row-j-of-B-is-searched-at-s(j)", T.ForAll(
            [j], z3.Implies(z3.And(0 <= j, T.tz(j < m)), z3.And(0 <= sj(j), sj(j) < mB, rb(idxB(pB(sj(j)))) == rb(j))), [rb(j)]), "lemma"
        yield "every-row-of-B-occurs", T.ForAll([j], z3.Implies(z3.And(0 <= j, T.tz(j < m)), z3.And(0 <= wB(j), T.tz(wB(j) < L), rr(wB(j)) == rb(j))), [rb(j)])
        yield "rows-pairwise-distinct", T.ForAll([t, u], z3.Implies(z3.And(0 <= t, t < u, T.tz(u < L)), rr(t) != rr(u)))


# ======================================================================= Khatri-Rao product

I_ = z3.IntSort()


def _kr_spec(S, p, rows, M, R, eff, tag):
    """Specification: the column-wise Kronecker product of the matrices M(eff(0)), ..., M(eff(k)) by left fold.

        KR_0[q, r]  = M_0[q, r]                                  Q_0 = rows_0
        KR_k[q, r]  = KR_{k-1}[q div I_k, r] * M_k[q mod I_k, r]  Q_k = Q_{k-1} * I_k     (I_k = rows of M_k)

    i.e. column r of KR_k is kron(column r of KR_{k-1}, column r of M_k): the index of the last matrix varies fastest.
    These are the defining equations of the spec functions W (entries) and Q (row counts), not assumptions on the code."""
    from pyvc.values import SymList  # noqa: F401
    W = z3.Function(T.fresh_name(tag + "_KR"), I_, I_, I_, z3.RealSort())
    Q = z3.Function(T.fresh_name(tag + "_Q"), I_, I_)
    k, q, r = z3.Int(tag + "!k"), z3.Int(tag + "!q"), z3.Int(tag + "!r")
    S.assume(T.ForAll([q, r], W(0, q, r) == M(eff(0), q, r), [W(0, q, r)]))
    S.assume(T.ForAll([k, q, r], z3.Implies(k >= 1, W(k, q, r) == M(eff(k), q % rows(eff(k)), r) * W(k - 1, q / rows(eff(k)), r)), [W(k, q, r)]))
    S.assume(Q(0) == rows(eff(0)))
    S.assume(T.ForAll([k], z3.Implies(k >= 1, Q(k) == rows(eff(k)) * Q(k - 1)), [Q(k)]))
    return W, Q


@register
class khatrirao(Contract):
    qual = "pyttb.khatrirao.khatrirao"
    props = ("C17", "C02", "C01")
    doc = (
        "khatrirao(M_0, ..., M_{p-1}) for ANY number p >= 1 of real matrices with a common column count R >= 1 (any row "
        "counts, zero included): the result has prod(rows) rows and R columns and equals the column-wise Kronecker product "
        "by left fold, KR_k[q, r] = KR_{k-1}[q div I_k, r] * M_k[q mod I_k, r] (the last matrix's row index varies fastest); "
        "with reverse=True the same for the reversed list.  Loop invariant over the matrices."
    )

    def case_names(self):
        return ["forward", "reverse", "any-column-counts"]

    def setup(self, S, case):
        from pyvc.values import SymList
        p = S.int("p", 1)
        rows = z3.Function(T.fresh_name("kr_rows"), I_, I_)
        cols = z3.Function(T.fresh_name("kr_cols"), I_, I_)
        M = z3.Function(T.fresh_name("kr_M"), I_, I_, I_, z3.RealSort())
        m = z3.Int("kr!m")
        S.assume(T.ForAll([m], rows(m) >= 0, [rows(m)]))
        S.assume(T.ForAll([m], cols(m) >= 0, [cols(m)]))
        if case == "any-column-counts":
            # nothing assumed about the column counts: the call must raise unless they all agree
            R = cols(0)
            S.assume(R >= 1)
            ncol = lambda mm: cols(T.tz(mm))
        else:
            R = S.int("R", 1)
            ncol = lambda mm: R
        mats = SymList(p, lambda mm: Arr((rows(T.tz(mm)), ncol(mm)), lambda i, j, mm=mm: M(T.tz(mm), T.tz(i), T.tz(j)), "real"), kind="tuple")
        rev = case == "reverse"
        eff = (lambda k: p - 1 - k) if rev else (lambda k: T.tz(k))
        W, Q = _kr_spec(S, p, rows, M, R, eff, "kr")
        a = dict(matrices=mats, __g__=dict(p=p, R=R, rows=rows, cols=cols, M=M, eff=eff, W=W, Q=Q, free_cols=(case == "any-column-counts")))
        if rev:
            a["reverse"] = True
        return a

    def raises_when(self, S, a):
        g = a["__g__"]
        if g["free_cols"]:
            m = z3.Int("kr!rm")
            yield "column-counts-differ", T.Exists([m], z3.And(0 <= m, m < g["p"], g["cols"](m) != g["cols"](0)))

    @staticmethod
    def _inv(S, a, env, i):
        g = a["__g__"]
        P = env["P"]
        rows, M, eff, W, Q, R = g["rows"], g["M"], g["eff"], g["W"], g["Q"], g["R"]
        i = T.tz(i)
        if not isinstance(P, Arr):
            return False
        if g["free_cols"]:
            # the validation before the loop established equal column counts; the instance for the matrix of
            # the coming iteration is carried along (the loop runs over matrices[1:], so that matrix is i + 1)
            nxt = z3.Implies(i + 1 < g["p"], g["cols"](i + 1) == R)
        else:
            nxt = z3.BoolVal(True)
        if P.ndim == 2:
            # no iteration done yet: P is still the first matrix (the executor keeps the very object)
            return z3.And(i == 0, nxt)
        if P.ndim != 3:
            return False
        Pn = N.snap(P)
        x, q, r = z3.Int("kri!a"), z3.Int("kri!q"), z3.Int("kri!r")
        A_, B_ = T.tz(Pn.shape[0]), T.tz(Pn.shape[1])
        return z3.And(nxt, i >= 1, A_ == rows(eff(i)), B_ == Q(i - 1), T.tz(T.eq(Pn.shape[2], R)),
                      T.ForAll([x, q, r], z3.Implies(z3.And(0 <= x, x < A_, 0 <= q, q < B_, 0 <= r, r < R),
                                                     T.tz(Pn.fn(x, q, r)) == M(eff(i), x, r) * W(i - 1, q, r)), [Pn.fn(x, q, r)]))

    @staticmethod
    def _havoc(S, a, env, name):
        # P is either still the first matrix (2-D) or an arbitrary 3-D array constrained by the invariant
        if S.ctx.choice("khatrirao:P-is-the-first-matrix"):
            return env[name]
        g = a["__g__"]
        A_, B_ = S.nat("krA"), S.nat("krB")
        return Arr.fresh("P", (A_, B_, g["R"]), "real")

    loops = {0: dict(modifies=["P"],
                     inv=lambda S, a, env, i: khatrirao._inv(S, a, env, i),
                     havoc=lambda S, a, env, name: khatrirao._havoc(S, a, env, name))}

    def ensures(self, S, a, ret):
        g = a["__g__"]
        p, R, W, Q = g["p"], g["R"], g["W"], g["Q"]
        yield "matrix", isinstance(ret, Arr) and ret.ndim == 2
        if not (isinstance(ret, Arr) and ret.ndim == 2):
            return
        yield "row-count-is-the-product-of-the-row-counts", S.eq(ret.shape[0], Q(p - 1))
        yield "column-count-kept", S.eq(ret.shape[1], R)
        q, r = z3.Int("kre!q"), z3.Int("kre!r")
        rn = N.snap(ret)
        yield "entries-are-the-columnwise-Kronecker-product", T.ForAll(
            [q, r], z3.Implies(z3.And(0 <= q, q < Q(p - 1), 0 <= r, r < R), T.tz(rn.fn(q, r)) == W(p - 1, q, r)))
