"""Contracts for pyttb.sptensor.sptensor (C03, C06, C07, C01-sparse, C19).

Abstract view: a well-formed sparse tensor S denotes Den(S): in-range row -> value, with
Den(S)(r) = vals[k] if r is stored row k, else 0.  Postconditions are stated in the
"stored entries + absent rows" form, which is equivalent to a pointwise statement about Den
once the result's rows are pairwise distinct (its own obligation):
  (i)   rows of the result pairwise distinct and inside the shape       [WF, C06]
  (ii)  every stored row k of the result holds value f(row)             [sound]
  (iii) every in-range row r with f(r) != 0 is stored in the result     [complete]
where f(r) = op(Den(self)(r), Den(other)(r)) is written with the ghost look-up functions
of the *operands* (find_self, find_other), which exist because the operands are well-formed.
"""

import z3

from pyvc import npsym as N
from pyvc import terms as T
from pyvc.contract import Contract, register
from pyvc.values import Arr, Rec

I = z3.IntSort()
Q = "pyttb.sptensor.sptensor."


def sym_sptensor(S, name, Nn=None, zero_free=True, shape=None):
    """A well-formed sptensor with symbolic order, nnz, shape, subscripts and values, and the
    ghost look-up function of its denotation."""
    ctx = S.ctx
    if shape is None:
        Nn = Nn if Nn is not None else S.int(name + "_N", 1)
        shape = S.vector(name + "_shape", Nn, "int", kind="tuple")
        S.assume(S.forall(0, Nn, lambda q: shape.fn(q) >= 1, pats=lambda q: [shape.fn(q)]))
    else:
        Nn = shape.shape[0]
    n = S.nat(name + "_nnz")
    subs = S.row_matrix(name + "_subs", n, Nn)
    vals = S.matrix(name + "_vals", n, 1, "real")
    rec = Rec("sptensor", dict(subs=subs, vals=vals, shape=shape))
    srow = N.seq_as_row(ctx, shape)
    rf = subs.rowfn
    i, j = z3.Int(name + "!i"), z3.Int(name + "!j")
    # WF: rows inside the shape, pairwise distinct, (optionally) no stored zero
    for ax in N.mixed_radix_axioms():
        ctx.assume(ax)
    ctx.assume(T.ForAll([i], z3.Implies(z3.And(0 <= i, i < n), N.INRNG(srow, rf(i))), [rf(i)]))
    find = z3.Function(T.fresh_name(name + "_find"), N.Row, I)
    r = z3.Const(name + "!r", N.Row)
    # find(row k) = k  (this *is* pairwise distinctness), and find(r) = -1 or a position holding r
    ctx.assume(T.ForAll([i], z3.Implies(z3.And(0 <= i, i < n), find(rf(i)) == i), [rf(i)]))
    ctx.assume(T.ForAll([r], z3.Or(find(r) == -1, z3.And(0 <= find(r), find(r) < n, rf(find(r)) == r)), [find(r)]))
    if zero_free:
        ctx.assume(T.ForAll([i], z3.Implies(z3.And(0 <= i, i < n), T.tz(vals.fn(i, 0)) != 0), [vals.fn(i, 0)]))
    rec.ghost = dict(find=find, n=n, srow=srow, N=Nn)
    return rec


def den(rec, r):
    """Den(S)(r) for an operand built by sym_sptensor."""
    find = rec.ghost["find"]
    vals = rec.fields["vals"]
    return z3.If(find(r) >= 0, T.tz(vals.fn(find(r), 0)), z3.RealVal(0))


def result_parts(ret):
    subs, vals, shape = ret.fields["subs"], ret.fields["vals"], ret.fields["shape"]
    return subs, vals, shape


def wf_clauses(S, ret, srow, Nn, tag="result"):
    """(label, formula) clauses for WF_sp(ret) apart from value statements."""
    subs, vals, shape = result_parts(ret)
    out = []
    out.append((f"{tag}:arrays-2-D", S.And(subs.ndim == 2, vals.ndim == 2)))
    if subs.ndim != 2 or vals.ndim != 2:
        return out
    m = subs.shape[0]
    out.append((f"{tag}:one-value-per-subscript", S.And(S.eq(vals.shape[0], m), S.eq(vals.shape[1], 1))))
    out.append((f"{tag}:one-column-per-mode", S.Or(S.eq(m, 0), S.eq(subs.shape[1], Nn))))
    rf = N.ensure_rows(S.ctx, subs)
    i, j = z3.Int("wf!i"), z3.Int("wf!j")
    out.append((f"{tag}:subscripts-inside-shape", T.ForAll([i], z3.Implies(z3.And(0 <= i, T.tz(i < m)), N.INRNG(srow, rf(i))))))
    out.append((f"{tag}:subscripts-pairwise-distinct", T.ForAll([i, j], z3.Implies(z3.And(0 <= i, i < j, T.tz(j < m)), rf(i) != rf(j)))))
    return out


def shape_equal(S, shape_a, shape_b):
    la, lb = shape_a.shape[0] if isinstance(shape_a, Arr) else len(shape_a), shape_b.shape[0] if isinstance(shape_b, Arr) else len(shape_b)
    at = lambda s, q: s.fn(q) if isinstance(s, Arr) else s[q]
    return S.And(S.eq(la, lb), S.forall(0, la, lambda q: S.eq(at(shape_a, q), at(shape_b, q))))


INLINE_CTOR = (
    Q + "__init__", "pyttb.pyttb_utils.parse_shape", "pyttb.pyttb_utils.tt_sizecheck",
    "pyttb.pyttb_utils.parse_one_d",
)


@register
class mul_sparse(Contract):
    qual = Q + "__mul__"
    props = ("C03", "C06", "C19")
    doc = (
        "S * c: same subscripts, values c*v.  S * O (both well-formed, same shape): the result is "
        "well-formed, stores exactly the subscripts stored in both with the product of the two values "
        "there (so Den(result) = Den(S) .* Den(O)), whatever the stored orders; different shapes raise."
    )
    inline = INLINE_CTOR

    def case_names(self):
        return ["sptensor", "scalar"]

    def setup(self, S, case):
        A = sym_sptensor(S, "A")
        if case == "scalar":
            return dict(__self__=A, other=S.real("c"))
        B = sym_sptensor(S, "B")
        return dict(__self__=A, other=B)

    def raises_when(self, S, a):
        A, B = a["__self__"], a["other"]
        if isinstance(B, Rec):
            yield "shape-mismatch", S.Not(shape_equal(S, A.fields["shape"], B.fields["shape"]))

    def ensures(self, S, a, ret):
        A, B = a["__self__"], a["other"]
        g = A.ghost
        yield "returns-sptensor", isinstance(ret, Rec) and ret.cls == "sptensor"
        yield "shape-kept", shape_equal(S, ret.fields["shape"], A.fields["shape"])
        for c in wf_clauses(S, ret, g["srow"], g["N"]):
            yield c
        subs, vals, _ = result_parts(ret)
        m = subs.shape[0]
        rf = N.ensure_rows(S.ctx, subs)
        k = z3.Int("e!k")
        r = z3.Const("e!r", N.Row)
        if isinstance(B, Rec):
            f = lambda row: den(A, row) * den(B, row)
        else:
            f = lambda row: den(A, row) * T.tz(T.as_real(B))
        yield "stored-values-are-the-products", T.ForAll(
            [k], z3.Implies(z3.And(0 <= k, T.tz(k < m)), T.tz(vals.fn(k, 0)) == f(rf(k)))
        )
        if isinstance(B, Rec):
            # complete: every row stored in both operands is stored in the result
            i = z3.Int("e!i")
            nA = g["n"]
            rfa = A.fields["subs"].rowfn
            findB = B.ghost["find"]
            yield "every-common-subscript-is-stored", T.ForAll(
                [i],
                z3.Implies(
                    z3.And(0 <= i, i < nA, findB(rfa(i)) >= 0),
                    T.Exists([k], z3.And(0 <= k, T.tz(k < m), rf(k) == rfa(i))),
                ),
            )
            yield "no-explicit-zero", T.ForAll([k], z3.Implies(z3.And(0 <= k, T.tz(k < m)), T.tz(vals.fn(k, 0)) != 0))
        else:
            yield "same-subscripts", S.And(S.eq(m, g["n"]), T.ForAll([k], z3.Implies(z3.And(0 <= k, k < g["n"]), rf(k) == A.fields["subs"].rowfn(k))))
