"""Contracts for pyttb.sptensor.sptensor (C03, C06, C07, C01-sparse, C19).

Abstract view: a well-formed sparse tensor S denotes Den(S): in-range row -> value, with
Den(S)(r) = vals[k] if r is stored row k, else 0.  Postconditions are stated in the
"stored entries + absent rows" form, which is equivalent to a pointwise statement about Den
once the result's rows are pairwise distinct (its own obligation):
  (i)   rows of the result pairwise distinct and inside the shape       [WF, C06]
  (ii)  every stored row k of the result holds value f(row)             [sound]
  (iii) every in-range row r with f(r) != 0 is stored in the result     [complete]
where f(r) = op(Den(self)(r), Den(other)(r)) is written with the ghost look-up functions
of the *operands* (find_self, find_other), which exist because the operands are well-formed.
"""

import z3

from pyvc import npsym as N
from pyvc import terms as T
from pyvc.contract import Contract, register
from pyvc.ctx import PathAbort
from pyvc.values import Arr, Rec

I = z3.IntSort()
Q = "pyttb.sptensor.sptensor."


def sym_sptensor(S, name, Nn=None, zero_free=True, shape=None):
    """A well-formed sptensor with symbolic order, nnz, shape, subscripts and values, and the
    ghost look-up function of its denotation."""
    ctx = S.ctx
    if shape is None:
        Nn = Nn if Nn is not None else S.int(name + "_N", 1)
        shape = S.vector(name + "_shape", Nn, "int", kind="tuple")
        S.assume(S.forall(0, Nn, lambda q: shape.fn(q) >= 1, pats=lambda q: [shape.fn(q)]))
    else:
        Nn = shape.shape[0]
    n = S.nat(name + "_nnz")
    subs = S.row_matrix(name + "_subs", n, Nn)
    vals = S.matrix(name + "_vals", n, 1, "real")
    rec = Rec("sptensor", dict(subs=subs, vals=vals, shape=shape))
    srow = N.seq_as_row(ctx, shape)
    rf = subs.rowfn
    i, j = z3.Int(name + "!i"), z3.Int(name + "!j")
    # WF: rows inside the shape, pairwise distinct, (optionally) no stored zero
    for ax in N.mixed_radix_axioms():
        ctx.assume(ax)
    ctx.assume(T.ForAll([i], z3.Implies(z3.And(0 <= i, i < n), N.INRNG(srow, rf(i))), [rf(i)]))
    find = z3.Function(T.fresh_name(name + "_find"), N.Row, I)
    r = z3.Const(name + "!r", N.Row)
    # find(row k) = k  (this *is* pairwise distinctness), and find(r) = -1 or a position holding r
    ctx.assume(T.ForAll([i], z3.Implies(z3.And(0 <= i, i < n), find(rf(i)) == i), [rf(i)]))
    ctx.assume(T.ForAll([r], z3.Or(find(r) == -1, z3.And(0 <= find(r), find(r) < n, rf(find(r)) == r)), [find(r)]))
    if zero_free:
        ctx.assume(T.ForAll([i], z3.Implies(z3.And(0 <= i, i < n), T.tz(vals.fn(i, 0)) != 0), [vals.fn(i, 0)]))
    rec.ghost = dict(find=find, n=n, srow=srow, N=Nn)
    return rec


def attach_ghost(S, rec):
    """Ghost look-up view of an sptensor record whose well-formedness (rows pairwise distinct)
    has just been ASSUMED from a callee's postcondition: for pairwise distinct rows a look-up
    function exists, so introducing it is a conservative extension."""
    if not (isinstance(rec, Rec) and rec.cls == "sptensor") or hasattr(rec, "ghost") and "find" in getattr(rec, "ghost", {}):
        return
    subs, shape = rec.fields["subs"], rec.fields["shape"]
    if not isinstance(subs, Arr) or subs.ndim != 2:
        return
    ctx = S.ctx
    n = subs.shape[0]
    rf = N.ensure_rows(ctx, subs)
    srow = N.seq_as_row(ctx, shape)
    find = z3.Function(T.fresh_name("res_find"), N.Row, I)
    i = T.fresh_int("i")
    r = z3.Const(T.fresh_name("r"), N.Row)
    ctx.assume(T.ForAll([i], z3.Implies(z3.And(0 <= i, T.tz(i < n)), find(rf(i)) == i), [rf(i)]))
    ctx.assume(T.ForAll([r], z3.Or(find(r) == -1, z3.And(0 <= find(r), T.tz(find(r) < n), rf(find(r)) == r)), [find(r)]))
    g = dict(getattr(rec, "ghost", {}) or {})
    g.update(find=find, n=n, srow=srow, N=seq_view(shape)[0])
    rec.ghost = g


def den(rec, r):
    """Den(S)(r) for an operand built by sym_sptensor."""
    find = rec.ghost["find"]
    vals = rec.fields["vals"]
    return z3.If(find(r) >= 0, T.tz(vals.fn(find(r), 0)), z3.RealVal(0))


def result_parts(ret):
    subs, vals, shape = ret.fields["subs"], ret.fields["vals"], ret.fields["shape"]
    return subs, vals, shape


def wf_clauses(S, ret, srow, Nn, tag="result"):
    """(label, formula) clauses for WF_sp(ret) apart from value statements."""
    subs, vals, shape = result_parts(ret)
    out = []
    out.append((f"{tag}:arrays-2-D", S.And(subs.ndim == 2, vals.ndim == 2)))
    if subs.ndim != 2 or vals.ndim != 2:
        return out
    m = subs.shape[0]
    out.append((f"{tag}:one-value-per-subscript", S.And(S.eq(vals.shape[0], m), S.eq(vals.shape[1], 1))))
    out.append((f"{tag}:one-column-per-mode", S.Or(S.eq(m, 0), S.eq(subs.shape[1], Nn))))
    rf = N.ensure_rows(S.ctx, subs)
    i, j = z3.Int("wf!i"), z3.Int("wf!j")
    out.append((f"{tag}:subscripts-inside-shape", T.ForAll([i], z3.Implies(z3.And(0 <= i, T.tz(i < m)), N.INRNG(srow, rf(i))))))
    cc = getattr(subs, "concat_of", None)
    if cc is not None and cc[2] == 0 and all(getattr(p, "rowfn", None) is not None for p in cc[0]) and not S.at_call_site:
        # stacked blocks: distinctness block by block and across blocks (smaller queries)
        parts = cc[0]
        for x in range(len(parts)):
            rx, nx = parts[x].rowfn, parts[x].shape[0]
            out.append((f"{tag}:subscripts-pairwise-distinct[block{x}]", T.ForAll(
                [i, j], z3.Implies(z3.And(0 <= i, i < j, T.tz(j < nx)), rx(i) != rx(j))), "lemma"))
            for y in range(x + 1, len(parts)):
                ry, ny = parts[y].rowfn, parts[y].shape[0]
                out.append((f"{tag}:subscripts-pairwise-distinct[block{x},block{y}]", T.ForAll(
                    [i, j], z3.Implies(z3.And(0 <= i, T.tz(i < nx), 0 <= j, T.tz(j < ny)), rx(i) != ry(j))), "lemma"))
    out.append((f"{tag}:subscripts-pairwise-distinct", T.ForAll([i, j], z3.Implies(z3.And(0 <= i, i < j, T.tz(j < m)), rf(i) != rf(j)))))
    return out


def seq_view(shape):
    """(length, at) for a shape held as a Python tuple of terms or as a symbolic-length tuple."""
    if isinstance(shape, Arr):
        return shape.shape[0], (lambda q: T.tz(shape.fn(q)))
    items = list(shape)

    def at(q):
        if isinstance(q, int):
            return T.tz(items[q])
        r = T.tz(items[-1]) if items else z3.IntVal(0)
        for k in range(len(items) - 2, -1, -1):
            r = z3.If(q == k, T.tz(items[k]), r)
        return r

    return len(items), at


def shape_equal(S, shape_a, shape_b):
    la, lb = shape_a.shape[0] if isinstance(shape_a, Arr) else len(shape_a), shape_b.shape[0] if isinstance(shape_b, Arr) else len(shape_b)
    at = lambda s, q: s.fn(q) if isinstance(s, Arr) else s[q]
    return S.And(S.eq(la, lb), S.forall(0, la, lambda q: S.eq(at(shape_a, q), at(shape_b, q))))


INLINE_CTOR = (
    Q + "__init__", "pyttb.pyttb_utils.parse_shape", "pyttb.pyttb_utils.tt_sizecheck",
    "pyttb.pyttb_utils.parse_one_d",
)


@register
class mul_sparse(Contract):
    qual = Q + "__mul__"
    props = ("C03", "C06", "C19")
    doc = (
        "S * c: same subscripts, values c*v.  S * O (both well-formed, same shape): the result is "
        "well-formed, stores exactly the subscripts stored in both with the product of the two values "
        "there (so Den(result) = Den(S) .* Den(O)), whatever the stored orders; different shapes raise."
    )
    inline = INLINE_CTOR

    def case_names(self):
        return ["sptensor", "scalar"]

    def setup(self, S, case):
        A = sym_sptensor(S, "A")
        if case == "scalar":
            return dict(__self__=A, other=S.real("c"))
        B = sym_sptensor(S, "B")
        return dict(__self__=A, other=B)

    def raises_when(self, S, a):
        A, B = a["__self__"], a["other"]
        if isinstance(B, Rec):
            yield "shape-mismatch", S.Not(shape_equal(S, A.fields["shape"], B.fields["shape"]))

    def ensures(self, S, a, ret):
        A, B = a["__self__"], a["other"]
        g = A.ghost
        yield "returns-sptensor", isinstance(ret, Rec) and ret.cls == "sptensor"
        yield "shape-kept", shape_equal(S, ret.fields["shape"], A.fields["shape"])
        for c in wf_clauses(S, ret, g["srow"], g["N"]):
            yield c
        subs, vals, _ = result_parts(ret)
        m = subs.shape[0]
        rf = N.ensure_rows(S.ctx, subs)
        k = z3.Int("e!k")
        r = z3.Const("e!r", N.Row)
        if isinstance(B, Rec):
            f = lambda row: den(A, row) * den(B, row)
        else:
            f = lambda row: den(A, row) * T.tz(T.as_real(B))
        yield "stored-values-are-the-products", T.ForAll(
            [k], z3.Implies(z3.And(0 <= k, T.tz(k < m)), T.tz(vals.fn(k, 0)) == f(rf(k)))
        )
        if isinstance(B, Rec):
            # complete: every row stored in both operands is stored in the result
            i = z3.Int("e!i")
            nA = g["n"]
            rfa = A.fields["subs"].rowfn
            findB = B.ghost["find"]
            yield "every-common-subscript-is-stored", T.ForAll(
                [i],
                z3.Implies(
                    z3.And(0 <= i, i < nA, findB(rfa(i)) >= 0),
                    T.Exists([k], z3.And(0 <= k, T.tz(k < m), rf(k) == rfa(i))),
                ),
            )
            yield "no-explicit-zero", T.ForAll([k], z3.Implies(z3.And(0 <= k, T.tz(k < m)), T.tz(vals.fn(k, 0)) != 0))
        else:
            yield "same-subscripts", S.And(S.eq(m, g["n"]), T.ForAll([k], z3.Implies(z3.And(0 <= k, k < g["n"]), rf(k) == A.fields["subs"].rowfn(k))))


def _is_sptensor(ret):
    return isinstance(ret, Rec) and ret.cls == "sptensor"


def _same_rows(S, ret, A):
    subs, vals, _ = result_parts(ret)
    n = A.ghost["n"]
    rf = N.ensure_rows(S.ctx, subs)
    k = z3.Int("sr!k")
    return S.And(S.eq(subs.shape[0], n), T.ForAll([k], z3.Implies(z3.And(0 <= k, k < n), rf(k) == A.fields["subs"].rowfn(k))))


class _ValueMap(Contract):
    """S -> same subscripts, values g(v): shared shape of ones / neg / pos / copy."""
    props = ("C03", "C06")
    inline = INLINE_CTOR

    def g(self, v):
        raise NotImplementedError

    def setup(self, S, case):
        return dict(__self__=sym_sptensor(S, "A"))

    def requires(self, S, a):
        yield "receiver-has-ghost-view", hasattr(a["__self__"], "ghost")

    def fresh_result(self, S, a):
        R = fresh_sptensor_like(S, a["__self__"])
        return R

    def after_result(self, S, a, ret):
        attach_ghost(S, ret)

    def ensures(self, S, a, ret):
        A = a["__self__"]
        g = A.ghost
        yield "returns-sptensor", _is_sptensor(ret)
        yield "shape-kept", shape_equal(S, ret.fields["shape"], A.fields["shape"])
        for c in wf_clauses(S, ret, g["srow"], g["N"]):
            yield c
        yield "same-subscripts-in-the-same-order", _same_rows(S, ret, A)
        subs, vals, _ = result_parts(ret)
        k = z3.Int("vm!k")
        yield "values", T.ForAll([k], z3.Implies(z3.And(0 <= k, k < g["n"]), T.tz(vals.fn(k, 0)) == self.g(T.tz(A.fields["vals"].fn(k, 0)))))
        yield "receiver-unchanged", S.And(A.fields["subs"] is a["__subs0__"] if "__subs0__" in a else True)


@register
class sp_ones(_ValueMap):
    qual = Q + "ones"
    doc = "S.ones(): same subscripts (same order), every stored value 1 (Den = indicator of the pattern); well-formed."
    g = staticmethod(lambda v: z3.RealVal(1))


@register
class sp_neg(_ValueMap):
    qual = Q + "__neg__"
    doc = "-S: same subscripts, values negated; well-formed."
    g = staticmethod(lambda v: -v)


@register
class sp_copy(_ValueMap):
    qual = Q + "copy"
    doc = "S.copy(): same subscripts, same values, same shape."
    g = staticmethod(lambda v: v)


@register
class sp_permute(Contract):
    qual = Q + "permute"
    props = ("C07", "C06", "C19")
    doc = (
        "S.permute(order): order must be a permutation of 0..N-1 (else raises); result subscript "
        "(k, m) = S.subs[k, order[m]], shape[m] = S.shape[order[m]], values unchanged; the result is "
        "well-formed (rows stay pairwise distinct because order is onto)."
    )
    inline = INLINE_CTOR

    def setup(self, S, case):
        A = sym_sptensor(S, "A")
        L = S.nat("L")
        order = S.vector("order", L, "int")
        return dict(__self__=A, order=order)

    @staticmethod
    def _is_perm(S, order, Nn):
        L = order.shape[0]
        q1, q2 = z3.Int("pm!q1"), z3.Int("pm!q2")
        return S.And(
            S.eq(L, Nn),
            S.forall(0, L, lambda q: S.And(0 <= order.fn(q), order.fn(q) < Nn)),
            T.ForAll([q1, q2], z3.Implies(z3.And(0 <= q1, q1 < q2, T.tz(q2 < L)), T.tz(order.fn(q1)) != T.tz(order.fn(q2)))),
        )

    def raises_when(self, S, a):
        A, order = a["__self__"], a["order"]
        yield "not-a-permutation", S.Not(self._is_perm(S, order, A.ghost["N"]))

    def ensures(self, S, a, ret):
        A, order = a["__self__"], a["order"]
        g = A.ghost
        Nn, n = g["N"], g["n"]
        yield "returns-sptensor", _is_sptensor(ret)
        subs, vals, shape = result_parts(ret)
        slen, sat = seq_view(shape)
        m, k = z3.Int("p!m"), z3.Int("p!k")
        gh = S.body_ghosts.get("argsort")
        if gh:
            # the validity check sorts `order`; on a returning path the sorted values are 0..N-1
            p_, pinv_ = gh[-1]
            yield "lemma:order(p(t))==t", T.ForAll([m], z3.Implies(z3.And(0 <= m, m < Nn), z3.And(0 <= p_(m), p_(m) < Nn, T.tz(order.fn(p_(m))) == m)), [p_(m)]), "lemma"
            yield "lemma:order(q)==pinv(q)", T.ForAll([m], z3.Implies(z3.And(0 <= m, m < Nn), z3.And(T.tz(order.fn(m)) == pinv_(m), 0 <= pinv_(m), pinv_(m) < Nn, p_(pinv_(m)) == m)), [order.fn(m)]), "lemma"
        yield "shape-permuted", S.And(S.eq(slen, Nn), T.ForAll([m], z3.Implies(z3.And(0 <= m, m < Nn), sat(m) == T.tz(A.fields["shape"].fn(order.fn(m))))))
        yield "arrays", S.And(subs.ndim == 2, vals.ndim == 2, S.eq(subs.shape[0], n), S.eq(vals.shape[0], n), S.eq(vals.shape[1], 1),
                              S.Or(S.eq(n, 0), S.eq(subs.shape[1], Nn)))
        yield "subscripts-permuted", T.ForAll(
            [k, m], z3.Implies(z3.And(0 <= k, k < n, 0 <= m, m < Nn), T.tz(subs.fn(k, m)) == T.tz(A.fields["subs"].fn(k, order.fn(m)))))
        yield "values-unchanged", T.ForAll([k], z3.Implies(z3.And(0 <= k, k < n), T.tz(vals.fn(k, 0)) == T.tz(A.fields["vals"].fn(k, 0))))
        yield "subscripts-inside-new-shape", T.ForAll(
            [k, m], z3.Implies(z3.And(0 <= k, k < n, 0 <= m, m < Nn), z3.And(0 <= T.tz(subs.fn(k, m)), T.tz(subs.fn(k, m)) < sat(m))))
        # distinct rows: two result rows that agree in every column agree in every column of S (order is onto)
        i, j, c = z3.Int("p!i"), z3.Int("p!j"), z3.Int("p!c")
        As = A.fields["subs"]
        if gh:
            ra = As.rowfn
            w = lambda i_, j_: p_(N.rdiff(ra(i_), ra(j_)))
            yield "rows-pairwise-distinct(witness)", T.ForAll(
                [i, j], z3.Implies(z3.And(0 <= i, i < j, j < n),
                                   z3.And(0 <= w(i, j), w(i, j) < Nn, T.tz(subs.fn(i, w(i, j))) != T.tz(subs.fn(j, w(i, j))))), [[ra(i), ra(j)]]), "lemma"
        else:
            yield "rows-pairwise-distinct", T.ForAll(
                [i, j], z3.Implies(z3.And(0 <= i, i < j, j < n),
                                   T.Exists([c], z3.And(0 <= c, c < Nn, T.tz(subs.fn(i, c)) != T.tz(subs.fn(j, c))))))


@register
class sp_extract(Contract):
    qual = Q + "extract"
    props = ("C04", "C06", "C19")
    doc = (
        "S.extract(R) for a p x N subscript matrix R: raises if some entry of R lies outside the "
        "shape; otherwise returns the p x 1 column with result[k] = Den(S)(R[k]) (the stored value "
        "at that subscript, 0 if it is not stored), whatever the stored order of S."
    )

    def setup(self, S, case):
        A = sym_sptensor(S, "A")
        p = S.nat("p")
        R = S.row_matrix("R", p, A.ghost["N"])
        return dict(__self__=A, searchsubs=R)

    def raises_when(self, S, a):
        A, R = a["__self__"], a["searchsubs"]
        p, Nn = R.shape[0], A.ghost["N"]
        k, m = z3.Int("x!k"), z3.Int("x!m")
        shp = A.fields["shape"]
        yield "subscript-outside-shape", T.Exists(
            [k, m], z3.And(0 <= k, T.tz(k < p), 0 <= m, m < Nn, z3.Or(T.tz(R.fn(k, m)) < 0, T.tz(R.fn(k, m)) >= T.tz(shp.fn(m)))))

    def fresh_result(self, S, a):
        R = a["searchsubs"]
        if not (isinstance(R, Arr) and R.ndim == 2):
            raise PathAbort("extract call site: searchsubs is not a matrix")
        if not hasattr(a["__self__"], "ghost") or "find" not in a["__self__"].ghost:
            attach_ghost(S, a["__self__"])
        return Arr.fresh("extracted", (R.shape[0], 1), "real")

    def ensures(self, S, a, ret):
        A, R = a["__self__"], a["searchsubs"]
        p = R.shape[0]
        yield "column-with-one-entry-per-row", S.And(isinstance(ret, Arr) and ret.ndim == 2, S.eq(ret.shape[0], p), S.eq(ret.shape[1], 1))
        k = z3.Int("x!k")
        yield "entry-is-the-denoted-value", T.ForAll([k], z3.Implies(z3.And(0 <= k, T.tz(k < p)), T.tz(T.as_real(ret.fn(k, 0))) == den(A, N.ensure_rows(S.ctx, R)(k))))


@register
class sp_mask(Contract):
    qual = Q + "mask"
    props = ("C06", "C02", "C19")
    doc = (
        "S.mask(W): raises if W has another order or is larger than S in some mode; otherwise "
        "returns one value per stored subscript of W (in W's stored order): Den(S) at that subscript."
    )
    inline = (Q + "find",)

    def setup(self, S, case):
        A = sym_sptensor(S, "A")
        W = sym_sptensor(S, "W")
        return dict(__self__=A, W=W)

    def raises_when(self, S, a):
        A, W = a["__self__"], a["W"]
        NA, NW = A.ghost["N"], W.ghost["N"]
        m = z3.Int("mk!m")
        yield "order-differs", NA != NW
        yield "mask-larger-than-data", z3.And(NA == NW, T.Exists([m], z3.And(0 <= m, m < NA, T.tz(W.fields["shape"].fn(m)) > T.tz(A.fields["shape"].fn(m)))))

    def ensures(self, S, a, ret):
        A, W = a["__self__"], a["W"]
        nW = W.ghost["n"]
        yield "one-value-per-mask-entry", S.And(isinstance(ret, Arr) and ret.ndim == 2, S.eq(ret.shape[0], nW), S.eq(ret.shape[1], 1))
        k = z3.Int("mk!k")
        yield "value-of-S-at-the-mask-subscript", T.ForAll(
            [k], z3.Implies(z3.And(0 <= k, k < nW), T.tz(T.as_real(ret.fn(k, 0))) == den(A, W.fields["subs"].rowfn(k))))


@register
class sp_allsubs(Contract):
    """ASSUMED contract (the body loops over a symbolic number of modes through khatrirao and is
    outside the executor's reach); validated by the bounded stand-in c06.allsubs."""
    qual = Q + "allsubs"
    props = ("C03", "C06")
    assumed = True
    doc = (
        "S.allsubs(): the prod(shape) x N matrix whose row l is UNRAVEL_C(shape, l): every in-range "
        "subscript exactly once, last mode fastest."
    )

    def setup(self, S, case):
        return dict(__self__=sym_sptensor(S, "A"))

    def fresh_result(self, S, a):
        A = a["__self__"]
        shape = A.fields["shape"]
        srow = N.seq_as_row(S.ctx, shape)
        for ax in N.mixed_radix_axioms():
            S.ctx.assume(ax, trusted="lemma:L1 mixed-radix RAVEL/UNRAVEL inverse bijections")
        P = N.PRODR(srow)
        Nn = shape.shape[0] if isinstance(shape, Arr) else len(shape)
        r = Arr((P, Nn), lambda l, m: N.relem(N.UNRAVELC(srow, T.tz(l)), T.tz(m)), "int")
        r.rowfn = lambda l: N.UNRAVELC(srow, T.tz(l))
        r.nonneg = True
        r.allsubs_of = srow
        return r

    def ensures(self, S, a, ret):
        return []


def indicator_clauses(S, ret, A, pred, witness=None, tag="indicator"):
    """Clauses saying: ret is a well-formed sptensor of A's shape whose stored values are all 1 and
    whose stored rows are exactly the in-range rows r with pred(r).  `witness(r)` names the
    position of row r in the result for the completeness clause."""
    g = A.ghost
    srow, Nn = g["srow"], g["N"]
    out = [("returns-sptensor", _is_sptensor(ret))]
    if not _is_sptensor(ret):
        return out
    out.append(("shape-kept", shape_equal(S, ret.fields["shape"], A.fields["shape"])))
    out += wf_clauses(S, ret, srow, Nn)
    subs, vals, _ = result_parts(ret)
    if subs.ndim != 2 or vals.ndim != 2:
        return out
    m = subs.shape[0]
    rf = N.ensure_rows(S.ctx, subs)
    k = z3.Int("ind!k")
    r = z3.Const("ind!r", N.Row)
    out.append((f"{tag}:stored-values-are-one", T.ForAll([k], z3.Implies(z3.And(0 <= k, T.tz(k < m)), T.tz(T.as_real(vals.fn(k, 0))) == 1))))
    out.append((f"{tag}:stored-rows-satisfy-the-predicate", T.ForAll([k], z3.Implies(z3.And(0 <= k, T.tz(k < m)), pred(rf(k))))))
    if witness == "skip":
        return out
    if isinstance(witness, list):
        # one clause per block of the result: (which rows the block is responsible for, where such a row sits)
        for bi, (resp, pos) in enumerate(witness):
            out.append((f"{tag}:every-row-satisfying-the-predicate-is-stored(block-{bi + 1})", T.ForAll(
                [r], z3.Implies(z3.And(N.INRNG(srow, r), pred(r), resp(r)), z3.And(0 <= pos(r), T.tz(pos(r) < m), rf(pos(r)) == r)), [N.INRNG(srow, r)])))
        return out
    if witness is not None:
        out.append((f"{tag}:every-row-satisfying-the-predicate-is-stored(witness)", T.ForAll(
            [r], z3.Implies(z3.And(N.INRNG(srow, r), pred(r)), z3.And(0 <= witness(r), T.tz(witness(r) < m), rf(witness(r)) == r)), [N.INRNG(srow, r)])))
    else:
        out.append((f"{tag}:every-row-satisfying-the-predicate-is-stored", T.ForAll(
            [r], z3.Implies(z3.And(N.INRNG(srow, r), pred(r)), T.Exists([k], z3.And(0 <= k, T.tz(k < m), rf(k) == r))))))
    return out


def fresh_sptensor_like(S, A, name="R"):
    """Unconstrained sptensor record with A's shape (result of a contracted call)."""
    n = S.nat(name + "_nnz")
    shape = A.fields["shape"]
    Nn = shape.shape[0] if isinstance(shape, Arr) else len(shape)
    subs = S.row_matrix(name + "_subs", n, Nn)
    vals = S.matrix(name + "_vals", n, 1, "real")
    return Rec("sptensor", dict(subs=subs, vals=vals, shape=shape))


@register
class sp_logical_not(Contract):
    qual = Q + "logical_not"
    props = ("C03", "C06")
    doc = "S.logical_not(): well-formed indicator of exactly the in-range positions where Den(S) is zero."
    inline = INLINE_CTOR

    def setup(self, S, case):
        return dict(__self__=sym_sptensor(S, "A"))

    def fresh_result(self, S, a):
        return fresh_sptensor_like(S, a["__self__"])

    def after_result(self, S, a, ret):
        attach_ghost(S, ret)

    def ensures(self, S, a, ret):
        A = a["__self__"]
        find = A.ghost["find"]
        srow = A.ghost["srow"]
        gs = S.body_ghosts.get("call:tt_setdiff_rows")
        wit = None
        if gs:
            where = gs[-1].ghost["where"]
            wit = lambda r: where(N.RAVELC(srow, r))
        for c in indicator_clauses(S, ret, A, lambda r: find(r) == -1, wit):
            yield c


def _den_pred(A, f):
    """pred(r) := f(stored?, value) evaluated on Den(A)(r)."""
    find, vals = A.ghost["find"], A.fields["vals"]
    return lambda r: f(find(r) >= 0, T.tz(vals.fn(find(r), 0)))


class _ScalarCompare(Contract):
    props = ("C03", "C06")
    inline = INLINE_CTOR + (Q + "_compare", Q + "nnz", Q + "ndims")
    op = None  # (python operator on z3 terms)

    def case_names(self):
        return ["c>0", "c<0", "c==0"] + (["sparse"] if type(self).sparse_case else [])

    sparse_case = False

    def setup(self, S, case):
        A = sym_sptensor(S, "A")
        if case == "sparse":
            B = sym_sptensor(S, "B", shape=A.fields["shape"])
            return dict(__self__=A, other=B)
        c = S.real("c")
        S.assume({"c>0": c > 0, "c<0": c < 0, "c==0": c == 0}[case])
        return dict(__self__=A, other=c)

    def ensures(self, S, a, ret):
        A, c = a["__self__"], a["other"]
        find, srow = A.ghost["find"], A.ghost["srow"]
        op = type(self).op
        if isinstance(c, Rec):
            B = c
            pred = lambda r: op(den(A, r), den(B, r))
            # soundness and well-formedness only: "every position satisfying the predicate is stored" needs
            # a path-dependent witness through three filtered blocks and is left to the bounded stand-in
            wit = type(self).sparse_witness(S, A, B) if getattr(type(self), "sparse_witness", None) else "skip"
            for cl in getattr(S, "_cw_lemmas", []):
                yield cl
            S._cw_lemmas = []
            for cl in indicator_clauses(S, ret, A, pred, wit if wit is not None else "skip", tag="sparse"):
                yield cl
            return
        pred = _den_pred(A, lambda stored, v: z3.If(stored, op(v, c), op(z3.RealVal(0), c)))
        g = S.body_ghosts
        wit = None
        sel = g.get("select")
        sd = g.get("call:tt_setdiff_rows")
        if sel:
            K, _, rk = sel[-1]
            if sd:
                where = sd[-1].ghost["where"]
                wit = lambda r: z3.If(find(r) >= 0, rk(find(r)), K + where(N.RAVELC(srow, r)))
            else:
                wit = lambda r: rk(find(r))
        elif sd:
            where = sd[-1].ghost["where"]
            wit = lambda r: where(N.RAVELC(srow, r))
        for cl in indicator_clauses(S, ret, A, pred, wit):
            yield cl


def _mentions(term, const):
    """Does the z3 term contain the given constant?"""
    if not (T.is_sym(term) and T.is_sym(const)):
        return False
    stack, seen = [term], set()
    while stack:
        u = stack.pop()
        if u.eq(const):
            return True
        if u.get_id() in seen:
            continue
        seen.add(u.get_id())
        if z3.is_app(u):
            stack.extend(u.children())
    return False


def _compare_witness(S, A, B):
    """Where a row satisfying the comparison sits in the result of the sparse branch of `_compare`: four blocks, each
    a gathered list of rows (row difference / intersection, by contract) optionally filtered by a Boolean selection --
    rows only S stores, rows only T stores, common rows, and (for <= / >=) the positions absent from both.  A block
    is missing on the paths where its operand stores nothing, its filter on the paths where the gathered list is empty."""
    g = S.body_ghosts
    fa, fb = A.ghost["find"], B.ghost["find"]
    srow = A.ghost["srow"]
    subsA, subsB = A.fields["subs"], B.fields["subs"]
    sd = list(zip(g.get("callargs:tt_setdiff_rows", []), g.get("call:tt_setdiff_rows", [])))
    it = list(zip(g.get("callargs:tt_intersect_rows", []), g.get("call:tt_intersect_rows", [])))
    sels = g.get("select@src", [])
    same = lambda x, y: (T.is_sym(x) and T.is_sym(y) and x.eq(y)) or (not T.is_sym(x) and not T.is_sym(y) and x == y)
    pick = lambda calls, first: next((r for a_, r in calls if a_.get("MatrixA") is first), None)
    sd1, sd2, in3 = pick(sd, subsA), pick(sd, subsB), pick(it, subsA)
    zero_sd = [r for a_, r in sd if a_.get("MatrixA") is not subsA and a_.get("MatrixA") is not subsB]
    zero_in = [r for a_, r in it if a_.get("MatrixA") is not subsA]

    def block(res, key):
        """(length, position of the source index `key` inside the block)"""
        if res is None:
            return 0, (lambda r: z3.IntVal(0))
        L = T.tz(res.shape[0])
        where = res.ghost["where"]
        f = next((s_ for s_ in sels if _mentions(T.tz(s_["mask"].shape[0]), L)), None)  # the filter applied to this list (mask as long as the list)
        if f is None:
            return L, (lambda r: where(key(r)))
        return f["K"], (lambda r: f["rk"](where(key(r))))
    K1, p1 = block(sd1, fa)
    K2, p2 = block(sd2, fb)
    K3, p3 = block(in3, fa)
    S._cw_lemmas = []
    if zero_sd and zero_in:
        wx, wi = zero_sd[0].ghost["where"], zero_in[0].ghost["where"]
        p4 = lambda r: wi(wx(N.RAVELC(srow, r)))
        # stepping stones for the last block: a position absent from S (from T) is a row of the gathered list of S's (T's)
        # absent positions, at the index the row-difference contract names
        zin_args = next(a_ for a_, r_ in it if a_.get("MatrixA") is not subsA)
        X, Y = zin_args["MatrixA"], zin_args["MatrixB"]
        if isinstance(X, Arr) and isinstance(Y, Arr) and len(zero_sd) > 1:
            rx, ry = N.ensure_rows(S.ctx, X), N.ensure_rows(S.ctx, Y)
            wy = zero_sd[1].ghost["where"]
            r = z3.Const("cw!r", N.Row)
            lin = lambda r_: N.RAVELC(srow, r_)
            S._cw_lemmas = [
                ("lemma:absent-from-S-is-a-row-of-the-first-gathered-list", T.ForAll([r], z3.Implies(z3.And(N.INRNG(srow, r), fa(r) < 0), z3.And(0 <= wx(lin(r)), T.tz(wx(lin(r)) < X.shape[0]), rx(wx(lin(r))) == r)), [N.INRNG(srow, r)]), "lemma"),
                ("lemma:absent-from-T-is-a-row-of-the-second-gathered-list", T.ForAll([r], z3.Implies(z3.And(N.INRNG(srow, r), fb(r) < 0), z3.And(0 <= wy(lin(r)), T.tz(wy(lin(r)) < Y.shape[0]), ry(wy(lin(r))) == r)), [N.INRNG(srow, r)]), "lemma"),
            ]
    else:
        p4 = lambda r: z3.IntVal(0)
    return [(lambda r: z3.And(fa(r) >= 0, fb(r) < 0), p1),
            (lambda r: z3.And(fa(r) < 0, fb(r) >= 0), lambda r: K1 + p2(r)),
            (lambda r: z3.And(fa(r) >= 0, fb(r) >= 0), lambda r: K1 + K2 + p3(r)),
            (lambda r: z3.And(fa(r) < 0, fb(r) < 0), lambda r: K1 + K2 + K3 + p4(r))]


@register
class sp_lt(_ScalarCompare):
    sparse_witness = staticmethod(_compare_witness)
    qual = Q + "__lt__"
    sparse_case = True
    doc = "S < c (scalar): well-formed indicator of exactly the positions where Den(S) < c (implicit zeros included when 0 < c).  S < T (sparse, same shape): the result is well-formed and every stored position satisfies Den(S) < Den(T) (soundness; completeness bounded)."
    op = staticmethod(lambda v, c: v < c)


@register
class sp_le(_ScalarCompare):
    sparse_witness = staticmethod(_compare_witness)
    qual = Q + "__le__"
    sparse_case = True
    doc = "S <= c (scalar): indicator of exactly the positions where Den(S) <= c."
    op = staticmethod(lambda v, c: v <= c)


@register
class sp_gt(_ScalarCompare):
    sparse_witness = staticmethod(_compare_witness)
    qual = Q + "__gt__"
    sparse_case = True
    doc = "S > c (scalar): indicator of exactly the positions where Den(S) > c."
    op = staticmethod(lambda v, c: v > c)


@register
class sp_ge(_ScalarCompare):
    sparse_witness = staticmethod(_compare_witness)
    qual = Q + "__ge__"
    sparse_case = True
    doc = "S >= c (scalar): indicator of exactly the positions where Den(S) >= c."
    op = staticmethod(lambda v, c: v >= c)


@register
class sp_eq(_ScalarCompare):
    qual = Q + "__eq__"
    sparse_case = True
    doc = "S == c (scalar): indicator of exactly the positions where Den(S) == c (c == 0: the implicit zeros)."
    op = staticmethod(lambda v, c: v == c)

    @staticmethod
    def sparse_witness(S, A, B):
        """Where a row with Den(S) == Den(T) sits in the result of the sparse branch: first the positions where both are
        zero (absent rows of S, intersected with the absent rows of T), then the common stored rows with equal values."""
        g = S.body_ghosts
        sd, it = g.get("call:tt_setdiff_rows"), g.get("call:tt_intersect_rows")
        sels = g.get("select@src", [])
        if not sd or not it:
            return None
        fa, fb = A.ghost["find"], B.ghost["find"]
        srow = A.ghost["srow"]
        where_x = sd[0].ghost["where"]
        where_i = it[0].ghost["where"]
        Kz = T.tz(it[0].shape[0])
        s1 = sels[0] if sels else None
        s2 = sels[1] if len(sels) > 1 else None
        def second(r):
            if s1 is None:
                return z3.IntVal(0)
            if s2 is None:
                return s1["rk"](fa(r))
            return s2["rk"](s1["rk"](fa(r)))
        return lambda r: z3.If(z3.And(fa(r) < 0, fb(r) < 0), where_i(where_x(N.RAVELC(srow, r))), Kz + second(r))


@register
class sp_ne(_ScalarCompare):
    qual = Q + "__ne__"
    sparse_case = True
    doc = "S != c (scalar): indicator of exactly the positions where Den(S) != c.  S != T (sparse, same shape): the result is well-formed and every stored position satisfies Den(S) != Den(T) (soundness; completeness bounded)."
    op = staticmethod(lambda v, c: v != c)

    @staticmethod
    def sparse_witness(S, A, B):
        """Where a row with Den(S) != Den(T) sits in the result of the sparse branch: three blocks -- rows only S stores,
        rows only T stores, rows both store with different values -- each a Boolean selection; a block is missing on the
        paths where its operand stores nothing."""
        nA, nB = A.ghost["n"], B.ghost["n"]
        fa, fb = A.ghost["find"], B.ghost["find"]
        sels = S.body_ghosts.get("select@src", [])
        same = lambda x, y: (T.is_sym(x) and T.is_sym(y) and x.eq(y)) or (not T.is_sym(x) and not T.is_sym(y) and x == y)
        onA = [g for g in sels if same(g["mask"].shape[0], nA)]
        onB = [g for g in sels if same(g["mask"].shape[0], nB)]
        zero = dict(K=0, rk=lambda i: z3.IntVal(0))
        s1 = onA[0] if onA else zero          # rows of S not stored by T
        s2 = onB[0] if onB else zero          # rows of T not stored by S
        s3 = onA[1] if len(onA) > 1 else zero  # common rows with different values
        return lambda r: z3.If(z3.And(fa(r) >= 0, fb(r) < 0), s1["rk"](fa(r)),
                               z3.If(z3.And(fa(r) < 0, fb(r) >= 0), s1["K"] + s2["rk"](fb(r)), s1["K"] + s2["K"] + s3["rk"](fa(r))))


def _lam(src):
    """A reducer written in pyttb's own style, as an interpreter value."""
    import ast as _ast
    from pyvc.values import FuncVal
    return FuncVal(_ast.parse(src, mode="eval").body, {"__module__": "pyttb.sptensor"}, module="pyttb.sptensor")


REDUCERS = {
    "sum": ("sum", lambda x: x, lambda x, y: x + y),
    "count==2": (lambda: _lam("lambda x: len(x) == 2"), lambda x: z3.RealVal(0), lambda x, y: z3.RealVal(1)),
    "count>=1": (lambda: _lam("lambda x: len(x) >= 1"), lambda x: z3.RealVal(1), lambda x, y: z3.RealVal(1)),
    "count==1": (lambda: _lam("lambda x: len(x) == 1"), lambda x: z3.RealVal(1), lambda x, y: z3.RealVal(0)),
}


def reducer_kind(fh):
    """Which of the reducers above a function_handle argument is (None if unknown)."""
    import ast as _ast
    from pyvc.values import FuncVal
    from pyvc.interp import Builtin
    if isinstance(fh, str):
        return fh if fh == "sum" else None
    if isinstance(fh, Builtin) and fh.name == "sum":
        return "sum"
    if isinstance(fh, FuncVal) and isinstance(fh.node, _ast.Lambda):
        txt = _ast.unparse(fh.node.body).replace(" ", "")
        return {"len(x)==2": "count==2", "len(x)>=1": "count>=1", "len(x)==1": "count==1"}.get(txt)
    return None


@register
class sp_from_aggregator(Contract):
    qual = Q + "from_aggregator"
    props = ("C06", "C20", "C03", "C19")
    doc = (
        "from_aggregator(subs, vals, shape, f) for ANY n x N integer subscript matrix (repeated rows "
        "allowed): raises if a subscript is negative or outside the shape or the counts differ; "
        "otherwise the result is well-formed (rows pairwise distinct, in range, one value each, no "
        "stored zero), every stored row is an input row, an input row is stored iff its aggregated "
        "group value gval is non-zero and then holds that value; gval of a row occurring once is "
        "F1(v), of a row occurring exactly twice F2(v1, v2) (sum: v, v1+v2; count predicates accordingly)."
    )
    inline = INLINE_CTOR + ("pyttb.pyttb_utils.tt_subscheck", "pyttb.pyttb_utils.tt_valscheck")
    loops = {
        0: dict(
            modifies=[],
            inv=lambda S, a, env, i: _agg_loop_inv(S, a, env, i),
        )
    }

    def case_names(self):
        return list(REDUCERS)

    def setup(self, S, case):
        Nn = S.int("N", 1)
        n = S.int("n", 0)
        shape = S.vector("shape", Nn, "int", kind="tuple")
        S.assume(S.forall(0, Nn, lambda q: shape.fn(q) >= 1, pats=lambda q: [shape.fn(q)]))
        subs = S.row_matrix("subs", n, Nn)
        vals = S.matrix("vals", n, 1, "real")
        fh = REDUCERS[case][0]
        a = dict(cls=None, subs=subs, vals=vals, shape=shape, function_handle=fh if isinstance(fh, str) else fh())
        a["__case__"] = case
        return a

    def requires(self, S, a):
        subs, vals = a["subs"], a["vals"]
        yield "subs-is-a-matrix-and-vals-a-column", subs.ndim == 2 and vals.ndim == 2
        if subs.ndim == 2 and vals.ndim == 2:
            yield "one-value-per-subscript", S.And(S.eq(vals.shape[0], subs.shape[0]), S.eq(vals.shape[1], 1))
            yield "one-column-per-mode", S.eq(subs.shape[1], seq_view(a["shape"])[0])
        yield "known-reducer", reducer_kind(a["function_handle"]) is not None

    def fresh_result(self, S, a):
        shape = a["shape"]
        Nn = seq_view(shape)[0]
        nR = S.nat("agg_nnz")
        rsubs = S.row_matrix("agg_subs", nR, Nn)
        kind = reducer_kind(a["function_handle"])
        rvals = S.matrix("agg_vals", nR, 1, "real" if kind == "sum" else "bool")
        R = Rec("sptensor", dict(subs=rsubs, vals=rvals, shape=shape))
        I_ = z3.IntSort()
        R.ghost = dict(
            gval=T.fresh_fun("gval", I_, z3.RealSort()), pos=T.fresh_fun("gpos", I_, I_), src=T.fresh_fun("gsrc", I_, I_),
            oth=T.fresh_fun("goth", I_, I_), thr=T.fresh_fun("gthr", I_, I_, I_), kind=kind,
        )
        N.ensure_rows(S.ctx, a["subs"])
        return R

    def after_result(self, S, a, ret):
        attach_ghost(S, ret)

    def raises_when(self, S, a):
        subs, shape = a["subs"], a["shape"]
        if subs.ndim != 2:
            return
        N.ensure_rows(S.ctx, subs)
        n, Nn = subs.shape
        k, m = z3.Int("ag!k"), z3.Int("ag!m")
        slen, sat = seq_view(shape)
        yield "negative-subscript", T.Exists([k, m], z3.And(0 <= k, T.tz(k < n), 0 <= m, T.tz(m < Nn), T.tz(subs.fn(k, m)) < 0))
        yield "subscript-outside-shape", T.Exists([k, m], z3.And(0 <= k, T.tz(k < n), 0 <= m, T.tz(m < Nn), m < T.tz(slen), T.tz(subs.fn(k, m)) >= sat(m)))

    def ensures(self, S, a, ret):
        subs, vals, shape = a["subs"], a["vals"], a["shape"]
        n, Nn = subs.shape
        srow = N.seq_as_row(S.ctx, shape)
        yield "returns-sptensor", _is_sptensor(ret)
        rsubs, rvals, _ = result_parts(ret)
        rin = subs.rowfn
        kk_ = z3.Int("ag!kk")
        for ax in N.mixed_radix_axioms():
            S.ctx.assume(ax)
        yield "lemma:every-input-row-is-inside-the-shape", T.ForAll([kk_], z3.Implies(z3.And(0 <= kk_, T.tz(kk_ < n)), N.INRNG(srow, rin(kk_))), [rin(kk_)]), "lemma"
        for c in wf_clauses(S, ret, srow, Nn):
            yield c
        if rsubs.ndim != 2:
            return
        m = rsubs.shape[0]
        rf = N.ensure_rows(S.ctx, rsubs)
        g = S.body_ghosts
        k, k2, t = z3.Int("ag!k"), z3.Int("ag!k2"), z3.Int("ag!t")
        yield "no-stored-zero", T.ForAll([t], z3.Implies(z3.And(0 <= t, T.tz(t < m)), T.tz(T.truthy(rvals.fn(t, 0)))))
        if S.at_call_site:
            gh = ret.ghost
            kind = gh["kind"]
            F1, F2 = REDUCERS[kind][1], REDUCERS[kind][2]
            gval, pos, src, oth, thr = gh["gval"], gh["pos"], gh["src"], gh["oth"], gh["thr"]
            v = lambda kk: T.tz(T.as_real(vals.fn(kk, 0)))
            rv = lambda tt: T.tz(T.as_real(rvals.fn(tt, 0)))
            yield "every-stored-row-is-an-input-row", T.ForAll(
                [t], z3.Implies(z3.And(0 <= t, T.tz(t < m)), z3.And(0 <= src(t), T.tz(src(t) < n), rin(src(t)) == rf(t), rv(t) == gval(src(t)), pos(src(t)) == t)), [rf(t)])
            yield "input-row-with-nonzero-group-value-is-stored-with-that-value", T.ForAll(
                [k], z3.Implies(z3.And(0 <= k, T.tz(k < n), gval(k) != 0), z3.And(0 <= pos(k), T.tz(pos(k) < m), rf(pos(k)) == rin(k), rv(pos(k)) == gval(k))), [rin(k)])
            yield "input-row-with-zero-group-value-is-not-stored", T.ForAll(
                [k, t], z3.Implies(z3.And(0 <= k, T.tz(k < n), gval(k) == 0, 0 <= t, T.tz(t < m)), rf(t) != rin(k)), [[rin(k), rf(t)]])
            yield "equal-rows-share-their-group", T.ForAll(
                [k, k2], z3.Implies(z3.And(0 <= k, T.tz(k < n), 0 <= k2, T.tz(k2 < n), rin(k) == rin(k2)), gval(k) == gval(k2)), [[rin(k), rin(k2)]])
            yield "group-of-a-row-occurring-once", T.ForAll(
                [k], z3.Implies(z3.And(0 <= k, T.tz(k < n)),
                                z3.Or(gval(k) == F1(v(k)), z3.And(0 <= oth(k), T.tz(oth(k) < n), oth(k) != k, rin(oth(k)) == rin(k)))), [rin(k)])
            yield "group-of-a-row-occurring-twice", T.ForAll(
                [k, k2], z3.Implies(z3.And(0 <= k, k < k2, T.tz(k2 < n), rin(k) == rin(k2)),
                                    z3.Or(gval(k) == F2(v(k), v(k2)),
                                          z3.And(0 <= thr(k, k2), T.tz(thr(k, k2) < n), thr(k, k2) != k, thr(k, k2) != k2, rin(thr(k, k2)) == rin(k)))), [[rin(k), rin(k2)]])
            return
        if not (g.get("unique") and g.get("accumarray") and g.get("select")):
            # the only path without aggregation is the one for an empty input
            yield "no-aggregation-only-for-empty-input", S.And(S.eq(n, 0), S.eq(m, 0))
            return
        (mu, idx, inv) = g["unique"][-1]
        (cnt, mem1, oth, thr, acc) = g["accumarray"][-1]
        (K, sel, rk) = g["select"][-1]
        gval = lambda kk: acc(inv(kk))
        pos = lambda kk: rk(inv(kk))
        src = lambda tt: idx(sel(tt))
        F1, F2 = REDUCERS[a["__case__"]][1], REDUCERS[a["__case__"]][2]
        v = lambda kk: T.tz(vals.fn(kk, 0))
        yield "every-stored-row-is-an-input-row", T.ForAll(
            [t], z3.Implies(z3.And(0 <= t, T.tz(t < m)), z3.And(0 <= src(t), T.tz(src(t) < n), rin(src(t)) == rf(t), T.tz(T.as_real(rvals.fn(t, 0))) == T.tz(T.as_real(gval(src(t))))))), "lemma"
        yield "input-row-with-nonzero-group-value-is-stored-with-that-value", T.ForAll(
            [k], z3.Implies(z3.And(0 <= k, T.tz(k < n), T.tz(T.truthy(gval(k)))),
                            z3.And(0 <= pos(k), T.tz(pos(k) < m), rf(pos(k)) == rin(k), T.tz(T.as_real(rvals.fn(pos(k), 0))) == T.tz(T.as_real(gval(k))))), [rin(k)]), "lemma"
        yield "input-row-with-zero-group-value-is-not-stored", T.ForAll(
            [k, t], z3.Implies(z3.And(0 <= k, T.tz(k < n), z3.Not(T.tz(T.truthy(gval(k)))), 0 <= t, T.tz(t < m)), rf(t) != rin(k)))
        yield "equal-rows-share-their-group", T.ForAll(
            [k, k2], z3.Implies(z3.And(0 <= k, T.tz(k < n), 0 <= k2, T.tz(k2 < n), rin(k) == rin(k2)), inv(k) == inv(k2)), [[rin(k), rin(k2)]]), "lemma"
        yield "group-of-a-row-occurring-once", T.ForAll(
            [k], z3.Implies(z3.And(0 <= k, T.tz(k < n)),
                            z3.Or(T.tz(T.as_real(gval(k))) == F1(v(k)),
                                  z3.And(0 <= oth(k), T.tz(oth(k) < n), oth(k) != k, rin(oth(k)) == rin(k)))), [oth(k)])
        yield "group-of-a-row-occurring-twice", T.ForAll(
            [k, k2], z3.Implies(z3.And(0 <= k, k < k2, T.tz(k2 < n), rin(k) == rin(k2)),
                                z3.Or(T.tz(T.as_real(gval(k))) == F2(v(k), v(k2)),
                                      z3.And(0 <= thr(k, k2), T.tz(thr(k, k2) < n), thr(k, k2) != k, thr(k, k2) != k2, rin(thr(k, k2)) == rin(k)))), [thr(k, k2)])


def _agg_loop_inv(S, a, env, i):
    """Shape check loop of from_aggregator: the modes checked so far hold no subscript >= shape."""
    subs, shape = env["subs"], env["shape"]
    n = subs.shape[0]
    slen, sat = seq_view(shape)
    k, m = z3.Int("li!k"), z3.Int("li!m")
    return T.ForAll([k, m], z3.Implies(z3.And(0 <= k, T.tz(k < n), 0 <= m, T.tz(m < i)), T.tz(subs.fn(k, m)) < sat(m)))


def den_binary_clauses(S, ret, A, B, f, witness=None, tag="den"):
    """WF(ret) and Den(ret)(r) = f(Den(A)(r), Den(B)(r)) in 'stored entries + absent rows' form."""
    g = A.ghost
    srow, Nn = g["srow"], g["N"]
    out = [("returns-sptensor", _is_sptensor(ret))]
    if not _is_sptensor(ret):
        return out
    out.append(("shape-kept", shape_equal(S, ret.fields["shape"], A.fields["shape"])))
    out += wf_clauses(S, ret, srow, Nn)
    subs, vals, _ = result_parts(ret)
    if subs.ndim != 2 or vals.ndim != 2:
        return out
    m = subs.shape[0]
    rf = N.ensure_rows(S.ctx, subs)
    k = z3.Int(tag + "!k")
    r = z3.Const(tag + "!r", N.Row)
    val = lambda row: f(den(A, row), den(B, row))
    out.append((f"{tag}:stored-value-is-the-combination", T.ForAll([k], z3.Implies(z3.And(0 <= k, T.tz(k < m)), T.tz(T.as_real(vals.fn(k, 0))) == val(rf(k))))))
    out.append((f"{tag}:no-stored-zero", T.ForAll([k], z3.Implies(z3.And(0 <= k, T.tz(k < m)), T.tz(T.as_real(vals.fn(k, 0))) != 0))))
    if witness is not None:
        out.append((f"{tag}:every-position-with-a-nonzero-combination-is-stored(witness)", T.ForAll(
            [r], z3.Implies(z3.And(N.INRNG(srow, r), val(r) != 0), z3.And(0 <= witness(r), T.tz(witness(r) < m), rf(witness(r)) == r)), [N.INRNG(srow, r)])))
    else:
        out.append((f"{tag}:every-position-with-a-nonzero-combination-is-stored", T.ForAll(
            [r], z3.Implies(z3.And(N.INRNG(srow, r), val(r) != 0), T.Exists([k], z3.And(0 <= k, T.tz(k < m), rf(k) == r))))))
    return out


class _AddSub(Contract):
    props = ("C03", "C06", "C19")
    inline = INLINE_CTOR + (Q + "nnz",)
    f = None

    def setup(self, S, case):
        A = sym_sptensor(S, "A")
        B = sym_sptensor(S, "B")
        return dict(__self__=A, other=B)

    def raises_when(self, S, a):
        A, B = a["__self__"], a["other"]
        yield "shape-mismatch", S.Not(shape_equal(S, A.fields["shape"], B.fields["shape"]))

    def ensures(self, S, a, ret):
        A, B = a["__self__"], a["other"]
        nA = A.ghost["n"]
        fa, fb = A.ghost["find"], B.ghost["find"]
        wit = None
        gs = S.body_ghosts.get("call:from_aggregator")
        if gs:
            pos = gs[-1].ghost["pos"]
            wit = lambda r: z3.If(fa(r) >= 0, pos(fa(r)), pos(nA + fb(r)))
        for c in den_binary_clauses(S, ret, A, B, type(self).f, wit):
            yield c


@register
class sp_sub(_AddSub):
    qual = Q + "__sub__"
    doc = "S - O (two well-formed sptensors of equal shape): well-formed, zero-free, Den(result) = Den(S) - Den(O); other shapes raise."
    f = staticmethod(lambda x, y: x - y)


def _binary_fresh(self, S, a):
    return fresh_sptensor_like(S, a["__self__"])


_AddSub.fresh_result = _binary_fresh
_AddSub.after_result = lambda self, S, a, ret: attach_ghost(S, ret)
_AddSub.requires = lambda self, S, a: iter([("operands-have-ghost-views", hasattr(a["__self__"], "ghost") and isinstance(a["other"], Rec) and hasattr(a["other"], "ghost"))])


@register
class sp_add(_AddSub):
    qual = Q + "__add__"
    doc = "S + O (two well-formed sptensors of equal shape): well-formed, zero-free, Den(result) = Den(S) + Den(O); other shapes raise."
    f = staticmethod(lambda x, y: x + y)

    def ensures(self, S, a, ret):
        A, B = a["__self__"], a["other"]
        # the body computes S - (-O): witnesses come from the contracted calls
        for c in den_binary_clauses(S, ret, A, B, type(self).f, None):
            yield c


class _LogicalSparse(Contract):
    props = ("C03", "C06", "C19")
    inline = INLINE_CTOR + (Q + "nnz",)
    pred = None

    def setup(self, S, case):
        A = sym_sptensor(S, "A")
        B = sym_sptensor(S, "B")
        return dict(__self__=A, other=B)

    def raises_when(self, S, a):
        A, B = a["__self__"], a["other"]
        yield "shape-mismatch", S.Not(shape_equal(S, A.fields["shape"], B.fields["shape"]))

    def ensures(self, S, a, ret):
        A, B = a["__self__"], a["other"]
        nA = A.ghost["n"]
        fa, fb = A.ghost["find"], B.ghost["find"]
        p = type(self).pred
        wit = None
        gs = S.body_ghosts.get("call:from_aggregator")
        if gs:
            pos = gs[-1].ghost["pos"]
            wit = lambda r: z3.If(fa(r) >= 0, pos(fa(r)), pos(nA + fb(r)))
        for c in indicator_clauses(S, ret, A, lambda r: p(fa(r) >= 0, fb(r) >= 0), wit):
            yield c


@register
class sp_logical_and(_LogicalSparse):
    qual = Q + "logical_and"
    doc = "S.logical_and(O) for two well-formed sptensors of equal shape: well-formed indicator of the positions where both are nonzero."
    pred = staticmethod(lambda x, y: z3.And(x, y))


@register
class sp_logical_or(_LogicalSparse):
    qual = Q + "logical_or"
    doc = "S.logical_or(O): indicator of the positions where at least one operand is nonzero."
    pred = staticmethod(lambda x, y: z3.Or(x, y))


@register
class sp_logical_xor(_LogicalSparse):
    qual = Q + "logical_xor"
    doc = "S.logical_xor(O): indicator of the positions where exactly one operand is nonzero."
    pred = staticmethod(lambda x, y: z3.Xor(x, y))


@register
class sp_squeeze(Contract):
    qual = Q + "squeeze"
    props = ("C07", "C06")
    doc = (
        "S.squeeze(): with sel = the modes of extent > 1 in increasing order (K of them): K = 0 -> returns the "
        "single entry as a scalar (= Den(S) at the only subscript); otherwise a well-formed sptensor with "
        "shape[t] = S.shape[sel t], subscript (k, t) = S.subs[k, sel t], the same values in the same order."
    )
    inline = INLINE_CTOR

    def setup(self, S, case):
        return dict(__self__=sym_sptensor(S, "A"))

    def ensures(self, S, a, ret):
        A = a["__self__"]
        g = A.ghost
        Nn, n, srow = g["N"], g["n"], g["srow"]
        As, Av, Ash = A.fields["subs"], A.fields["vals"], A.fields["shape"]
        ra = As.rowfn
        t, m, k = z3.Int("sq!t"), z3.Int("sq!m"), z3.Int("sq!k")
        gh = S.body_ghosts.get("select")
        if gh:
            K, sel, rk = gh[-1]
        else:
            # path `np.all(shape > 1)`: every mode is kept
            K, sel, rk = Nn, (lambda x: x), (lambda x: x)
        big = lambda q: T.tz(Ash.fn(q)) > 1
        yield "selection:kept-modes-have-extent>1", T.ForAll([t], z3.Implies(z3.And(0 <= t, t < K), z3.And(0 <= sel(t), sel(t) < Nn, big(sel(t)))))
        yield "selection:every-mode-of-extent>1-is-kept", T.ForAll([m], z3.Implies(z3.And(0 <= m, m < Nn, big(m)), z3.And(0 <= rk(m), rk(m) < K, sel(rk(m)) == m)))
        yield "selection:order-preserved", T.ForAll([t, m], z3.Implies(z3.And(0 <= t, t < m, m < K), sel(t) < sel(m)))
        if not (isinstance(ret, Rec) and ret.cls == "sptensor"):
            yield "scalar-only-when-all-modes-singleton", S.eq(K, 0)
            # the only in-range subscript is (0,...,0); Den(S) there is the stored value, or 0
            r = z3.Const("sq!r", N.Row)
            yield "scalar-is-the-entry", T.ForAll([r], z3.Implies(N.INRNG(srow, r), T.tz(ret) == den(A, r)), [N.INRNG(srow, r)])
            return
        yield "sptensor-only-when-some-mode-is-kept", K >= 1
        subs, vals, shape = result_parts(ret)
        slen, sat = seq_view(shape)
        yield "shape-is-the-kept-extents", S.And(S.eq(slen, K), T.ForAll([t], z3.Implies(z3.And(0 <= t, t < K), sat(t) == T.tz(Ash.fn(sel(t))))))
        yield "arrays", S.And(subs.ndim == 2, vals.ndim == 2, S.eq(subs.shape[0], n), S.eq(vals.shape[0], n), S.eq(vals.shape[1], 1),
                              S.Or(S.eq(n, 0), S.eq(subs.shape[1], K)))
        yield "subscripts-are-the-kept-columns", T.ForAll(
            [k, t], z3.Implies(z3.And(0 <= k, k < n, 0 <= t, t < K), T.tz(subs.fn(k, t)) == T.tz(As.fn(k, sel(t)))))
        yield "values-unchanged", T.ForAll([k], z3.Implies(z3.And(0 <= k, k < n), T.tz(vals.fn(k, 0)) == T.tz(Av.fn(k, 0))))
        yield "subscripts-inside-new-shape", T.ForAll(
            [k, t], z3.Implies(z3.And(0 <= k, k < n, 0 <= t, t < K), z3.And(0 <= T.tz(subs.fn(k, t)), T.tz(subs.fn(k, t)) < sat(t))))
        # distinct rows: two stored rows of S differ in some column w; a singleton mode only holds 0, so
        # extent(w) > 1, w is kept as column rk(w), and the result rows differ there
        i, j = z3.Int("sq!i"), z3.Int("sq!j")
        w = lambda i_, j_: N.rdiff(ra(i_), ra(j_))
        yield "lemma:differing-column-has-extent>1", T.ForAll(
            [i, j], z3.Implies(z3.And(0 <= i, i < j, j < n), z3.And(0 <= w(i, j), w(i, j) < Nn, big(w(i, j)))), [[ra(i), ra(j)]]), "lemma"
        yield "rows-pairwise-distinct(witness)", T.ForAll(
            [i, j], z3.Implies(z3.And(0 <= i, i < j, j < n),
                               z3.And(0 <= rk(w(i, j)), rk(w(i, j)) < K,
                                      T.tz(subs.fn(i, rk(w(i, j)))) != T.tz(subs.fn(j, rk(w(i, j)))))), [[ra(i), ra(j)]])


@register
class sp_reshape(Contract):
    qual = Q + "reshape"
    props = ("C07", "C06", "C19")
    doc = (
        "S.reshape(new_shape, old_modes): with om = old_modes (all modes when omitted) and km = the other modes in "
        "increasing order, requires prod(new_shape) == prod(S.shape[om]) (else raises); result shape = S.shape[km] ++ "
        "new_shape; stored row k = S.subs[k, km] ++ UNRAVEL_F(new_shape, RAVEL_F(S.shape[om], S.subs[k, om])); values "
        "unchanged and in the same order; rows stay pairwise distinct and inside the new shape."
    )
    inline = INLINE_CTOR

    def case_names(self):
        return ["all-modes", "subset"]

    def setup(self, S, case):
        A = sym_sptensor(S, "A")
        Ln = S.int("Ln", 1)
        new_shape = S.vector("new_shape", Ln, "int", kind="tuple")
        S.assume(S.forall(0, Ln, lambda q: new_shape.fn(q) >= 1, pats=lambda q: [new_shape.fn(q)]))
        a = dict(__self__=A, new_shape=new_shape)
        if case == "subset":
            Nn = A.ghost["N"]
            Lo = S.int("Lo", 1)
            om = S.vector("old_modes", Lo, "int")
            q1, q2 = z3.Int("rs!q1"), z3.Int("rs!q2")
            # old_modes: distinct modes of S (the function does not validate them; precondition)
            S.assume(S.forall(0, Lo, lambda q: S.And(0 <= om.fn(q), om.fn(q) < Nn), pats=lambda q: [om.fn(q)]))
            S.assume(T.ForAll([q1, q2], z3.Implies(z3.And(0 <= q1, q1 < q2, q2 < Lo), T.tz(om.fn(q1)) != T.tz(om.fn(q2)))))
            a["old_modes"] = om
        return a

    def raises_when(self, S, a):
        A, ns, om = a["__self__"], a["new_shape"], a.get("old_modes")
        Ash = A.fields["shape"]
        if om is None:
            orow = A.ghost["srow"]
            for p in S.ctx.ghosts.get("row", []):
                S.ctx.assume(N.row_ext(orow, p))
        else:
            orow = N.spec_row(S.ctx, om.shape[0], lambda q: T.tz(Ash.fn(om.fn(q))))
        nrow = N.spec_row(S.ctx, ns.shape[0], lambda q: T.tz(ns.fn(q)))
        yield "element-count-changes", N.PRODR(nrow) != N.PRODR(orow)

    def ensures(self, S, a, ret):
        A = a["__self__"]
        g = A.ghost
        Nn, n = g["N"], g["n"]
        As, Av, Ash = A.fields["subs"], A.fields["vals"], A.fields["shape"]
        ns = a["new_shape"]
        Ln = ns.shape[0]
        yield "returns-sptensor", _is_sptensor(ret)
        subs, vals, shape = result_parts(ret)
        slen, sat = seq_view(shape)
        bg = S.body_ghosts
        om = a.get("old_modes")
        c, k = z3.Int("rs!c"), z3.Int("rs!k")
        if om is None:
            Kk, km = z3.IntVal(0), (lambda x: x)
            omf, Lo = (lambda x: x), Nn
        else:
            sd = bg.get("setdiff1d")
            if not sd:
                raise PathAbort("reshape contract: setdiff1d ghost missing")
            Kk, km = sd[-1][0], sd[-1][1]
            omf, Lo = (lambda x: T.tz(om.fn(x))), om.shape[0]
        yield "shape:length", S.eq(slen, Kk + Ln)
        yield "shape:kept-extents-first", T.ForAll([c], z3.Implies(z3.And(0 <= c, c < Kk), sat(c) == T.tz(Ash.fn(km(c)))))
        yield "shape:then-new-shape", T.ForAll([c], z3.Implies(z3.And(0 <= c, c < Ln), sat(Kk + c) == T.tz(ns.fn(c))))
        yield "arrays", S.And(subs.ndim == 2, vals.ndim == 2, S.eq(subs.shape[0], n), S.eq(vals.shape[0], n), S.eq(vals.shape[1], 1),
                              S.Or(S.eq(n, 0), S.eq(subs.shape[1], Kk + Ln)))
        yield "values-unchanged", T.ForAll([k], z3.Implies(z3.And(0 <= k, k < n), T.tz(vals.fn(k, 0)) == T.tz(Av.fn(k, 0))))
        yield "kept-columns-unchanged", T.ForAll(
            [k, c], z3.Implies(z3.And(0 <= k, k < n, 0 <= c, c < Kk), T.tz(subs.fn(k, c)) == T.tz(As.fn(k, km(c)))))
        ca = bg.get("callargs:tt_sub2ind")
        if not ca:
            return  # empty-tensor path: nothing stored
        sa = ca[-1]
        grow = N.ensure_rows(S.ctx, sa["subs"])  # the gathered rows S.subs[k, om]
        orow = N.seq_as_row(S.ctx, sa["shape"])  # S.shape[om]
        nrow = N.seq_as_row(S.ctx, bg["callargs:tt_ind2sub"][-1]["shape"])
        yield "ghost:gathered-row-is-S.subs[k,om]", T.ForAll(
            [k, c], z3.Implies(z3.And(0 <= k, k < n, 0 <= c, c < Lo), z3.And(N.rlen(grow(k)) == Lo, N.relem(grow(k), c) == T.tz(As.fn(k, omf(c)))))), "lemma"
        yield "ghost:old-extents-row-is-S.shape[om]", S.And(N.rlen(orow) == Lo, T.ForAll([c], z3.Implies(z3.And(0 <= c, c < Lo), N.relem(orow, c) == T.tz(Ash.fn(omf(c)))))), "lemma"
        yield "ghost:new-extents-row-is-new_shape", S.And(N.rlen(nrow) == Ln, T.ForAll([c], z3.Implies(z3.And(0 <= c, c < Ln), N.relem(nrow, c) == T.tz(ns.fn(c))))), "lemma"
        yield "reshaped-columns", T.ForAll(
            [k, c], z3.Implies(z3.And(0 <= k, k < n, 0 <= c, c < Ln),
                               T.tz(subs.fn(k, Kk + c)) == N.relem(N.UNRAVELF(nrow, N.RAVELF(orow, grow(k))), c)))
        yield "subscripts-inside-new-shape", T.ForAll(
            [k, c], z3.Implies(z3.And(0 <= k, k < n, 0 <= c, c < Kk + Ln), z3.And(0 <= T.tz(subs.fn(k, c)), T.tz(subs.fn(k, c)) < sat(c))))
        # distinct rows.  Two stored rows of S differ in some column w.  If w is a kept mode the result rows
        # differ in its slot; otherwise the gathered rows differ, RAVEL_F is injective on in-range rows (L1), so
        # the linear indices differ, UNRAVEL_F is injective on 0..P-1 (L1), so the new sub-rows differ.
        i, j = z3.Int("rs!i"), z3.Int("rs!j")
        ra = As.rowfn
        w = lambda i_, j_: N.rdiff(ra(i_), ra(j_))
        lin = lambda k_: N.RAVELF(orow, grow(k_))
        U = lambda k_: N.UNRAVELF(nrow, lin(k_))
        d = lambda i_, j_: N.rdiff(U(i_), U(j_))
        rng = lambda i_, j_: z3.And(0 <= i_, i_ < j_, j_ < n)
        if om is None:
            in_om = lambda x: z3.BoolVal(True)
            om_pos = lambda x: x
            slot = lambda x: x
        else:
            mem, wit = bg["isin"][-1]
            in_om, om_pos = (lambda x: mem(x)), (lambda x: wit(x))
            slot = sd[-1][2]
        yield "lemma:gathered-rows-in-range", T.ForAll([k], z3.Implies(z3.And(0 <= k, k < n), N.INRNG(orow, grow(k))), [grow(k)]), "lemma"
        P_ = lambda i_, j_: om_pos(w(i_, j_))
        yield "lemma:gathered-rows-at-the-differing-mode", T.ForAll(
            [i, j], z3.Implies(z3.And(rng(i, j), in_om(w(i, j))),
                               z3.And(0 <= P_(i, j), P_(i, j) < Lo, omf(P_(i, j)) == w(i, j),
                                      N.relem(grow(i), P_(i, j)) == N.relem(ra(i), w(i, j)),
                                      N.relem(grow(j), P_(i, j)) == N.relem(ra(j), w(i, j)))), [[ra(i), ra(j)]]), "lemma"
        yield "lemma:differing-reshaped-mode-gives-different-gathered-rows", T.ForAll(
            [i, j], z3.Implies(z3.And(rng(i, j), in_om(w(i, j))), grow(i) != grow(j)), [[ra(i), ra(j)]]), "lemma"
        yield "lemma:different-linear-indices", T.ForAll(
            [i, j], z3.Implies(z3.And(rng(i, j), in_om(w(i, j))), lin(i) != lin(j)), [[ra(i), ra(j)]]), "lemma"
        yield "lemma:different-new-subrows", T.ForAll(
            [i, j], z3.Implies(z3.And(rng(i, j), in_om(w(i, j))),
                               z3.And(U(i) != U(j), 0 <= d(i, j), d(i, j) < Ln, N.relem(U(i), d(i, j)) != N.relem(U(j), d(i, j)))), [[ra(i), ra(j)]]), "lemma"
        col = lambda i_, j_: z3.If(in_om(w(i_, j_)), Kk + d(i_, j_), slot(w(i_, j_)))
        yield "rows-pairwise-distinct(witness)", T.ForAll(
            [i, j], z3.Implies(rng(i, j), z3.And(0 <= col(i, j), col(i, j) < Kk + Ln,
                                                 T.tz(subs.fn(i, col(i, j))) != T.tz(subs.fn(j, col(i, j))))), [[ra(i), ra(j)]])


def _value_callback(S):
    """A caller-supplied value function: returns an array of the requested shape with arbitrary real entries
    (precondition on the callback; recorded as an assumption)."""
    def fh(it, shape):
        S.ctx.trusted.add("callback contract: function_handle(shape) returns a real array of exactly the requested shape")
        shp = N._shape_arg(S.ctx, shape)
        return Arr.fresh("fvals", shp, "real")
    fh._pyvc_native = True
    return fh


@register
class sp_from_function(Contract):
    qual = Q + "from_function"
    props = ("C20", "C06")
    doc = (
        "sptensor.from_function(f, shape, nonzeros) for every random stream: nonzeros outside [0, prod(shape)] is "
        "rejected; the result has the requested shape, at most the requested number of stored entries (fraction < 1: "
        "ceil(fraction * prod(shape))), pairwise distinct subscripts inside the shape (np.unique of floor(u * extent)), "
        "and its values are f((nnz, 1)).  ('exactly the requested number' is not provable: the generator gives up after "
        "ten redraws; see KNOWN_FINDINGS.)"
    )
    inline = INLINE_CTOR

    @staticmethod
    def _loop_inv(S, a, env, i):
        """Redraw loop: `subs` is always a matrix of pairwise distinct subscripts inside the shape."""
        subs = env["subs"]
        if not (isinstance(subs, Arr) and subs.ndim == 2):
            return False
        Nn = a["shape"].shape[0]
        srow = N.seq_as_row(S.ctx, a["shape"])
        rf = N.ensure_rows(S.ctx, subs)
        k, l = z3.Int("ffl!k"), z3.Int("ffl!l")
        m = subs.shape[0]
        return S.And(
            S.eq(subs.shape[1], Nn), T.ge(m, 0), T.ge(env["cnt"], 0),
            T.ForAll([k], z3.Implies(z3.And(0 <= k, T.tz(k < m)), N.INRNG(srow, rf(k))), [rf(k)]),
            T.ForAll([k, l], z3.Implies(z3.And(0 <= k, k < l, T.tz(l < m)), rf(k) != rf(l))),
        )

    @staticmethod
    def _loop_havoc(S, a, env, name):
        if name == "cnt":
            return T.fresh_int("cnt")
        r = N.fresh_row_matrix("redraw", S.nat("redraw_rows"), a["shape"].shape[0])
        S.assume(N.row_matrix_wf(r))
        return r

    loops = {0: dict(modifies=["subs", "cnt"], inv=lambda S, a, env, i: sp_from_function._loop_inv(S, a, env, i),
                     havoc=lambda S, a, env, name: sp_from_function._loop_havoc(S, a, env, name))}

    def case_names(self):
        return ["count", "fraction"]

    def setup(self, S, case):
        Nn = S.int("N", 1)
        shape = S.vector("shape", Nn, "int", kind="tuple")
        S.assume(S.forall(0, Nn, lambda q: shape.fn(q) >= 1, pats=lambda q: [shape.fn(q)]))
        for ax in N.mixed_radix_axioms():
            S.ctx.assume(ax)
        if case == "count":
            nz = S.int("nonzeros")
        else:
            nz = S.real("fraction")
            S.assume(z3.And(nz > 0, nz < 1))
        from pyvc.interp import ClassRef
        return dict(cls=ClassRef("sptensor"), function_handle=_value_callback(S), shape=shape, nonzeros=nz, __case__=case)

    @staticmethod
    def _identify_rows(S, srow):
        # the body builds its own row for parse_shape(shape): ground extensionality instances
        for p in S.ctx.ghosts.get("row", []):
            if p is not srow:
                S.ctx.assume(N.row_ext(srow, p))
                S.ctx.assume(N.row_ext(p, srow))

    def raises_when(self, S, a):
        srow = N.seq_as_row(S.ctx, a["shape"])
        self._identify_rows(S, srow)
        nz = T.tz(a["nonzeros"])
        P = N.PRODR(srow)
        yield "count-out-of-range", z3.Or(nz < 0, nz > (P if T.sort_of(nz) == "int" else z3.ToReal(P)))

    def ensures(self, S, a, ret):
        shape_in = a["shape"]
        Nn = shape_in.shape[0]
        srow = N.seq_as_row(S.ctx, shape_in)
        self._identify_rows(S, srow)
        yield "returns-sptensor", _is_sptensor(ret)
        subs, vals, shape = result_parts(ret)
        slen, sat = seq_view(shape)
        q = z3.Int("ff!q")
        yield "requested-shape", S.And(S.eq(slen, Nn), T.ForAll([q], z3.Implies(z3.And(0 <= q, q < Nn), sat(q) == T.tz(shape_in.fn(q)))))
        for item in wf_clauses(S, ret, srow, Nn):
            yield item
        m = subs.shape[0]
        nz = T.tz(a["nonzeros"])
        if T.sort_of(nz) == "int":
            yield "at-most-the-requested-count", T.tz(T.le(m, nz))
        else:
            P = z3.ToReal(N.PRODR(srow))
            yield "at-most-the-requested-count-or-ceil(fraction*size)", z3.If(nz < 1, z3.ToReal(T.tz(m)) < nz * P + 1, z3.ToReal(T.tz(m)) <= nz)


class _FromFunctionCallSite:
    """call-site part of the from_function contract (used by sptenrand)."""


def _ff_fresh_result(self, S, a):
    shape = a["shape"]
    if not isinstance(shape, Arr):
        raise PathAbort("from_function call site: shape is not a symbolic tuple")
    Nn = shape.shape[0]
    m = S.nat("ff_nnz")
    subs = N.fresh_row_matrix("ff_subs", m, Nn)
    S.assume(N.row_matrix_wf(subs))
    vals = Arr.fresh("ff_vals", (m, 1), "real")
    return Rec("sptensor", dict(subs=subs, vals=vals, shape=shape))


def _ff_bind_case(a):
    if "__case__" not in a:
        nz = a["nonzeros"]
        a["__case__"] = "count" if T.sort_of(nz) == "int" else "real"
    return a


sp_from_function.fresh_result = _ff_fresh_result


@register
class sp_sptenrand(Contract):
    qual = "pyttb.sptensor.sptenrand"
    props = ("C20",)
    doc = (
        "sptenrand(shape, density | nonzeros) for every random stream: exactly one of density / nonzeros must be given "
        "and density must lie in (0, 1] (else raises); the result is a well-formed sptensor of the requested shape with "
        "at most the requested number (nonzeros) resp. ceil(density * prod(shape)) (density < 1) resp. prod(shape) "
        "(density = 1) of pairwise distinct subscripts."
    )
    inline = ("pyttb.pyttb_utils.parse_shape",)

    def case_names(self):
        return ["nonzeros", "density<1", "density=1", "neither", "both"]

    def setup(self, S, case):
        Nn = S.int("N", 1)
        shape = S.vector("shape", Nn, "int", kind="tuple")
        S.assume(S.forall(0, Nn, lambda q: shape.fn(q) >= 1, pats=lambda q: [shape.fn(q)]))
        for ax in N.mixed_radix_axioms():
            S.ctx.assume(ax)
        a = dict(shape=shape, __case__=case)
        if case == "nonzeros":
            a["nonzeros"] = S.int("nonzeros")
        elif case == "density<1":
            d = S.real("density")
            a["density"] = d
        elif case == "density=1":
            a["density"] = 1.0
        elif case == "both":
            a["density"] = S.real("density")
            a["nonzeros"] = S.int("nonzeros")
        return a

    def raises_when(self, S, a):
        c = a["__case__"]
        if c in ("neither", "both"):
            yield "exactly-one-of-density-and-nonzeros", True
        if c == "density<1":
            d = a["density"]
            yield "density-outside-(0,1]", z3.Or(d <= 0, d > 1)
        if c == "nonzeros":
            srow = N.seq_as_row(S.ctx, a["shape"])
            sp_from_function._identify_rows(S, srow)
            yield "count-out-of-range", z3.Or(a["nonzeros"] < 0, a["nonzeros"] > N.PRODR(srow))

    def ensures(self, S, a, ret):
        shape_in = a["shape"]
        Nn = shape_in.shape[0]
        srow = N.seq_as_row(S.ctx, shape_in)
        sp_from_function._identify_rows(S, srow)
        yield "returns-sptensor", _is_sptensor(ret)
        subs, vals, shape = result_parts(ret)
        slen, sat = seq_view(shape)
        q = z3.Int("sr!q")
        yield "requested-shape", S.And(S.eq(slen, Nn), T.ForAll([q], z3.Implies(z3.And(0 <= q, q < Nn), sat(q) == T.tz(shape_in.fn(q)))))
        for item in wf_clauses(S, ret, srow, Nn):
            yield item
        m = T.tz(subs.shape[0])
        P = N.PRODR(srow)
        c = a["__case__"]
        ca = S.body_ghosts.get("callargs:from_function")
        if ca:
            # what is asked of the generator: the count itself, the fraction (< 1), or every cell (density 1)
            asked = T.tz(T.as_real(ca[-1]["nonzeros"]))
            want = {"nonzeros": lambda: z3.ToReal(T.tz(a["nonzeros"])), "density=1": lambda: z3.ToReal(P),
                    "density<1": lambda: z3.If(a["density"] < 1, a["density"], z3.ToReal(P))}.get(c)
            if want is not None:
                yield "request-passed-to-the-generator", asked == want()
        if c == "nonzeros":
            yield "at-most-the-requested-count", m <= a["nonzeros"]
        elif c == "density=1":
            yield "at-most-all-cells", m <= P
        else:
            yield "at-most-ceil(density*size)", z3.ToReal(m) < a["density"] * z3.ToReal(P) + 1


@register
class sp_sptendiag(Contract):
    qual = "pyttb.sptensor.sptendiag"
    props = ("C20", "C06")
    doc = (
        "sptendiag(elements[, shape]): with n = len(elements) the result has shape (n,)*n, or max(n, dim) per requested "
        "dim; every stored subscript is a diagonal subscript (i, ..., i) with i < n and holds elements[i] != 0; every i "
        "with elements[i] != 0 is stored; the result is well-formed (distinct subscripts inside the shape)."
    )
    inline = ("pyttb.pyttb_utils.parse_shape", "pyttb.pyttb_utils.parse_one_d")

    def case_names(self):
        return ["default-shape", "given-shape"]

    def setup(self, S, case):
        n = S.int("n", 1)
        elements = S.vector("elements", n, "real")
        a = dict(elements=elements, __case__=case)
        if case == "given-shape":
            L = S.int("L", 1)
            shape = S.vector("shape", L, "int", kind="tuple")
            S.assume(S.forall(0, L, lambda q: shape.fn(q) >= 1, pats=lambda q: [shape.fn(q)]))
            a["shape"] = shape
        for ax in N.mixed_radix_axioms():
            S.ctx.assume(ax)
        return a

    def ensures(self, S, a, ret):
        el = a["elements"]
        n = el.shape[0]
        yield "returns-sptensor", _is_sptensor(ret)
        subs, vals, shape = result_parts(ret)
        slen, sat = seq_view(shape)
        q, t, c, i = z3.Int("sd!q"), z3.Int("sd!t"), z3.Int("sd!c"), z3.Int("sd!i")
        if a["__case__"] == "default-shape":
            L = n
            yield "shape-is-(n,)*n", S.And(S.eq(slen, n), T.ForAll([q], z3.Implies(z3.And(0 <= q, q < n), sat(q) == n)))
        else:
            sh = a["shape"]
            L = sh.shape[0]
            yield "shape-is-max(n,dim)", S.And(S.eq(slen, L), T.ForAll([q], z3.Implies(z3.And(0 <= q, q < L), sat(q) == z3.If(T.tz(sh.fn(q)) > n, T.tz(sh.fn(q)), n))))
        srow = N.seq_as_row(S.ctx, shape)
        for item in wf_clauses(S, ret, srow, L):
            yield item
        m = subs.shape[0]
        rf = N.ensure_rows(S.ctx, subs)
        d = lambda t_: N.relem(rf(t_), 0)
        yield "stored-subscripts-are-diagonal-and-hold-their-element", T.ForAll(
            [t], z3.Implies(z3.And(0 <= t, T.tz(t < m)), z3.And(
                0 <= d(t), d(t) < n, T.tz(T.as_real(vals.fn(t, 0))) == T.tz(el.fn(d(t))), T.tz(el.fn(d(t))) != 0,
                T.ForAll([c], z3.Implies(z3.And(0 <= c, c < L), N.relem(rf(t), c) == d(t))))), [rf(t)])
        pos = getattr(ret, "ghost", {}).get("pos")
        ca = S.body_ghosts.get("callargs:from_aggregator")
        if pos is None or not ca:
            raise PathAbort("sptendiag contract: no call-site ghost of from_aggregator")
        gval = ret.ghost["gval"]
        rin = N.ensure_rows(S.ctx, ca[-1]["subs"])
        k1, k2 = z3.Int("sd!k1"), z3.Int("sd!k2")
        yield "lemma:aggregated-rows-are-the-diagonal-subscripts", T.ForAll(
            [k1, c], z3.Implies(z3.And(0 <= k1, k1 < n, 0 <= c, c < L), N.relem(rin(k1), c) == k1), [N.relem(rin(k1), c)]), "lemma"
        yield "lemma:aggregated-rows-pairwise-distinct", T.ForAll(
            [k1, k2], z3.Implies(z3.And(0 <= k1, k1 < n, 0 <= k2, k2 < n, k1 != k2), rin(k1) != rin(k2)), [[rin(k1), rin(k2)]]), "lemma"
        yield "lemma:each-group-is-one-element", T.ForAll(
            [k1], z3.Implies(z3.And(0 <= k1, k1 < n), gval(k1) == T.tz(el.fn(k1))), [rin(k1)]), "lemma"
        yield "every-nonzero-element-is-stored-on-the-diagonal", T.ForAll(
            [i], z3.Implies(z3.And(0 <= i, i < n, T.tz(el.fn(i)) != 0), z3.And(
                0 <= pos(i), T.tz(pos(i) < m), T.tz(T.as_real(vals.fn(pos(i), 0))) == T.tz(el.fn(i)),
                T.ForAll([c], z3.Implies(z3.And(0 <= c, c < L), N.relem(rf(pos(i)), c) == i)))), [el.fn(i)])


@register
class sp_set_subscripts(Contract):
    qual = Q + "_set_subscripts"
    props = ("C04", "C06")
    doc = (
        "S[K] = v for a p x N matrix K of pairwise distinct non-negative subscripts (same order as S) and a column of p "
        "values: afterwards the extent of every mode is max(old extent, largest assigned subscript + 1) -- also when the "
        "far-out position receives a zero --, S is well-formed (subscripts inside the new shape, pairwise distinct, no stored "
        "zero), every assigned position holds its new value (absent if that value is zero) and every other position keeps "
        "its old value."
    )
    inline = ("pyttb.pyttb_utils.tt_subscheck", "pyttb.pyttb_utils.tt_valscheck", Q + "ndims", Q + "nnz")

    @staticmethod
    def _shape_inv(S, a, env, i):
        """shape loop: the list built so far holds max(old extent, largest assigned subscript + 1) for the modes done."""
        lst = env.get("newshape")
        A = a["__self__"]
        K = a["key"]
        p = K.shape[0]
        old = a["__oldshape__"]
        if isinstance(lst, list):
            return S.And(len(lst) == 0, S.eq(i, 0))
        if not (isinstance(lst, Arr) and lst.ndim == 1):
            return False
        m, j = z3.Int("ss!m"), z3.Int("ss!j")
        v = lambda q: T.tz(lst.fn(q))
        return S.And(
            S.eq(lst.shape[0], i),
            T.ForAll([m], z3.Implies(z3.And(0 <= m, T.tz(m < i)), v(m) >= T.tz(old.fn(m)))),
            T.ForAll([m, j], z3.Implies(z3.And(0 <= m, T.tz(m < i), 0 <= j, T.tz(j < p)), v(m) >= T.tz(K.fn(j, m)) + 1)),
            T.ForAll([m], z3.Implies(z3.And(0 <= m, T.tz(m < i)), z3.Or(v(m) == T.tz(old.fn(m)), T.Exists([j], z3.And(0 <= j, T.tz(j < p), v(m) == T.tz(K.fn(j, m)) + 1))))),
        )

    loops = {0: dict(modifies=["newshape"], inv=lambda S, a, env, i: sp_set_subscripts._shape_inv(S, a, env, i),
                     havoc=lambda S, a, env, name: Arr.fresh("newshape", (S.nat("nsl"),), "int", "list"))}

    def setup(self, S, case):
        A = sym_sptensor(S, "A")
        g = A.ghost
        p = S.int("p", 1)
        K = S.row_matrix("K", p, g["N"])
        j, l, m = z3.Int("ss!j"), z3.Int("ss!l"), z3.Int("ss!m")
        kf = K.rowfn
        S.assume(T.ForAll([j, m], z3.Implies(z3.And(0 <= j, j < p, 0 <= m, m < g["N"]), N.relem(kf(j), m) >= 0), [N.relem(kf(j), m)]))
        S.assume(T.ForAll([j, l], z3.Implies(z3.And(0 <= j, j < l, l < p), kf(j) != kf(l)), [[kf(j), kf(l)]]))
        V = S.matrix("V", p, 1, "real")
        # the shape before the call (the receiver is modified in place)
        old = Arr(A.fields["shape"].shape, N.snap(A.fields["shape"]).fn, "int", "tuple")
        ov = N.snap(A.fields["vals"])
        return dict(__self__=A, key=K, value=V, __oldshape__=old, __oldvals__=(lambda k_: T.tz(ov.fn(k_, 0))), __oldrows__=A.fields["subs"].rowfn)

    def ensures(self, S, a, ret):
        A, K, V, old = a["__self__"], a["key"], a["value"], a["__oldshape__"]
        g = A.ghost
        Nn = g["N"]
        p = K.shape[0]
        f = A.fields
        shape = f["shape"]
        slen, sat = seq_view(shape)
        m, j = z3.Int("ss!m"), z3.Int("ss!j")
        yield "shape:same-order", S.eq(slen, Nn)
        yield "shape:never-shrinks", T.ForAll([m], z3.Implies(z3.And(0 <= m, m < Nn), sat(m) >= T.tz(old.fn(m))))
        yield "shape:covers-every-assigned-subscript(also-zeros)", T.ForAll(
            [m, j], z3.Implies(z3.And(0 <= m, m < Nn, 0 <= j, T.tz(j < p)), sat(m) >= T.tz(K.fn(j, m)) + 1))
        yield "shape:grows-no-further-than-needed", T.ForAll(
            [m], z3.Implies(z3.And(0 <= m, m < Nn), z3.Or(sat(m) == T.tz(old.fn(m)), T.Exists([j], z3.And(0 <= j, T.tz(j < p), sat(m) == T.tz(K.fn(j, m)) + 1)))))
        # ---- representation after the write
        subs, vals = f["subs"], f["vals"]
        yield "arrays-2-D", subs.ndim == 2 and vals.ndim == 2
        if subs.ndim != 2 or vals.ndim != 2:
            return
        n2 = subs.shape[0]
        yield "one-value-per-subscript", S.And(S.eq(vals.shape[0], n2), S.eq(vals.shape[1], 1), S.Or(S.eq(n2, 0), S.eq(subs.shape[1], Nn)))
        rf2 = N.ensure_rows(S.ctx, subs)
        t, u = z3.Int("ss!t"), z3.Int("ss!u")
        kf = K.rowfn
        find, oldvals = g["find"], a["__oldvals__"]
        v2 = lambda t_: T.tz(T.as_real(vals.fn(t_, 0)))
        ug = S.body_ghosts.get("unique")
        if ug:
            # the assigned subscripts are pairwise distinct, so sorting them (np.unique) is a bijection:
            # unique row u is key idx(u), key j is unique row inv(j)
            (mu, uidx, uinv) = ug[-1]
            yield "lemma:sorted-keys-are-a-bijection-of-the-keys", z3.And(mu == T.tz(p), T.ForAll(
                [j], z3.Implies(z3.And(0 <= j, T.tz(j < p)), z3.And(0 <= uinv(j), uinv(j) < mu, uidx(uinv(j)) == j)), [kf(j)])), "lemma"
        yield "stored-subscripts-inside-the-new-shape", T.ForAll(
            [t, m], z3.Implies(z3.And(0 <= t, T.tz(t < n2), 0 <= m, m < Nn), z3.And(0 <= N.relem(rf2(t), m), N.relem(rf2(t), m) < sat(m))))
        yield "no-stored-zero", T.ForAll([t], z3.Implies(z3.And(0 <= t, T.tz(t < n2)), v2(t) != 0))
        yield "an-assigned-position-that-is-stored-holds-its-new-value", T.ForAll(
            [t, j], z3.Implies(z3.And(0 <= t, T.tz(t < n2), 0 <= j, T.tz(j < p), rf2(t) == kf(j)), v2(t) == T.tz(V.fn(j, 0))), [[rf2(t), kf(j)]])
        is_key = T.fresh_fun("keypos", N.Row, z3.IntSort())  # Skolem: position of a row among the keys, or -1
        yield "every-other-stored-position-holds-its-old-value", T.ForAll(
            [t], z3.Implies(z3.And(0 <= t, T.tz(t < n2)),
                            z3.Or(T.Exists([j], z3.And(0 <= j, T.tz(j < p), rf2(t) == kf(j))),
                                  z3.And(find(rf2(t)) >= 0, v2(t) == oldvals(find(rf2(t)))))), [rf2(t)])
        yield "stored-subscripts-pairwise-distinct", T.ForAll([t, u], z3.Implies(z3.And(0 <= t, t < u, T.tz(u < n2)), rf2(t) != rf2(u)))
        # ---- completeness, by explicit positions (witnesses read off the body's own locals)
        env = getattr(S.it, "top_env", None) or {}
        need = ("tf", "idxa", "idxb", "idxc")
        if not ug or not all(isinstance(env.get(x), Arr) for x in need):
            return
        n_old = g["n"]
        tf = N.snap(env["tf"])
        TF = lambda u_: T.tz(tf.fn(u_))
        keep = env.get("keepsubs")
        if isinstance(keep, Arr) and "setdiff" in keep.ghost:
            nk, _sdpos, sdslot = keep.ghost["setdiff"]
            posold = lambda k_: sdslot(k_)
        else:
            nk, posold = n_old, (lambda k_: k_)
        _, _, rk_c = N.select_ghost_of(S.ctx, env["idxc"])
        tpos = lambda j_: z3.If(TF(uinv(j_)) >= 0, posold(TF(uinv(j_))), T.tz(nk) + rk_c(uinv(j_)))
        k = z3.Int("ss!k")
        rf_old = a["__oldrows__"]
        yield "every-old-entry-that-is-not-assigned-zero-is-still-stored", T.ForAll(
            [k], z3.Implies(z3.And(0 <= k, k < n_old, T.ForAll([j], z3.Implies(z3.And(0 <= j, T.tz(j < p), rf_old(k) == kf(j)), T.tz(V.fn(j, 0)) != 0))),
                            z3.And(0 <= posold(k), T.tz(posold(k) < n2), rf2(posold(k)) == rf_old(k))), [rf_old(k)])
        yield "every-assigned-non-zero-value-is-stored", T.ForAll(
            [j], z3.Implies(z3.And(0 <= j, T.tz(j < p), T.tz(V.fn(j, 0)) != 0),
                            z3.And(0 <= tpos(j), T.tz(tpos(j) < n2), rf2(tpos(j)) == kf(j), v2(tpos(j)) == T.tz(V.fn(j, 0)))), [kf(j)])


@register
class sp_getitem(Contract):
    qual = Q + "__getitem__"
    props = ("C04", "C19")
    doc = (
        "S[K] for a p x N matrix K of subscripts: one value per row, Den(S) at that subscript (a bare number when p = 1); "
        "S[idx] for a vector of linear indices (negative indices count from the end): one value per index, Den(S) at "
        "UNRAVEL_F(shape, idx) -- first subscript fastest; subscripts / indices outside the tensor are rejected.  (Region "
        "keys -- tuples of integers, slices and lists -- are outside the executor: bounded stand-in c04.histories.)"
    )
    inline = ("pyttb.pyttb_utils.tt_subsubsref", Q + "ndims")

    def case_names(self):
        return ["subscripts", "linear-array"]

    def setup(self, S, case):
        A = sym_sptensor(S, "A")
        g = A.ghost
        p = S.int("p", 1)
        if case == "subscripts":
            return dict(__self__=A, item=S.row_matrix("K", p, g["N"]), __case__=case)
        return dict(__self__=A, item=S.vector("idx", p, "int"), __case__=case)

    def raises_when(self, S, a):
        A, item = a["__self__"], a["item"]
        g = A.ghost
        p = item.shape[0]
        k, m = z3.Int("gi!k"), z3.Int("gi!m")
        if a["__case__"] == "subscripts":
            shp = A.fields["shape"]
            yield "subscript-outside-the-tensor", T.Exists(
                [k, m], z3.And(0 <= k, T.tz(k < p), 0 <= m, m < g["N"], z3.Or(T.tz(item.fn(k, m)) < 0, T.tz(item.fn(k, m)) >= T.tz(shp.fn(m)))))
        else:
            P = N.PRODR(g["srow"])
            yield "index-outside-the-tensor", T.Exists([k], z3.And(0 <= k, T.tz(k < p), z3.Or(T.tz(item.fn(k)) < -P, T.tz(item.fn(k)) >= P)))

    def ensures(self, S, a, ret):
        A, item = a["__self__"], a["item"]
        g = A.ghost
        p = item.shape[0]
        k = z3.Int("gi!k")
        if a["__case__"] == "subscripts":
            row = item.rowfn
        else:
            P = N.PRODR(g["srow"])
            wrap = lambda v: z3.If(v < 0, v + P, v)
            row = lambda k_: N.UNRAVELF(g["srow"], wrap(T.tz(item.fn(k_))))
            ca = S.body_ghosts.get("callargs:extract")
            if ca:
                # the rows handed to extract are the unravelled indices (element-wise by tt_ind2sub's contract; as rows by extensionality)
                rb = N.ensure_rows(S.ctx, ca[-1]["searchsubs"])
                yield "lemma:looked-up-rows-are-the-unravelled-indices", T.ForAll(
                    [k], z3.Implies(z3.And(0 <= k, T.tz(k < p)), z3.And(N.rdiff(rb(k), row(k)) == N.rdiff(rb(k), row(k)), rb(k) == row(k))), [rb(k)]), "lemma"
        if isinstance(ret, Arr):
            yield "one-value-per-key", S.And(ret.ndim == 2, S.eq(ret.shape[0], p), S.eq(ret.shape[1], 1))
            yield "value-is-the-denoted-entry", T.ForAll([k], z3.Implies(z3.And(0 <= k, T.tz(k < p)), T.tz(T.as_real(ret.fn(k, 0))) == den(A, row(k))))
        else:
            yield "a-bare-number-only-for-a-single-key", S.eq(p, 1)
            yield "value-is-the-denoted-entry", T.tz(T.as_real(ret)) == den(A, row(0))


@register
class sp_setitem(Contract):
    qual = Q + "__setitem__"
    props = ("C04",)
    doc = (
        "S[K] = v with K a two-dimensional array of subscripts: the assignment is carried out by exactly one call of "
        "_set_subscripts(K, v) on S with the same key and value objects (delegation; the effect is that function's own "
        "contract).  Other key forms: bounded stand-in."
    )
    inline = ("pyttb.pyttb_utils.get_index_variant",)
    opaque_calls = (Q + "_set_subscripts", Q + "_set_subtensor")

    def setup(self, S, case):
        A = sym_sptensor(S, "A")
        p = S.int("p", 1)
        return dict(__self__=A, key=S.row_matrix("K", p, A.ghost["N"]), value=S.matrix("V", p, 1, "real"))

    def ensures(self, S, a, ret):
        calls = S.body_ghosts.get("opaquecall:_set_subscripts", [])
        other = S.body_ghosts.get("opaquecall:_set_subtensor", [])
        # structural facts about the executed path, recorded as (trivially decided) obligations
        yield "exactly-one-delegation-to-_set_subscripts", z3.BoolVal(len(calls) == 1 and len(other) == 0)
        if len(calls) == 1:
            c = calls[0]
            yield "same-receiver-key-and-value", z3.BoolVal(bool(c["self"] is a["__self__"] and len(c["pos"]) == 2 and c["pos"][0] is a["key"] and c["pos"][1] is a["value"] and not c["kw"]))


# ======================================================================= elemfun (C03)

def _entry_function(S):
    """A caller-supplied element function: applied to the value column it returns a column of the same shape whose
    entry k is F(v_k) for one fixed real function F (precondition on the callback; recorded as an assumption)."""
    F = z3.Function(T.fresh_name("elemF"), z3.RealSort(), z3.RealSort())

    def fh(it, vals):
        S.ctx.trusted.add("callback contract: function_handle(vals) applies one real function F to every entry of the value column")
        v = N.snap(vals)
        return Arr(v.shape, lambda *i: F(T.tz(T.as_real(v.fn(*i)))), "real")
    fh._pyvc_native = True
    return fh, F


@register
class sp_elemfun(Contract):
    qual = Q + "elemfun"
    props = ("C03", "C06")
    doc = ("S.elemfun(f) for any real function f applied entry-wise to the stored values: the result has S's shape and stores, "
           "in S's order, exactly the stored positions k of S with f(v_k) != 0, each with value f(v_k) -- well-formed and "
           "zero-free; so Den(result) = f(Den(S)) on the stored positions of S (zeros of f dropped) and 0 elsewhere.")
    inline = INLINE_CTOR

    def setup(self, S, case):
        A = sym_sptensor(S, "A")
        fh, F = _entry_function(S)
        return dict(__self__=A, function_handle=fh, __F__=F)

    def ensures(self, S, a, ret):
        A, F = a["__self__"], a["__F__"]
        g = A.ghost
        n = g["n"]
        yield "returns-sptensor", _is_sptensor(ret)
        if not _is_sptensor(ret):
            return
        yield "shape-kept", shape_equal(S, ret.fields["shape"], A.fields["shape"])
        subs, vals, _ = result_parts(ret)
        for c in wf_clauses(S, ret, g["srow"], g["N"]):
            yield c
        if subs.ndim != 2 or vals.ndim != 2:
            return
        m = subs.shape[0]
        Fv = lambda k_: F(T.tz(A.fields["vals"].fn(k_, 0)))
        t, k = z3.Int("ef!t"), z3.Int("ef!k")
        gs = S.body_ghosts.get("nonzero2")
        ra, rr = A.fields["subs"].rowfn, N.ensure_rows(S.ctx, subs)
        if gs and not isinstance(m, int):
            # np.where on the value column (n x 1): entry t of the row indices is sel(t); row k sits at rank pos(k, 0)
            (K, ri, ci, pos) = gs[-1]
            sel, rk = ri, (lambda k_: pos(k_, 0))
            yield "count-of-kept-entries", S.eq(m, K)
            yield "kept-entries-in-order-with-mapped-values", T.ForAll(
                [t], z3.Implies(z3.And(0 <= t, T.tz(t < m)), z3.And(0 <= sel(t), sel(t) < n, rr(t) == ra(sel(t)), T.tz(vals.fn(t, 0)) == Fv(sel(t)), Fv(sel(t)) != 0)), [rr(t)])
            yield "every-entry-with-non-zero-image-is-kept", T.ForAll(
                [k], z3.Implies(z3.And(0 <= k, k < n, Fv(k) != 0), z3.And(0 <= rk(k), T.tz(rk(k) < m), rr(rk(k)) == ra(k), T.tz(vals.fn(rk(k), 0)) == Fv(k))), [ra(k)])
        else:
            # no entry survives: the result stores nothing
            yield "nothing-stored", S.eq(m, 0)
            yield "every-image-is-zero", T.ForAll([k], z3.Implies(z3.And(0 <= k, k < n), Fv(k) == 0))
        yield "no-stored-zero", T.ForAll([t], z3.Implies(z3.And(0 <= t, T.tz(t < m)), T.tz(vals.fn(t, 0)) != 0))


# ======================================================================= isequal (C03: exact comparison of two sparse tensors)

@register
class sp_isequal(Contract):
    qual = Q + "isequal"
    props = ("C03", "C06")
    doc = ("S.isequal(O) for two well-formed sptensors of ANY shapes (sparse x sparse branch): the answer is True exactly when the "
           "shapes are equal and Den(S)(r) = Den(O)(r) at every subscript r of that shape -- independent of the stored order.  "
           "Uses the contract of S - O at the call site.  One direction of one path (different counts of stored entries => the "
           "tensors differ) needs counting and rests on lemma L10: two well-formed zero-free sparse tensors with the same "
           "denotation store equally many entries (both store exactly the support).")
    inline = INLINE_CTOR + (Q + "nnz",)

    def setup(self, S, case):
        A = sym_sptensor(S, "A")
        B = sym_sptensor(S, "B")
        return dict(__self__=A, other=B)

    def ensures(self, S, a, ret):
        A, B = a["__self__"], a["other"]
        srow = A.ghost["srow"]
        r = z3.Const("ie!r", N.Row)
        same_shape = shape_equal(S, A.fields["shape"], B.fields["shape"])
        same_den = T.ForAll([r], z3.Implies(N.INRNG(srow, r), den(A, r) == den(B, r)), [N.INRNG(srow, r)])
        # lemma L10 (counting; assumed): equal shapes and equal denotations => equally many stored entries
        S.ctx.assume(z3.Implies(z3.And(same_shape, same_den), A.ghost["n"] == B.ghost["n"]),
                     trusted="lemma:L10 two well-formed zero-free sparse tensors of one shape with the same denotation store equally many entries (both store exactly the support; counting, assumed)")
        yield "answers-with-a-boolean", isinstance(ret, bool) or (T.is_sym(ret) and T.sort_of(ret) == "bool")
        rb = ret if not isinstance(ret, bool) else z3.BoolVal(ret)
        yield "true-only-for-equal-shape-and-denotation", z3.Implies(rb, z3.And(same_shape, same_den))
        yield "true-for-equal-shape-and-denotation", z3.Implies(z3.And(same_shape, same_den), rb)
