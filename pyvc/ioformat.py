"""File-format obligations for C16 (export followed by import), decided on the real ASTs.

The round trip depends on a handful of constants and index offsets; each is an obligation here:

  precision   every default number format of the exporters prints at least 17 significant decimal digits
              (%.Ne with N >= 16, %.Ng with N >= 17, %r / %a exact) -- with lemma L5 (17 significant digits
              determine a binary64 value; strtod/printf are correctly rounded) the value read back is the value
              written;
  base        the sparse exporter writes subscripts + 1, the sparse importer subtracts index_base, and the
              importer's default index_base is 1;
  stateless   no writer / reader touches a mutable module-level object, a `global`, or a memoising decorator -- what one
              call writes depends on its arguments only;
  layout      the dense exporter writes the transposed data array (C order of the transpose = F order of the
              tensor), the importers rebuild matrices with a C-order reshape (no order= other than 'C').

These are syntactic checks of which constant / offset the code uses; they do not model file I/O, tokenisation
or np.fromfile (assumed: whitespace-separated decimal tokens are read back in order).
"""

from __future__ import annotations

import ast
import re
import time

from .extract import Index

EXP = "pyttb.export_data."
IMP = "pyttb.import_data."


def _sig_digits(fmt: str):
    """Significant decimal digits guaranteed by a printf-style format, or None if unknown / exact -> 99."""
    m = re.fullmatch(r"%[-+ #0]*\d*(?:\.(\d+))?([eEgGfFra])", fmt.strip())
    if not m:
        return None
    prec, conv = m.group(1), m.group(2)
    if conv in "ra":
        return 99
    if prec is None:
        prec = "6"
    p = int(prec)
    if conv in "eE":
        return p + 1
    if conv in "gG":
        return max(p, 1)
    return 0  # %f: fixed number of decimals, no guarantee on significant digits


def _module_consts(index: Index, module_file: str):
    import os
    tree = ast.parse(open(os.path.join(index.repo, module_file)).read())
    out = {}
    for n in tree.body:
        if isinstance(n, ast.Assign) and len(n.targets) == 1 and isinstance(n.targets[0], ast.Name) and isinstance(n.value, ast.Constant):
            out[n.targets[0].id] = n.value.value
    return out


def obligations(index: Index):
    t0 = time.time()
    out = []

    def add(q, label, ok, why, line=None, missing=False):
        out.append(dict(name=f"{q}#format:{label}", function=q, kind="format", line=line, backend="ast",
                        status="missing" if missing else ("discharged" if ok else "refuted"), time=0.0, solver_output="" if ok else why))

    consts = _module_consts(index, "pyttb/export_data.py")
    # ---- precision of every default format
    for fn in ("export_weights", "export_array", "export_factor", "export_sparse_array"):
        q = EXP + fn
        fi = index.get(q)
        if fi is None:
            add(q, "default-format-has-17-significant-digits", False, "function missing", missing=True)
            continue
        found, bad = 0, []
        for n in ast.walk(fi.node):
            if isinstance(n, ast.Assign) and len(n.targets) == 1 and isinstance(n.targets[0], ast.Name) and n.targets[0].id in ("fmt_data", "fmt_weights"):
                v = n.value
                lit = v.value if isinstance(v, ast.Constant) else (consts.get(v.id) if isinstance(v, ast.Name) else None)
                found += 1
                if not isinstance(lit, str):
                    bad.append(f"L{n.lineno}: default format is not a string constant")
                    continue
                d = _sig_digits(lit)
                if d is None or d < 17:
                    bad.append(f"L{n.lineno}: default format {lit!r} guarantees {d} significant digits (< 17)")
        # formats passed directly to tofile(...)
        for n in ast.walk(fi.node):
            if isinstance(n, ast.Call) and isinstance(n.func, ast.Attribute) and n.func.attr == "tofile":
                for kw in n.keywords:
                    if kw.arg == "format" and isinstance(kw.value, ast.Constant) and isinstance(kw.value.value, str) and kw.value.value != "%d":
                        found += 1
                        d = _sig_digits(kw.value.value)
                        if d is None or d < 17:
                            bad.append(f"L{n.lineno}: format {kw.value.value!r} guarantees {d} significant digits (< 17)")
        if not found:
            bad.append("no default format found (renamed?)")
        add(q, "default-format-has-17-significant-digits", not bad, "; ".join(bad), fi.node.lineno)

    # ---- index base
    q = EXP + "export_sparse_array"
    fi = index.get(q)
    ok, why = False, "no `subs = A.subs[i, :] + 1` found"
    if fi is not None:
        for n in ast.walk(fi.node):
            if isinstance(n, ast.Assign) and isinstance(n.value, ast.BinOp) and isinstance(n.value.op, ast.Add):
                l, r = n.value.left, n.value.right
                one = lambda x: isinstance(x, ast.Constant) and x.value == 1
                sub = lambda x: "subs" in ast.unparse(x)
                if (one(r) and sub(l)) or (one(l) and sub(r)):
                    ok = True
    add(q, "subscripts-written-one-based", ok, why, fi.node.lineno if fi else None, missing=fi is None)

    q = IMP + "import_sparse_array"
    fi = index.get(q)
    ok, why = False, "no `<token> - index_base` found for the subscripts"
    if fi is not None:
        for n in ast.walk(fi.node):
            if isinstance(n, ast.BinOp) and isinstance(n.op, ast.Sub) and isinstance(n.right, ast.Name) and n.right.id == "index_base":
                ok = True
        for n in ast.walk(fi.node):
            if isinstance(n, ast.BinOp) and isinstance(n.op, ast.Add) and any(isinstance(x, ast.Name) and x.id == "index_base" for x in (n.left, n.right)):
                ok, why = False, f"L{n.lineno}: index_base is added, not subtracted"
    add(q, "subscripts-read-relative-to-index_base", ok, why, fi.node.lineno if fi else None, missing=fi is None)

    # subscripts are read as integers, never through floating point (exact for every int64 subscript)
    q = IMP + "import_sparse_array"
    fi = index.get(q)
    bad = []
    if fi is not None:
        for n in ast.walk(fi.node):
            if isinstance(n, ast.Call):
                f = ast.unparse(n.func)
                if f.split(".")[-1] in ("fromfile", "loadtxt", "genfromtxt", "fromstring", "import_array", "float", "float64"):
                    bad.append(f"L{n.lineno}: `{f}` parses the coordinate block through floating point")
    add(q, "subscripts-parsed-as-integers-not-floats", fi is not None and not bad, "; ".join(bad), fi.node.lineno if fi else None, missing=fi is None)

    for fn in ("import_data", "import_sparse_array"):
        q = IMP + fn
        fi = index.get(q)
        ok, why = False, "parameter index_base not found"
        if fi is not None:
            args = fi.node.args
            names = [a.arg for a in args.args]
            if "index_base" in names:
                k = names.index("index_base") - (len(names) - len(args.defaults))
                d = args.defaults[k] if k >= 0 else None
                ok = isinstance(d, ast.Constant) and d.value == 1
                why = f"default index_base is {ast.unparse(d) if d is not None else 'absent'}, files are written one-based"
        add(q, "default-index_base-is-1", ok, why, fi.node.lineno if fi else None, missing=fi is None)

    # the caller passes its index_base on
    q = IMP + "import_data"
    fi = index.get(q)
    ok, why = False, "import_sparse_array is not called with index_base"
    if fi is not None:
        for n in ast.walk(fi.node):
            if isinstance(n, ast.Call) and ast.unparse(n.func).endswith("import_sparse_array"):
                if any(isinstance(a, ast.Name) and a.id == "index_base" for a in n.args) or any(kw.arg == "index_base" and isinstance(kw.value, ast.Name) and kw.value.id == "index_base" for kw in n.keywords):
                    ok = True
    add(q, "index_base-passed-to-the-sparse-reader", ok, why, fi.node.lineno if fi else None, missing=fi is None)

    # the sparse reader hands its arrays to the plain constructor (which keeps the stored order)
    q = IMP + "import_data"
    fi = index.get(q)
    ok, why = False, "the sptensor branch does not return ttb.sptensor(subs, vals, shape)"
    if fi is not None:
        for n in ast.walk(fi.node):
            if isinstance(n, ast.Return) and isinstance(n.value, ast.Call) and ast.unparse(n.value.func) in ("ttb.sptensor", "sptensor"):
                if [ast.unparse(x) for x in n.value.args[:3]] == ["subs", "vals", "shape"]:
                    ok = True
    add(q, "sparse-entries-kept-in-file-order(plain-constructor)", ok, why, fi.node.lineno if fi else None, missing=fi is None)

    # ---- layout
    q = EXP + "export_data"
    fi = index.get(q)
    ok, why = False, "tensor branch does not export `data.data.transpose()`"
    if fi is not None:
        for n in ast.walk(fi.node):
            if isinstance(n, ast.Call) and ast.unparse(n.func) == "export_array" and len(n.args) >= 2:
                if ast.unparse(n.args[1]) in ("data.data.transpose()", "data.data.T", "np.transpose(data.data)"):
                    ok = True
    add(q, "dense-tensor-written-in-F-order(transposed-C-order)", ok, why, fi.node.lineno if fi else None, missing=fi is None)

    q = IMP + "import_data"
    fi = index.get(q)
    bad = []
    n_reshape = 0
    if fi is not None:
        for n in ast.walk(fi.node):
            if isinstance(n, ast.Call) and ast.unparse(n.func) in ("np.reshape",) or (isinstance(n, ast.Call) and isinstance(n.func, ast.Attribute) and n.func.attr == "reshape"):
                n_reshape += 1
                for kw in n.keywords:
                    if kw.arg == "order" and not (isinstance(kw.value, ast.Constant) and kw.value.value == "C"):
                        bad.append(f"L{n.lineno}: reshape with order={ast.unparse(kw.value)} (matrices are written row by row)")
    add(q, "matrices-rebuilt-row-major", fi is not None and n_reshape > 0 and not bad, "; ".join(bad) or "no reshape found", fi.node.lineno if fi else None, missing=fi is None)

    q = EXP + "export_array"
    fi = index.get(q)
    bad = []
    if fi is not None:
        for n in ast.walk(fi.node):
            if isinstance(n, ast.Call) and isinstance(n.func, ast.Attribute) and n.func.attr in ("ravel", "flatten", "reshape"):
                for kw in n.keywords:
                    if kw.arg == "order" and not (isinstance(kw.value, ast.Constant) and kw.value.value == "C"):
                        bad.append(f"L{n.lineno}: {n.func.attr}(order={ast.unparse(kw.value)}) changes the order in which entries are written")
    add(q, "entries-written-in-C-order-of-the-given-array", fi is not None and not bad, "; ".join(bad), fi.node.lineno if fi else None, missing=fi is None)

    # ---- no state carried between calls: the writers / readers use no mutable module-level object and no `global`
    import os
    for modfile, prefix in (("pyttb/export_data.py", EXP), ("pyttb/import_data.py", IMP)):
        tree = ast.parse(open(os.path.join(index.repo, modfile)).read())
        mutable = set()
        for n in tree.body:
            tgt = None
            if isinstance(n, ast.Assign) and len(n.targets) == 1 and isinstance(n.targets[0], ast.Name):
                tgt, val = n.targets[0].id, n.value
            elif isinstance(n, ast.AnnAssign) and isinstance(n.target, ast.Name) and n.value is not None:
                tgt, val = n.target.id, n.value
            if tgt is None:
                continue
            if isinstance(val, (ast.Dict, ast.List, ast.Set, ast.ListComp, ast.DictComp, ast.SetComp)) or (
                    isinstance(val, ast.Call) and ast.unparse(val.func).split(".")[-1] in ("dict", "list", "set", "defaultdict", "OrderedDict", "lru_cache", "cache")):
                mutable.add(tgt)
        for n in tree.body:
            if not isinstance(n, ast.FunctionDef):
                continue
            q = prefix + n.name
            bad = []
            for d in n.decorator_list:
                if ast.unparse(d).split("(")[0].split(".")[-1] in ("lru_cache", "cache", "cached"):
                    bad.append(f"L{d.lineno}: results are memoised by @{ast.unparse(d)}")
            for x in ast.walk(n):
                if isinstance(x, (ast.Global, ast.Nonlocal)):
                    bad.append(f"L{x.lineno}: `{'global' if isinstance(x, ast.Global) else 'nonlocal'} {', '.join(x.names)}`")
                elif isinstance(x, ast.Name) and x.id in mutable:
                    bad.append(f"L{x.lineno}: uses the module-level mutable object `{x.id}`")
            add(q, "no-state-kept-between-calls", not bad, "; ".join(sorted(set(bad))), n.lineno)

    dt = time.time() - t0
    for o in out:
        o["time"] = round(dt / max(1, len(out)), 4)
    return out


if __name__ == "__main__":
    import os
    for o in obligations(Index(os.environ.get("PYTTB_REPO", "/repo"))):
        print(o["status"], o["name"], o["solver_output"][:200])
