"""Dispatch of Python builtins, np.* functions and ndarray / list methods onto the
symbolic library (npsym)."""

from __future__ import annotations

import z3

from . import npsym as N
from . import terms as T
from .ctx import PathAbort, PyRaise
from .values import Arr, FuncVal, Opaque, Rec, SymList, cast_elem, join_dtype


def _I():
    from . import interp
    return interp


# ======================================================================= isinstance

def isinst(it, v, t) -> bool:
    I = _I()
    if isinstance(t, (tuple, list)):
        return any(isinst(it, v, x) for x in t)
    if isinstance(t, I.ClassRef):
        return isinstance(v, Rec) and v.cls == t.name
    if isinstance(t, I.Builtin):
        t = I.TypeRef(t.name)
    if isinstance(t, I.Marker) and t.path.startswith(("sparse.", "scipy.")):
        return False  # modelled values are never SciPy sparse matrices
    if not isinstance(t, I.TypeRef):
        raise PathAbort(f"isinstance against {t!r}", it.ctx.cur_line)
    n = t.name
    if n == "int":
        return isinstance(v, int) or (T.is_sym(v) and T.sort_of(v) in ("int", "bool"))
    if n == "bool":
        return isinstance(v, bool) or (T.is_sym(v) and T.sort_of(v) == "bool")
    if n == "float":
        return (isinstance(v, float)) or (T.is_sym(v) and T.sort_of(v) == "real")
    if n in ("np.integer", "np.int_", "np.int64"):
        return (T.is_sym(v) and T.sort_of(v) == "int") or (isinstance(v, int) and not isinstance(v, bool) and False)
    if n in ("np.floating", "np.float64"):
        return T.is_sym(v) and T.sort_of(v) == "real"
    if n in ("np.generic", "np.number"):
        return T.is_sym(v)
    if n == "np.bool_":
        return T.is_sym(v) and T.sort_of(v) == "bool"
    if n == "np.ndarray":
        return isinstance(v, Arr) and v.kind == "ndarray"
    if n == "str":
        return isinstance(v, str)
    if n == "tuple":
        return isinstance(v, tuple) or (isinstance(v, Arr) and v.kind == "tuple")
    if n == "list":
        return isinstance(v, list) or (isinstance(v, Arr) and v.kind == "list") or (isinstance(v, SymList) and v.kind == "list")
    if n == "slice":
        return isinstance(v, slice)
    if n == "dict":
        return isinstance(v, dict)
    if n == "Sequence":
        return isinstance(v, (tuple, list, range, str)) or (isinstance(v, Arr) and v.kind in ("tuple", "list", "range")) or isinstance(v, (SymList, I.SymRange))
    if n == "Iterable":
        return isinstance(v, (tuple, list, range, str, dict, Arr, SymList, I.SymRange))
    if n == "Callable":
        return isinstance(v, (FuncVal, I.Builtin, I.BoundMethod)) or callable(v)
    raise PathAbort(f"isinstance against {n}", it.ctx.cur_line)


# ======================================================================= builtins

def call_builtin(it, name, pos, kw):
    ctx = it.ctx
    I = _I()
    if name == "len":
        (x,) = pos
        if isinstance(x, N.SymBag):
            return x.count
        if isinstance(x, (list, tuple, dict, str, range)):
            return len(x)
        if isinstance(x, Arr):
            if x.ndim == 0:
                raise PyRaise("TypeError", "len() of unsized object", ctx.cur_line)
            return x.shape[0]
        if isinstance(x, SymList):
            return x.length
        if isinstance(x, I.SymRange):
            return x.length()
        if isinstance(x, Rec):
            return it.call_method(x, "__len__", [], {})
        raise PathAbort(f"len of {type(x).__name__}", ctx.cur_line)
    if name == "isinstance":
        return isinst(it, pos[0], pos[1])
    if name == "issubclass":
        a, b = pos
        if isinstance(a, I.TypeRef) and isinstance(b, I.TypeRef):
            if a.name == b.name:
                return True
            if b.name == "np.integer":
                return a.name in ("np.integer", "np.int_", "np.int64")
            if b.name == "np.floating":
                return a.name in ("np.floating", "np.float64")
            if b.name == "np.number":
                return a.name in ("np.floating", "np.float64", "np.integer", "np.int_", "np.int64")
            if b.name in ("np.generic",):
                return a.name.startswith("np.")
            return False
        raise PathAbort("issubclass", ctx.cur_line)
    if name == "callable":
        return isinstance(pos[0], (FuncVal, I.Builtin, I.BoundMethod)) or (isinstance(pos[0], Opaque) and "callable" in pos[0].what) or bool(getattr(pos[0], "_pyvc_native", False))
    if name == "range":
        args = [a.fn() if isinstance(a, Arr) and a.ndim == 0 else a for a in pos]
        if all(isinstance(a, int) for a in args):
            return range(*args)
        if len(args) == 1:
            return I.SymRange(0, args[0])
        if len(args) == 2:
            return I.SymRange(args[0], args[1])
        if len(args) == 3 and isinstance(args[2], int) and args[2] in (1, -1):
            return I.SymRange(args[0], args[1], args[2])
        raise PathAbort("range with symbolic step", ctx.cur_line)
    if name == "enumerate":
        start = pos[1] if len(pos) > 1 else kw.get("start", 0)
        items = it.concrete_items(pos[0])
        if items is not None:
            return [(start + i, x) for i, x in enumerate(items)]
        return I.SymEnumerate(pos[0], start)
    if name == "zip":
        parts = [it.concrete_items(p) for p in pos]
        if all(p is not None for p in parts):
            return list(zip(*parts))
        # symbolic-length operands: a symbolic list of tuples, as long as the shortest operand
        def _len_item(p):
            if isinstance(p, SymList):
                return p.length, p.item
            if isinstance(p, Arr) and p.ndim == 1:
                q = N.snap(p)
                return q.shape[0], (lambda i, q=q: q.fn(i))
            cp = it.concrete_items(p)
            if cp is not None:
                def item(i, cp=cp):
                    if isinstance(i, int):
                        return cp[i]
                    raise PathAbort("zip: concrete list indexed symbolically", ctx.cur_line)
                return len(cp), item
            raise PathAbort("zip over symbolic sequences", ctx.cur_line)
        li = [_len_item(p) for p in pos]
        length = li[0][0]
        for l2, _ in li[1:]:
            length = T.smin(length, l2)
        return SymList(length, lambda i, li=li: tuple(f(i) for _, f in li), kind="list")
    if name == "reversed":
        items = it.concrete_items(pos[0])
        if items is not None:
            return list(reversed(items))
        x = pos[0]
        if isinstance(x, SymList):
            return SymList(x.length, lambda i, x=x: x.item(T.sub(T.sub(x.length, 1), i)), kind="list")
        raise PathAbort("reversed of symbolic", ctx.cur_line)
    if name in ("tuple", "list"):
        if not pos:
            return () if name == "tuple" else []
        x = pos[0]
        items = it.concrete_items(x)
        if items is not None:
            return tuple(items) if name == "tuple" else list(items)
        if isinstance(x, Arr) and x.ndim == 1:
            b = Arr(x.shape, x.fn, x.dtype, kind=name)
            b.value_of = (x, x.version)  # same entries as x had at this point (definitional ghosts of x apply to it)
            return b
        if isinstance(x, I.SymRange):
            return Arr((x.length(),), x.item, "int", kind=name)
        if isinstance(x, Arr) and x.ndim == 2:
            # tuple(subs.transpose()): one 1-D array per leading index
            sl = SymList(x.shape[0], lambda m, x=N.snap(x): Arr((x.shape[1],), lambda i: x.fn(m, i), x.dtype), kind=name)
            src = getattr(x, "transpose_of", None)
            if src is not None:
                sl.columns_of = src
            return sl
        if isinstance(x, SymList):
            return SymList(x.length, x.item, kind=name)
        raise PathAbort(f"{name}() of {type(x).__name__}", ctx.cur_line)
    if name == "int":
        x = pos[0] if pos else 0
        if isinstance(x, Arr):
            if isinstance(N.size_of(ctx, x), int) and N.size_of(ctx, x) == 1:
                x = x.fn(*([0] * x.ndim))
            else:
                raise PyRaise("TypeError", "only length-1 arrays can be converted", ctx.cur_line)
        if isinstance(x, (int, float, bool)):
            return int(x)
        s = T.sort_of(x)
        if s == "int":
            return x
        if s == "bool":
            return T.as_num(x)
        # int() truncates toward zero
        return z3.If(x >= 0, z3.ToInt(x), -z3.ToInt(-x))
    if name == "float":
        x = pos[0]
        if isinstance(x, Arr):
            x = x.fn(*([0] * x.ndim))
        return T.as_real(x)
    if name == "bool":
        return it.truth(pos[0])
    if name in ("str", "repr"):
        return Opaque("str")
    if name == "print":
        ctx.dropped.add("print(): no-op")
        return None
    if name == "abs":
        x = pos[0]
        if isinstance(x, Arr):
            return N.elementwise(ctx, T.sabs, [x])
        return T.sabs(x)
    if name in ("max", "min"):
        f = T.smax if name == "max" else T.smin
        args = pos
        if len(args) == 1:
            x = args[0]
            items = it.concrete_items(x)
            if items is None:
                if isinstance(x, Arr) and x.ndim == 1:
                    return N.np_extreme(ctx, x, None, name)
                raise PathAbort(f"{name} of symbolic iterable", ctx.cur_line)
            args = items
            if not args:
                raise PyRaise("ValueError", f"{name}() arg is an empty sequence", ctx.cur_line)
        r = args[0]
        for a in args[1:]:
            r = f(r, a)
        return r
    if name == "sum":
        x = pos[0]
        items = it.concrete_items(x)
        if items is not None:
            r = pos[1] if len(pos) > 1 else 0
            for a in items:
                r = it.binop(__import__("ast").Add(), r, a)
            return r
        if isinstance(x, Arr):
            return N.np_sum(ctx, x, None)
        raise PathAbort("sum of symbolic iterable", ctx.cur_line)
    if name in ("all", "any"):
        x = pos[0]
        items = it.concrete_items(x)
        if items is not None:
            ts = [it.truth(a) for a in items]
            return T.And(*ts) if name == "all" else T.Or(*ts)
        if isinstance(x, Arr):
            return N.np_all(ctx, x) if name == "all" else N.np_any(ctx, x)
        raise PathAbort(f"{name} of symbolic iterable", ctx.cur_line)
    if name == "sorted":
        items = it.concrete_items(pos[0])
        if items is not None and all(isinstance(a, (int, float)) for a in items):
            return sorted(items)
        x = pos[0]
        if isinstance(x, Arr) and x.ndim == 1 and not kw:
            r = N.np_sort(ctx, Arr(x.shape, N.snap(x).fn, x.dtype))
            return Arr(r.shape, r.fn, r.dtype, kind="list")
        raise PathAbort("sorted of symbolic", ctx.cur_line)
    if name == "prod":
        return sym_prod(it, pos[0])
    if name == "cast":
        return pos[1]
    if name == "get_args":
        return pos[0]
    if name == "map":
        f, x = pos
        items = it.concrete_items(x)
        if items is not None:
            return [it.call(f, [a], {}) for a in items]
        if isinstance(x, Arr) and isinstance(f, I.Builtin) and f.name == "int":
            return Arr(x.shape, x.fn, "int", kind="list")
        raise PathAbort("map over symbolic", ctx.cur_line)
    if name == "type":
        return Opaque("type")
    if name == "round":
        if len(pos) != 1 or kw:
            raise PathAbort("round(x, ndigits)", ctx.cur_line)
        x = pos[0]
        if isinstance(x, Arr):
            if x.ndim != 0:
                raise PathAbort("round() of an array", ctx.cur_line)
            x = x.fn()
        if isinstance(x, (int, float)):
            return round(x)
        if T.sort_of(x) == "int":
            return x
        # an integer nearest to x (which of the two for ties -- Python rounds half to even -- is left open)
        r = T.fresh_int("round")
        ctx.assume(z3.And(2 * x - 1 <= 2 * z3.ToReal(r), 2 * z3.ToReal(r) <= 2 * x + 1), trusted="python:round(x) is an integer within 1/2 of x")
        return r
    if name == "divmod":
        a, b = pos
        return (T.floordiv(a, b), T.mod(a, b))
    if name == "dict":
        return dict(**kw)
    if name == "set":
        raise PathAbort("set()", ctx.cur_line)
    if name.startswith("operator."):
        op = {"ge": ">=", "gt": ">", "le": "<=", "lt": "<"}[name[9:]]
        a, b = pos
        if isinstance(a, Arr) or isinstance(b, Arr):
            return N.elementwise(ctx, lambda x, y: T.cmp(op, x, y), [a, b], "bool")
        return T.cmp(op, a, b)
    raise PathAbort(f"builtin {name}", ctx.cur_line)


def sym_prod(it, x):
    """math.prod / np.prod of a shape-like sequence.  At most one symbolic factor: the explicit
    (linear) product.  Otherwise PROD_R(row of the sequence): an uninterpreted function whose
    only assumed facts are those of lemma L1 and positivity for positive entries."""
    ctx = it.ctx
    if isinstance(x, Arr) and x.ndim == 0:
        return x.fn()
    if T.is_scalar(x):
        return x
    items = it.concrete_items(x)
    if items is not None:
        sym = [a for a in items if T.is_sym(a)]
        if len(sym) <= 1:
            r = 1
            for a in items:
                r = T.mul(r, a)
            return r
    if isinstance(x, Arr) and x.ndim != 1:
        raise PathAbort("prod of a matrix", ctx.cur_line)
    row = N.seq_as_row(ctx, x if isinstance(x, Arr) else tuple(items))
    return N.PRODR(row)


# ======================================================================= np.*

def call_marker(it, path, pos, kw):
    ctx = it.ctx
    I = _I()
    if path.startswith("np."):
        name = path[3:]
        return call_np(it, name, pos, kw)
    if path.startswith("time."):
        ctx.dropped.add("time.*: the clock is an unconstrained real")
        return T.fresh_real("clock")
    if path.startswith("warnings.") or path.startswith("logging."):
        ctx.dropped.add("warnings/logging calls: no-op")
        return None
    if path in ("scipy.sparse.linalg.eigsh", "scipy.linalg.eigh", "scipy.linalg.eig"):
        # the eigen-solvers: (w, v) with one value and one column per requested / available eigenpair; NOTHING is assumed about
        # the values (clauses proved over them hold for whatever the solver returns)
        y = pos[0]
        if not (isinstance(y, Arr) and y.ndim == 2):
            raise PathAbort(f"{path} of a non-matrix", ctx.cur_line)
        n_ = y.shape[0]
        k_ = pos[1] if (path.endswith("eigsh") and len(pos) > 1) else (kw.get("k", 6) if path.endswith("eigsh") else n_)
        ctx.trusted.add(f"external:{path} returns (w, v): w of length k, v with one row per row of the matrix and k columns (values arbitrary)")
        w = Arr.fresh("eigw", (k_,), "real")
        v = Arr.fresh("eigv", (n_, k_), "real")
        ctx.log_ghost("eig", dict(w=w, v=v, k=k_, n=n_, solver=path))
        return (w, v)
    if path == "sparse.issparse":
        # dense stand-ins (ndarrays of the model) are not scipy sparse matrices
        if isinstance(pos[0], Arr):
            return False
        raise PathAbort("sparse.issparse of a non-array", ctx.cur_line)
    if path == "accumarray":
        return N.accumarray(it, *pos, **kw)
    if path == "ttb.khatrirao":
        fi = it.index.get("pyttb.khatrirao.khatrirao")
        return it.call_pyttb(fi, pos, kw)
    raise PathAbort(f"call of {path}", ctx.cur_line)


def _arr(it, x, dtype=None):
    if isinstance(x, Arr):
        if x.kind != "ndarray":
            b = Arr(x.shape, x.fn, x.dtype, "ndarray")
            return b
        return x
    return N.np_array(it.ctx, x, dtype)


def call_np(it, name, pos, kw):
    ctx = it.ctx
    I = _I()
    dt = N.parse_dtype(kw.get("dtype")) if "dtype" in kw else None
    if name == "array":
        x = pos[0]
        if isinstance(x, SymList) and getattr(x, "as_matrix_T", None) is not None:
            return N.transpose(ctx, x.as_matrix_T)
        if isinstance(x, Arr) and x.kind != "ndarray":
            x = _arr(it, x)
        if isinstance(x, I.SymRange):
            x = Arr((x.length(),), x.item, "int")
        if isinstance(x, list) and len(x) == 1 and isinstance(x[0], (range, I.SymRange)):
            inner = x[0]
            if isinstance(inner, range):
                inner = I.SymRange(inner.start, inner.stop, inner.step)
            if inner.step == 1:
                n = inner.length()
                return Arr((1, n), lambda i, j: inner.item(j), "int")
        return N.np_array(ctx, x, dt if dt else (N.parse_dtype(pos[1]) if len(pos) > 1 else None), ndmin=kw.get("ndmin", 0))
    if name in ("asarray", "asfortranarray", "ascontiguousarray"):
        a = _arr(it, pos[0])
        return a
    if name == "reshape":
        a = _arr(it, pos[0])
        shape = pos[1] if len(pos) > 1 else kw.get("newshape", kw.get("shape"))
        if isinstance(shape, Arr) and shape.kind in ("tuple", "list") and isinstance(shape.shape[0], int):
            shape = tuple(shape.fn(i) for i in range(shape.shape[0]))
        if T.is_scalar(shape):
            shape = (shape,)
        return N.reshape(it, a, tuple(shape), kw.get("order", pos[2] if len(pos) > 2 else "C"))
    if name in ("zeros", "ones", "empty"):
        shape = pos[0] if pos else kw["shape"]
        d = dt or (N.parse_dtype(pos[1]) if len(pos) > 1 else None) or "real"
        if name == "empty":
            shape_t = N._shape_arg(ctx, shape)
            return Arr.fresh("empty", shape_t, d)
        v = {"zeros": 0, "ones": 1}[name]
        return N.np_full(ctx, shape, cast_elem(v, d), d)
    if name == "empty_like":
        a = _arr(it, pos[0])
        return Arr.fresh("empty", tuple(a.shape), dt or a.dtype)
    if name in ("zeros_like", "ones_like"):
        a = _arr(it, pos[0])
        v = 0 if name == "zeros_like" else 1
        d = dt or a.dtype
        return Arr(a.shape, lambda *i: cast_elem(v, d), d)
    if name == "full":
        return N.np_full(ctx, pos[0], pos[1], dt)
    if name == "arange":
        return N.np_arange(ctx, *pos)
    if name in ("all", "any"):
        a = pos[0]
        axis = kw.get("axis", pos[1] if len(pos) > 1 else None)
        if isinstance(a, (list, tuple)):
            a = N.np_array(ctx, a)
        return N.np_all(ctx, a, axis) if name == "all" else N.np_any(ctx, a, axis)
    if name in ("max", "min", "amax", "amin"):
        a = _arr(it, pos[0])
        axis = kw.get("axis", pos[1] if len(pos) > 1 else None)
        return N.np_extreme(ctx, a, axis, "max" if "max" in name else "min")
    if name == "sum":
        a = _arr(it, pos[0]) if not T.is_scalar(pos[0]) else pos[0]
        return N.np_sum(ctx, a, kw.get("axis", pos[1] if len(pos) > 1 else None))
    if name == "prod":
        return sym_prod(it, pos[0])
    if name == "isin":
        return N.np_isin(ctx, _maybe_arr(it, pos[0]), _maybe_arr(it, pos[1]))
    if name == "setdiff1d":
        return N.np_setdiff1d(ctx, _arr(it, pos[0]), _arr(it, pos[1]))
    if name == "unique":
        a = _arr(it, pos[0])
        if kw.get("axis") == 0:
            return N.np_unique_rows(ctx, a, kw.get("return_index", False), kw.get("return_inverse", False))
        raise PathAbort("np.unique without axis=0", ctx.cur_line)
    if name == "argsort":
        return N.np_argsort(ctx, _arr(it, pos[0]))
    if name == "sort":
        return N.np_sort(ctx, _arr(it, pos[0]))
    if name == "nonzero":
        return N.np_nonzero(ctx, _arr(it, pos[0]))
    if name == "atleast_1d":
        x = pos[0]
        if isinstance(x, Opaque):
            return x
        if isinstance(x, Arr) and x.ndim >= 1:
            return _arr(it, x)
        if isinstance(x, Arr) and x.ndim == 0:
            return Arr((1,), lambda i, f=x.fn: f(), x.dtype)
        if T.is_scalar(x):
            return Arr((1,), lambda i, x=x: x, T.sort_of(x))
        raise PathAbort("np.atleast_1d of " + type(x).__name__, ctx.cur_line)
    if name == "flatnonzero":
        a = _arr(it, pos[0])
        if len(a.shape) != 1:
            a = N.flatten(ctx, a, "C")
        r = N.np_nonzero(ctx, a)
        return r[0] if isinstance(r, (tuple, list)) else getattr(r, "items", [r])[0]
    if name == "where":
        if len(pos) == 1:
            return N.np_nonzero(ctx, _arr(it, pos[0]))
        c, a, b = pos
        return N.elementwise(ctx, lambda cc, x, y: T.Ite(T.truthy(cc), x, y), [c, a, b])
    if name == "count_nonzero":
        a = _arr(it, pos[0])
        a = N.snap(a)
        m = Arr(a.shape, lambda *i: T.truthy(a.fn(*i)), "bool")
        return N.np_sum(ctx, m, None)
    if name in ("logical_not",):
        return N.elementwise(ctx, lambda x: T.Not(T.truthy(x)), [_maybe_arr(it, pos[0])], "bool")
    if name in ("logical_and", "logical_or", "logical_xor"):
        f = {
            "logical_and": lambda x, y: T.And(T.truthy(x), T.truthy(y)),
            "logical_or": lambda x, y: T.Or(T.truthy(x), T.truthy(y)),
            "logical_xor": lambda x, y: T.Not(T.Iff(T.truthy(x), T.truthy(y))),
        }[name]
        return N.elementwise(ctx, f, [_maybe_arr(it, pos[0]), _maybe_arr(it, pos[1])], "bool")
    if name in ("maximum", "minimum"):
        f = T.smax if name == "maximum" else T.smin
        return N.elementwise(ctx, f, [_maybe_arr(it, pos[0]), _maybe_arr(it, pos[1])])
    if name in ("abs", "absolute"):
        return N.elementwise(ctx, T.sabs, [_maybe_arr(it, pos[0])])
    if name in ("mod", "remainder") and len(pos) == 2 and not kw and T.is_scalar(pos[0]) and T.is_scalar(pos[1]) \
            and not isinstance(pos[0], Arr) and not isinstance(pos[1], Arr):
        return T.mod(pos[0], pos[1])  # integer scalars: Python's % (sign of the divisor), as NumPy defines it
    if name == "isfinite":
        a = pos[0]
        if isinstance(a, Arr):
            return Arr(a.shape, lambda *i: True, "bool")
        return True
    if name == "isscalar":
        return T.is_scalar(pos[0]) and not isinstance(pos[0], Arr)
    if name == "issubdtype":
        d, t = pos
        if isinstance(d, Opaque) and d.what.startswith("dtype:") and isinstance(t, I.TypeRef):
            k = d.what[6:]
            return {"np.integer": k == "int", "np.floating": k == "real", "np.number": k in ("int", "real")}.get(t.name, False)
        raise PathAbort("np.issubdtype", ctx.cur_line)
    if name in ("vstack", "hstack", "concatenate", "append"):
        if name == "append":
            parts = [pos[0], pos[1]]
            axis = kw.get("axis")
            if axis is None:
                raise PathAbort("np.append without axis", ctx.cur_line)
        else:
            parts = pos[0]
            axis = kw.get("axis", 0)
        items = it.concrete_items(parts) if not isinstance(parts, (list, tuple)) else list(parts)
        arrs = []
        for p in items:
            if isinstance(p, tuple) or isinstance(p, list) or (isinstance(p, Arr) and p.kind != "ndarray"):
                p = _arr(it, p)
            arrs.append(p)
        if name == "vstack":
            arrs = [N.atleast_2d_rows(ctx, a) for a in arrs]
            return N.concat(ctx, arrs, 0)
        if name == "hstack":
            axis = 0 if all(a.ndim == 1 for a in arrs) else 1
            r = N.concat(ctx, arrs, axis)
        else:
            r = N.concat(ctx, arrs, axis)
        if dt:
            r = N.astype(ctx, r, dt)
        return r
    if name == "expand_dims":
        return N.expand_dims(ctx, pos[0], kw.get("axis", pos[1] if len(pos) > 1 else None))
    if name == "squeeze":
        return N.squeeze(ctx, _arr(it, pos[0]), kw.get("axis", pos[1] if len(pos) > 1 else None))
    if name == "transpose":
        return N.transpose(ctx, _arr(it, pos[0]), pos[1] if len(pos) > 1 else kw.get("axes"))
    if name == "array_equal":
        a, b = _arr(it, pos[0]), _arr(it, pos[1])
        if a.ndim != b.ndim:
            return False
        conds = [T.eq(x, y) for x, y in zip(a.shape, b.shape)]
        qs = [T.fresh_int("q") for _ in a.shape]
        rng = T.And(*[T.And(0 <= q, T.lt(q, d)) for q, d in zip(qs, a.shape)])
        return T.And(*conds, T.ForAll(qs, T.Implies(rng, T.eq(a.fn(*qs), b.fn(*qs)))))
    if name == "ravel_multi_index":
        return N.ravel_multi_index(it, pos[0], pos[1], kw.get("order", "C"))
    if name == "unravel_index":
        return N.unravel_index(it, pos[0], pos[1], kw.get("order", "C"))
    if name == "insert":
        return N.np_insert(it, *pos, **kw)
    if name == "argmax":
        a = _arr(it, pos[0])
        axis = kw.get("axis", pos[1] if len(pos) > 1 else None)
        if a.ndim == 2 and axis == 0:
            a_s = N.snap(a)
            rows, cols = a_s.shape
            ctx.raise_unless(T.ge(rows, 1), "ValueError", "attempt to get argmax of an empty sequence")
            am = T.fresh_fun("argmax", z3.IntSort(), z3.IntSort())
            i, j = T.fresh_int("i"), T.fresh_int("j")
            ctx.assume(T.ForAll([j], z3.Implies(z3.And(0 <= j, T.lt(j, cols)), z3.And(0 <= am(j), T.lt(am(j), rows))), [am(j)]),
                       trusted="numpy:argmax(axis=0): a row position of a largest entry of every column")
            ctx.assume(T.ForAll([i, j], z3.Implies(z3.And(0 <= i, T.lt(i, rows), 0 <= j, T.lt(j, cols)),
                                                   T.tz(T.as_real(a_s.fn(i, j))) <= T.tz(T.as_real(a_s.fn(am(j), j)))), [a_s.fn(i, j)]))
            r = Arr((cols,), lambda j_: am(T.tz(j_)), "int")
            r.in_range_of = rows
            ctx.log_ghost("argmax", dict(am=am, src=a_s))
            return r
        if a.ndim == 2 and axis == 1:
            a_s = N.snap(a)
            rows, cols = a_s.shape
            ctx.raise_unless(T.ge(cols, 1), "ValueError", "attempt to get argmax of an empty sequence")
            am = T.fresh_fun("argmaxr", z3.IntSort(), z3.IntSort())
            i, j = T.fresh_int("i"), T.fresh_int("j")
            ctx.assume(T.ForAll([i], z3.Implies(z3.And(0 <= i, T.lt(i, rows)), z3.And(0 <= am(i), T.lt(am(i), cols))), [am(i)]),
                       trusted="numpy:argmax(axis=1): a column position of a largest entry of every row")
            ctx.assume(T.ForAll([i, j], z3.Implies(z3.And(0 <= i, T.lt(i, rows), 0 <= j, T.lt(j, cols)),
                                                   T.tz(T.as_real(a_s.fn(i, j))) <= T.tz(T.as_real(a_s.fn(i, am(i))))), [a_s.fn(i, j)]))
            r = Arr((rows,), lambda i_: am(T.tz(i_)), "int")
            r.in_range_of = cols
            return r
        raise PathAbort("np.argmax form", ctx.cur_line)
    if name == "linalg.norm":
        return N.np_vector_norm(ctx, _arr(it, pos[0]), kw.get("ord", pos[1] if len(pos) > 1 else None))
    if name == "sqrt":
        ctx.dropped.add("np.sqrt: value abstracted to an uninterpreted real function SQRT (non-negative on non-negative arguments)")
        SQRT = z3.Function("SQRT", z3.RealSort(), z3.RealSort())
        f = lambda x: SQRT(T.tz(T.as_real(x)))
        if isinstance(pos[0], Arr):
            return N.elementwise(ctx, f, [pos[0]], "real")
        return f(pos[0])
    if name in ("random.uniform", "random.rand", "random.random"):
        if name == "random.uniform":
            lo = pos[0] if len(pos) > 0 else kw.get("low", 0.0)
            hi = pos[1] if len(pos) > 1 else kw.get("high", 1.0)
            size = pos[2] if len(pos) > 2 else kw.get("size")
        else:
            lo, hi = 0.0, 1.0
            size = tuple(pos) if name == "random.rand" else (pos[0] if pos else kw.get("size"))
        tag = "numpy:random.uniform/rand draw any reals in the half-open interval [low, high)"
        lo_r, hi_r = T.tz(T.as_real(lo)), T.tz(T.as_real(hi))
        # NumPy does not reject low >= high (degenerate or reversed interval): stay consistent there
        inside = lambda u_: z3.And(z3.If(lo_r <= hi_r, lo_r, hi_r) <= u_, u_ <= z3.If(lo_r <= hi_r, hi_r, lo_r), z3.Implies(lo_r < hi_r, u_ < hi_r))
        if size is None:
            u = T.fresh_real("u")
            ctx.assume(inside(u), trusted=tag)
            return u
        shp = N._shape_arg(ctx, size)
        for d_ in shp:
            if not isinstance(d_, int) and ctx.branch(T.lt(d_, 0), "np.random.uniform:negative-size"):
                raise PyRaise("ValueError", "negative dimensions are not allowed", ctx.cur_line)
        U = Arr.fresh("unif", shp, "real")
        qs = [T.fresh_int("q") for _ in shp]
        ctx.assume(T.ForAll(qs, inside(T.tz(U.fn(*qs))), [U.fn(*qs)]), trusted=tag)
        return U
    if name == "random.choice":
        n = pos[0]
        size = pos[1] if len(pos) > 1 else kw.get("size")
        if isinstance(n, Arr) or size is None:
            raise PathAbort("np.random.choice form", ctx.cur_line)
        shp = N._shape_arg(ctx, size)
        if len(shp) != 1:
            raise PathAbort("np.random.choice with n-d size", ctx.cur_line)
        # NumPy: a must be positive unless no samples are taken; without replacement size <= a
        if ctx.branch(T.And(T.le(n, 0), T.gt(shp[0], 0)), "np.random.choice:empty-population"):
            raise PyRaise("ValueError", "a must be greater than 0 unless no samples are taken", ctx.cur_line)
        rep = kw.get("replace", pos[2] if len(pos) > 2 else True)
        if rep is not True:
            if rep is False or ctx.branch(T.Not(T.truthy(rep)), "np.random.choice:without-replacement"):
                if ctx.branch(T.gt(shp[0], n), "np.random.choice:sample-larger-than-population"):
                    raise PyRaise("ValueError", "Cannot take a larger sample than population when replace is False", ctx.cur_line)
        C = Arr.fresh("choice", shp, "int")
        q = T.fresh_int("q")
        ctx.assume(T.ForAll([q], z3.Implies(z3.And(0 <= q, T.tz(T.lt(q, shp[0]))), z3.And(0 <= C.fn(q), T.tz(T.lt(C.fn(q), n)))), [C.fn(q)]),
                   trusted="numpy:random.choice(n, size) draws integers in [0, n)")
        C.in_range_of = n
        ctx.log_ghost("choice", C)
        return C
    if name == "random.poisson":
        v = T.fresh_int("poisson")
        ctx.assume(v >= 0, trusted="numpy:random.poisson draws a non-negative integer")
        return v
    if name in ("ceil", "floor") and isinstance(pos[0], Arr):
        def rnd(x):
            xr = T.tz(T.as_real(x))
            fl = z3.ToInt(xr)
            return z3.ToReal(fl) if name == "floor" else z3.ToReal(z3.If(z3.ToReal(fl) == xr, fl, fl + 1))
        return N.elementwise(ctx, rnd, [pos[0]], "real")
    if name == "ceil" or name == "floor":
        x = pos[0]
        if isinstance(x, (int, float)):
            import math
            return float(getattr(math, name)(x))
        fl = z3.ToInt(T.tz(T.as_real(x)))
        if name == "floor":
            return z3.ToReal(fl)
        return z3.ToReal(z3.If(z3.ToReal(fl) == T.tz(T.as_real(x)), fl, fl + 1))
    if name == "diag":
        a = _arr(it, pos[0])
        if a.ndim == 1:
            a = N.snap(a)
            n = a.shape[0]
            zero = cast_elem(0, a.dtype)
            d = Arr((n, n), lambda i, j: T.Ite(T.eq(i, j), a.fn(i), zero), a.dtype)
            d.diag_of = a
            return d
        raise PathAbort("np.diag of matrix", ctx.cur_line)
    if name == "tile":
        a = _arr(it, pos[0])
        reps = it.concrete_items(pos[1]) if not T.is_scalar(pos[1]) else [pos[1]]
        if a.ndim == 1 and reps is not None and len(reps) == 2 and isinstance(reps[1], int) and reps[1] == 1:
            a = N.snap(a)
            return Arr((reps[0], a.shape[0]), lambda m, i: a.fn(i), a.dtype)
        raise PathAbort("np.tile form", ctx.cur_line)
    if name == "array2string":
        return Opaque("str")
    if name == "errstate":
        return Opaque("errstate")
    if name == "cumsum":
        raise PathAbort("np.cumsum", ctx.cur_line)
    if name == "dot":
        return it.matmul(pos[0], pos[1])
    raise PathAbort(f"np.{name}", ctx.cur_line)


def _maybe_arr(it, x):
    if isinstance(x, (list, tuple, range)):
        return N.np_array(it.ctx, x)
    if isinstance(x, Arr) and x.kind != "ndarray":
        return Arr(x.shape, x.fn, x.dtype, "ndarray")
    I = _I()
    if isinstance(x, I.SymRange):
        a = Arr((x.length(),), x.item, "int")
        if x.step == 1:
            a.is_arange = (x.lo, x.hi)
        return a
    return x


# ======================================================================= ndarray methods

def call_arr_method(it, a: Arr, name, pos, kw):
    ctx = it.ctx
    if name == "append" and a.kind == "list" and a.ndim == 1 and T.is_scalar(pos[0]):
        # list.append on a list of scalars of symbolic length (in place)
        old, n_, x = N.snap(a).fn, a.shape[0], pos[0]
        a.shape = (T.add(n_, 1),)
        a.fn = lambda i, old=old, n_=n_, x=x: T.Ite(T.eq(i, n_), cast_elem(x, a.dtype), old(i))
        a.version += 1
        return None
    if name == "copy":
        b = Arr(a.shape, (lambda *i, f=a.fn: f(*i)), a.dtype, a.kind)
        b.rowfn = getattr(a, "rowfn", None)
        for attr in ("in_range_of", "distinct", "sorted_strict", "is_arange", "concat_of", "nonneg"):
            if hasattr(a, attr):
                setattr(b, attr, getattr(a, attr))
        return b
    if name == "astype":
        b = N.astype(ctx, a, pos[0] if pos else kw.get("dtype"))
        for attr in ("in_range_of", "distinct", "sorted_strict"):
            if hasattr(a, attr) and b.dtype == a.dtype:
                setattr(b, attr, getattr(a, attr))
        return b
    if name == "transpose":
        return N.transpose(ctx, a, pos if pos else None)
    if name == "squeeze":
        return N.squeeze(ctx, a, kw.get("axis", pos[0] if pos else None))
    if name in ("flatten", "ravel"):
        return N.flatten(ctx, a, kw.get("order", pos[0] if pos else "C"))
    if name == "item":
        sz = N.size_of(ctx, a)
        if not (isinstance(sz, int) and sz == 1):
            ctx.raise_unless(T.eq(sz, 1), "ValueError", "can only convert an array of size 1")
        return a.fn(*([0] * a.ndim))
    if name in ("all", "any"):
        return N.np_all(ctx, a, kw.get("axis")) if name == "all" else N.np_any(ctx, a, kw.get("axis"))
    if name in ("max", "min"):
        return N.np_extreme(ctx, a, kw.get("axis", pos[0] if pos else None), name)
    if name == "sum":
        return N.np_sum(ctx, a, kw.get("axis", pos[0] if pos else None))
    if name == "fill":
        v = cast_elem(pos[0], a.dtype)
        a.fn = lambda *i: v
        a.version += 1
        ctx.writes.append((a, ctx.cur_line))
        return None
    if name == "reshape":
        shape = pos[0] if len(pos) == 1 and isinstance(pos[0], (tuple, list)) else tuple(pos)
        return N.reshape(it, a, shape, kw.get("order", "C"))
    if name == "toarray" and a.ndim == 2:
        return a      # a dense stand-in of a sparse matrix (abstract callee results): same entries
    if name == "tolist":
        if a.ndim == 1:
            return Arr(a.shape, a.fn, a.dtype, kind="list")
        raise PathAbort("tolist of n-d", ctx.cur_line)
    if name == "dot":
        return it.matmul(a, pos[0])
    if name == "argsort":
        return N.np_argsort(ctx, a)
    if name == "nonzero":
        return N.np_nonzero(ctx, a)
    if name == "index" and a.kind in ("tuple", "list"):
        raise PathAbort("sequence.index", ctx.cur_line)
    raise PathAbort(f"ndarray.{name}", ctx.cur_line)


def call_py_method(it, r, name, pos, kw):
    ctx = it.ctx
    if isinstance(r, list):
        if name == "append":
            r.append(pos[0])
            return None
        if name == "extend":
            items = it.concrete_items(pos[0])
            if items is None:
                raise PathAbort("list.extend with symbolic", ctx.cur_line)
            r.extend(items)
            return None
        if name == "copy":
            return list(r)
        if name == "insert":
            r.insert(pos[0], pos[1])
            return None
        if name == "pop":
            return r.pop(*pos)
        if name == "index":
            for i, e in enumerate(r):
                c = it._elem_eq(e, pos[0])
                if c is True:
                    return i
                if c is not False:
                    raise PathAbort("list.index symbolic", ctx.cur_line)
            raise PyRaise("ValueError", "not in list", ctx.cur_line)
    if isinstance(r, dict):
        if name == "get":
            return r.get(pos[0], pos[1] if len(pos) > 1 else None)
        if name == "items":
            return list(r.items())
        if name == "keys":
            return list(r.keys())
        if name == "values":
            return list(r.values())
    if T.is_scalar(r):
        if name == "item":
            return r
        if name == "astype":
            d = N.parse_dtype(pos[0])
            return cast_elem(r, d) if d else r
        if name == "copy":
            return r
    if isinstance(r, str):
        return Opaque("str")
    if isinstance(r, SymList) and name == "copy":
        return SymList(r.length, r.item, r.kind)
    if isinstance(r, SymList) and name == "append":
        # in-place append: element `length` becomes the new item (matrices are merged entry-wise)
        x, old_item, L = pos[0], r.item, r.length
        if not (isinstance(x, Arr) and x.ndim == 2):
            raise PathAbort("append of a non-matrix to a symbolic list", ctx.cur_line)
        xs = N.snap(x)

        def item(m, old_item=old_item, L=L, xs=xs):
            o = old_item(m)
            if not (isinstance(o, Arr) and o.ndim == 2):
                raise PathAbort("symbolic list with non-matrix items", ctx.cur_line)
            c = T.eq(m, L)
            return Arr((T.Ite(c, xs.shape[0], o.shape[0]), T.Ite(c, xs.shape[1], o.shape[1])),
                       lambda i, j: T.Ite(c, xs.fn(i, j), o.fn(i, j)), join_dtype(xs.dtype, o.dtype))
        r.item = item
        r.length = T.add(L, 1)
        return None
    raise PathAbort(f"method {name} of {type(r).__name__}", ctx.cur_line)
