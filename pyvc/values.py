"""Symbolic values: arrays (definitional closures over z3 terms) and records."""

from __future__ import annotations

import itertools
from typing import Callable, Optional

import z3

from . import terms as T

_ids = itertools.count()

DT_ORDER = {"bool": 0, "int": 1, "real": 2}


def join_dtype(a, b):
    return a if DT_ORDER[a] >= DT_ORDER[b] else b


def z3sort(dtype):
    return {"bool": z3.BoolSort(), "int": z3.IntSort(), "real": z3.RealSort()}[dtype]


def cast_elem(v, dtype):
    """Cast a scalar to the element dtype (value-preserving where NumPy is)."""
    s = T.sort_of(v)
    if s == dtype:
        return v
    if dtype == "real":
        return T.as_real(v)
    if dtype == "int":
        if s == "bool":
            return T.as_num(v)
        # real -> int: astype(int) truncates; only allowed when caller says so
        if T.is_sym(v):
            return z3.ToInt(v)  # floor; callers must have demanded integrality/non-negativity
        return int(v)
    if dtype == "bool":
        return T.truthy(v)
    raise TypeError(dtype)


class Arr:
    """A NumPy-like array with concrete rank and (possibly) symbolic extents.

    ``fn(*idx)`` gives the element term at an index tuple (Python ints or z3 Int
    terms).  The object is a mutable cell, like an ndarray: an in-place write
    replaces ``fn``.  ``kind`` distinguishes ndarray / tuple / list / range so
    that ``isinstance`` in the analysed code can be decided.
    """

    def __init__(self, shape, fn: Callable, dtype: str, kind="ndarray", base=None, name=None):
        self.shape = tuple(shape)
        self.fn = fn
        self.dtype = dtype
        self.kind = kind
        self.base = base  # Arr whose memory this one (may) share
        self.id = next(_ids)
        self.version = 0
        self.name = name
        self._size = None
        self.ghost = {}
        # ownership domain (C05): set of root labels whose buffer this array may share
        self.roots = set()
        self.has_views = False

    @property
    def ndim(self):
        return len(self.shape)

    def at(self, *idx):
        return self.fn(*idx)

    def __repr__(self):
        return f"<Arr#{self.id} {self.kind} {self.dtype} shape={self.shape}>"

    # --- construction helpers
    @staticmethod
    def fresh(name, shape, dtype, kind="ndarray"):
        """Unconstrained array: an uninterpreted function of the index."""
        nd = len(shape)
        f = T.fresh_fun(name, *([z3.IntSort()] * nd), z3sort(dtype))
        if nd == 0:
            c = z3.Const(T.fresh_name(name), z3sort(dtype))
            a = Arr((), lambda: c, dtype, kind, name=name)
        else:
            a = Arr(shape, lambda *i: f(*[T.tz(k) for k in i]), dtype, kind, name=name)
        a.ufun = f if nd else None
        return a

    @staticmethod
    def from_list(elems, dtype=None, kind="ndarray"):
        elems = list(elems)
        if dtype is None:
            dtype = "int"
            for e in elems:
                dtype = join_dtype(dtype, T.sort_of(e)) if elems else dtype
            if elems and all(T.sort_of(e) == "bool" for e in elems):
                dtype = "bool"
        elems = [cast_elem(e, dtype) for e in elems]

        def fn(i):
            if isinstance(i, int):
                return elems[i]
            if not elems:
                return {"int": 0, "real": 0.0, "bool": False}[dtype]
            r = elems[-1]
            for k in range(len(elems) - 2, -1, -1):
                r = T.Ite(T.eq(i, k), elems[k], r)
            return r

        a = Arr((len(elems),), fn, dtype, kind)
        a.elems = elems
        return a

    def concrete_len(self) -> Optional[int]:
        if self.ndim == 1 and isinstance(self.shape[0], int):
            return self.shape[0]
        return None

    def tolist(self):
        n = self.concrete_len()
        if n is None:
            raise ValueError("symbolic length")
        return [self.fn(i) for i in range(n)]


class Rec:
    """A pyttb object: class name + mutable field dict."""

    def __init__(self, cls, fields=None):
        self.cls = cls
        self.fields = dict(fields or {})
        self.id = next(_ids)

    def __repr__(self):
        return f"<Rec {self.cls} {list(self.fields)}>"


class FuncVal:
    """A Python function / lambda defined in analysed code (inlined on call)."""

    def __init__(self, node, closure_env, qualname=None, self_val=None, module=None):
        self.node = node
        self.env = closure_env
        self.qualname = qualname
        self.self_val = self_val
        self.module = module


class Opaque:
    """A value the executor does not model (message strings, dtype objects, ...)."""

    def __init__(self, what="opaque"):
        self.what = what

    def __repr__(self):
        return f"<Opaque {self.what}>"


class SymList:
    """A Python list / sequence of symbolic length whose items are produced by
    ``item(i)`` (e.g. a list of factor matrices with symbolic order)."""

    def __init__(self, length, item: Callable, kind="list"):
        self.length = length
        self.kind = kind
        self.id = next(_ids)

        def tagged(i, raw=item):
            # elements are produced on demand: an array obtained here is a fresh description of the element, not the
            # element itself, so an in-place write into it would be lost -- it is marked and the write refused
            v = raw(i)
            if isinstance(v, Arr):
                v.symlist_elem = True
            return v
        self.item = tagged



class HeapList(SymList):
    """A symbolic-length list of real matrices whose elements can be written in place and re-bound:
    slot m holds a matrix of rows(m) x cols(m) entries entry(m, i, j) (Python callables producing terms).

    * item(m) is a *view* of slot m: it reads the slot's current content, so in-place writes through any view of
      the slot are seen by all of them (one array object per slot);
    * an in-place write through a view (a[key] = v, a[key] op= v) replaces the slot's content function;
    * store(m, arr) re-binds the slot to another array; views taken before a re-binding would keep the old
      array in Python, which is not modelled: reading such a stale view stops the path."""

    def __init__(self, length, rows, cols, entry, kind="list", init=None):
        self.length = length
        self.kind = kind
        self.id = next(_ids)
        self.rows, self.cols, self.entry = rows, cols, entry
        self.gen = 0
        self.item = self._view
        #: init(m): slot m has been bound to an array of its own.  None = every slot (lists of distinct matrices);
        #: a list made by `[placeholder] * n` starts with no slot initialised: its slots all refer to ONE placeholder
        #: object, so reading a slot or writing into it in place is only meaningful after the slot was re-bound --
        #: the executor makes that an obligation (see Interp.subscript)
        self.init = init

    def _view(self, m):
        from . import terms as T
        from .ctx import PathAbort
        heap, gen = self, self.gen

        def read(i, j):
            if heap.gen != gen:
                raise PathAbort("read through a reference to a list element taken before the element was re-bound (not modelled)")
            return heap.entry(m, i, j)
        a = Arr((self.rows(m), self.cols(m)), read, "real")
        a.heap = (self, m)
        return a

    def begin_inplace(self, a):
        """Freeze the view's reader on the current content (the generic item assignment builds the new content from it)."""
        heap, m = a.heap
        old = heap.entry
        a.fn = lambda i, j, old=old, m=m: old(m, i, j)
        return old

    def end_inplace(self, a, old):
        from . import terms as T
        heap, m = a.heap
        new = a.fn
        heap.entry = lambda m2, i, j, m=m, new=new, old=old: T.Ite(T.eq(m2, m), new(i, j), old(m2, i, j))
        gen = heap.gen

        def read(i, j):
            return heap.entry(m, i, j)
        a.fn = read

    def store(self, m, arr):
        """Re-bind slot m to (a copy of the description of) arr."""
        from . import terms as T
        arr_fn, shp = arr.fn, arr.shape
        old_e, old_r, old_c = self.entry, self.rows, self.cols
        self.entry = lambda m2, i, j: T.Ite(T.eq(m2, m), arr_fn(i, j), old_e(m2, i, j))
        self.rows = lambda m2: T.Ite(T.eq(m2, m), shp[0], old_r(m2))
        self.cols = lambda m2: T.Ite(T.eq(m2, m), shp[1], old_c(m2))
        if self.init is not None:
            old_i = self.init
            self.init = lambda m2: T.Or(T.eq(m2, m), old_i(m2))
        self.gen += 1
