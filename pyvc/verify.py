"""Generate and discharge the obligations of one function under contract."""

from __future__ import annotations

import time
import traceback
from typing import Dict, List

import z3

from . import terms as T
from .contract import REGISTRY, Contract, S
from .ctx import Ctx, Obligation, PathAbort, PathEnd, PathResult, PyRaise
from .extract import Index
from .interp import Interp
from .solve import solve_all, to_smt2

MAX_PATHS = 400


class FuncReport:
    def __init__(self, qual):
        self.qual = qual
        self.sha = None
        self.lines = None
        self.file = None
        self.paths = 0
        self.returns = 0
        self.raises = 0
        self.aborts: List[dict] = []
        self.obligations: List[dict] = []  # name, kind, line, status, backend, time
        self.trusted = set()
        self.dropped = set()
        self.inlined = set()
        self.error = None
        self.gen_time = 0.0

    @property
    def n_obl(self):
        return len([o for o in self.obligations if o["kind"] != "cover"])

    @property
    def n_discharged(self):
        return len([o for o in self.obligations if o["kind"] != "cover" and o["status"] == "discharged"])

    def failed(self):
        return [o for o in self.obligations if o["status"] not in ("discharged", "covered", "vacuous")]


def explore(contract: Contract, index: Index, registry=None, max_paths=MAX_PATHS):
    """Run every case of the contract over every path; return (FuncReport, tasks)
    where tasks are SMT queries still to be discharged."""
    registry = registry if registry is not None else REGISTRY
    rep = FuncReport(contract.qual)
    fi = index.get(contract.qual)
    if fi is None:
        rep.error = "missing function"
        return rep, []
    rep.sha, rep.lines, rep.file = fi.sha, fi.lines, fi.file
    tasks = []
    t0 = time.time()
    # callee contracts: everything registered except the function under verification
    callee = {q: c for q, c in registry.items() if q != contract.qual}
    case_names = list(contract.case_names())
    for ci, case_name in enumerate(case_names):
        work = [[]]
        n_paths = 0
        while work:
            script = work.pop()
            n_paths += 1
            if n_paths > max_paths:
                rep.aborts.append(dict(case=case_name, reason="path limit", line=None))
                break
            T.reset_names()
            ctx = Ctx(script, use_quantified_pc=getattr(contract, "quantified_pc", False))
            ctx.prefix = f"{contract.qual}[{case_name}]"
            s = S(ctx)
            args = contract.setup(s, case_name)
            it = Interp(ctx, index, contracts=callee, inline=set(contract.inline))
            s.it = it
            it.opaque_calls = set(getattr(contract, "opaque_calls", ()))
            it.abstract_calls = contract.abstract_calls(s, args) if hasattr(contract, "abstract_calls") else None
            it.loop_specs = _loop_specs(contract, fi, s, args)
            outcome, value, exc, reason, line = "return", None, None, "", None
            self_val = args.get("__self__") if isinstance(args, dict) else None
            try:
                value = it.call_def(fi, [], {k: v for k, v in args.items() if not k.startswith('__') and k != 'cls'}, self_val=self_val, cls_val=args.get("cls"), top=True)
            except PyRaise as e:
                outcome, exc, line = "raise", e.exc, e.line
            except PathEnd as e:
                outcome, reason = "end", e.reason
            except PathAbort as e:
                outcome, reason, line = "abort", e.reason, e.line
            except RecursionError:
                outcome, reason = "abort", "recursion limit"
            except Exception as e:
                outcome, reason = "abort", f"internal: {type(e).__name__}: {e}"
                reason += " @ " + traceback.format_exc().strip().splitlines()[-3].strip()
            work.extend(ctx.pending)
            rep.paths += 1
            rep.trusted |= ctx.trusted
            rep.dropped |= ctx.dropped
            rep.inlined |= getattr(it, "inlined", set())
            path_id = "".join("T" if b else "F" for b in ctx.script) or "-"
            if args is not None and self_val is not None:
                args["__self__"] = self_val
            if outcome == "abort":
                if reason == "infeasible":
                    continue
                rep.aborts.append(dict(case=case_name, path=path_id, reason=reason, line=line))
                # obligations generated before the abort are still meaningful
            elif outcome == "return":
                rep.returns += 1
                try:
                    for item in contract.ensures(s, args, value):
                        label, f = item[0], item[1]
                        # a clause tagged "lemma" is proved first and then available to later clauses
                        opt = item[2] if len(item) > 2 else None
                        if isinstance(opt, dict):
                            # {"isolated": [facts]}: proved from exactly these (already established) facts -- used to hand a
                            # ground nonlinear-arithmetic core to the solver without the quantified context around it
                            ctx.oblige(f, f"{label}@{path_id}", kind="ensures", assume_after=bool(opt.get("lemma")), only_hyps=opt["isolated"])
                        else:
                            ctx.oblige(f, f"{label}@{path_id}", kind="ensures", assume_after=(opt == "lemma"))
                    for label, g in contract.raises_when(s, args):
                        ctx.oblige(T.Not(g), f"must-raise:{label}@{path_id}", kind="raises", assume_after=False)
                    ctx.cover(f"return@{path_id}")
                except PathAbort as e:
                    rep.aborts.append(dict(case=case_name, path=path_id, reason="ensures: " + e.reason, line=e.line))
                except PyRaise as e:
                    rep.aborts.append(dict(case=case_name, path=path_id, reason=f"ensures raised {e.exc}", line=e.line))
            elif outcome == "raise":
                rep.raises += 1
                gs = [g for _, g in contract.raises_when(s, args)] + [g for _, g in contract.may_raise(s, args)]
                if not contract.may_raise_otherwise:
                    ctx.oblige(T.Or(*gs) if gs else False, f"raise-allowed:{exc}@L{line}@{path_id}", kind="raises", assume_after=False)
            rep.trusted |= ctx.trusted      # assumptions named while the postconditions were stated (e.g. induction steps)
            for o in ctx.obligations:
                hyps = ctx.assumptions[: o.n_hyps] if o.only_hyps is None else o.only_hyps
                goal = o.goal
                smt = to_smt2(hyps, goal if not o.expect_sat else z3.BoolVal(False))
                rep.obligations.append(dict(name=o.name, kind=o.kind, line=o.line, status="pending", expect_sat=o.expect_sat))
                tasks.append((o.name, smt))
    rep.gen_time = time.time() - t0
    return rep, tasks


def _loop_specs(contract, fi, s, args):
    """Map loop ordinal -> line number for the invariants the contract declares."""
    import ast
    specs = {}
    if not contract.loops:
        return specs
    loops = [n for n in ast.walk(fi.node) if isinstance(n, (ast.For, ast.While))]
    loops.sort(key=lambda n: (n.lineno, n.col_offset))
    for k, spec in contract.loops.items():
        if k < len(loops):
            sp = dict(spec)
            inv = spec["inv"]
            sp["inv"] = (lambda env, i, inv=inv: inv(s, args, env, i))
            if "havoc" in spec:
                hv = spec["havoc"]
                sp["havoc"] = (lambda name, env, hv=hv: hv(s, args, env, name))
            specs[loops[k].lineno] = sp
    return specs


def discharge(rep: FuncReport, tasks, timeout_ms=10000, use_cvc5=True, workers=None):
    names = set()
    full = []
    cover = {o["name"] for o in rep.obligations if o.get("expect_sat")}
    for name, smt in tasks:
        if name in names:
            continue
        names.add(name)
        if name in cover:
            # vacuity guard: only a quick 'unsat' matters
            full.append((name, smt, min(timeout_ms, 2000), False))
        else:
            full.append((name, smt, timeout_ms, use_cvc5))
    res = solve_all(full, workers)
    for o in rep.obligations:
        r = res.get(o["name"])
        if r is None:
            o["status"] = "error"
            continue
        o["backend"], o["time"] = r["backend"], r["time"]
        if o.get("expect_sat"):
            # vacuity guard: hypotheses must not be contradictory
            o["status"] = "covered" if r["result"] != "unsat" else "vacuous"
        else:
            o["status"] = "discharged" if r["result"] == "unsat" else ("refuted" if r["result"] == "sat" else "unknown")
            if r["result"] != "unsat":
                o["solver_output"] = (r["reason"] or "") + ("\n" + r["model"] if r.get("model") else "")
    return rep


def verify_function(qual, index=None, registry=None, timeout_ms=10000, use_cvc5=True, workers=None):
    registry = registry if registry is not None else REGISTRY
    index = index or Index()
    c = registry[qual]
    rep, tasks = explore(c, index, registry)
    rep.smt = dict(tasks)
    discharge(rep, tasks, timeout_ms, use_cvc5, workers)
    return rep
