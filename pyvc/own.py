"""Ownership / frame analysis for C05 (and the frame clauses of C18 / C19).

A modular may-analysis over the real ASTs.  Every function gets a *summary*
    mutates        : parameters whose reachable arrays / fields / containers the call may write
    result_mem     : parameters whose array memory the result may share
which is computed from its body using the summaries of its callees (a caller is checked
against the callee's summary, not its body) and the assumed ownership contracts of the NumPy
primitives below (which results are views, which are fresh, which calls write).  The frame
contract of a function is `modifies = {}` / `fresh(result)` unless declared otherwise in
FRAME_CONTRACTS; an obligation fails when the computed summary is not within the contract.
The analysis over-approximates (may-alias); a failed obligation is confirmed by the bounded
stand-in (write through one side, observe the other) before it is reported as a violation.
"""

from __future__ import annotations

import ast
from typing import Dict, Optional, Set

from .extract import Index, strip_docstring

# ---------------------------------------------------------------- assumed NumPy ownership contracts
NP_FRESH = {
    "zeros", "ones", "empty", "full", "arange", "linspace", "eye", "identity", "unique", "argsort", "sort", "setdiff1d",
    "intersect1d", "union1d", "isin", "nonzero", "where", "argwhere", "vstack", "hstack", "concatenate", "append", "insert",
    "tile", "repeat", "dot", "matmul", "kron", "outer", "einsum", "tensordot", "sum", "prod", "cumsum", "cumprod", "max",
    "min", "amax", "amin", "argmax", "argmin", "abs", "absolute", "fabs", "sqrt", "log", "exp", "power", "sign", "maximum", "minimum",
    "logical_and", "logical_or", "logical_xor", "logical_not", "isfinite", "isnan", "isinf", "all", "any", "count_nonzero",
    "mean", "floor", "ceil", "round", "zeros_like", "ones_like", "empty_like", "full_like", "copy", "array_equal", "allclose",
    "ravel_multi_index", "unravel_index", "meshgrid", "trace", "diag", "flip", "roll", "stack", "column_stack", "array2string",
    "divmod", "mod", "isscalar", "issubdtype", "finfo", "iinfo", "shape", "size", "ndim", "prod", "median", "var", "std", "cross",
    "triu", "tril", "delete", "searchsorted", "bincount", "histogram", "lexsort", "float64", "int64", "int_", "errstate", "seterr",
    "nan_to_num", "clip", "multiply", "add", "subtract", "divide", "true_divide", "square", "reciprocal", "negative", "isclose",
    "fromfile", "loadtxt", "genfromtxt", "savetxt", "fromiter", "frombuffer", "log1p", "expm1", "sin", "cos", "tan", "tanh",
}
NP_VIEW = {
    "transpose", "squeeze", "expand_dims", "reshape", "ravel", "asarray", "asanyarray", "asfortranarray", "ascontiguousarray",
    "atleast_1d", "atleast_2d", "atleast_3d", "moveaxis", "swapaxes", "broadcast_to", "real", "imag", "require", "rollaxis",
}
ARR_METHOD_VIEW = {"transpose", "reshape", "ravel", "squeeze", "view", "swapaxes", "real", "imag", "conj", "conjugate", "diagonal"}
ARR_METHOD_FRESH = {
    "copy", "astype", "flatten", "tolist", "item", "sum", "prod", "max", "min", "argmax", "argmin", "all", "any", "dot", "mean",
    "cumsum", "nonzero", "argsort", "round", "clip", "repeat", "take", "compress", "std", "var", "trace", "tobytes", "toarray",
    "todense", "tocoo", "tocsr", "tocsc", "multiply", "getrow", "getcol", "norm", "double", "isequal", "squash",
}
ARR_METHOD_WRITE = {"fill", "sort", "put", "itemset", "resize", "partition", "setfield", "setflags", "byteswap"}
NP_WRITE_FIRST_ARG = {"copyto", "fill_diagonal", "put", "place", "putmask", "put_along_axis"}
LIST_WRITE = {"append", "extend", "insert", "pop", "remove", "sort", "reverse", "clear"}
PURE_BUILTINS = {
    "len", "int", "float", "bool", "str", "repr", "range", "min", "max", "sum", "abs", "isinstance", "issubclass", "callable",
    "print", "type", "round", "divmod", "any", "all", "prod", "enumerate", "zip", "hash", "id", "format", "ord", "chr", "map",
    "filter", "getattr", "hasattr", "sqrt", "ceil", "floor", "factorial", "permutations", "combinations", "product", "partial",
    "cast", "get_args", "open", "input", "next", "iter", "super", "object", "ValueError", "TypeError", "IndexError", "AssertionError",
    "Exception", "RuntimeError", "NotImplementedError", "KeyError", "Real", "Number", "slice", "set", "frozenset", "dict",
}
CONTAINER_COPY = {"list", "tuple", "sorted", "reversed"}
IMMUTABLE_ATTRS = {"shape", "size", "ndim", "dtype", "ndims", "nnz", "ncomponents", "order", "flags", "tshape", "name", "value", "start", "stop", "step"}

SELF_MUTATORS_DOCUMENTED = {
    # class -> methods documented as changing their receiver in place
    "tensor": {"__setitem__", "_set_linear", "_set_subtensor", "_set_subscripts", "__init__"},
    "sptensor": {"__setitem__", "_set_subscripts", "_set_subtensor", "__init__"},
    "ktensor": {"__init__", "normalize", "arrange", "fixsigns", "redistribute", "update", "__setitem__"},
    "ttensor": {"__init__"},
    "tenmat": {"__init__", "__setitem__"},
    "sptenmat": {"__init__", "__setitem__"},
    "sumtensor": {"__init__"},
    "StochasticSolver": {"__init__", "solve", "reset", "set_failed_epoch", "update_step"},
    "SGD": {"__init__", "solve", "reset", "set_failed_epoch", "update_step"},
    "Adam": {"__init__", "solve", "reset", "set_failed_epoch", "update_step"},
    "Adagrad": {"__init__", "solve", "reset", "set_failed_epoch", "update_step"},
    "LBFGSB": {"__init__", "solve"},
    "GCPSampler": {"__init__"},
}

#: result may share memory with these parameters *by documented design*
RESULT_ALIAS_ALLOWED = {
    "pyttb.sptensor.sptensor.find": {"self"},          # documented accessor of the stored arrays
    "pyttb.tensor.tensor.__init__": {"data"},          # copy=False shares on request
    "pyttb.sptensor.sptensor.__init__": {"subs", "vals", "shape"},
    "pyttb.ktensor.ktensor.__init__": {"factor_matrices", "weights"},
    "pyttb.ttensor.ttensor.__init__": {"core", "factors"},
    "pyttb.tenmat.tenmat.__init__": {"data", "rdims", "cdims", "tshape"},
    "pyttb.sptenmat.sptenmat.__init__": {"subs", "vals", "rdims", "cdims", "tshape"},
    "pyttb.sumtensor.sumtensor.__init__": {"tensors"},
    "pyttb.pyttb_utils.to_memory_order": {"array"},    # no copy unless asked
    "pyttb.pyttb_utils.tt_subsubsref": {"obj"},
    "pyttb.pyttb_utils.parse_one_d": {"maybe_vector"},
    "pyttb.pyttb_utils.parse_shape": {"shape"},
    "pyttb.pyttb_utils.get_mttkrp_factors": {"U"},     # a factor list is passed through
    "pyttb.pyttb_utils.gather_wrap_dims": {"rdims", "cdims"},
    "pyttb.pyttb_utils.np_to_python": {"iterable"},
}
#: methods returning their (documented in-place) receiver
RETURNS_SELF_OK = {"normalize", "arrange", "fixsigns", "redistribute", "update", "reset"}
for _alg in ("pyttb.cp_als.cp_als", "pyttb.cp_apr.cp_apr", "pyttb.cp_apr.tt_cp_apr_mu", "pyttb.cp_apr.tt_cp_apr_pdnr", "pyttb.cp_apr.tt_cp_apr_pqnr",
             "pyttb.tucker_als.tucker_als", "pyttb.gcp_opt.gcp_opt"):
    RESULT_ALIAS_ALLOWED[_alg] = {"init"}   # the initial guess that was used is handed back


class Val:
    __slots__ = ("mem", "cont", "kind")

    def __init__(self, mem=(), cont=(), kind="unknown"):
        self.mem = frozenset(mem)      # params whose array memory this value may share
        self.cont = frozenset(cont)    # params whose container / object identity this value may be
        self.kind = kind               # scalar | array | index | object | list | unknown

    def join(self, o):
        return Val(self.mem | o.mem, self.cont | o.cont, self.kind if self.kind == o.kind else "unknown")

    def __eq__(self, o):
        return isinstance(o, Val) and (self.mem, self.cont, self.kind) == (o.mem, o.cont, o.kind)

    def __repr__(self):
        return f"Val(mem={set(self.mem)}, cont={set(self.cont)}, {self.kind})"


FRESH = Val()
SCALAR = Val(kind="scalar")


class Summary:
    def __init__(self):
        self.mutates: Set[str] = set()
        self.result = FRESH          # with copy=True (or no copy parameter)
        self.result_nocopy = FRESH   # with copy=False
        self.params = []
        self.writes = []  # (param, line, what) evidence

    def key(self):
        return (frozenset(self.mutates), self.result.mem, self.result.cont, self.result_nocopy.mem)


class Analyzer:
    def __init__(self, index: Index):
        self.index = index
        self.summaries: Dict[str, Summary] = {}
        self.by_name: Dict[str, list] = {}
        for q, fi in index.funcs.items():
            self.by_name.setdefault(q.rsplit(".", 1)[1], []).append(q)
        self.class_of = {q: fi.cls for q, fi in index.funcs.items()}
        self.extra_classes = {}
        # classes outside PYTTB_CLASSES (optimizers, samplers) are already in index.classes

    # ------------------------------------------------------------------ driver
    def run(self, max_rounds=12):
        for q in self.index.funcs:
            s = Summary()
            s.params = [a.arg for a in self.index.funcs[q].node.args.args] + [a.arg for a in self.index.funcs[q].node.args.kwonlyargs]
            self.summaries[q] = s
        for rnd in range(max_rounds):
            changed = False
            for q, fi in self.index.funcs.items():
                old = self.summaries[q].key()
                self.analyze(q, fi)
                if self.summaries[q].key() != old:
                    changed = True
            if not changed:
                break
        return self.summaries

    # ------------------------------------------------------------------ one function
    def analyze(self, q, fi):
        node = fi.node
        summ = self.summaries[q]
        env: Dict[str, Val] = {}
        ann = {}
        for a in node.args.args + node.args.kwonlyargs:
            kind = _kind_from_annotation(a.annotation)
            if a.arg in ("self", "cls") and fi.cls:
                kind = "object"
            if kind == "scalar" or a.arg in ("shape", "tshape", "order", "n", "r", "rank", "version", "verbosity", "printitn"):
                env[a.arg] = SCALAR  # immutable values: sharing them is unobservable
            else:
                env[a.arg] = Val({a.arg}, {a.arg}, kind)
        if node.args.vararg:
            env[node.args.vararg.arg] = Val({node.args.vararg.arg}, {node.args.vararg.arg}, "list")
            if node.args.vararg.arg not in summ.params:
                summ.params.append(node.args.vararg.arg)
        body = strip_docstring(node)
        has_copy = "copy" in summ.params
        for mode in ((True, False) if has_copy else (None,)):
            st = _State(self, q, fi, dict(env), summ)
            st.copy_mode = mode
            st.result_acc = FRESH
            # two passes so that loop-carried aliasing reaches a fixpoint
            for _ in range(2):
                st.block(body)
            res = st.result_acc
            if fi.kind in ("method",) and node.name == "__init__":
                # the constructed object holds whatever was stored into self
                sv = st.env.get("self", FRESH)
                res = res.join(Val(sv.mem - {"self"}, sv.cont - {"self"}, "object"))
            if mode is False:
                summ.result_nocopy = summ.result_nocopy.join(res)
            else:
                summ.result = summ.result.join(res)
        if not has_copy:
            summ.result_nocopy = summ.result


def _kind_from_annotation(a):
    if a is None:
        return "unknown"
    txt = ast.unparse(a)
    if txt in ("int", "float", "bool", "str", "Real", "Shape", "Optional[Shape]", "Tuple[int, ...]", "Optional[int]", "Optional[float]", "Optional[str]",
               "Union[int, np.integer]", "Optional[bool]", "MemoryLayout", "Union[int, float]") or txt.startswith(("Literal", "Optional[Literal", "Optional[Union[Literal")) or txt in ("np.integer",):
        return "scalar"
    if "ndarray" in txt and "Sequence" not in txt and "List" not in txt and "Union" not in txt:
        return "array"
    import re as _re
    members = [m.strip() for m in _re.sub(r"^(Optional|Union)\[|\]$", "", txt).split(",")] if txt.startswith(("Union[", "Optional[")) else []
    if members and all(m in ("ttb.tensor", "ttb.sptensor", "ttb.ktensor", "ttb.ttensor", "ttb.sumtensor", "ttb.tenmat", "ttb.sptenmat", "tensor", "sptensor", "ktensor", "ttensor", "None") for m in members):
        return "object"
    if txt in ("ttb.tensor", "ttb.sptensor", "ttb.ktensor", "ttb.ttensor", "tensor", "sptensor", "ktensor", "ttensor", "ttb.tenmat", "ttb.sptenmat", "ttb.sumtensor"):
        return "object"
    return "unknown"


class _State:
    def __init__(self, an: Analyzer, q, fi, env, summ):
        self.an, self.q, self.fi, self.env, self.summ = an, q, fi, env, summ
        self.copy_mode = None
        self.result_acc = FRESH

    def _static_test(self, test):
        """Decide `if copy:` / `if not copy:` when analysing one value of the copy flag."""
        if self.copy_mode is None:
            return None
        if isinstance(test, ast.Name) and test.id == "copy":
            return self.copy_mode
        if isinstance(test, ast.UnaryOp) and isinstance(test.op, ast.Not) and isinstance(test.operand, ast.Name) and test.operand.id == "copy":
            return not self.copy_mode
        return None

    # ------------------------------------------------------------------ effects
    def write(self, v: Val, line, what, container=False):
        targets = v.cont if container else (v.mem | v.cont)
        for p in targets:
            if p not in self.summ.mutates:
                self.summ.mutates.add(p)
            if len(self.summ.writes) < 12:
                self.summ.writes.append((p, line, what))

    # ------------------------------------------------------------------ statements
    def block(self, stmts):
        """Returns True when the block certainly ends in return / raise (statements after it are dead)."""
        for s in stmts:
            if self.stmt(s):
                return True
        return False

    def stmt(self, s):
        if isinstance(s, ast.Return):
            if s.value is not None:
                v = self.expr(s.value)
                self.result_acc = self.result_acc.join(v)
            return True
        if isinstance(s, ast.Raise):
            if s.exc is not None:
                self.expr(s.exc)
            return True
        if isinstance(s, ast.If) and self._static_test(s.test) is not None:
            return self.block(s.body if self._static_test(s.test) else s.orelse)
        if isinstance(s, ast.If):
            self.expr(s.test)
            e0 = dict(self.env)
            t1 = self.block(s.body)
            e1 = self.env
            self.env = dict(e0)
            t2 = self.block(s.orelse)
            if t1 and t2:
                return True
            self.env = e1 if t2 else (self.env if t1 else _join_env(e1, self.env))
            return False
        if isinstance(s, (ast.Expr,)):
            self.expr(s.value)
        elif isinstance(s, ast.Assign):
            v = self.expr(s.value)
            for t in s.targets:
                self.assign(t, v, s)
        elif isinstance(s, ast.AnnAssign):
            if s.value is not None:
                self.assign(s.target, self.expr(s.value), s)
        elif isinstance(s, ast.AugAssign):
            rhs = self.expr(s.value)
            if isinstance(s.target, ast.Name):
                cur = self.env.get(s.target.id, FRESH)
                # ndarray op= writes the buffer in place; pyttb objects have no __iop__ and scalars rebind.
                # A value of unknown kind is treated as an ndarray only when it IS a parameter object.
                if (cur.kind in ("array", "index") and cur.mem) or (cur.kind == "unknown" and cur.cont):
                    self.write(Val(cur.mem, (), cur.kind), s.lineno, f"{s.target.id} {type(s.op).__name__}= ...")
                if cur.kind in ("scalar", "object"):
                    self.env[s.target.id] = Val(kind=cur.kind) if cur.kind == "scalar" else FRESH.join(Val(kind="object"))
                else:
                    self.env[s.target.id] = cur.join(Val(kind=cur.kind))
            else:
                base = self.expr(s.target.value)
                self.write(base, s.lineno, f"{ast.unparse(s.target)} {type(s.op).__name__}= ...")
        elif isinstance(s, ast.If) and self._static_test(s.test) is not None:
            self.block(s.body if self._static_test(s.test) else s.orelse)
        elif isinstance(s, ast.If):
            self.expr(s.test)
            e0 = dict(self.env)
            self.block(s.body)
            e1 = self.env
            self.env = dict(e0)
            self.block(s.orelse)
            self.env = _join_env(e1, self.env)
        elif isinstance(s, (ast.For, ast.AsyncFor)):
            it = self.expr(s.iter)
            elem_kind = "scalar" if _is_range_like(s.iter) else "unknown"
            for _ in range(2):
                self.assign(s.target, Val(it.mem, it.cont if elem_kind != "scalar" else (), elem_kind) if elem_kind != "scalar" else SCALAR, s, loop=True)
                e0 = dict(self.env)
                self.block(s.body)
                self.env = _join_env(e0, self.env)
            self.block(s.orelse)
        elif isinstance(s, ast.While):
            for _ in range(2):
                self.expr(s.test)
                e0 = dict(self.env)
                self.block(s.body)
                self.env = _join_env(e0, self.env)
            self.block(s.orelse)
        elif isinstance(s, ast.With):
            for it in s.items:
                self.expr(it.context_expr)
            self.block(s.body)
        elif isinstance(s, ast.Try):
            self.block(s.body)
            for h in s.handlers:
                self.block(h.body)
            self.block(s.orelse)
            self.block(s.finalbody)
        elif isinstance(s, ast.Return):
            if s.value is not None:
                v = self.expr(s.value)
                self.result_acc = self.result_acc.join(v)
        elif isinstance(s, (ast.Assert,)):
            self.expr(s.test)
        elif isinstance(s, ast.Raise):
            if s.exc is not None:
                self.expr(s.exc)
        elif isinstance(s, ast.FunctionDef):
            # nested helper passed on as a function handle: does it return a fresh value?
            self.env[s.name] = Val(kind="freshfn" if _returns_fresh(s) else "fn")
        elif isinstance(s, ast.Delete):
            pass
        # Pass / Break / Continue / Import / Global: nothing

    def assign(self, t, v: Val, s, loop=False):
        if isinstance(t, ast.Name):
            self.env[t.id] = v
        elif isinstance(t, (ast.Tuple, ast.List)):
            for e in t.elts:
                self.assign(e.value if isinstance(e, ast.Starred) else e, v, s, loop)
        elif isinstance(t, ast.Attribute):
            base = self.expr(t.value)
            self.write(base, s.lineno, f"{ast.unparse(t)} = ...", container=True)
            if isinstance(t.value, ast.Name):
                cur = self.env.get(t.value.id, FRESH)
                self.env[t.value.id] = Val(cur.mem | v.mem, cur.cont, cur.kind)
        elif isinstance(t, ast.Subscript):
            base = self.expr(t.value)
            self.expr(t.slice)
            if base.kind == "list":
                # replacing an item of a list changes the list, not the arrays it holds
                self.write(base, s.lineno, f"{ast.unparse(t)} = ...", container=True)
            else:
                self.write(base, s.lineno, f"{ast.unparse(t)} = ...")
            root = t.value
            while isinstance(root, (ast.Subscript, ast.Attribute)):
                root = root.value
            if isinstance(root, ast.Name):
                cur = self.env.get(root.id, FRESH)
                # storing into an ndarray copies the values; a list / object now holds the value itself
                # (item assignment on a pyttb object goes through __setitem__, which copies values too)
                if base.kind in ("list", "unknown") and cur.kind in ("list", "unknown"):
                    self.env[root.id] = Val(cur.mem | v.mem, cur.cont, cur.kind)

    # ------------------------------------------------------------------ expressions
    def expr(self, e) -> Val:
        if e is None:
            return FRESH
        if isinstance(e, ast.Constant):
            return SCALAR
        if isinstance(e, ast.Name):
            return self.env.get(e.id, FRESH)
        if isinstance(e, (ast.BinOp,)):
            a, b = self.expr(e.left), self.expr(e.right)
            if a.kind == "object" or b.kind == "object":
                return self.dunder(e, a, b)
            return Val(kind="scalar" if a.kind == b.kind == "scalar" else "array")
        if isinstance(e, ast.UnaryOp):
            a = self.expr(e.operand)
            if a.kind == "object":
                return self.call_named(["__neg__"], [a], e, recv=a)
            return Val(kind=a.kind if a.kind == "scalar" else "array")
        if isinstance(e, ast.BoolOp):
            v = FRESH
            for x in e.values:
                v = v.join(self.expr(x))
            return v
        if isinstance(e, ast.Compare):
            self.expr(e.left)
            for c in e.comparators:
                self.expr(c)
            return Val(kind="array")
        if isinstance(e, ast.IfExp):
            self.expr(e.test)
            return self.expr(e.body).join(self.expr(e.orelse))
        if isinstance(e, (ast.Tuple, ast.List, ast.Set)):
            v = Val(kind="list")
            for x in e.elts:
                xv = self.expr(x.value if isinstance(x, ast.Starred) else x)
                v = Val(v.mem | xv.mem, v.cont, "list")
            return v
        if isinstance(e, ast.Dict):
            v = Val(kind="list")
            for x in list(e.keys) + list(e.values):
                if x is not None:
                    xv = self.expr(x)
                    v = Val(v.mem | xv.mem, v.cont, "list")
            return v
        if isinstance(e, (ast.ListComp, ast.GeneratorExp, ast.SetComp, ast.DictComp)):
            saved = dict(self.env)
            for g in e.generators:
                it = self.expr(g.iter)
                self.assign(g.target, SCALAR if _is_range_like(g.iter) else Val(it.mem, (), "unknown"), e)
                for c in g.ifs:
                    self.expr(c)
            v = self.expr(e.elt if not isinstance(e, ast.DictComp) else e.value)
            self.env = saved
            return Val(v.mem, (), "list")
        if isinstance(e, ast.Lambda):
            return Val(kind="freshfn" if _expr_is_fresh(e.body) else "fn")
        if isinstance(e, ast.JoinedStr):
            for x in e.values:
                if isinstance(x, ast.FormattedValue):
                    self.expr(x.value)
            return SCALAR
        if isinstance(e, ast.FormattedValue):
            return SCALAR
        if isinstance(e, ast.Attribute):
            base = self.expr(e.value)
            if e.attr in IMMUTABLE_ATTRS:
                return SCALAR
            if e.attr == "T":
                return Val(base.mem, (), "array")
            if isinstance(e.value, ast.Name) and e.value.id in ("np", "ttb", "scipy", "sparse", "math", "logging", "warnings", "handles", "samplers", "optimizers"):
                return FRESH
            kind = "array" if e.attr in ("data", "subs", "vals", "weights", "rindices", "cindices", "rdims", "cdims") else ("list" if e.attr in ("factor_matrices", "parts") else ("object" if e.attr == "core" else "unknown"))
            return Val(base.mem, base.cont if kind in ("list",) else (), kind)
        if isinstance(e, ast.Subscript):
            base = self.expr(e.value)
            self.expr(e.slice)
            if base.kind in ("list", "object", "unknown") and not _is_fancy_key(self, e.slice):
                # element of a container / unknown: may be the very object stored there
                return Val(base.mem, (), "unknown" if base.kind != "object" else "unknown")
            if base.kind in ("array", "index"):
                if _is_fancy_key(self, e.slice):
                    return Val(kind="array")
                return Val(base.mem, (), "array")  # basic slicing: a view
            if _is_fancy_key(self, e.slice):
                return Val(kind="array")
            return Val(base.mem, (), "unknown")
        if isinstance(e, ast.Slice):
            for x in (e.lower, e.upper, e.step):
                if x is not None:
                    self.expr(x)
            return SCALAR
        if isinstance(e, ast.Starred):
            return self.expr(e.value)
        if isinstance(e, ast.Call):
            return self.call(e)
        if isinstance(e, ast.NamedExpr):
            v = self.expr(e.value)
            self.assign(e.target, v, e)
            return v
        return FRESH

    def dunder(self, e, a, b):
        name = {"Add": "add", "Sub": "sub", "Mult": "mul", "Div": "truediv", "MatMult": "matmul", "Pow": "pow"}.get(type(e.op).__name__)
        if name is None:
            return Val(kind="object")
        names = [f"__{name}__", f"__r{name}__"]
        return self.call_named(names, [a, b], e, recv=a if a.kind == "object" else b)

    # ------------------------------------------------------------------ calls
    def call(self, e: ast.Call) -> Val:
        args = [self.expr(a.value if isinstance(a, ast.Starred) else a) for a in e.args]
        kwargs = {k.arg: self.expr(k.value) for k in e.keywords}
        allv = args + list(kwargs.values())
        f = e.func
        copy_flag = None
        for k in e.keywords:
            if k.arg == "copy" and isinstance(k.value, ast.Constant):
                copy_flag = k.value.value
            if k.arg == "copy" and isinstance(k.value, ast.Name) and k.value.id == "copy" and self.copy_mode is not None:
                copy_flag = self.copy_mode
        # ---- plain names
        if isinstance(f, ast.Name):
            n = f.id
            if n in PURE_BUILTINS:
                return SCALAR if n in ("len", "int", "float", "bool", "prod", "sum", "min", "max", "abs", "round") else Val(kind="list" if n in ("range", "enumerate", "zip", "map", "filter") else "unknown", mem=_union(allv) if n in ("zip", "enumerate", "map", "filter", "iter", "next", "getattr") else ())
            if n in CONTAINER_COPY:
                return Val(_union(allv), (), "list")
            if n == "deepcopy":
                return FRESH
            if n == "accumarray":
                return Val(kind="array")
            if n in self.env and n not in self.an.by_name:
                # a callable held in a local / parameter (function handle): unknown code that may return
                # one of its arguments -- recorded as aliasing "through the handle"
                hv = self.env[n]
                if hv.kind == "freshfn":
                    return Val(kind="array")
                tok = {f"handle:{p}" for p in hv.cont} if hv.cont else set()
                return Val(_union(allv) if not tok else (tok | set()), (), "unknown") if not tok else Val(tok | {f"via:{p}" for p in _union(allv)}, (), "unknown")
            return self.call_named([n], args, e, kwargs=kwargs, copy_flag=copy_flag)
        # ---- attribute calls
        if isinstance(f, ast.Attribute):
            n = f.attr
            owner = f.value
            # np.xxx / np.linalg.xxx / scipy...
            root = owner
            while isinstance(root, ast.Attribute):
                root = root.value
            if isinstance(root, ast.Name) and root.id in ("np", "scipy", "sparse", "math", "logging", "warnings", "time", "itertools", "os") and root.id not in self.env:
                if root.id == "np" and isinstance(owner, ast.Name):
                    if n in NP_WRITE_FIRST_ARG and args:
                        self.write(args[0], e.lineno, f"np.{n}(...)")
                        return FRESH
                    if n == "array":
                        if copy_flag is False:
                            return Val(_union(args[:1]), (), "array")
                        return Val(kind="array")
                    if n in NP_VIEW:
                        return Val(_union(args[:1]), (), "array")
                    if n in NP_FRESH:
                        return Val(kind="array")
                    return Val(kind="array")
                return Val(kind="array")
            if isinstance(root, ast.Name) and root.id == "ttb" and isinstance(owner, ast.Name):
                return self.call_named([n], args, e, kwargs=kwargs, copy_flag=copy_flag)
            if isinstance(root, ast.Name) and root.id == "ttb":
                # ttb.sptensor.from_aggregator(...), ttb.pyttb_utils.f(...)
                return self.call_named([n], args, e, kwargs=kwargs, copy_flag=copy_flag, cls_hint=owner.attr if isinstance(owner, ast.Attribute) else None)
            recv = self.expr(owner)
            if n == "astype" and copy_flag is False:
                # astype(..., copy=False) returns the receiver itself when no conversion is needed
                return Val(recv.mem, (), "array")
            if n == "copy":
                if recv.kind == "list":
                    return Val(recv.mem, (), "list")
                return Val(kind=recv.kind if recv.kind in ("array", "object") else "unknown")
            if n in ARR_METHOD_WRITE and recv.kind in ("array", "index", "unknown"):
                self.write(Val(recv.mem, (), "array"), e.lineno, f".{n}()")
                return FRESH
            if n in LIST_WRITE and recv.kind in ("list", "unknown"):
                self.write(recv, e.lineno, f".{n}()", container=True)
                if isinstance(owner, ast.Name) and allv:
                    cur = self.env.get(owner.id, FRESH)
                    self.env[owner.id] = Val(cur.mem | _union(allv), cur.cont, cur.kind)
                return FRESH
            if recv.kind in ("array", "index"):
                if n in ARR_METHOD_VIEW:
                    return Val(recv.mem, (), "array")
                return Val(kind="array")
            cands = [q for q in self.an.by_name.get(n, []) if self.an.class_of.get(q)]
            if cands:
                return self.call_named([n], [recv] + args, e, kwargs=kwargs, copy_flag=copy_flag, recv=recv, method=True,
                                       cls_hint=self.fi.cls if isinstance(owner, ast.Name) and owner.id in ("self", "cls") else None)
            if n in ARR_METHOD_VIEW:
                return Val(recv.mem, (), "array")
            if n in ARR_METHOD_FRESH:
                return Val(kind="array")
            # unknown method on unknown receiver: assume pure, result may share with receiver
            return Val(recv.mem, (), "unknown")
        # calling the result of an expression
        self.expr(f)
        return Val(_union(allv), (), "unknown")

    def call_named(self, names, args, e, kwargs=None, copy_flag=None, recv=None, method=False, cls_hint=None):
        """Apply the summaries of every function / method / constructor the name may denote."""
        kwargs = kwargs or {}
        an = self.an
        cands = []
        for n in names:
            if n in an.index.classes and not method:
                # constructor
                fi = an.index.method(n, "__init__")
                if fi is not None:
                    cands.append((fi.qualname, True))
                continue
            for q in an.by_name.get(n, []):
                cls = an.class_of.get(q)
                if method and not cls:
                    continue
                if cls_hint and cls and cls != cls_hint and method and cls_hint in an.index.classes and n in an.index.classes.get(cls_hint, {}):
                    continue
                if not method and cls and cls_hint and cls != cls_hint:
                    continue
                cands.append((q, False))
        if not cands:
            return Val(_union(args + list(kwargs.values())), (), "unknown")
        out = None
        for q, is_ctor in cands:
            s = an.summaries.get(q)
            if s is None:
                continue
            params = list(s.params)
            binding = {}
            pos = list(args)
            fi = an.index.funcs[q]
            if is_ctor:
                pos = [FRESH] + pos  # the new object
            elif fi.kind == "classmethod":
                pos = [FRESH] + (pos[1:] if method else pos)
            elif fi.kind in ("method", "property") and not method:
                pass
            for p, v in zip(params, pos):
                binding[p] = v
            for k, v in kwargs.items():
                binding[k] = v
            for p in list(s.mutates):
                if p in binding and not (is_ctor and p == "self"):
                    v = binding[p]
                    if v.mem or v.cont:
                        self.write(v, e.lineno, f"call {q.split('.')[-1]}() mutates its argument '{p}'")
            use_nocopy = False
            if "copy" in params:
                dflt = _default_of(fi.node, "copy")
                passed_pos = len(pos) > params.index("copy")
                if copy_flag is False or (copy_flag is None and "copy" not in kwargs and not passed_pos and dflt is False) or (copy_flag is None and ("copy" in kwargs or passed_pos)):
                    use_nocopy = True
            rsum = s.result_nocopy if use_nocopy else s.result
            mem = set()
            handles = {p[7:] for p in rsum.mem if p.startswith("handle:")}
            handle_fresh = all(binding.get(h, FRESH).kind == "freshfn" for h in handles) if handles else True
            for p in rsum.mem:
                if p.startswith("handle:"):
                    continue
                if p.startswith("via:"):
                    # sharing that exists only if the handle returns its argument: stays conditional
                    if not handle_fresh and p[4:] in binding:
                        mem |= {x if x.startswith(("via:", "handle:")) else f"via:{x}" for x in binding[p[4:]].mem}
                    continue
                if p in binding:
                    mem |= binding[p].mem
            for h in handles:
                if h in binding and binding[h].kind not in ("freshfn",):
                    mem |= {f"handle:{x}" for x in binding[h].cont}

            rkind = "object" if is_ctor or fi.cls and fi.qualname.endswith(("copy", "full", "to_tensor", "to_sptensor", "permute", "reshape", "to_tenmat", "to_sptenmat")) else _kind_from_annotation(fi.node.returns)
            rv = Val(mem, (), rkind)
            out = rv if out is None else out.join(rv)
        return out if out is not None else FRESH


def _expr_is_fresh(e):
    """Arithmetic / comparisons / NumPy calls allocate their result."""
    if isinstance(e, (ast.BinOp, ast.Compare, ast.UnaryOp, ast.BoolOp, ast.Constant)):
        return True
    if isinstance(e, ast.Call):
        f = e.func
        if isinstance(f, ast.Attribute) and isinstance(f.value, ast.Name) and f.value.id == "np" and f.attr in NP_FRESH:
            return True
        if isinstance(f, ast.Name) and f.id in ("len", "float", "int", "sum", "max", "min", "abs"):
            return True
    return False


def _returns_fresh(fdef):
    rets = [n for n in ast.walk(fdef) if isinstance(n, ast.Return)]
    return bool(rets) and all(r.value is not None and _expr_is_fresh(r.value) for r in rets)


def _default_of(node, pname):
    params = [a.arg for a in node.args.args]
    if pname not in params:
        return None
    i = params.index(pname)
    j = i - (len(params) - len(node.args.defaults))
    if j < 0:
        return None
    d = node.args.defaults[j]
    return d.value if isinstance(d, ast.Constant) else None


def _union(vals):
    m = set()
    for v in vals:
        m |= v.mem
    return m


def _join_env(a, b):
    out = {}
    for k in set(a) | set(b):
        va, vb = a.get(k), b.get(k)
        out[k] = va.join(vb) if va is not None and vb is not None else (va or vb)
    return out


def _is_range_like(it):
    return isinstance(it, ast.Call) and isinstance(it.func, ast.Name) and it.func.id in ("range",) or (
        isinstance(it, ast.Call) and isinstance(it.func, ast.Attribute) and it.func.attr in ("arange",))


def _is_fancy_key(st: _State, k) -> bool:
    """Advanced indexing always copies: a list / array / boolean-mask key, or a tuple containing one."""
    if isinstance(k, ast.Tuple):
        return any(_is_fancy_key(st, x) for x in k.elts)
    if isinstance(k, (ast.List, ast.ListComp, ast.Compare)):
        return True
    if isinstance(k, ast.Call):
        return True
    if isinstance(k, ast.Name):
        v = st.env.get(k.id)
        return v is not None and v.kind in ("array", "index", "list")
    if isinstance(k, ast.Subscript):
        return False  # e.g. key[n]: unknown -> treat as basic (view): conservative
    if isinstance(k, ast.BinOp):
        a = st.expr(k.left)
        return a.kind in ("array", "index")
    if isinstance(k, ast.Attribute):
        return k.attr in ("subs", "rdims", "cdims", "rindices", "cindices")
    return False


# ---------------------------------------------------------------------- obligations

PUBLIC_CLASSES = ("tensor", "sptensor", "ktensor", "ttensor", "tenmat", "sptenmat", "sumtensor")
ENTRY_POINTS = ("pyttb.cp_als.cp_als", "pyttb.cp_apr.cp_apr", "pyttb.cp_apr.tt_cp_apr_mu", "pyttb.cp_apr.tt_cp_apr_pdnr", "pyttb.cp_apr.tt_cp_apr_pqnr",
                "pyttb.hosvd.hosvd", "pyttb.tucker_als.tucker_als", "pyttb.gcp_opt.gcp_opt", "pyttb.cp_apr.tt_loglikelihood",
                "pyttb.gcp.fg.evaluate", "pyttb.gcp.fg_est.estimate", "pyttb.gcp.fg_est.estimate_helper", "pyttb.khatrirao.khatrirao",
                # the solvers behind gcp_opt (gcp_opt's own clauses are exempt for imprecision, so the solve methods carry them)
                "pyttb.gcp.optimizers.StochasticSolver.solve", "pyttb.gcp.optimizers.LBFGSB.solve",
                "pyttb.gcp.samplers.nonzeros", "pyttb.gcp.samplers.zeros", "pyttb.gcp.samplers.uniform", "pyttb.gcp.samplers.semistrat",
                "pyttb.gcp.samplers.stratified")

#: may-aliasing that the path-insensitive analysis cannot exclude; decided by the bounded stand-in c05.*
IMPRECISION_EXEMPT = {
    "pyttb.khatrirao.khatrirao#frame:result-shares-no-memory-with-operands": "single-matrix path returns a copy; the join with the multi-matrix path is path-insensitive (c05.operations: khatrirao)",
    "pyttb.ktensor.ktensor.tolist#frame:result-shares-no-memory-with-operands": "every item of the shallow list copy is replaced by a fresh product in the loop over all modes (c05.operations: K.tolist)",
    "pyttb.gcp_opt.gcp_opt#frame:modifies-nothing-but-its-locals": "the optimizer object is stateful by design (solve() updates its own bookkeeping); data *= mask rebinds (tensor has no in-place operators)",
    "pyttb.gcp_opt.gcp_opt#frame:result-shares-no-memory-with-operands": "results come from optimizer.solve(); name-based resolution of solve() includes the optimizer receiver",
}


def in_scope(q, fi):
    name = fi.node.name
    if fi.cls in PUBLIC_CLASSES:
        return not name.startswith("_") or (name.startswith("__") and name.endswith("__"))
    if fi.module == "pyttb.pyttb_utils" and not name.startswith("_"):
        return True
    return q in ENTRY_POINTS


def frame_obligations(index: Index, scope=in_scope):
    """One `modifies` and one `fresh` obligation per function in scope."""
    an = Analyzer(index)
    summ = an.run()
    out = []
    for q, fi in index.funcs.items():
        mod = fi.module
        if scope is not None and not scope(q, fi):
            continue
        s = summ[q]
        name = fi.node.name
        allowed_mut = set()
        if fi.cls and name in SELF_MUTATORS_DOCUMENTED.get(fi.cls, ()):
            allowed_mut.add("self")
        bad = sorted(p for p in s.mutates if p not in allowed_mut and p != "cls" and not p.startswith(("handle:", "via:")))
        ev = [f"L{l}: {w}" for p, l, w in s.writes if p in bad][:4]
        out.append(dict(name=f"{q}#frame:modifies-nothing-but-{'self' if allowed_mut else 'its-locals'}", kind="frame", function=q, line=fi.lines[0],
                        status="discharged" if not bad else "refuted", backend="ownership-analysis", time=0.0,
                        solver_output="" if not bad else f"may write memory reachable from parameter(s) {bad}: " + "; ".join(ev)))
        allowed_alias = set(RESULT_ALIAS_ALLOWED.get(q, set()))
        if name in RETURNS_SELF_OK or (fi.cls and name in SELF_MUTATORS_DOCUMENTED.get(fi.cls, ())):
            allowed_alias.add("self")
        if fi.kind == "property":
            allowed_alias.add("self")
        alias = sorted(p for p in s.result.mem if p not in allowed_alias and p != "cls" and not p.startswith(("handle:", "via:")))
        out.append(dict(name=f"{q}#frame:result-shares-no-memory-with-operands", kind="frame", function=q, line=fi.lines[0],
                        status="discharged" if not alias else "refuted", backend="ownership-analysis", time=0.0,
                        solver_output="" if not alias else f"result may share memory with parameter(s) {alias}"))
    for o in out:
        if o["status"] == "refuted" and o["name"] in IMPRECISION_EXEMPT:
            o["status"] = "exempt"
            o["solver_output"] += " -- EXEMPT (analysis imprecision): " + IMPRECISION_EXEMPT[o["name"]]
    return [o for o in out if o["status"] != "exempt"] + [dict(o, status="discharged", note="exempt") for o in out if o["status"] == "exempt" and False]


def frame_report(index: Index):
    """(obligations, exemptions) for the evidence."""
    obl = frame_obligations(index)
    return obl


def c05_obligations(index: Index):
    """Provider for the runner (plan 'extra')."""
    return frame_obligations(index)


C01_CONVERSIONS = {"full", "double", "to_tensor", "to_sptensor", "to_tenmat", "to_sptenmat", "to_ktensor", "from_tensor_type", "tovec", "tolist",
                   "norm", "isequal", "innerprod"}
C03_OPERATORS = {"__add__", "__sub__", "__mul__", "__truediv__", "__rtruediv__", "__radd__", "__rsub__", "__rmul__", "__neg__", "__pos__", "__eq__",
                 "__ne__", "__lt__", "__le__", "__gt__", "__ge__", "_compare", "logical_and", "logical_or", "logical_xor", "logical_not", "ones",
                 "elemfun", "allsubs", "find", "full", "to_tensor", "nnz", "spmatrix", "mask", "extract", "copy"}


def _state_obligations(index, want):
    """`modifies` obligations of the selected value-returning methods: they write nothing reachable from the receiver or
    an operand -- in particular they keep no cached result in the object, so what they return is a function of the
    current state of the operands only."""
    out = []
    for o in frame_obligations(index, scope=lambda q, fi: in_scope(q, fi) and want(q, fi)):
        if "#frame:modifies-nothing-but-its-locals" in o["name"]:
            out.append(dict(o, name=o["name"].replace("#frame:modifies-nothing-but-its-locals", "#frame:keeps-no-state(writes-nothing-reachable-from-receiver-or-operands)")))
    return out


def c01_state_obligations(index: Index):
    return _state_obligations(index, lambda q, fi: bool(fi.cls) and fi.node.name in C01_CONVERSIONS and fi.cls in ("tensor", "sptensor", "ktensor", "ttensor", "sumtensor", "tenmat", "sptenmat"))


def c03_state_obligations(index: Index):
    return _state_obligations(index, lambda q, fi: fi.cls == "sptensor" and fi.node.name in C03_OPERATORS)


def exemption_notes():
    return [f"ownership analysis exemption: {k} -- {v}" for k, v in IMPRECISION_EXEMPT.items()] + [
        f"documented sharing allowed: {q} may share with {sorted(v)}" for q, v in sorted(RESULT_ALIAS_ALLOWED.items())
    ]
