"""Contract objects and the facade (S) contracts are written against."""

from __future__ import annotations

import ast
from typing import Any, Dict, List, Optional

import z3

from . import npsym as N
from . import terms as T
from .ctx import Ctx, PathAbort, PyRaise
from .values import Arr, Opaque, Rec, SymList

REGISTRY: Dict[str, "Contract"] = {}


def register(cls):
    inst = cls()
    REGISTRY[inst.qual] = inst
    return cls


class S:
    """Facade handed to contracts: symbolic constructors + logical combinators."""

    def __init__(self, ctx: Ctx, interp=None, at_call_site=False):
        self.ctx = ctx
        self.it = interp
        self.at_call_site = at_call_site

    @property
    def body_ghosts(self):
        """Ghost functions of the primitives executed by the body under verification (empty when
        the contract is being used at a call site: those ghosts belong to the caller)."""
        return {} if self.at_call_site else self.ctx.ghosts

    # --- logic
    And = staticmethod(T.And)
    Or = staticmethod(T.Or)
    Not = staticmethod(T.Not)
    Implies = staticmethod(T.Implies)
    Iff = staticmethod(T.Iff)
    Ite = staticmethod(T.Ite)
    eq = staticmethod(T.eq)
    ne = staticmethod(T.ne)
    lt = staticmethod(T.lt)
    le = staticmethod(T.le)
    gt = staticmethod(T.gt)
    ge = staticmethod(T.ge)

    def forall(self, lo, hi, f, name="q", pats=None):
        return T.forall_range(lo, hi, f, name, pats)

    def exists(self, lo, hi, f, name="e"):
        return T.exists_range(lo, hi, f, name)

    def forall_vars(self, vs, body, pats=None):
        return T.ForAll(vs, body, pats)

    # --- inputs
    def int(self, name, lo=None, hi=None):
        v = z3.Int(T.fresh_name(name))
        if lo is not None:
            self.ctx.assume(v >= lo)
        if hi is not None:
            self.ctx.assume(v <= hi)
        return v

    def real(self, name):
        return z3.Real(T.fresh_name(name))

    def bool(self, name):
        return z3.Bool(T.fresh_name(name))

    def nat(self, name):
        return self.int(name, 0)

    def vector(self, name, n, dtype="int", kind="ndarray"):
        return Arr.fresh(name, (n,), dtype, kind)

    def matrix(self, name, n, c, dtype="real"):
        return Arr.fresh(name, (n, c), dtype)

    def row_matrix(self, name, n, c):
        a = N.fresh_row_matrix(name, n, c)
        self.ctx.assume(N.row_matrix_wf(a))
        if not getattr(self.ctx, "_row_axioms", False):
            for ax in N.row_theory_axioms():
                self.ctx.assume(ax)
            self.ctx._row_axioms = True
        return a

    def assume(self, f, trusted=None):
        self.ctx.assume(f, trusted=trusted)

    # --- rows
    def row(self, a: Arr, i):
        return N.ensure_rows(self.ctx, a)(i)

    def rows_equal(self, a: Arr, i, b: Arr, j):
        ra, rb = self.row(a, i), self.row(b, j)
        return ra == rb

    def row_ext(self, r, s):
        self.ctx.assume(N.row_ext(r, s))


class Contract:
    qual: str = ""
    #: human-readable statement of what is specified (goes to evidence)
    doc: str = ""
    #: properties this contract serves
    props: tuple = ()
    #: loop invariants keyed by loop ordinal (0-based, source order of For/While in the body)
    loops: dict = {}
    #: qualnames whose bodies may be inlined while verifying this function
    inline: tuple = ()
    #: callees whose result no clause of this contract depends on (havocked, see Interp.call_pyttb)
    opaque_calls: tuple = ()
    may_raise_otherwise = False

    # ---- to be provided by subclasses
    def case_names(self):
        return ["main"]

    def setup(self, S, case):
        """Build the symbolic inputs of one case (assuming `requires`); return the args dict
        (receiver under key '__self__', class under 'cls' for classmethods)."""
        raise NotImplementedError

    def ensures(self, S, a: Dict[str, Any], ret):
        """yield (label, formula) for a normal return."""
        return []

    def raises_when(self, S, a: Dict[str, Any]):
        """yield (label, formula): ill-formedness predicates that must lead to an exception."""
        return []

    def may_raise(self, S, a):
        """yield (label, formula): conditions under which an exception is permitted but
        not demanded (used where the exact rejection set needs a quantity the contract
        cannot name)."""
        return []

    # ---- used at call sites
    def requires(self, S, a):
        """yield (label, formula) preconditions to be established by the caller."""
        return []

    def fresh_result(self, S, a):
        """A fresh, unconstrained value of the result's sort (for use at call sites)."""
        raise PathAbort(f"contract {self.qual} cannot be used at call sites (no result builder)")

    def result(self, S, a):
        """Modular call: havoc the result, then assume the callee's postcondition."""
        ret = self.fresh_result(S, a)
        S.ctx.log_ghost("call:" + self.qual.split(".")[-1], ret)
        S.ctx.log_ghost("callargs:" + self.qual.split(".")[-1], dict(a))
        for item in self.ensures(S, a, ret):
            label, f = item[0], item[1]
            if f is False:
                raise PathAbort(f"contract {self.qual}: clause {label} is false for the fresh result")
            S.ctx.assume(f)
        self.after_result(S, a, ret)
        return ret

    def after_result(self, S, a, ret):
        """Hook: attach ghost views that the assumed postcondition justifies."""
        return None

    def bind(self, interp, pos, kw, self_val=None, cls_val=None):
        fi = interp.index.get(self.qual)
        node = fi.node
        params = [p.arg for p in node.args.args]
        a = {}
        pos = list(pos)
        if fi.kind in ("method", "property") and self_val is not None:
            pos = [self_val] + pos
        elif fi.kind == "classmethod":
            pos = [cls_val] + pos
        for p, v in zip(params, pos):
            a[p] = v
        a.update(kw)
        if fi.kind in ("method", "property") and self_val is not None:
            a["__self__"] = self_val
        nd = len(node.args.defaults)
        for i, p in enumerate(params):
            if p not in a:
                j = i - (len(params) - nd)
                if j < 0:
                    raise PyRaise("TypeError", f"missing argument {p}", interp.ctx.cur_line)
                a[p] = interp.eval(node.args.defaults[j], {"__module__": fi.module})
        return a

    def apply(self, interp, pos, kw, self_val=None, cls_val=None, constructing=False):
        ctx = interp.ctx
        s = S(ctx, interp, at_call_site=True)
        a = self.bind(interp, pos, kw, self_val, cls_val)
        # ill-formed inputs raise
        for label, g in self.raises_when(s, a):
            if g is False:
                continue
            if ctx.branch(T.tz(g) if not isinstance(g, bool) else g, f"{self.qual}:raises:{label}"):
                raise PyRaise("ContractRaise", f"{self.qual}: {label}", ctx.cur_line)
        for label, f in self.requires(s, a):
            ctx.oblige(f, f"{self.qual.split('.')[-1]}:{label}", kind="requires")
        ctx.trusted.add(f"contract:{self.qual}")
        return self.result(s, a)
