"""Symbolic NumPy: the assumed contracts of the NumPy primitives pyttb calls.

Every function here is either *definitional* (the result array is a closure
over the operands' element terms -- no assumption beyond NumPy's documented
element-wise semantics) or *axiomatised* (the result is a fresh uninterpreted
function constrained by axioms with Skolemised witnesses).  Each axiomatised
primitive registers its name in ``ctx.trusted`` so that the evidence lists
exactly which assumed contracts a proof rests on.  The executable counterparts
used to validate these axioms against the real NumPy live in
standin/npaxioms_check.py.

Row abstraction: integer matrices that take part in whole-row operations
(unique(axis=0), row membership, vstack, row gather) carry ``rowfn``: a closure
from a row number to a term of the uninterpreted sort ``Row``.  The intended
model of ``Row`` is "finite integer sequence": ``relem(r, q)`` is its q-th
entry, ``rlen(r)`` its length, ``rlt`` the lexicographic order.  Only facts true
in that model are asserted (extensionality instances, strict total order).
"""

from __future__ import annotations

import z3

from . import terms as T
from .ctx import Ctx, PathAbort, PyRaise
from .values import Arr, Opaque, Rec, SymList, cast_elem, join_dtype, z3sort

I = z3.IntSort()
Row = z3.DeclareSort("Row")
relem = z3.Function("relem", Row, I, I)
rlen = z3.Function("rlen", Row, I)
rlt = z3.Function("rlt", Row, Row, z3.BoolSort())
rdiff = z3.Function("rdiff", Row, Row, I)


def row_theory_axioms():
    """Facts about Row true in the model 'finite integer sequences, shortlex order'."""
    r, s, t = z3.Consts("r s t", Row)
    return [
        T.ForAll([r], z3.Not(rlt(r, r)), [rlt(r, r)]),
        T.ForAll(
            [r, s, t],
            z3.Implies(z3.And(rlt(r, s), rlt(s, t)), rlt(r, t)),
            [[rlt(r, s), rlt(s, t)]],
        ),
        T.ForAll(
            [r, s], z3.Or(r == s, rlt(r, s), rlt(s, r)), [rlt(r, s)]
        ),
        T.ForAll(
            [r, s], z3.Not(z3.And(rlt(r, s), rlt(s, r))), [rlt(r, s)]
        ),
        # extensionality, instantiated wherever a contract mentions rdiff(r, s)
        T.ForAll(
            [r, s],
            z3.Implies(
                z3.And(r != s, rlen(r) == rlen(s)),
                z3.And(0 <= rdiff(r, s), rdiff(r, s) < rlen(r), relem(r, rdiff(r, s)) != relem(s, rdiff(r, s))),
            ),
            [rdiff(r, s)],
        ),
    ]


def row_ext(r, s):
    """Ground extensionality instance for the pair (r, s)."""
    d = rdiff(r, s)
    return z3.Implies(
        z3.And(r != s, rlen(r) == rlen(s)),
        z3.And(0 <= d, d < rlen(r), relem(r, d) != relem(s, d)),
    )


# ------------------------------------------------------------------ basics


def is_arr(x):
    return isinstance(x, Arr)


def snap(a):
    """Immutable snapshot of an array value: closures built from it must not see later
    in-place writes to the original object (NumPy results are fresh copies)."""
    if not isinstance(a, Arr):
        return a
    b = Arr.__new__(Arr)
    b.__dict__.update(a.__dict__)
    hp = getattr(a, "heap", None)
    if hp is not None and not getattr(a, "_in_heap_write", False):
        # a view of a slot of a mutable list: freeze on the slot's current content
        heap, m = hp
        cur = heap.entry
        b.fn = lambda i, j, cur=cur, m=m: cur(m, i, j)
        b.heap = None
    return b


def nonneg(ctx, t):
    if T.is_sym(t):
        ctx.assume(t >= 0)


def size_of(ctx: Ctx, a: Arr):
    """a.size as a term.  Products of two symbolic extents are kept abstract
    (fresh symbol + the linear facts below) so no nonlinear term reaches the solver."""
    if a._size is not None:
        return a._size
    sym = [d for d in a.shape if T.is_sym(d)]
    conc = 1
    for d in a.shape:
        if not T.is_sym(d):
            conc *= d
    if not sym:
        a._size = conc
    elif len(sym) == 1:
        a._size = T.mul(conc, sym[0])
    else:
        s = T.fresh_int("size")
        ctx.assume(s >= 0)
        ctx.assume(T.Iff(s == 0, T.Or(*[T.eq(d, 0) for d in a.shape])))
        for k, d in enumerate(sym):
            others = [e for j, e in enumerate(sym) if j != k]
            ctx.assume(T.Implies(T.And(*[T.eq(e, 1) for e in others]), s == T.mul(conc, d)))
            ctx.assume(T.Implies(T.And(*[T.ge(e, 1) for e in others]), s >= T.mul(conc, d)))
        a._size = s
    return a._size


def norm_index(ctx: Ctx, i, n, what="index"):
    """Python/NumPy index normalisation with a bounds obligation."""
    i = T.as_num(i)
    if T.sort_of(i) != "int":
        raise PathAbort(f"non-integer {what}", ctx.cur_line)
    if isinstance(i, int) and isinstance(n, int):
        if not (-n <= i < n):
            raise PyRaise("IndexError", f"{what} {i} out of bounds for size {n}", ctx.cur_line)
        return i + n if i < 0 else i
    if isinstance(i, int):
        if i >= 0:
            ctx.oblige(T.lt(i, n), f"{what}-in-bounds", kind="index")
            return i
        ctx.oblige(T.le(-i, n), f"{what}-in-bounds", kind="index")
        return T.add(n, i)
    ctx.oblige(T.And(T.le(T.neg(n), i), T.lt(i, n)), f"{what}-in-bounds", kind="index")
    if ctx.implied(i >= 0):
        return i
    return T.Ite(i >= 0, i, i + T.tz(n))


def same_extent(ctx: Ctx, a, b) -> bool:
    if not T.is_sym(a) and not T.is_sym(b):
        return a == b
    if T.is_sym(a) and T.is_sym(b) and a.eq(b):
        return True
    return ctx.branch(T.eq(a, b), "extent-eq")


def broadcast(ctx: Ctx, shapes):
    """NumPy broadcasting over shapes with symbolic extents.  Returns the result
    shape and, per operand, a function mapping a result index to the operand index."""
    nd = max(len(s) for s in shapes) if shapes else 0
    padded = [(1,) * (nd - len(s)) + tuple(s) for s in shapes]
    out = []
    stretch = [[False] * nd for _ in shapes]
    for ax in range(nd):
        cur = None
        cur_k = None
        for k, s in enumerate(padded):
            d = s[ax]
            if isinstance(d, int) and d == 1:
                stretch[k][ax] = True
                continue
            if cur is None:
                cur, cur_k = d, k
                continue
            if same_extent(ctx, cur, d):
                continue
            # extents differ: legal only if one of them is 1
            if T.is_sym(d) and ctx.branch(T.eq(d, 1), "broadcast-1"):
                stretch[k][ax] = True
                continue
            if T.is_sym(cur) and ctx.branch(T.eq(cur, 1), "broadcast-1"):
                for kk in range(k):
                    if not (isinstance(padded[kk][ax], int) and padded[kk][ax] == 1):
                        stretch[kk][ax] = True
                cur, cur_k = d, k
                continue
            raise PyRaise("ValueError", "operands could not be broadcast together", ctx.cur_line)
        out.append(1 if cur is None else cur)
    maps = []
    for k, s in enumerate(shapes):
        off = nd - len(s)
        st = stretch[k]

        def m(idx, off=off, st=st, n=len(s)):
            return tuple(0 if st[off + j] else idx[off + j] for j in range(n))

        maps.append(m)
    return tuple(out), maps


def elementwise(ctx: Ctx, f, operands, dtype=None):
    """Apply scalar function f pointwise with broadcasting.  Scalars stay scalars."""
    if not any(is_arr(o) for o in operands):
        return f(*operands)
    operands = [snap(o) for o in operands]
    shapes = [o.shape if is_arr(o) else () for o in operands]
    shape, maps = broadcast(ctx, shapes)

    def fn(*idx):
        args = []
        for o, m in zip(operands, maps):
            args.append(o.fn(*m(idx)) if is_arr(o) else o)
        return f(*args)

    if dtype is None:
        # probe with fresh indices to learn the result sort
        probe = fn(*[0 if isinstance(d, int) else T.tz(0) for d in shape])
        dtype = T.sort_of(probe)
    return Arr(shape, fn, dtype)


def dtype_of(x):
    if is_arr(x):
        return x.dtype
    return T.sort_of(x)


# ------------------------------------------------------------------ creation


def np_array(ctx: Ctx, obj, dtype=None, ndmin=0, copy=True, order=None):
    if is_arr(obj):
        a = Arr(obj.shape, obj.fn if False else (lambda *i, o=obj, f=obj.fn: f(*i)), obj.dtype)
        a.rowfn = getattr(obj, "rowfn", None)
        if dtype is not None:
            a = astype(ctx, a, dtype)
        return _ndmin(a, ndmin)
    if T.is_scalar(obj):
        dt = dtype or T.sort_of(obj)
        v = cast_elem(obj, dt)
        return _ndmin(Arr((), lambda: v, dt), ndmin)
    if isinstance(obj, range):
        obj = list(obj)
    if type(obj).__name__ == "SymRange" and getattr(obj, "step", 1) == 1:
        lo, n_ = obj.lo, obj.length()
        a = Arr((n_,), lambda i, lo=lo: T.add(lo, i), "int")
        a.is_arange = (lo, T.add(lo, n_))
        a.sorted_strict = True
        a.distinct = True
        return _ndmin(a, ndmin)
    if isinstance(obj, (list, tuple)):
        if len(obj) == 0:
            return _ndmin(Arr((0,), lambda i: 0.0, dtype or "real"), ndmin)
        if all(T.is_scalar(e) for e in obj):
            a = Arr.from_list(list(obj), dtype)
            return _ndmin(a, ndmin)
        if all(isinstance(e, (list, tuple, range)) or is_arr(e) for e in obj):
            rows = [np_array(ctx, e, dtype) for e in obj]
            return stack_rows(ctx, rows)
    raise PathAbort(f"np.array of {type(obj).__name__}", ctx.cur_line)


def _ndmin(a: Arr, ndmin):
    if ndmin and a.ndim < ndmin:
        extra = ndmin - a.ndim
        b = Arr((1,) * extra + a.shape, lambda *i, f=a.fn, e=extra: f(*i[e:]), a.dtype)
        return b
    return a


def stack_rows(ctx: Ctx, rows):
    """np.array([row0, row1, ...]) for a concrete number of equally shaped arrays."""
    rows = [snap(r) for r in rows]
    shp = rows[0].shape
    for r in rows[1:]:
        if len(r.shape) != len(shp):
            raise PyRaise("ValueError", "inhomogeneous shape", ctx.cur_line)
        for d, e in zip(r.shape, shp):
            if not same_extent(ctx, d, e):
                raise PyRaise("ValueError", "inhomogeneous shape", ctx.cur_line)
    dt = rows[0].dtype
    for r in rows[1:]:
        dt = join_dtype(dt, r.dtype)

    def fn(k, *rest):
        if isinstance(k, int):
            return cast_elem(rows[k].fn(*rest), dt)
        v = cast_elem(rows[-1].fn(*rest), dt)
        for j in range(len(rows) - 2, -1, -1):
            v = T.Ite(T.eq(k, j), cast_elem(rows[j].fn(*rest), dt), v)
        return v

    return Arr((len(rows),) + shp, fn, dt)


def _shape_arg(ctx, shape):
    if T.is_scalar(shape):
        return (shape,)
    if isinstance(shape, (tuple, list)):
        out = []
        for s in shape:
            if is_arr(s) and s.ndim == 0:
                s = s.fn()
            out.append(s)
        return tuple(out)
    if is_arr(shape) and shape.ndim == 1 and shape.concrete_len() is not None:
        return tuple(shape.tolist())
    raise PathAbort("array shape with symbolic rank", ctx.cur_line)


def np_full(ctx, shape, value, dtype=None):
    shape = _shape_arg(ctx, shape)
    dt = dtype or T.sort_of(value)
    v = cast_elem(value, dt)
    for d in shape:
        if T.is_sym(d):
            ctx.raise_unless(d >= 0, "ValueError", "negative dimensions")
    return Arr(shape, lambda *i: v, dt)


def np_arange(ctx, *args, dtype=None):
    args = [a.fn() if is_arr(a) and a.ndim == 0 else a for a in args]
    if len(args) == 1:
        lo, hi, step = 0, args[0], 1
    elif len(args) == 2:
        lo, hi, step = args[0], args[1], 1
    else:
        lo, hi, step = args
    if step != 1 and not (isinstance(step, int)):
        raise PathAbort("arange with symbolic step", ctx.cur_line)
    if step == 1:
        n = T.smax(0, T.sub(hi, lo))
        if T.is_sym(n):
            n = z3.simplify(n)
        a = Arr((n,), lambda i: T.add(lo, i), "int")
        a.is_arange = (lo, hi)
        return a
    if step == -1:
        n = T.smax(0, T.sub(lo, hi))
        return Arr((n,), lambda i: T.sub(lo, i), "int")
    if all(isinstance(v, int) for v in (lo, hi, step)):
        return Arr.from_list(list(range(lo, hi, step)), "int")
    raise PathAbort("arange with non-unit step and symbolic bounds", ctx.cur_line)


# ------------------------------------------------------------------ casting


def parse_dtype(d):
    if d is None:
        return None
    if isinstance(d, str):
        return d if d in ("int", "real", "bool") else {"float": "real"}.get(d, None)
    if d is int:
        return "int"
    if d is float:
        return "real"
    if d is bool:
        return "bool"
    if isinstance(d, Opaque):
        return {"dtype:int": "int", "dtype:real": "real", "dtype:bool": "bool"}.get(d.what)
    nm = getattr(d, "name", None)
    if isinstance(nm, str):
        return {
            "int": "int", "float": "real", "bool": "bool", "np.int_": "int", "np.int64": "int",
            "np.float64": "real", "np.bool_": "bool", "np.integer": "int", "np.floating": "real",
        }.get(nm)
    return None


def astype(ctx: Ctx, a: Arr, dtype):
    dt = parse_dtype(dtype)
    if dt is None or dt == a.dtype:
        b = Arr(a.shape, lambda *i, f=a.fn: f(*i), a.dtype, a.kind)
        b.rowfn = getattr(a, "rowfn", None)
        if dt is None and dtype is not None:
            ctx.dropped.add("astype(<dtype of another array>) treated as value-preserving")
        return b
    if dt == "int" and a.dtype == "real":
        # astype(int) truncates toward zero (exact for finite values within int64 range)
        def trunc(v):
            v = T.as_real(v)
            if not T.is_sym(v):
                return int(v)
            return z3.If(v >= 0, z3.ToInt(v), -z3.ToInt(-v))

        return Arr(a.shape, lambda *i, f=a.fn: trunc(f(*i)), "int")
    return Arr(a.shape, lambda *i, f=a.fn: cast_elem(f(*i), dt), dt)


# ------------------------------------------------------------------ indexing


def _as_index_arr(ctx, k):
    if isinstance(k, (list, tuple)) and k and all(is_arr(e) for e in k):
        # a nested sequence of index arrays is itself an index array (one more leading axis)
        return stack_rows(ctx, list(k))
    if isinstance(k, (list, tuple)) and all(T.is_scalar(e) for e in k):
        return Arr.from_list(list(k), "int" if not all(isinstance(e, bool) for e in k) or not k else "bool")
    if isinstance(k, range):
        return Arr.from_list(list(k), "int")
    return k


def slice_bounds(ctx: Ctx, sl: slice, n):
    """(start, length, step) for a slice with step None/1/-1-concrete over extent n."""
    step = sl.step if sl.step is not None else 1
    if not isinstance(step, int):
        raise PathAbort("symbolic slice step", ctx.cur_line)
    if step == 1:
        lo, hi = sl.start, sl.stop
        if lo is None:
            start = 0
        else:
            lo = T.as_num(lo)
            lo = T.Ite(T.lt(lo, 0), T.add(lo, n), lo) if T.is_sym(lo) or lo < 0 else lo
            start = T.smin(T.smax(lo, 0), n)
        if hi is None:
            stop = n
        else:
            hi = T.as_num(hi)
            hi = T.Ite(T.lt(hi, 0), T.add(hi, n), hi) if T.is_sym(hi) or hi < 0 else hi
            stop = T.smin(T.smax(hi, 0), n)
        length = T.smax(0, T.sub(stop, start))
        if T.is_sym(length):
            length = z3.simplify(length)
        if T.is_sym(start):
            start = z3.simplify(start)
        return start, length, 1
    if isinstance(n, int) and all(v is None or isinstance(v, int) for v in (sl.start, sl.stop)):
        r = range(n)[sl]
        return r.start, len(r), r.step
    if step == -1 and sl.start is None and sl.stop is None:
        return T.sub(n, 1), n, -1
    raise PathAbort("slice with non-unit step over symbolic extent", ctx.cur_line)


def _one_array_tuple(k):
    """key element of the form (arr,) / [arr] with a 1-D integer array (what np.where / np.nonzero return): NumPy reads
    it as an index array of shape (1, K)."""
    return isinstance(k, (tuple, list)) and len(k) == 1 and is_arr(k[0]) and k[0].ndim == 1 and k[0].dtype == "int" and k[0].kind == "ndarray"


def getitem(ctx: Ctx, a: Arr, key):
    if isinstance(key, tuple):
        keys = list(key)
    else:
        keys = [key]
    if a.ndim == 2 and len(keys) == 2 and isinstance(keys[0], slice) and keys[0] == slice(None) and _one_array_tuple(keys[1]):
        # a[:, (idx,)]: shape (rows, 1, K), entry (i, 0, k) = a[i, idx[k]]
        r = snap(getitem(ctx, a, (slice(None), keys[1][0])))
        return Arr((r.shape[0], 1, r.shape[1]), lambda i, z, k, f=r.fn: f(i, k), a.dtype)
    keys = [_as_index_arr(ctx, k) for k in keys]
    # 0-d integer arrays act as scalars
    keys = [k.fn() if is_arr(k) and k.ndim == 0 and k.dtype != "bool" else k for k in keys]
    if any(k is Ellipsis for k in keys):
        pos = [i for i, k in enumerate(keys) if k is Ellipsis][0]
        n_real = sum(1 for k in keys if k is not None and k is not Ellipsis)
        keys = keys[:pos] + [slice(None)] * (a.ndim - n_real) + keys[pos + 1 :]
    n_real = sum(1 for k in keys if k is not None)
    if n_real > a.ndim:
        raise PyRaise("IndexError", "too many indices for array", ctx.cur_line)
    keys = keys + [slice(None)] * (a.ndim - n_real)

    fancy = [k for k in keys if is_arr(k)]
    # boolean mask over the leading axis / whole array
    if len(fancy) == 1 and fancy[0].dtype == "bool":
        m = fancy[0]
        pos = keys.index(m)
        if m.ndim == 1:
            ax = sum(1 for k in keys[:pos] if k is not None)
            if not same_extent(ctx, m.shape[0], a.shape[ax]):
                raise PyRaise("IndexError", "boolean index did not match", ctx.cur_line)
            K, sel, _ = select_true(ctx, m)
            idx = Arr((K,), lambda t: sel(t), "int")
            idx.in_range_of = a.shape[ax]
            keys[pos] = idx
            return _getitem_core(ctx, a, keys, checked={id(idx)})
        if m.ndim == a.ndim and len(keys) == 1 + 0 or (m.ndim == a.ndim and all(
            (k is m) or (isinstance(k, slice) and k == slice(None)) for k in keys
        )):
            raise PathAbort("boolean mask of full rank", ctx.cur_line)
        raise PathAbort("boolean mask indexing form", ctx.cur_line)
    return _getitem_core(ctx, a, keys)


def _getitem_core(ctx: Ctx, a: Arr, keys, checked=()):
    """keys: list aligned with a's axes except None entries (newaxis)."""
    orig = a
    a = snap(a)
    keys = [snap(k) for k in keys]
    fancy_pos = [i for i, k in enumerate(keys) if is_arr(k)]
    out_shape = []
    # plan: for each source axis how to compute its index from the result index
    plans = []  # per key: ('new',) | ('int', i) | ('slice', start, step, outpos) | ('fancy', arr)
    ax = 0
    fancy_shape = None
    fancy_maps = None
    if fancy_pos:
        shapes = [keys[i].shape for i in fancy_pos]
        fancy_shape, fancy_maps = broadcast(ctx, shapes)
        contiguous = fancy_pos == list(range(fancy_pos[0], fancy_pos[-1] + 1))
        # scalars between fancy indices also count as fancy in NumPy; we only accept the
        # contiguous case (result dims replace the fancy block in place) or all-leading.
        if not contiguous:
            raise PathAbort("non-contiguous advanced indices", ctx.cur_line)
    fancy_out_start = None
    for i, k in enumerate(keys):
        if k is None:
            plans.append(("new",))
            out_shape.append(1)
            continue
        n = a.shape[ax]
        if is_arr(k):
            if k.dtype == "real":
                raise PyRaise("IndexError", "arrays used as indices must be of integer type", ctx.cur_line)
            if fancy_out_start is None:
                fancy_out_start = len(out_shape)
                out_shape.extend(fancy_shape)
            if id(k) not in checked and not _known_in_range(k, n):
                fr = [T.fresh_int("t") for _ in k.shape]
                bounds = T.And(*[T.And(0 <= v, T.lt(v, d)) for v, d in zip(fr, k.shape)])
                e = k.fn(*fr)
                goal = T.ForAll(fr, T.Implies(bounds, T.And(T.le(T.neg(n), e), T.lt(e, n))))
                if getattr(ctx, "index_errors_raise", False):
                    # contract about rejections: an out-of-range index is NumPy's IndexError, not a proof obligation
                    ctx.raise_unless(goal, "IndexError", "index out of bounds")
                else:
                    ctx.oblige(goal, "fancy-index-in-bounds", kind="index")
            plans.append(("fancy", k, fancy_pos.index(i), n))
        elif isinstance(k, slice):
            start, length, step = slice_bounds(ctx, k, n)
            plans.append(("slice", start, step, len(out_shape)))
            out_shape.append(length)
        elif T.is_scalar(k):
            plans.append(("int", norm_index(ctx, k, n)))
        else:
            raise PathAbort(f"index of type {type(k).__name__}", ctx.cur_line)
        ax += 1
    nf = len(fancy_shape) if fancy_shape is not None else 0

    def src_of(idx):
        src = []
        for p in plans:
            if p[0] == "new":
                continue
            if p[0] == "int":
                src.append(p[1])
            elif p[0] == "slice":
                _, start, step, op = p
                j = idx[op]
                src.append(T.add(start, j) if step == 1 else T.add(start, T.mul(step, j)))
            else:
                _, k, which, n = p
                fidx = idx[fancy_out_start : fancy_out_start + nf]
                v = k.fn(*fancy_maps[which](fidx))
                if not _known_nonneg(k):
                    v = T.Ite(T.ge(v, 0), v, T.add(v, n))
                src.append(v)
        return src

    def fn(*idx):
        return a.fn(*src_of(idx))

    if not out_shape and not any(p[0] == "new" for p in plans):
        return fn()
    res = Arr(tuple(out_shape), fn, a.dtype)
    if not fancy_pos:
        res.base = orig
        orig.has_views = True
    if a.ndim == 1 and len(plans) == 1 and plans[0][0] == "slice" and plans[0][2] == 1:
        # contiguous piece of a vector: remembered so that its sum can be stated through the vector's prefix sums
        res.slice_of = (orig, orig.version, plans[0][1])
    # row bookkeeping: the last axis is kept whole => rows are rows of the source
    rf = getattr(a, "rowfn", None)
    last = plans[-1] if plans else None
    if (
        rf is not None
        and last is not None
        and last[0] == "slice"
        and last[2] == 1
        and isinstance(keys[-1], slice)
        and keys[-1] == slice(None)
        and len(out_shape) >= 1
    ):
        res.rowfn = lambda *lead: rf(*src_of(tuple(lead) + (0,))[:-1])
    return res


def _known_nonneg(k: Arr):
    return getattr(k, "in_range_of", None) is not None or getattr(k, "nonneg", False)


def _known_in_range(k: Arr, n):
    r = getattr(k, "in_range_of", None)
    if r is None:
        return False
    if T.is_sym(r) and T.is_sym(n):
        return r.eq(n)
    return (not T.is_sym(r)) and (not T.is_sym(n)) and r == n


def select_true(ctx: Ctx, m: Arr):
    """Ghost data of 'positions where a 1-D boolean array is true':
    K (count), sel: [0,K) -> positions strictly increasing, rk: position -> rank."""
    key = ("select_true", m.version)
    if key in m.ghost:
        return m.ghost[key]
    m = snap(m)
    n = m.shape[0]
    K = T.fresh_int("K")
    sel = T.fresh_fun("sel", I, I)
    rk = T.fresh_fun("rk", I, I)
    t, u, i = z3.Ints(f"{T.fresh_name('t')} {T.fresh_name('u')} {T.fresh_name('i')}")
    ctx.assume(z3.And(K >= 0, T.le(K, n)), trusted="numpy:boolean-selection(nonzero/where/mask)")
    ctx.assume(
        T.ForAll(
            [t],
            z3.Implies(
                z3.And(0 <= t, t < K),
                z3.And(0 <= sel(t), T.lt(sel(t), n), T.tz(m.fn(sel(t))), rk(sel(t)) == t),
            ),
            [sel(t)],
        )
    )
    ctx.assume(
        T.ForAll(
            [i],
            z3.Implies(
                z3.And(0 <= i, T.lt(i, n), T.tz(m.fn(i))),
                z3.And(0 <= rk(i), rk(i) < K, sel(rk(i)) == i),
            ),
            [rk(i)],
        )
    )
    ctx.assume(
        T.ForAll(
            [t, u],
            z3.Implies(z3.And(0 <= t, t < u, u < K), sel(t) < sel(u)),
            [[sel(t), sel(u)]],
        )
    )
    # counting (lemma L8, Skolemised; opt-in per contract, like ctx.row_hints): either every position is selected
    # (K = n, sel the identity) or some position is not
    wn = T.fresh_int("wsel")
    if getattr(ctx, "select_count_fact", False): ctx.assume(
        z3.Or(z3.And(K == T.tz(n), T.ForAll([t], z3.Implies(z3.And(0 <= t, t < K), sel(t) == t), [sel(t)])),
              z3.And(0 <= wn, T.lt(wn, n), z3.Not(T.tz(m.fn(wn))))),
        trusted="lemma:L8 pigeonhole (n distinct values in 0..n-1 are exactly 0..n-1; fewer unique rows than rows => a repeated row)",
    )
    m.ghost[key] = (K, sel, rk)
    ctx.log_ghost("select", (K, sel, rk))
    ctx.log_ghost("select@src", dict(mask=m, K=K, sel=sel, rk=rk))
    return m.ghost[key]


def select_ghost_of(ctx: Ctx, m: Arr):
    """(K, sel, rk) of the boolean array m (created on demand: purely definitional)."""
    return select_true(ctx, m)


def setitem(ctx: Ctx, a: Arr, key, value):
    """In-place write a[key] = value (replaces a.fn)."""
    if getattr(a, "symlist_elem", False):
        raise PathAbort("in-place write into an element of a symbolic-length list (not modelled)", ctx.cur_line)
    if getattr(a, "heap", None) is not None and not getattr(a, "_in_heap_write", False):
        # a view of a slot of a mutable list of matrices: the write becomes the slot's new content
        heap = a.heap[0]
        old = heap.begin_inplace(a)
        a._in_heap_write = True
        try:
            setitem(ctx, a, key, value)
        finally:
            a._in_heap_write = False
        heap.end_inplace(a, old)
        return
    if a.has_views or a.base is not None:
        # a write through / under a live view: the value model has no shared memory
        ctx.dropped.add("write to an array that has views: aliases not updated")
    from .values import SymList as _SymList
    if isinstance(key, _SymList) and isinstance(key.length, int) and key.length == a.ndim:
        key = tuple(key.item(m) for m in range(key.length))  # tuple(subs.transpose()): one index vector per axis
    if isinstance(key, tuple):
        keys = list(key)
    else:
        keys = [key]
    if a.ndim == 2 and len(keys) == 2 and isinstance(keys[0], slice) and keys[0] == slice(None) and _one_array_tuple(keys[1]) \
            and is_arr(value) and value.ndim == 3 and isinstance(value.shape[1], int) and value.shape[1] == 1:
        # a[:, (idx,)] = v with v of shape (rows, 1, K): column idx[k] receives v[:, 0, k]
        v = snap(value)
        return setitem(ctx, a, (slice(None), keys[1][0]), Arr((v.shape[0], v.shape[2]), lambda i, k, f=v.fn: f(i, 0, k), v.dtype))
    keys = [snap(_as_index_arr(ctx, k)) for k in keys]
    value = snap(value)
    keys = [k.fn() if is_arr(k) and k.ndim == 0 and k.dtype != "bool" else k for k in keys]
    if any(k is None or k is Ellipsis for k in keys):
        raise PathAbort("newaxis/ellipsis in assignment target", ctx.cur_line)
    if len(keys) > a.ndim:
        raise PyRaise("IndexError", "too many indices for array", ctx.cur_line)
    keys = keys + [slice(None)] * (a.ndim - len(keys))
    old = a.fn
    dt = a.dtype
    fancy = [k for k in keys if is_arr(k)]
    a.version += 1
    if hasattr(a, "rowfn"):
        a.rowfn = None

    if not fancy:
        # rectangular region of ints and unit-step slices
        conds_of = []
        val_index = []
        vshape = []
        for ax, k in enumerate(keys):
            n = a.shape[ax]
            if isinstance(k, slice):
                start, length, step = slice_bounds(ctx, k, n)
                if step != 1:
                    raise PathAbort("assignment through non-unit-step slice", ctx.cur_line)
                conds_of.append(("slice", start, length))
                vshape.append(length)
            elif T.is_scalar(k):
                conds_of.append(("int", norm_index(ctx, k, n)))
            else:
                raise PathAbort("assignment index form", ctx.cur_line)
        if is_arr(value):
            shape, maps = broadcast(ctx, [tuple(vshape), value.shape])
            # value must broadcast *to* the region: result shape must equal region shape
            if len(shape) != len(vshape):
                raise PyRaise("ValueError", "could not broadcast input array", ctx.cur_line)
            for d, e in zip(shape, vshape):
                if not same_extent(ctx, d, e):
                    raise PyRaise("ValueError", "could not broadcast input array", ctx.cur_line)
            vmap = maps[1]

        def fn(*idx):
            cs = []
            rel = []
            for j, c in zip(idx, conds_of):
                if c[0] == "int":
                    cs.append(T.eq(j, c[1]))
                else:
                    cs.append(T.And(T.le(c[1], j), T.lt(j, T.add(c[1], c[2]))))
                    rel.append(T.sub(j, c[1]))
            if is_arr(value):
                v = value.fn(*vmap(tuple(rel)))
            else:
                v = value
            return T.Ite(T.And(*cs), cast_elem(v, dt), old(*idx))

        a.fn = fn
        return

    if len(fancy) == 1 and fancy[0].dtype == "bool" and fancy[0].ndim == 1 and keys[0] is fancy[0]:
        m = fancy[0]
        if not same_extent(ctx, m.shape[0], a.shape[0]):
            raise PyRaise("IndexError", "boolean index did not match", ctx.cur_line)
        if all(isinstance(k, slice) and k == slice(None) for k in keys[1:]):
            if not is_arr(value):
                a.fn = lambda *idx: T.Ite(T.tz(m.fn(idx[0])), cast_elem(value, dt), old(*idx))
                return
            K, sel, rk = select_true(ctx, m)
            # value has leading extent K (or broadcasts from 1)
            if value.ndim == a.ndim:
                lead = value.shape[0]
                if isinstance(lead, int) and lead == 1:
                    vfn = lambda r, *rest: value.fn(0, *rest)
                else:
                    ctx.raise_unless(T.eq(lead, K), "ValueError", "shape mismatch in masked assignment")
                    vfn = lambda r, *rest: value.fn(r, *rest)
                a.fn = lambda *idx: T.Ite(
                    T.tz(m.fn(idx[0])), cast_elem(vfn(rk(T.tz(idx[0])), *idx[1:]), dt), old(*idx)
                )
                return
        raise PathAbort("masked assignment form", ctx.cur_line)

    if len(fancy) == 1 and fancy[0].ndim == 1 and keys[0] is fancy[0] and all(
        isinstance(k, slice) and k == slice(None) for k in keys[1:]
    ):
        k = fancy[0]
        n = a.shape[0]
        if not _known_in_range(k, n):
            t = T.fresh_int("t")
            e = k.fn(t)
            ctx.oblige(
                T.ForAll([t], T.Implies(T.And(0 <= t, T.lt(t, k.shape[0])), T.And(T.le(T.neg(n), e), T.lt(e, n)))),
                "scatter-index-in-bounds",
                kind="index",
            )
        nn = _known_nonneg(k)
        kf = (lambda t: k.fn(t)) if nn else (lambda t: T.Ite(T.ge(k.fn(t), 0), k.fn(t), T.add(k.fn(t), n)))
        L = k.shape[0]
        has = T.fresh_fun("hit", I, z3.BoolSort())
        last = T.fresh_fun("last", I, I)
        t = T.fresh_int("t")
        i = T.fresh_int("i")
        ctx.assume(
            T.ForAll(
                [t],
                z3.Implies(z3.And(0 <= t, T.lt(t, L)), z3.And(has(T.tz(kf(t))), last(T.tz(kf(t))) >= t)),
                [kf(t)] if T.is_sym(kf(t)) and not z3.is_var(kf(t)) else None,
            ),
            trusted="numpy:fancy-assignment(last write wins)",
        )
        ctx.assume(
            T.ForAll(
                [i],
                z3.Implies(has(i), z3.And(0 <= last(i), T.lt(last(i), L), T.tz(kf(last(i))) == i)),
                [has(i)],
            )
        )
        if is_arr(value):
            if value.ndim == 0:
                vfn = lambda r, *rest: value.fn()
            else:
                lead = value.shape[0]
                if isinstance(lead, int) and lead == 1 and not (isinstance(L, int) and L == 1):
                    vfn = lambda r, *rest: value.fn(0, *rest[: value.ndim - 1])
                else:
                    ctx.raise_unless(T.eq(lead, L), "ValueError", "shape mismatch in fancy assignment")
                    vfn = lambda r, *rest: value.fn(r, *rest[: value.ndim - 1])
        else:
            vfn = lambda r, *rest: value
        a.fn = lambda *idx: T.Ite(
            has(T.tz(idx[0])), cast_elem(vfn(last(T.tz(idx[0])), *idx[1:]), dt), old(*idx)
        )
        return
    if (a.ndim == 2 and len(keys) == 2 and isinstance(keys[0], slice) and keys[0] == slice(None) and is_arr(keys[1])
            and keys[1].ndim == 1 and keys[1].dtype != "bool"):
        # column scatter a[:, k] = value  (last write wins, as for the row scatter above)
        k = keys[1]
        n = a.shape[1]
        if not _known_in_range(k, n):
            t = T.fresh_int("t")
            e = k.fn(t)
            ctx.oblige(
                T.ForAll([t], T.Implies(T.And(0 <= t, T.lt(t, k.shape[0])), T.And(T.le(T.neg(n), e), T.lt(e, n)))),
                "scatter-index-in-bounds",
                kind="index",
            )
        nn = _known_nonneg(k)
        kf = (lambda t: k.fn(t)) if nn else (lambda t: T.Ite(T.ge(k.fn(t), 0), k.fn(t), T.add(k.fn(t), n)))
        L = k.shape[0]
        has = T.fresh_fun("hit", I, z3.BoolSort())
        last = T.fresh_fun("last", I, I)
        t = T.fresh_int("t")
        i = T.fresh_int("i")
        ctx.assume(
            T.ForAll(
                [t],
                z3.Implies(z3.And(0 <= t, T.lt(t, L)), z3.And(has(T.tz(kf(t))), last(T.tz(kf(t))) >= t)),
                [kf(t)] if T.is_sym(kf(t)) and not z3.is_var(kf(t)) else None,
            ),
            trusted="numpy:fancy-assignment(last write wins)",
        )
        ctx.assume(
            T.ForAll(
                [i],
                z3.Implies(has(i), z3.And(0 <= last(i), T.lt(last(i), L), T.tz(kf(last(i))) == i)),
                [has(i)],
            )
        )
        if is_arr(value):
            if value.ndim != 2:
                raise PathAbort("column scatter with a non-matrix value", ctx.cur_line)
            ctx.raise_unless(T.And(T.eq(value.shape[0], a.shape[0]), T.eq(value.shape[1], L)), "ValueError", "shape mismatch in fancy assignment")
            vfn = lambda r, c: value.fn(r, c)
        else:
            vfn = lambda r, c: value
        a.fn = lambda r, c: T.Ite(has(T.tz(c)), cast_elem(vfn(r, last(T.tz(c))), dt), old(r, c))
        ctx.log_ghost("colscatter", (has, last))
        return
    if a.ndim == 2 and len(keys) == 2 and all(is_arr(k) and k.ndim == 1 and k.dtype == "int" for k in keys):
        # pairwise scatter a[rows, cols] = value: entry (rows[t], cols[t]) receives value[t] (last write wins)
        kr, kc = keys
        L = kr.shape[0]
        ctx.raise_unless(T.eq(kc.shape[0], L), "IndexError", "shape mismatch: indexing arrays could not be broadcast together")
        t = T.fresh_int("t")
        for k_, n_ in ((kr, a.shape[0]), (kc, a.shape[1])):
            if not _known_in_range(k_, n_):
                e = k_.fn(t)
                ctx.oblige(T.ForAll([t], T.Implies(T.And(0 <= t, T.lt(t, L)), T.And(T.le(T.neg(n_), e), T.lt(e, n_)))), "scatter-index-in-bounds", kind="index")
        nz = lambda k_, n_: ((lambda u: T.tz(k_.fn(u))) if _known_nonneg(k_) else (lambda u: z3.If(T.tz(k_.fn(u)) >= 0, T.tz(k_.fn(u)), T.tz(k_.fn(u)) + T.tz(n_))))
        fr, fc = nz(kr, a.shape[0]), nz(kc, a.shape[1])
        has = T.fresh_fun("hit2", I, I, z3.BoolSort())
        last = T.fresh_fun("last2", I, I, I)
        i, j = T.fresh_int("i"), T.fresh_int("j")
        ctx.assume(T.ForAll([t], z3.Implies(z3.And(0 <= t, T.lt(t, L)), z3.And(has(fr(t), fc(t)), last(fr(t), fc(t)) >= t)), [[fr(t), fc(t)]] if not _known_nonneg(kr) else None),
                   trusted="numpy:fancy-assignment(last write wins)")
        ctx.assume(T.ForAll([i, j], z3.Implies(has(i, j), z3.And(0 <= last(i, j), T.lt(last(i, j), L), fr(last(i, j)) == i, fc(last(i, j)) == j)), [has(i, j)]))
        if is_arr(value):
            if value.ndim != 1:
                raise PathAbort("pairwise scatter with a non-vector value", ctx.cur_line)
            if not (isinstance(value.shape[0], int) and value.shape[0] == 1):
                ctx.raise_unless(T.eq(value.shape[0], L), "ValueError", "shape mismatch in fancy assignment")
                vfn = lambda u: value.fn(u)
            else:
                vfn = lambda u: value.fn(0)
        else:
            vfn = lambda u: value
        a.fn = lambda r, c: T.Ite(has(T.tz(r), T.tz(c)), cast_elem(vfn(last(T.tz(r), T.tz(c))), dt), old(r, c))
        ctx.log_ghost("pairscatter", (has, last))
        return
    if (a.ndim == 2 and len(keys) == 2 and isinstance(keys[0], slice) and keys[0] == slice(None) and is_arr(keys[1])
            and keys[1].ndim == 1 and keys[1].dtype == "bool"):
        # column mask a[:, m] = value: the selected columns, in ascending order, receive the columns of the value
        m = keys[1]
        if not same_extent(ctx, m.shape[0], a.shape[1]):
            raise PyRaise("IndexError", "boolean index did not match", ctx.cur_line)
        if not is_arr(value):
            a.fn = lambda r, c: T.Ite(T.tz(m.fn(c)), cast_elem(value, dt), old(r, c))
            return
        if value.ndim != 2:
            raise PathAbort("column mask assignment with a non-matrix value", ctx.cur_line)
        K, sel, rk = select_true(ctx, m)
        ctx.raise_unless(T.And(T.eq(value.shape[0], a.shape[0]), T.eq(value.shape[1], K)), "ValueError", "shape mismatch in masked assignment")
        a.fn = lambda r, c: T.Ite(T.tz(m.fn(c)), cast_elem(value.fn(r, rk(T.tz(c))), dt), old(r, c))
        return
    raise PathAbort("advanced assignment form", ctx.cur_line)


# ------------------------------------------------------------------ reductions


def _axis_norm(ctx, axis, nd):
    if axis is None:
        return None
    if not isinstance(axis, int):
        raise PathAbort("symbolic axis", ctx.cur_line)
    if axis < 0:
        axis += nd
    if not 0 <= axis < nd:
        raise PyRaise("AxisError", "axis out of bounds", ctx.cur_line)
    return axis


def np_all(ctx: Ctx, a, axis=None):
    if not is_arr(a):
        return T.truthy(a)
    a = snap(a)
    axis = _axis_norm(ctx, axis, a.ndim)
    if axis is None:
        if a.ndim == 0:
            return T.truthy(a.fn())
        qs = [T.fresh_int("q") for _ in a.shape]
        body = T.truthy(a.fn(*qs))
        rng = T.And(*[T.And(0 <= q, T.lt(q, d)) for q, d in zip(qs, a.shape)])
        return T.ForAll(qs, T.Implies(rng, body))
    # row equality shortcut (see module docstring)
    eqops = getattr(a, "eq_operands", None)
    if eqops is not None and axis == a.ndim - 1:
        ra, rb = eqops
        if ra is not None and rb is not None:
            shape = a.shape[:axis]
            return Arr(shape, lambda *idx: ra(idx) == rb(idx), "bool")
    shape = a.shape[:axis] + a.shape[axis + 1 :]
    n = a.shape[axis]

    def fn(*idx):
        q = T.fresh_int("q")
        full = idx[:axis] + (q,) + idx[axis:]
        return T.ForAll([q], T.Implies(T.And(0 <= q, T.lt(q, n)), T.truthy(a.fn(*full))))

    return Arr(shape, fn, "bool")


def np_any(ctx: Ctx, a, axis=None):
    if not is_arr(a):
        return T.truthy(a)
    a = snap(a)
    axis = _axis_norm(ctx, axis, a.ndim)
    if axis is None:
        if a.ndim == 0:
            return T.truthy(a.fn())
        qs = [T.fresh_int("q") for _ in a.shape]
        body = T.truthy(a.fn(*qs))
        rng = T.And(*[T.And(0 <= q, T.lt(q, d)) for q, d in zip(qs, a.shape)])
        return T.Exists(qs, T.And(rng, body))
    shape = a.shape[:axis] + a.shape[axis + 1 :]
    n = a.shape[axis]

    def fn(*idx):
        q = T.fresh_int("q")
        full = idx[:axis] + (q,) + idx[axis:]
        return T.Exists([q], T.And(0 <= q, T.lt(q, n), T.truthy(a.fn(*full))))

    return Arr(shape, fn, "bool")


def np_extreme(ctx: Ctx, a: Arr, axis=None, which="max"):
    """max/min with witness (argmax/argmin).  Empty reduction raises ValueError."""
    axis = _axis_norm(ctx, axis, a.ndim)
    cmp = T.le if which == "max" else T.ge
    if axis is None:
        if a.ndim == 0:
            return a.fn()
        if a.ndim != 1:
            raise PathAbort("max/min over a whole n-d array", ctx.cur_line)
        axis = 0
    n = a.shape[axis]
    ctx.raise_unless(T.gt(n, 0), "ValueError", "zero-size array to reduction operation")
    shape = a.shape[:axis] + a.shape[axis + 1 :]
    k = len(shape)
    mfun = T.fresh_fun(which, *([I] * k), z3sort(a.dtype)) if k else None
    wfun = T.fresh_fun("arg" + which, *([I] * k), I) if k else None
    if k == 0:
        m = z3.Const(T.fresh_name(which), z3sort(a.dtype))
        w = T.fresh_int("arg" + which)
        q = T.fresh_int("q")
        ctx.assume(
            z3.And(0 <= w, T.lt(w, n), T.tz(a.fn(w)) == m), trusted=f"numpy:{which}"
        )
        ctx.assume(T.ForAll([q], z3.Implies(z3.And(0 <= q, T.lt(q, n)), cmp(a.fn(q), m))))
        return m
    js = [T.fresh_int("j") for _ in range(k)]
    q = T.fresh_int("q")
    rng = T.And(*[T.And(0 <= j, T.lt(j, d)) for j, d in zip(js, shape)])
    full_w = js[:axis] + [wfun(*js)] + js[axis:]
    full_q = js[:axis] + [q] + js[axis:]
    ctx.assume(
        T.ForAll(
            js,
            T.Implies(rng, T.And(0 <= wfun(*js), T.lt(wfun(*js), n), T.eq(a.fn(*full_w), mfun(*js)))),
            [mfun(*js)],
        ),
        trusted=f"numpy:{which}(axis)",
    )
    ctx.assume(
        T.ForAll(
            js + [q],
            T.Implies(T.And(rng, 0 <= q, T.lt(q, n)), cmp(a.fn(*full_q), mfun(*js))),
            [[mfun(*js), a.fn(*full_q)]] if T.is_sym(a.fn(*full_q)) and z3.is_app(a.fn(*full_q)) and a.fn(*full_q).decl().kind() == z3.Z3_OP_UNINTERPRETED else None,
        )
    )
    res = Arr(shape, lambda *idx: mfun(*[T.tz(v) for v in idx]), a.dtype)
    res.witness = wfun
    return res


def np_sum(ctx: Ctx, a, axis=None):
    if not is_arr(a):
        return a
    axis = _axis_norm(ctx, axis, a.ndim)
    if a.dtype == "bool" or getattr(a, "zero_one", False):
        if axis is None and a.ndim == 1:
            s = T.fresh_int("count")
            n = a.shape[0]
            w = T.fresh_int("w")
            q = T.fresh_int("q")
            tr = lambda v: T.truthy(v)
            ctx.assume(z3.And(s >= 0, T.le(s, n)), trusted="numpy:sum(boolean)=count")
            ctx.assume(z3.Implies(s > 0, z3.And(0 <= w, T.lt(w, n), T.tz(tr(a.fn(w))))))
            ctx.assume(T.ForAll([q], z3.Implies(z3.And(0 <= q, T.lt(q, n), T.tz(tr(a.fn(q)))), s > 0)))
            ctx.assume(
                z3.Implies(s == T.tz(n), T.ForAll([q], z3.Implies(z3.And(0 <= q, T.lt(q, n)), T.tz(tr(a.fn(q))))))
            )
            return s
        if axis is not None and a.ndim == 2:
            other = a.shape[1 - axis]
            n = a.shape[axis]
            cnt = T.fresh_fun("count", I, I)
            wit = T.fresh_fun("cw", I, I)
            j, q = T.fresh_int("j"), T.fresh_int("q")
            at = (lambda q, j: a.fn(q, j)) if axis == 0 else (lambda q, j: a.fn(j, q))
            ctx.assume(
                T.ForAll(
                    [j],
                    z3.Implies(
                        z3.And(0 <= j, T.lt(j, other)),
                        z3.And(
                            cnt(j) >= 0,
                            T.le(cnt(j), n),
                            z3.Implies(cnt(j) > 0, z3.And(0 <= wit(j), T.lt(wit(j), n), T.tz(T.truthy(at(wit(j), j))))),
                        ),
                    ),
                    [cnt(j)],
                ),
                trusted="numpy:sum(boolean,axis)=count",
            )
            ctx.assume(
                T.ForAll(
                    [j, q],
                    z3.Implies(
                        z3.And(0 <= j, T.lt(j, other), 0 <= q, T.lt(q, n), T.tz(T.truthy(at(q, j)))), cnt(j) > 0
                    ),
                )
            )
            return Arr((other,), lambda jj: cnt(T.tz(jj)), "int")
    if axis is None and a.ndim == 1 and a.dtype == "int" and getattr(ctx, "prefix_sums", False):
        so = getattr(a, "slice_of", None)
        if so is not None and so[0].version == so[1] and so[0].dtype == "int":
            # sum of the piece [start, start + len) of a vector = difference of that vector's prefix sums (telescoping)
            ps = prefix_sum_fn(ctx, so[0])
            ctx.trusted.add("lemma: the sum of a contiguous piece of a sequence is the difference of two of its prefix sums (telescoping)")
            return ps(T.tz(T.add(so[2], a.shape[0]))) - ps(T.tz(so[2]))
        return prefix_sum_fn(ctx, a)(T.tz(a.shape[0]))
    # general sums are outside the linear fragment: the value is left unconstrained
    ctx.dropped.add("np.sum over numeric values: result unconstrained (havoc)")
    if axis is None:
        return z3.Const(T.fresh_name("sum"), z3sort("real" if a.dtype != "int" else "int"))
    shape = a.shape[:axis] + a.shape[axis + 1 :]
    return Arr.fresh("sum", shape, a.dtype if a.dtype != "bool" else "int")


def prefix_sum_fn(ctx: Ctx, a: Arr):
    """Opt-in per contract: the prefix-sum function of an integer sequence, DEFINED by ps(0) = 0, ps(k + 1) = ps(k) + a[k]
    (a specification-level definition, not an assumption about NumPy); one function per array value."""
    while getattr(a, "value_of", None) is not None and a.version == 0 and a.value_of[0].version == a.value_of[1]:
        a = a.value_of[0]  # tuple(x) / list(x) of an unchanged sequence: the same values, the same function
    key = ("psum", a.version)
    if key in a.ghost:
        return a.ghost[key]
    a_s = snap(a)
    n = a_s.shape[0]
    ps = T.fresh_fun("psum", I, I)
    k = T.fresh_int("k")
    ctx.assume(ps(0) == 0)
    ctx.assume(T.ForAll([k], z3.Implies(z3.And(0 <= k, T.lt(k, n)), ps(k + 1) == ps(k) + T.tz(a_s.fn(k))), [ps(k + 1)]))
    # lemma L9 (by induction on k, assumed): prefix sums of non-negative numbers are non-negative and monotone.
    # Skolemised: either some entry is negative, or the two facts hold
    w, j = T.fresh_int("wneg"), T.fresh_int("j")
    ctx.assume(
        z3.Or(z3.And(0 <= w, T.lt(w, n), T.tz(a_s.fn(w)) < 0),
              z3.And(T.ForAll([k], z3.Implies(z3.And(0 <= k, T.le(k, n)), ps(k) >= 0), [ps(k)]),
                     T.ForAll([j, k], z3.Implies(z3.And(0 <= j, j <= k, T.le(k, n)), ps(j) <= ps(k)), [[ps(j), ps(k)]]))),
        trusted="lemma:L9 prefix sums of non-negative integers are non-negative and monotone (induction, assumed)")
    ctx.log_ghost("sum", dict(ps=ps, src=a_s, n=n))
    a.ghost[key] = ps
    return ps


# ------------------------------------------------------------------ shape ops


def transpose(ctx: Ctx, a: Arr, axes=None):
    if a.ndim <= 1:
        return a
    if axes is None and a.ndim == 2 and getattr(a, "transpose_of", None) is not None:
        return a.transpose_of
    if axes is None:
        perm = list(range(a.ndim))[::-1]
    else:
        if is_arr(axes):
            axes = axes.tolist()
        perm = list(axes)
        if not all(isinstance(p, int) for p in perm):
            raise PathAbort("transpose with symbolic axes", ctx.cur_line)
        if sorted(perm) != list(range(a.ndim)):
            raise PyRaise("ValueError", "axes don't match array", ctx.cur_line)
    shape = tuple(a.shape[p] for p in perm)

    def fn(*idx, f=a.fn):
        src = [None] * len(perm)
        for o, p in enumerate(perm):
            src[p] = idx[o]
        return f(*src)

    b = Arr(shape, fn, a.dtype, base=a)
    a.has_views = True
    if axes is None and a.ndim == 2:
        b.transpose_of = a
    return b


def squeeze(ctx: Ctx, a: Arr, axis=None):
    """Drop unit axes.  An axis with a symbolic extent forks on 'extent == 1'."""
    keep = []
    for ax, d in enumerate(a.shape):
        if axis is not None and ax != _axis_norm(ctx, axis, a.ndim):
            keep.append(ax)
            continue
        if isinstance(d, int):
            if d != 1:
                if axis is not None:
                    raise PyRaise("ValueError", "cannot select an axis to squeeze out which has size not equal to one", ctx.cur_line)
                keep.append(ax)
        else:
            if not ctx.branch(T.eq(d, 1), "squeeze-unit"):
                if axis is not None:
                    raise PyRaise("ValueError", "cannot select an axis to squeeze out which has size not equal to one", ctx.cur_line)
                keep.append(ax)
    shape = tuple(a.shape[ax] for ax in keep)

    def fn(*idx, f=a.fn):
        src = [0] * a.ndim
        for o, ax in enumerate(keep):
            src[ax] = idx[o]
        return f(*src)

    b = Arr(shape, fn, a.dtype, base=a)
    return b


def expand_dims(ctx, a, axis):
    if not is_arr(a):
        a = np_array(ctx, a)
    axis = axis if axis >= 0 else axis + a.ndim + 1
    shape = a.shape[:axis] + (1,) + a.shape[axis:]
    return Arr(shape, lambda *idx, f=a.fn: f(*(idx[:axis] + idx[axis + 1 :])), a.dtype, base=a)


def concat(ctx: Ctx, parts, axis=0):
    """np.concatenate / vstack / hstack over a concrete list of arrays."""
    parts = [snap(p) if is_arr(p) else np_array(ctx, p) for p in parts]
    nd = parts[0].ndim
    for p in parts:
        if p.ndim != nd:
            raise PyRaise("ValueError", "all the input array dimensions must match", ctx.cur_line)
    axis = _axis_norm(ctx, axis, nd)
    for ax in range(nd):
        if ax == axis:
            continue
        for p in parts[1:]:
            if not same_extent(ctx, p.shape[ax], parts[0].shape[ax]):
                raise PyRaise("ValueError", "all the input array dimensions except for the concatenation axis must match exactly", ctx.cur_line)
    dt = parts[0].dtype
    for p in parts[1:]:
        dt = join_dtype(dt, p.dtype)
    # blocks with no entries along the axis contribute nothing
    nonempty = [p for p in parts if not (isinstance(p.shape[axis], int) and p.shape[axis] == 0)]
    if nonempty and len(nonempty) < len(parts):
        parts = nonempty
    offs = [0]
    for p in parts:
        offs.append(T.add(offs[-1], p.shape[axis]))
    shape = parts[0].shape[:axis] + (offs[-1],) + parts[0].shape[axis + 1 :]

    def pick(j, getter):
        v = getter(len(parts) - 1, T.sub(j, offs[len(parts) - 1]))
        for k in range(len(parts) - 2, -1, -1):
            v_k = getter(k, T.sub(j, offs[k]))
            c = T.lt(j, offs[k + 1])
            v = v_k if c is True else (v if c is False else _ite_any(c, v_k, v))
        return v

    def fn(*idx):
        j = idx[axis]
        return pick(j, lambda k, jj: cast_elem(parts[k].fn(*(idx[:axis] + (jj,) + idx[axis + 1 :])), dt))

    res = Arr(shape, fn, dt)
    if nd == 1 and dt == "int" and len(parts) >= 2 and any(T.is_sym(p.shape[0]) for p in parts):
        # 1-D concatenation of symbolic-length integer arrays (mode lists): a named function, defined by the
        # piecewise expression and, redundantly, read from each part (so that mentioning part_k[j] makes the
        # term cat(off_k + j) available to the solver)
        cat = T.fresh_fun("cat", I, I)
        ii = T.fresh_int("i")
        ctx.assume(T.ForAll([ii], z3.Implies(z3.And(0 <= ii, T.lt(ii, offs[-1])), cat(ii) == T.tz(fn(ii))), [cat(ii)]))
        for k_, p_ in enumerate(parts):
            jj = T.fresh_int("j")
            pj = p_.fn(jj)
            if T.is_sym(pj) and _is_uf_app(pj):
                ctx.assume(T.ForAll([jj], z3.Implies(z3.And(0 <= jj, T.lt(jj, p_.shape[0])), cat(T.tz(T.add(offs[k_], jj))) == T.tz(pj)), [pj]))
        res = Arr(shape, lambda i: cat(T.tz(i)), dt)
    if axis == 0 and nd == 2 and all(getattr(p, "rowfn", None) is not None for p in parts):
        res.rowfn = lambda t: pick(t, lambda k, jj: parts[k].rowfn(jj))
    res.concat_of = (parts, offs, axis)
    return res


def _ite_any(c, a, b):
    if isinstance(a, z3.ExprRef) and a.sort() == Row or isinstance(b, z3.ExprRef) and b.sort() == Row:
        return z3.If(c, a, b)
    return T.Ite(c, a, b)


def atleast_2d_rows(ctx, a):
    """vstack's promotion of 1-D arrays to (1, n)."""
    if a.ndim == 1:
        return Arr((1,) + a.shape, lambda i, j, f=a.fn: f(j), a.dtype)
    if a.ndim == 0:
        return Arr((1, 1), lambda i, j, f=a.fn: f(), a.dtype)
    return a


# ------------------------------------------------------------------ rows


def ensure_rows(ctx: Ctx, a: Arr):
    """Give a 2-D integer array row keys.  Definitional: a fresh function rk with
    rlen(rk(i)) = ncols and relem(rk(i), q) = a[i, q] names rows that exist in the
    intended model of Row."""
    rf = getattr(a, "rowfn", None)
    if rf is not None:
        return rf
    if a.ndim != 2:
        raise PathAbort("row operation on a non-matrix", ctx.cur_line)
    rk = T.fresh_fun("rowof", I, Row)
    i, q = T.fresh_int("i"), T.fresh_int("q")
    n, c = a.shape
    ctx.assume(
        T.ForAll([i], z3.Implies(z3.And(0 <= i, T.lt(i, n)), rlen(rk(i)) == T.tz(c)), [rk(i)])
    )
    ctx.assume(
        T.ForAll(
            [i, q],
            z3.Implies(
                z3.And(0 <= i, T.lt(i, n), 0 <= q, T.lt(q, c)),
                relem(rk(i), q) == T.tz(cast_elem(a.fn(i, q), "int")),
            ),
            [relem(rk(i), q)],
        )
    )
    a.rowfn = lambda t: rk(T.tz(t))
    return a.rowfn


def fresh_row_matrix(name, n, c, dtype="int"):
    """Input matrix given by its rows: A[i, q] = relem(rowof_A(i), q)."""
    rk = z3.Function(T.fresh_name(name + "_row"), I, Row)
    a = Arr((n, c), lambda i, q: relem(rk(T.tz(i)), T.tz(q)), dtype, name=name)
    a.rowfn = lambda t: rk(T.tz(t))
    a.rowsym = rk
    return a


def row_matrix_wf(a: Arr):
    """rlen of every row equals the column count (holds for any real matrix)."""
    n, c = a.shape
    i = T.fresh_int("i")
    rf = a.rowfn
    return T.ForAll([i], T.Implies(T.And(0 <= i, T.lt(i, n)), rlen(rf(i)) == T.tz(c)), [rf(i)])


def np_unique_rows(ctx: Ctx, a: Arr, return_index=False, return_inverse=False):
    """np.unique(a, axis=0, ...).  Result rows are a's rows at the first-occurrence
    positions idx, listed in increasing (lexicographic) row order."""
    rf = ensure_rows(ctx, a)
    a = snap(a)
    n, c = a.shape
    m = T.fresh_int("m")
    idx = T.fresh_fun("uidx", I, I)
    inv = T.fresh_fun("uinv", I, I)
    t, u, k = T.fresh_int("t"), T.fresh_int("u"), T.fresh_int("k")
    tag = "numpy:unique(axis=0)"
    ctx.assume(z3.And(m >= 0, T.le(m, n), z3.Implies(T.gt(n, 0), m >= 1)), trusted=tag)
    ctx.assume(
        T.ForAll(
            [t],
            z3.Implies(z3.And(0 <= t, t < m), z3.And(0 <= idx(t), T.lt(idx(t), n), inv(idx(t)) == t)),
            [idx(t)],
        )
    )
    # strictly increasing rows => pairwise distinct
    ctx.assume(
        T.ForAll(
            [t, u],
            z3.Implies(z3.And(0 <= t, t < u, u < m), rlt(rf(idx(t)), rf(idx(u)))),
            [[idx(t), idx(u)]],
        )
    )
    # every row occurs; inv is the inverse map; idx picks the first occurrence
    ctx.assume(
        T.ForAll(
            [k],
            z3.Implies(
                z3.And(0 <= k, T.lt(k, n)),
                z3.And(0 <= inv(k), inv(k) < m, rf(idx(inv(k))) == rf(k), idx(inv(k)) <= k),
            ),
            [inv(k)],
        )
    )
    for ax in row_theory_axioms():
        ctx.assume(ax)
    # pigeonhole (lemma L8): fewer unique rows than rows means two equal rows exist
    d1, d2 = T.fresh_int("dup1"), T.fresh_int("dup2")
    ctx.assume(
        z3.Or(m == T.tz(n), z3.And(0 <= d1, d1 < d2, T.lt(d2, n), rf(d1) == rf(d2))),
        trusted="lemma:L8 pigeonhole (n distinct values in 0..n-1 are exactly 0..n-1; fewer unique rows than rows => a repeated row)",
    )
    uniq = Arr((m, c), lambda i, q: a.fn(idx(T.tz(i)), q), a.dtype)
    uniq.rowfn = lambda t_: rf(idx(T.tz(t_)))
    uniq.rows_sorted_distinct = True
    out = [uniq]
    if return_index:
        ia = Arr((m,), lambda i: idx(T.tz(i)), "int")
        ia.in_range_of = n
        ia.distinct = True
        out.append(ia)
    if return_inverse:
        iv = Arr((n,), lambda i: inv(T.tz(i)), "int")
        iv.in_range_of = m
        out.append(iv)
    uniq.ghost["unique"] = (m, idx, inv)
    ctx.log_ghost("unique", (m, idx, inv))
    # the same ghost, addressable by the matrix it was computed from (contracts should not depend on call order)
    ctx.log_ghost("unique@src", dict(rowfn=rf, ghost=(m, idx, inv), idx_arr=out[1] if return_index else None))
    return out[0] if len(out) == 1 else tuple(out)


def np_argsort(ctx: Ctx, a: Arr):
    """argsort of a 1-D integer array: a permutation p with a[p] non-decreasing
    (ties in original order), and its inverse as ghost."""
    if a.ndim != 1:
        raise PathAbort("argsort of a non-vector", ctx.cur_line)
    ckey = ("argsort", a.version)
    if ckey in a.ghost:
        return a.ghost[ckey]
    a0 = a
    a = snap(a)
    n = a.shape[0]
    if getattr(a, "is_arange", None) is not None or getattr(a, "sorted_strict", False):
        # stable argsort of a strictly increasing vector is the identity permutation
        ctx.trusted.add("numpy:argsort")
        r = Arr((n,), lambda i: i, "int")
        r.in_range_of = n
        r.distinct = True
        r.sorted_strict = True
        r.ghost["perm"] = (lambda t: t, lambda t: t)
        ctx.log_ghost("argsort", (lambda t: t, lambda t: t))
        ctx.log_ghost("argsort@src", dict(src=a0, ghost=(lambda t: t, lambda t: t)))
        return r
    p = T.fresh_fun("asort", I, I)
    pinv = T.fresh_fun("asortinv", I, I)
    t, u = T.fresh_int("t"), T.fresh_int("u")
    tag = "numpy:argsort"
    ctx.assume(
        T.ForAll(
            [t],
            z3.Implies(z3.And(0 <= t, T.lt(t, n)), z3.And(0 <= p(t), T.lt(p(t), n), pinv(p(t)) == t)),
            [p(t)],
        ),
        trusted=tag,
    )
    ctx.assume(
        T.ForAll(
            [t],
            z3.Implies(z3.And(0 <= t, T.lt(t, n)), z3.And(0 <= pinv(t), T.lt(pinv(t), n), p(pinv(t)) == t)),
            [pinv(t)],
        )
    )
    ctx.assume(
        T.ForAll(
            [t, u],
            z3.Implies(
                z3.And(0 <= t, t < u, T.lt(u, n)),
                z3.Or(
                    T.tz(T.lt(a.fn(p(t)), a.fn(p(u)))),
                    z3.And(T.tz(T.eq(a.fn(p(t)), a.fn(p(u)))), p(t) < p(u)),
                ),
            ),
            [[p(t), p(u)]],
        )
    )
    if a.dtype == "int" and not (getattr(a, "in_range_of", None) is not None and getattr(a, "distinct", False)):
        # pigeonhole (lemma L8), Skolemised: either the sorted values are 0..n-1, or some value is
        # outside 0..n-1, or two values coincide
        w1, w2, w3 = T.fresh_int("w"), T.fresh_int("w"), T.fresh_int("w")
        ctx.assume(
            z3.Or(
                T.ForAll([t], z3.Implies(z3.And(0 <= t, T.lt(t, n)), T.tz(a.fn(p(t))) == t), [p(t)]),
                z3.And(0 <= w1, T.lt(w1, n), z3.Or(T.tz(a.fn(w1)) < 0, T.tz(T.ge(a.fn(w1), n)))),
                z3.And(0 <= w2, w2 < w3, T.lt(w3, n), T.tz(a.fn(w2)) == T.tz(a.fn(w3))),
            ),
            trusted="lemma:L8 pigeonhole (n distinct values in 0..n-1 are exactly 0..n-1; fewer unique rows than rows => a repeated row)",
        )
    rng_ = getattr(a, "in_range_of", None)
    if rng_ is not None and getattr(a, "distinct", False):
        # pigeonhole (lemma L8): n distinct values from 0..n-1, sorted, are 0, 1, ..., n-1
        ctx.assume(
            z3.Implies(T.tz(T.eq(n, rng_)), T.ForAll([t], z3.Implies(z3.And(0 <= t, T.lt(t, n)), T.tz(a.fn(p(t))) == t), [p(t)])),
            trusted="lemma:L8 pigeonhole (n distinct values in 0..n-1 are exactly 0..n-1; fewer unique rows than rows => a repeated row)",
        )
    r = Arr((n,), lambda i: p(T.tz(i)), "int")
    r.in_range_of = n
    r.distinct = True
    r.ghost["perm"] = (p, pinv)
    ctx.log_ghost("argsort", (p, pinv))
    ctx.log_ghost("argsort@src", dict(src=a0, ghost=(p, pinv)))
    a0.ghost[ckey] = r
    return r


def np_sort(ctx: Ctx, a: Arr):
    pa = snap(np_argsort(ctx, a))
    a = snap(a)
    perm = pa.ghost.get("perm")
    if perm is None or a.dtype not in ("int", "real"):
        return Arr(a.shape, lambda i: a.fn(pa.fn(i)), a.dtype)
    p, pinv = perm
    n = a.shape[0]
    # the sorted sequence as a named function, with the (redundant) reading of every element of `a`
    # as the sorted value at its rank: a[q] = sorted[pinv(q)]  (follows from p(pinv(q)) = q)
    srt = T.fresh_fun("sorted", I, z3sort(a.dtype))
    t = T.fresh_int("t")
    ctx.assume(T.ForAll([t], z3.Implies(z3.And(0 <= t, T.lt(t, n)), srt(t) == T.tz(a.fn(p(t)))), [srt(t)]))
    ctx.assume(T.ForAll([t], z3.Implies(z3.And(0 <= t, T.lt(t, n)), T.tz(a.fn(t)) == srt(pinv(t))), [pinv(t)]))
    return Arr(a.shape, lambda i: srt(T.tz(i)), a.dtype)


_ARR_IR = z3.ArraySort(I, z3.RealSort())
NRM = z3.Function("NRM", _ARR_IR, I, I, z3.RealSort())


def vector_norm_spec(entry, length, ordv):
    """NRM applied to the vector (entry(0), ..., entry(length-1)): the norm is a function of the entries, the length
    and the norm type only.  Vectors are passed as arrays that are 0 outside 0..length-1 (so that equal vectors are
    equal arrays; z3 decides that by extensionality)."""
    i = z3.Int("nrm!i")
    A = z3.Lambda([i], z3.If(z3.And(0 <= i, i < T.tz(length)), T.tz(T.as_real(entry(i))), z3.RealVal(0)))
    return NRM(A, T.tz(length), T.tz(ordv))


def np_vector_norm(ctx: Ctx, v: Arr, ordv=None):
    """np.linalg.norm of a vector (ord None / 2 / 1 / any int): an uninterpreted function of the entries with the norm
    facts that hold for every p-norm: non-negative, zero exactly for the zero vector.  (Homogeneity and the triangle
    inequality are not stated.)"""
    if v.ndim == 2 and ordv is None:
        # Frobenius norm of a matrix: a fresh value with the two norm facts
        v = snap(v)
        t = T.fresh_real("fro")
        i, j, wi, wj = T.fresh_int("ni"), T.fresh_int("nj"), T.fresh_int("nwi"), T.fresh_int("nwj")
        inr = lambda a_, b_: z3.And(0 <= a_, T.lt(a_, v.shape[0]), 0 <= b_, T.lt(b_, v.shape[1]))
        ctx.assume(t >= 0, trusted="numpy:linalg.norm(matrix) >= 0; = 0 iff the matrix is zero")
        ctx.assume(z3.Implies(t == 0, T.ForAll([i, j], z3.Implies(inr(i, j), T.tz(T.as_real(v.fn(i, j))) == 0))))
        ctx.assume(z3.Or(t == 0, z3.And(inr(wi, wj), T.tz(T.as_real(v.fn(wi, wj))) != 0)))
        return t
    if v.ndim != 1:
        raise PathAbort("np.linalg.norm of a non-vector", ctx.cur_line)
    if ordv is None:
        ordv = 2
    if not (isinstance(ordv, int) or (T.is_sym(ordv) and T.sort_of(ordv) == "int")):
        raise PathAbort("np.linalg.norm with a non-integer ord", ctx.cur_line)
    v = snap(v)
    n = v.shape[0]
    t = vector_norm_spec(v.fn, n, ordv)
    tag = "numpy:linalg.norm(vector) = uninterpreted function of the entries; >= 0; = 0 iff the vector is zero"
    ctx.assume(t >= 0, trusted=tag)
    i = T.fresh_int("ni")
    w = T.fresh_int("nw")
    ctx.assume(z3.Implies(t == 0, T.ForAll([i], z3.Implies(z3.And(0 <= i, T.lt(i, n)), T.tz(T.as_real(v.fn(i))) == 0), [v.fn(i)])))
    ctx.assume(z3.Or(t == 0, z3.And(0 <= w, T.lt(w, n), T.tz(T.as_real(v.fn(w))) != 0)))
    ctx.log_ghost("norm", dict(value=t, src=v, ord=ordv))
    return t


def isin_fn(ctx: Ctx, b: Arr):
    """Membership in the 1-D array b as a predicate with a witness position."""
    key = ("isin", b.version)
    if key in b.ghost:
        return b.ghost[key]
    mem = T.fresh_fun("mem", I, z3.BoolSort())
    wit = T.fresh_fun("memw", I, I)
    n = b.shape[0]
    v, q = T.fresh_int("v"), T.fresh_int("q")
    ctx.assume(
        T.ForAll(
            [v],
            z3.Implies(mem(v), z3.And(0 <= wit(v), T.lt(wit(v), n), T.tz(b.fn(wit(v))) == v)),
            [mem(v)],
        ),
        trusted="numpy:isin/setdiff1d(membership)",
    )
    bq = b.fn(q)
    ctx.assume(
        T.ForAll(
            [q],
            z3.Implies(z3.And(0 <= q, T.lt(q, n)), mem(T.tz(bq))),
            [bq] if (T.is_sym(bq) and z3.is_app(bq) and bq.decl().kind() == z3.Z3_OP_UNINTERPRETED) else [mem(T.tz(bq))],
        )
    )
    b.ghost[key] = (mem, wit)
    ctx.log_ghost("isin", (mem, wit))
    return b.ghost[key]


def np_isin(ctx: Ctx, a, b):
    if not is_arr(b):
        if T.is_scalar(b):
            return elementwise(ctx, lambda x: T.eq(x, b), [a], "bool")
        b = np_array(ctx, b)
    if b.ndim != 1:
        b = flatten(ctx, b)
    ar = getattr(b, "is_arange", None)
    if ar is not None:
        lo, hi = ar
        f = lambda x: T.And(T.le(lo, x), T.lt(x, hi))
    else:
        mem, _ = isin_fn(ctx, b)
        f = lambda x: mem(T.tz(x))
    if not is_arr(a):
        return f(a)
    a = snap(a)
    return Arr(a.shape, lambda *i: f(a.fn(*i)), "bool")


def np_setdiff1d(ctx: Ctx, a, b):
    """Sorted unique values of a not in b."""
    a = a if is_arr(a) else np_array(ctx, a)
    b = b if is_arr(b) else np_array(ctx, b)
    if a.ndim != 1:
        a = flatten(ctx, a)
    if b.ndim != 1:
        b = flatten(ctx, b)
    if isinstance(a.shape[0], int) and a.shape[0] == 0:
        return Arr((0,), lambda i: 0, a.dtype)
    a = snap(a)
    inb = snap(np_isin(ctx, a, b))  # bool array over a
    n = a.shape[0]
    m = T.fresh_int("m")
    pos = T.fresh_fun("sdpos", I, I)  # result slot -> position in a
    slot = T.fresh_fun("sdslot", I, I)  # position in a -> result slot
    t, u, k = T.fresh_int("t"), T.fresh_int("u"), T.fresh_int("k")
    tag = "numpy:setdiff1d"
    ctx.assume(z3.And(m >= 0, T.le(m, n)), trusted=tag)
    ctx.assume(
        T.ForAll(
            [t],
            z3.Implies(
                z3.And(0 <= t, t < m),
                z3.And(0 <= pos(t), T.lt(pos(t), n), z3.Not(T.tz(inb.fn(pos(t))))),
            ),
            [pos(t)],
        )
    )
    ctx.assume(
        T.ForAll(
            [t, u],
            z3.Implies(z3.And(0 <= t, t < u, u < m), T.tz(T.lt(a.fn(pos(t)), a.fn(pos(u))))),
            [[pos(t), pos(u)]],
        )
    )
    ctx.assume(
        T.ForAll(
            [k],
            z3.Implies(
                z3.And(0 <= k, T.lt(k, n), z3.Not(T.tz(inb.fn(k)))),
                z3.And(0 <= slot(k), slot(k) < m, T.tz(T.eq(a.fn(pos(slot(k))), a.fn(k)))),
            ),
            [slot(k)],
        )
    )
    r = Arr((m,), lambda i: a.fn(pos(T.tz(i))), a.dtype)
    r.ghost["setdiff"] = (m, pos, slot)
    ctx.log_ghost("setdiff1d", (m, pos, slot))
    r.sorted_strict = True
    return r


def flatten(ctx: Ctx, a: Arr, order="C"):
    if a.ndim == 1:
        return Arr(a.shape, lambda i, f=a.fn: f(i), a.dtype)
    if a.ndim == 0:
        return Arr((1,), lambda i, f=a.fn: f(), a.dtype)
    if a.ndim == 2:
        r, c = a.shape
        if isinstance(r, int) and r == 1:
            return Arr((c,), lambda i, f=a.fn: f(0, i), a.dtype)
        if isinstance(c, int) and c == 1:
            return Arr((r,), lambda i, f=a.fn: f(i, 0), a.dtype)
        if isinstance(c, int) and order == "C":
            return Arr((T.mul(r, c),), lambda i, f=a.fn: f(T.floordiv(i, c), T.mod(i, c)), a.dtype)
        if isinstance(r, int) and order == "F":
            return Arr((T.mul(r, c),), lambda i, f=a.fn: f(T.mod(i, r), T.floordiv(i, r)), a.dtype)
    raise PathAbort("flatten/ravel of an array with two symbolic extents", ctx.cur_line)


def np_nonzero(ctx: Ctx, a: Arr):
    """Tuple of index arrays of the non-zero entries, row-major order."""
    if a.ndim == 1:
        a_s = snap(a)
        m = a if a.dtype == "bool" else Arr(a.shape, lambda i: T.truthy(a_s.fn(i)), "bool")
        if a.dtype != "bool":
            key = ("truthmask", a.version)
            m = a.ghost.setdefault(key, m)
        K, sel, _ = select_true(ctx, m)
        r = Arr((K,), lambda t: sel(T.tz(t)), "int")
        r.in_range_of = a.shape[0]
        r.sorted_strict = True
        r.distinct = True
        return (r,)
    if a.ndim == 2:
        p, mcols = a.shape
        K = T.fresh_int("K")
        ri = T.fresh_fun("nzr", I, I)
        ci = T.fresh_fun("nzc", I, I)
        pos = T.fresh_fun("nzpos", I, I, I)
        t, u, i, j = T.fresh_int("t"), T.fresh_int("u"), T.fresh_int("i"), T.fresh_int("j")
        tag = "numpy:nonzero(2-D)"
        ctx.assume(K >= 0, trusted=tag)
        ctx.assume(
            T.ForAll(
                [t],
                z3.Implies(
                    z3.And(0 <= t, t < K),
                    z3.And(
                        0 <= ri(t), T.lt(ri(t), p), 0 <= ci(t), T.lt(ci(t), mcols),
                        T.tz(T.truthy(a.fn(ri(t), ci(t)))), pos(ri(t), ci(t)) == t,
                    ),
                ),
                [ri(t)],
            )
        )
        ctx.assume(
            T.ForAll(
                [t, u],
                z3.Implies(
                    z3.And(0 <= t, t < u, u < K),
                    z3.Or(ri(t) < ri(u), z3.And(ri(t) == ri(u), ci(t) < ci(u))),
                ),
                [[ri(t), ri(u)]],
            )
        )
        ctx.assume(
            T.ForAll(
                [i, j],
                z3.Implies(
                    z3.And(0 <= i, T.lt(i, p), 0 <= j, T.lt(j, mcols), T.tz(T.truthy(a.fn(i, j)))),
                    z3.And(0 <= pos(i, j), pos(i, j) < K, ri(pos(i, j)) == i, ci(pos(i, j)) == j),
                ),
                [pos(i, j)],
            )
        )
        r = Arr((K,), lambda t_: ri(T.tz(t_)), "int")
        c = Arr((K,), lambda t_: ci(T.tz(t_)), "int")
        r.in_range_of = p
        c.in_range_of = mcols
        r.ghost["nonzero2"] = c.ghost["nonzero2"] = (K, ri, ci, pos)
        ctx.log_ghost("nonzero2", (K, ri, ci, pos))
        return (r, c)
    raise PathAbort("nonzero of rank > 2", ctx.cur_line)


# ------------------------------------------------------------------ mixed radix (lemma L1)

RAVELF = z3.Function("RAVEL_F", Row, Row, I)  # (shape, subscript row) -> linear index
RAVELC = z3.Function("RAVEL_C", Row, Row, I)
UNRAVELF = z3.Function("UNRAVEL_F", Row, I, Row)
UNRAVELC = z3.Function("UNRAVEL_C", Row, I, Row)
PRODR = z3.Function("PROD_R", Row, I)  # product of the entries of a row
INRNG = z3.Function("inrange", Row, Row, z3.BoolSort())  # 0 <= r[m] < s[m] for all m, equal length
inr_w = z3.Function("inrange_wit", Row, Row, I)


def mixed_radix_axioms():
    """Lemma L1 (trusted, validated exhaustively on small shapes by the axiom self-check):
    for every shape s, RAVEL_x(s, .) and UNRAVEL_x(s, .) are mutually inverse bijections
    between the in-range subscript rows of s and 0 .. prod(s)-1."""
    s, r = z3.Consts("s r", Row)
    l, m = z3.Ints("l m")
    ax = []
    for RAV, UNR in ((RAVELF, UNRAVELF), (RAVELC, UNRAVELC)):
        ax.append(
            T.ForAll(
                [s, r],
                z3.Implies(
                    INRNG(s, r),
                    z3.And(0 <= RAV(s, r), RAV(s, r) < PRODR(s), UNR(s, RAV(s, r)) == r),
                ),
                [RAV(s, r)],
            )
        )
        ax.append(
            T.ForAll(
                [s, l],
                z3.Implies(
                    z3.And(0 <= l, l < PRODR(s)),
                    z3.And(INRNG(s, UNR(s, l)), RAV(s, UNR(s, l)) == l, rlen(UNR(s, l)) == rlen(s)),
                ),
                [UNR(s, l)],
            )
        )
    # definition of inrange, both directions (Skolem witness for the negative one)
    ax.append(
        T.ForAll(
            [s, r, m],
            z3.Implies(
                z3.And(INRNG(s, r), 0 <= m, m < rlen(s)),
                z3.And(0 <= relem(r, m), relem(r, m) < relem(s, m)),
            ),
            [[INRNG(s, r), relem(r, m)]],
        )
    )
    ax.append(T.ForAll([s, r], z3.Implies(INRNG(s, r), rlen(r) == rlen(s)), [INRNG(s, r)]))
    w = inr_w(s, r)
    ax.append(
        T.ForAll(
            [s, r],
            z3.Implies(
                z3.And(z3.Not(INRNG(s, r)), rlen(r) == rlen(s)),
                z3.And(0 <= w, w < rlen(s), z3.Or(relem(r, w) < 0, relem(r, w) >= relem(s, w))),
            ),
            [INRNG(s, r)],
        )
    )
    return ax


prod_w = z3.Function("prod_wit", Row, I)


def prod_axioms():
    """PROD_R of a row with positive entries is positive (witness for the contrapositive)."""
    s = z3.Const("s", Row)
    w = prod_w(s)
    return [
        T.ForAll(
            [s],
            z3.Or(PRODR(s) >= 1, z3.And(0 <= w, w < rlen(s), relem(s, w) <= 0)),
            [PRODR(s)],
        ),
    ]


def empty_product_axiom():
    """PROD_R of the empty row is 1 (opt-in: only contracts that meet empty mode lists assume it)."""
    s = z3.Const("s", Row)
    return T.ForAll([s], z3.Implies(rlen(s) == 0, PRODR(s) == 1), [PRODR(s)])


def seq_as_row(ctx: Ctx, seq):
    """Reify a shape-like sequence (tuple of terms / 1-D Arr) as a Row term.  Cached by the
    identity of the array object or, for Python tuples, by the terms themselves."""
    cache = ctx.__dict__.setdefault("_row_cache", {})
    if isinstance(seq, Arr):
        if "as_row" in seq.ghost:
            return seq.ghost["as_row"]
        n = seq.shape[0]
        at = seq.fn
        holder = seq
        key = None
    else:
        seq = tuple(seq)
        n = len(seq)
        at = None
        holder = None
        key = tuple(v.get_id() if T.is_sym(v) else ("c", v) for v in seq)
        if key in cache:
            return cache[key]
    r = z3.Const(T.fresh_name("shape_row"), Row)
    ctx.assume(rlen(r) == T.tz(n))
    if at is None:
        for m, v in enumerate(seq):
            ctx.assume(relem(r, m) == T.tz(v))
        sym = [v for v in seq if T.is_sym(v)]
        if len(sym) <= 1:
            p = 1
            for v in seq:
                p = T.mul(p, v)
            ctx.assume(PRODR(r) == T.tz(p))
        cache[key] = r
    else:
        q = T.fresh_int("q")
        ctx.assume(
            T.ForAll([q], z3.Implies(z3.And(0 <= q, T.lt(q, n)), relem(r, q) == T.tz(at(q))), [relem(r, q)])
        )
    for ax in prod_axioms():
        ctx.assume(ax, trusted="lemma:product of positive extents is positive")
    if holder is not None:
        holder.ghost["as_row"] = r
    # ground extensionality instances against the shape rows built so far: two shape rows that agree
    # element-wise are the same row (so their PROD_R / RAVEL / UNRAVEL agree)
    if getattr(ctx, "row_hints", False):  # opt-in (contracts whose preconditions mention spec-level shape rows)
        for p_ in list(ctx.ghosts.get("row", []))[-8:]:
            ctx.assume(row_ext(r, p_))
            ctx.assume(row_ext(p_, r))
    ctx.log_ghost("row", r)
    return r


def spec_row(ctx: Ctx, n, at, dtype="int"):
    """A specification-level Row with rlen = n and relem(., q) = at(q), together with ground
    extensionality instances against every shape row the executed body has built so far (so that
    the solver can identify it with the body's own row when they agree element-wise)."""
    prev = list(ctx.ghosts.get("row", []))
    r = seq_as_row(ctx, Arr((n,), at, dtype, "tuple"))
    for p in prev:
        ctx.assume(row_ext(r, p))
        ctx.assume(row_ext(p, r))
    return r


def ravel_multi_index(it, multi, shape, order="C"):
    ctx = it.ctx
    src = getattr(multi, "columns_of", None)
    if src is None:
        raise PathAbort("ravel_multi_index: argument is not tuple(subs.transpose())", ctx.cur_line)
    if order not in ("F", "C"):
        raise PathAbort("ravel_multi_index with symbolic order", ctx.cur_line)
    rf = ensure_rows(ctx, src)
    srow = seq_as_row(ctx, shape)
    n, c = src.shape
    ctx.raise_unless(T.eq(c, seq_len_any(shape)), "ValueError", "parameter multi_index must be a sequence of length len(dims)")
    k = T.fresh_int("k")
    ctx.raise_unless(
        T.ForAll([k], T.Implies(T.And(0 <= k, T.lt(k, n)), INRNG(srow, rf(k)))),
        "ValueError",
        "invalid entry in coordinates array",
    )
    for ax in mixed_radix_axioms():
        ctx.assume(ax, trusted="lemma:L1 mixed-radix RAVEL/UNRAVEL inverse bijections")
    RAV = RAVELF if order == "F" else RAVELC
    res = Arr((n,), lambda i: RAV(srow, rf(T.tz(i))), "int")
    res.ravel_of = (srow, src, order)
    return res


def seq_len_any(x):
    if isinstance(x, Arr):
        return x.shape[0]
    return len(x)


def unravel_index(it, idx, shape, order="C"):
    ctx = it.ctx
    if order not in ("F", "C"):
        raise PathAbort("unravel_index with symbolic order", ctx.cur_line)
    if not isinstance(idx, Arr):
        raise PathAbort("unravel_index of scalar", ctx.cur_line)
    if idx.ndim != 1:
        raise PathAbort("unravel_index of non-vector", ctx.cur_line)
    srow = seq_as_row(ctx, shape)
    idx = snap(idx)
    n = idx.shape[0]
    P = PRODR(srow)
    k = T.fresh_int("k")
    ctx.raise_unless(
        T.ForAll([k], T.Implies(T.And(0 <= k, T.lt(k, n)), T.And(T.le(0, idx.fn(k)), T.lt(idx.fn(k), P)))),
        "ValueError",
        "index is out of bounds for array with size",
    )
    for ax in mixed_radix_axioms():
        ctx.assume(ax, trusted="lemma:L1 mixed-radix RAVEL/UNRAVEL inverse bijections")
    UNR = UNRAVELF if order == "F" else UNRAVELC
    N_ = seq_len_any(shape)
    R = Arr((n, N_), lambda i, m: relem(UNR(srow, T.tz(idx.fn(i))), T.tz(m)), "int")
    R.rowfn = lambda i: UNR(srow, T.tz(idx.fn(i)))
    R.nonneg = True
    cols = SymList(N_, lambda m: Arr((n,), lambda i: R.fn(i, m), "int"), kind="tuple")
    cols.as_matrix_T = R
    return cols


def reshape(it, a: Arr, shape, order="C"):
    ctx = it.ctx
    shape = tuple(s.fn() if isinstance(s, Arr) and s.ndim == 0 else s for s in shape)
    sz = size_of(ctx, a)
    if len(shape) == 2 and a.ndim == 1:
        r, c = shape
        if isinstance(c, int) and c == 1:
            ctx.raise_unless(T.eq(r, sz) if not (isinstance(r, int) and r == -1) else True, "ValueError", "cannot reshape")
            return Arr((a.shape[0], 1), lambda i, j, f=a.fn: f(i), a.dtype, base=a)
        if isinstance(r, int) and r == 1:
            ctx.raise_unless(T.eq(c, sz) if not (isinstance(c, int) and c == -1) else True, "ValueError", "cannot reshape")
            return Arr((1, a.shape[0]), lambda i, j, f=a.fn: f(j), a.dtype, base=a)
    if len(shape) == 1:
        flat = flatten(ctx, a, order)
        (r,) = shape
        if not (isinstance(r, int) and r == -1):
            ctx.raise_unless(T.eq(r, sz), "ValueError", "cannot reshape")
        return flat
    if len(shape) == 2 and a.ndim == 2:
        r, c = shape
        a_r, a_c = a.shape
        if isinstance(c, int) and c == 1 and isinstance(a_c, int) and a_c == 1:
            ctx.raise_unless(T.eq(r, a_r), "ValueError", "cannot reshape")
            return Arr((a_r, 1), lambda i, j, f=a.fn: f(i, 0), a.dtype, base=a)
    if a.ndim == 1 and len(shape) == 2 and not any(isinstance(v, int) and v == -1 for v in shape) and order in ("C", "F"):
        # vector -> (r, c) matrix: column-major entry (i, j) = a[i + r*j], row-major a[i*c + j]
        r_, c_ = shape
        ctx.raise_unless(T.eq(T.mul(r_, c_), a.shape[0]), "ValueError", "cannot reshape array")
        ctx.trusted.add("numpy:reshape(vector -> matrix; C and F order)")
        src = snap(a)
        if order == "F":
            return Arr((r_, c_), lambda i, j, f=src.fn, r_=r_: f(T.add(i, T.mul(r_, j))), a.dtype)
        return Arr((r_, c_), lambda i, j, f=src.fn, c_=c_: f(T.add(T.mul(i, c_), j)), a.dtype)
    m1 = lambda v: isinstance(v, int) and v == -1
    one = lambda v: isinstance(v, int) and v == 1
    # --- the forms that keep the last axis and merge / insert leading axes (Khatri-Rao by broadcasting)
    if a.ndim in (2, 3) and len(shape) in (2, 3) and same_extent(ctx, shape[-1], a.shape[-1]) if not m1(shape[-1]) else False:
        R_ = a.shape[-1]
        src = a
        ctx.trusted.add("numpy:reshape(insert / merge leading axes, last axis kept; C and F order)")
        if any(m1(v) for v in shape):
            # numpy cannot infer the -1 extent of an array without columns
            ctx.raise_unless(T.ge(R_, 1), "ValueError", "cannot reshape array of size 0 into a shape with -1")
        if a.ndim == 2 and len(shape) == 3 and m1(shape[0]) and one(shape[1]) and order == "C":
            # (I, R) -> (I, 1, R), row-major: entry (i, 0, r) is (i, r)
            return Arr((a.shape[0], 1, R_), lambda i, j, r, f=src.fn: f(i, r), a.dtype, base=a)
        if a.ndim == 2 and len(shape) == 3 and one(shape[0]) and m1(shape[1]):
            # (I, R) -> (1, I, R), either order (a leading singleton axis changes neither flattening)
            if order in ("C", "F"):
                return Arr((1, a.shape[0], R_), lambda z, q, r, f=src.fn: f(q, r), a.dtype, base=a)
        if a.ndim == 3 and len(shape) == 3 and one(shape[0]) and m1(shape[1]) and order == "F":
            # (A, B, R) -> (1, A*B, R), column-major: q = i + A*j
            A_, B_ = a.shape[0], a.shape[1]
            return Arr((1, T.mul(A_, B_), R_), lambda z, q, r, f=src.fn, A_=A_: f(T.tz(q) % T.tz(A_), T.tz(q) / T.tz(A_), r), a.dtype, base=a)
        if a.ndim == 3 and len(shape) == 2 and m1(shape[0]) and order == "F":
            A_, B_ = a.shape[0], a.shape[1]
            return Arr((T.mul(A_, B_), R_), lambda q, r, f=src.fn, A_=A_: f(T.tz(q) % T.tz(A_), T.tz(q) / T.tz(A_), r), a.dtype, base=a)
        if a.ndim == 3 and len(shape) == 3 and one(shape[0]) and m1(shape[1]) and order == "C":
            # row-major merge of the two leading axes: q = i*B + j
            A_, B_ = a.shape[0], a.shape[1]
            return Arr((1, T.mul(A_, B_), R_), lambda z, q, r, f=src.fn, B_=B_: f(T.tz(q) / T.tz(B_), T.tz(q) % T.tz(B_), r), a.dtype, base=a)
        if a.ndim == 3 and len(shape) == 2 and m1(shape[0]) and order == "C":
            A_, B_ = a.shape[0], a.shape[1]
            return Arr((T.mul(A_, B_), R_), lambda q, r, f=src.fn, B_=B_: f(T.tz(q) / T.tz(B_), T.tz(q) % T.tz(B_), r), a.dtype, base=a)
        if a.ndim == 2 and len(shape) == 2 and m1(shape[0]):
            return Arr((a.shape[0], R_), lambda q, r, f=src.fn: f(q, r), a.dtype, base=a)
    raise PathAbort("reshape form", ctx.cur_line)


def np_insert(it, *pos, **kw):
    raise PathAbort("np.insert", it.ctx.cur_line)


class SymBag:
    """The multiset of values of one aggregation group, as seen by a callable reducer: only
    its size is modelled (len(x)); any other use aborts the path."""

    def __init__(self, count):
        self.count = count


AGG = {}


def accumarray(it, group_idx, a, size=None, func="sum", **kw):
    """numpy_groupies.aggregate(group_idx, a, size=G, func=...).

    Result acc[g] for 0 <= g < G.  Assumed facts (true of every reducer over finite groups),
    Skolemised so that no nested quantifier reaches the solver:
      * cnt(g) = number of members; cnt(idx[k]) >= 1; cnt(g) >= 1 => mem1(g) is a member;
      * a group whose only member is k has cnt = 1 and acc = F1(a[k]), otherwise oth(k) is
        another member of k's group;
      * two members k1 < k2 of a group without a third member: cnt = 2 and acc = F2(a[k1], a[k2]),
        otherwise thr(k1, k2) is a third member;
      * an empty group has acc = fill value 0.
    F1/F2: sum -> x, x+y; max/min accordingly; a callable reducer is applied to a SymBag whose
    len() is cnt(g) (so count predicates such as `len(x) == 2` are decided)."""
    ctx = it.ctx
    if not is_arr(group_idx) or group_idx.ndim != 1:
        raise PathAbort("accumarray: group index must be a vector", ctx.cur_line)
    idx = snap(group_idx)
    n = idx.shape[0]
    if T.is_scalar(a):
        aval = lambda k: a
        adt = T.sort_of(a)
    else:
        a = snap(a)
        if a.ndim != 1:
            raise PathAbort("accumarray: values must be a vector", ctx.cur_line)
        ctx.raise_unless(T.eq(a.shape[0], n), "ValueError", "group_idx and a must be of the same length")
        aval = lambda k: a.fn(k)
        adt = a.dtype
    G = size
    if G is None:
        raise PathAbort("accumarray without size", ctx.cur_line)
    if not _known_in_range(idx, G):
        t = T.fresh_int("t")
        ctx.oblige(T.ForAll([t], z3.Implies(z3.And(0 <= t, T.lt(t, n)), z3.And(0 <= T.tz(idx.fn(t)), T.tz(T.lt(idx.fn(t), G))))),
                   "accumarray-group-index-in-range", kind="index")
    cnt = T.fresh_fun("gcnt", I, I)
    mem1 = T.fresh_fun("gmem", I, I)
    oth = T.fresh_fun("goth", I, I)
    thr = T.fresh_fun("gthr", I, I, I)
    from . import interp as _I
    kind = func if isinstance(func, str) else ("sum" if isinstance(func, _I.Builtin) and func.name == "sum" else
                                               ("max" if isinstance(func, _I.Builtin) and func.name == "max" else
                                                ("min" if isinstance(func, _I.Builtin) and func.name == "min" else "callable")))
    rdt = "real" if kind in ("sum", "max", "min") and adt != "int" else ("int" if kind in ("sum", "max", "min") else None)
    if kind == "callable":
        probe = it.call(func, [SymBag(T.fresh_int("c"))], {})
        rdt = T.sort_of(probe) if T.is_scalar(probe) else None
        if rdt is None:
            raise PathAbort("accumarray: reducer result is not a scalar", ctx.cur_line)
    acc = T.fresh_fun("acc", I, z3sort(rdt))
    g, k, k2 = T.fresh_int("g"), T.fresh_int("k"), T.fresh_int("k2")
    tag = "numpy_groupies:aggregate(group sums / counts for groups with 0, 1 or 2 members)"

    def F1(x):
        if kind in ("sum", "max", "min"):
            return cast_elem(x, rdt)
        return cast_elem(it.call(func, [SymBag(1)], {}), rdt)

    def F2(x, y):
        if kind == "sum":
            return T.add(cast_elem(x, rdt), cast_elem(y, rdt))
        if kind == "max":
            return T.smax(x, y)
        if kind == "min":
            return T.smin(x, y)
        return cast_elem(it.call(func, [SymBag(2)], {}), rdt)

    gk = lambda kk: T.tz(idx.fn(kk))
    ctx.assume(T.ForAll([g], z3.And(cnt(g) >= 0, z3.Implies(cnt(g) >= 1, z3.And(0 <= mem1(g), T.lt(mem1(g), n), gk(mem1(g)) == g))), [cnt(g)]), trusted=tag)
    ctx.assume(T.ForAll([k], z3.Implies(z3.And(0 <= k, T.lt(k, n)), cnt(gk(k)) >= 1), [gk(k)] if _is_uf_app(gk(k)) else None))
    ctx.assume(T.ForAll(
        [k], z3.Implies(z3.And(0 <= k, T.lt(k, n)),
                        z3.Or(z3.And(cnt(gk(k)) == 1, acc(gk(k)) == T.tz(F1(aval(k)))),
                              z3.And(0 <= oth(k), T.lt(oth(k), n), oth(k) != k, gk(oth(k)) == gk(k)))), [oth(k)]))
    ctx.assume(T.ForAll(
        [k, k2], z3.Implies(z3.And(0 <= k, k < k2, T.lt(k2, n), gk(k) == gk(k2)),
                            z3.Or(z3.And(cnt(gk(k)) == 2, acc(gk(k)) == T.tz(F2(aval(k), aval(k2)))),
                                  z3.And(0 <= thr(k, k2), T.lt(thr(k, k2), n), thr(k, k2) != k, thr(k, k2) != k2, gk(thr(k, k2)) == gk(k)))), [thr(k, k2)]))
    zero = cast_elem(0, rdt)
    ctx.assume(T.ForAll([g], z3.Implies(cnt(g) == 0, acc(g) == T.tz(zero)), [acc(g)]))
    if kind == "callable":
        # the reducer sees the whole group: its value is the reducer applied to a bag of that size
        ctx.assume(T.ForAll([g], z3.Implies(cnt(g) >= 1, acc(g) == T.tz(cast_elem(it.call(func, [SymBag(cnt(g))], {}), rdt))), [acc(g)]))
    res = Arr((G,), lambda gg: acc(T.tz(gg)), rdt)
    res.ghost["accum"] = (cnt, mem1, oth, thr, acc)
    ctx.log_ghost("accumarray", (cnt, mem1, oth, thr, acc))
    return res


def _is_uf_app(t):
    return T.is_sym(t) and z3.is_app(t) and t.num_args() > 0 and t.decl().kind() == z3.Z3_OP_UNINTERPRETED
