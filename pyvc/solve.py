"""Discharge obligations: z3 first, cvc5 for what z3 leaves unknown; process pool."""

from __future__ import annotations

import os
import subprocess
import tempfile
import time
from concurrent.futures import ProcessPoolExecutor, as_completed

import z3

z3.set_param("warning", False)


def to_smt2(hyps, goal) -> str:
    s = z3.Solver()
    for h in hyps:
        s.add(h)
    s.add(z3.Not(goal))
    return s.to_smt2()


def _solve_z3(smt: str, timeout_ms: int, seed: int = 0):
    t0 = time.time()
    ctx = z3.Context()
    s = z3.Solver(ctx=ctx)
    s.set("timeout", timeout_ms)
    if seed:
        s.set("random_seed", seed)
    try:
        s.from_string(smt)
        r = s.check()
        res = str(r)
        reason = s.reason_unknown() if r == z3.unknown else ""
        model = ""
        if r == z3.sat:
            try:
                model = s.model().sexpr()[:20000]
            except Exception:
                model = ""
    except z3.Z3Exception as e:  # pragma: no cover
        res, reason, model = "error", str(e)[:500], ""
    return res, reason, model, time.time() - t0


def _solve_cvc5(smt: str, timeout_ms: int):
    t0 = time.time()
    exe = "/usr/bin/cvc5"
    if not os.path.exists(exe):
        return "unknown", "cvc5 missing", "", 0.0
    with tempfile.NamedTemporaryFile("w", suffix=".smt2", delete=False) as f:
        f.write("(set-logic ALL)\n" + smt.replace("(set-info :status unknown)", ""))
        path = f.name
    try:
        p = subprocess.run(
            [exe, f"--tlimit={timeout_ms}", "--full-saturate-quant", path],
            capture_output=True, text=True, timeout=timeout_ms / 1000 + 5,
        )
        out = p.stdout.strip().splitlines()
        res = out[0] if out else "unknown"
        if res not in ("sat", "unsat", "unknown"):
            res = "unknown"
        return res, (p.stderr or "")[:300], "", time.time() - t0
    except subprocess.TimeoutExpired:
        return "unknown", "timeout", "", time.time() - t0
    finally:
        os.unlink(path)


def load_factor() -> float:
    """Time limits are wall-clock: when the machine is already busy with other work the same query needs
    proportionally longer, so the limits are stretched by the load per core (between 1 and 3)."""
    try:
        return max(1.0, min(3.0, os.getloadavg()[0] / (os.cpu_count() or 1)))
    except OSError:  # pragma: no cover
        return 1.0


def _solve_z3_cli(smt: str, timeout_ms: int):
    """The stand-alone z3 5.1 binary on the same text (its default strategy differs from the Python API's solver object
    with a `timeout` parameter: it decides some quantified queries the API call gives up on, and vice versa)."""
    import shutil
    t0 = time.time()
    exe = shutil.which("z3-new")
    if not exe:
        return "unknown", "z3-new missing", "", 0.0
    with tempfile.NamedTemporaryFile("w", suffix=".smt2", delete=False) as f:
        f.write(smt)
        path = f.name
    try:
        p = subprocess.run([exe, f"-T:{max(1, timeout_ms // 1000)}", path], capture_output=True, text=True, timeout=timeout_ms / 1000 + 5)
        out = p.stdout.strip().splitlines()
        res = out[0] if out else "unknown"
        if res not in ("sat", "unsat"):
            res = "unknown"
        return res, "z3 cli: " + (out[0] if out else ""), "", time.time() - t0
    except subprocess.TimeoutExpired:
        return "unknown", "timeout", "", time.time() - t0
    finally:
        os.unlink(path)


def solve_one(task):
    """task = (name, smt, timeout_ms, use_cvc5[, first[, seed]]) -> dict; ``first`` = "cvc5" runs cvc5 before z3
    (obligations that cvc5 decided when the baseline was recorded: z3's time limit would only be waited out);
    ``seed`` != 0: z3 only, with that random seed (second attempts: z3's search on a quantified query can take a
    bad turn that another seed does not take)"""
    name, smt, timeout_ms, use_cvc5 = task[:4]
    first = task[4] if len(task) > 4 else "z3"
    seed = task[5] if len(task) > 5 else 0
    if seed == -1:
        res, reason, model, dt = _solve_z3_cli(smt, timeout_ms)
        return dict(name=name, result=res, reason=reason, model=model, backend="z3-cli", time=round(dt, 3))
    if seed:
        res, reason, model, dt = _solve_z3(smt, timeout_ms, seed)
        return dict(name=name, result=res, reason=reason, model=model, backend=f"z3-seed{seed}", time=round(dt, 3))
    total = 0.0
    if first == "z3-cli" or first.startswith("z3-seed"):
        # the variant that decided this obligation when the baseline was recorded goes first
        r0 = _solve_z3_cli(smt, timeout_ms) if first == "z3-cli" else _solve_z3(smt, timeout_ms, int(first[7:]))
        total += r0[3]
        if r0[0] in ("unsat", "sat"):
            return dict(name=name, result=r0[0], reason=r0[1], model=r0[2], backend=first, time=round(total, 3))
    if first == "cvc5" and use_cvc5:
        r2, reason2, _, dt2 = _solve_cvc5(smt, timeout_ms)
        total += dt2
        if r2 in ("unsat", "sat"):
            return dict(name=name, result=r2, reason=reason2, model="", backend="cvc5", time=round(total, 3))
    res, reason, model, dt = _solve_z3(smt, timeout_ms)
    if res == "unknown" and dt < 0.5 * timeout_ms / 1000 and ("cancel" in reason or "interrupt" in reason):
        # gave up long before the limit (a stale timer of the previous query in this worker): ask again
        res, reason, model, dt2 = _solve_z3(smt, timeout_ms)
        dt += dt2
    backend = "z3"
    total += dt
    if res in ("unknown", "error") and use_cvc5 and first != "cvc5":
        r2, reason2, _, dt2 = _solve_cvc5(smt, timeout_ms)
        total += dt2
        if r2 in ("unsat", "sat"):
            res, reason, backend = r2, reason2, "cvc5"
    return dict(name=name, result=res, reason=reason, model=model, backend=backend, time=round(total, 3))


def solve_all(tasks, workers=None):
    workers = int(os.environ.get("PYVC_WORKERS", 0)) or workers or min(16, os.cpu_count() or 4)
    out = {}
    if not tasks:
        return out
    lf = load_factor()
    if lf > 1.0:
        tasks = [(t[0], t[1], int(t[2] * lf)) + tuple(t[3:]) for t in tasks]
    if workers == 1 or len(tasks) == 1:
        for t in tasks:
            out[t[0]] = solve_one(t)
        return out
    with ProcessPoolExecutor(max_workers=workers) as ex:
        futs = {ex.submit(solve_one, t): t[0] for t in tasks}
        for f in as_completed(futs):
            try:
                r = f.result()
            except Exception as e:  # a worker died (the pool is then broken for the rest): undecided here, asked again later
                n = futs[f]
                r = dict(name=n, result="unknown", reason=f"solver worker failed: {type(e).__name__}: {e}"[:300], model="", backend="z3", time=0.0)
            out[r["name"]] = r
    return out
