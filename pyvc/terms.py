"""z3 term helpers that also accept plain Python constants.

Scalars in the symbolic executor are either Python constants (int, float, bool,
str, None) or z3 expressions of sort Int / Real / Bool.  All arithmetic goes
through the helpers below so that Python's semantics (floor division, true
division, bool-as-int) are encoded explicitly rather than inherited from z3's
operator overloading.

Assumption recorded in every evidence file: Python/NumPy integers are encoded
as mathematical integers (no int64 overflow) and floats as mathematical reals
(no rounding, no NaN/Inf) unless a contract says otherwise.
"""

from __future__ import annotations

import itertools

import z3

z3.set_param("warning", False)  # 'if cannot be used in patterns': such patterns are dropped by z3 itself

_counter = itertools.count()


def reset_names():
    global _counter
    _counter = itertools.count()


def fresh_name(prefix: str) -> str:
    return f"{prefix}!{next(_counter)}"


def fresh_int(prefix="i"):
    return z3.Int(fresh_name(prefix))


def fresh_real(prefix="x"):
    return z3.Real(fresh_name(prefix))


def fresh_bool(prefix="b"):
    return z3.Bool(fresh_name(prefix))


def fresh_fun(prefix, *sorts):
    return z3.Function(fresh_name(prefix), *sorts)


def is_sym(x) -> bool:
    return isinstance(x, z3.ExprRef)


def is_symbool(x) -> bool:
    return isinstance(x, z3.BoolRef)


def is_scalar(x) -> bool:
    return isinstance(x, (bool, int, float)) or isinstance(x, z3.ExprRef)


def sort_of(x) -> str:
    """'bool' | 'int' | 'real' for scalars."""
    if isinstance(x, bool):
        return "bool"
    if isinstance(x, int):
        return "int"
    if isinstance(x, float):
        return "real"
    if isinstance(x, z3.BoolRef):
        return "bool"
    if isinstance(x, z3.ArithRef):
        return "int" if x.is_int() else "real"
    raise TypeError(f"not a scalar: {x!r}")


def tz(x):
    """Python constant -> z3 value (idempotent on z3 terms)."""
    if isinstance(x, z3.ExprRef):
        return x
    if isinstance(x, bool):
        return z3.BoolVal(x)
    if isinstance(x, int):
        return z3.IntVal(x)
    if isinstance(x, float):
        if x != x or x in (float("inf"), float("-inf")):
            raise ValueError("non-finite float constant is outside the real encoding")
        return z3.RealVal(repr(x))
    raise TypeError(f"cannot convert {x!r} to a term")


def as_num(x):
    """bool -> int (Python semantics: True == 1)."""
    if isinstance(x, bool):
        return int(x)
    if isinstance(x, z3.BoolRef):
        return z3.If(x, z3.IntVal(1), z3.IntVal(0))
    return x


def as_real(x):
    x = as_num(x)
    if isinstance(x, (int, float)):
        return float(x)
    if x.is_int():
        return z3.ToReal(x)
    return x


def truthy(x):
    """Python truthiness of a scalar as a bool / z3 Bool."""
    if isinstance(x, (bool,)):
        return x
    if isinstance(x, (int, float)):
        return x != 0
    if isinstance(x, z3.BoolRef):
        return x
    if isinstance(x, z3.ArithRef):
        return x != 0
    raise TypeError(f"truthiness of {x!r}")


# ---------------------------------------------------------------- booleans


def And(*xs):
    out = []
    for x in xs:
        if isinstance(x, (list, tuple)):
            x = And(*x)
        if x is True:
            continue
        if x is False:
            return False
        if isinstance(x, z3.BoolRef) and z3.is_true(x):
            continue
        if isinstance(x, z3.BoolRef) and z3.is_false(x):
            return False
        out.append(x)
    if not out:
        return True
    if len(out) == 1:
        return out[0]
    return z3.And(*out)


def Or(*xs):
    out = []
    for x in xs:
        if isinstance(x, (list, tuple)):
            x = Or(*x)
        if x is False:
            continue
        if x is True:
            return True
        if isinstance(x, z3.BoolRef) and z3.is_false(x):
            continue
        if isinstance(x, z3.BoolRef) and z3.is_true(x):
            return True
        out.append(x)
    if not out:
        return False
    if len(out) == 1:
        return out[0]
    return z3.Or(*out)


def Not(x):
    if isinstance(x, bool):
        return not x
    if z3.is_true(x):
        return False
    if z3.is_false(x):
        return True
    if z3.is_not(x):
        return x.arg(0)
    return z3.Not(x)


def Implies(a, b):
    if a is True:
        return b
    if a is False:
        return True
    if b is True:
        return True
    if b is False:
        return Not(a)
    return z3.Implies(a, b)


def Iff(a, b):
    if isinstance(a, bool) and isinstance(b, bool):
        return a == b
    if a is True:
        return b
    if b is True:
        return a
    if a is False:
        return Not(b)
    if b is False:
        return Not(a)
    return a == b


def Ite(c, a, b):
    if c is True:
        return a
    if c is False:
        return b
    if not is_sym(a) and not is_sym(b) and type(a) is type(b) and a == b:
        return a
    sa, sb = sort_of(a), sort_of(b)
    if sa == "bool" and sb == "bool":
        return z3.If(c, tz(a), tz(b))
    if sa == "bool":
        a = as_num(a)
        sa = "int"
    if sb == "bool":
        b = as_num(b)
        sb = "int"
    if sa != sb:
        a, b = as_real(a), as_real(b)
    return z3.If(c, tz(a), tz(b))


# ---------------------------------------------------------------- arithmetic


def _coerce2(a, b):
    a, b = as_num(a), as_num(b)
    sa, sb = sort_of(a), sort_of(b)
    if sa != sb:
        a, b = as_real(a), as_real(b)
    return a, b


def add(a, b):
    a, b = _coerce2(a, b)
    if not is_sym(a) and not is_sym(b):
        return a + b
    if not is_sym(a) and a == 0:
        return b
    if not is_sym(b) and b == 0:
        return a
    return tz(a) + tz(b)


def sub(a, b):
    a, b = _coerce2(a, b)
    if not is_sym(a) and not is_sym(b):
        return a - b
    if not is_sym(b) and b == 0:
        return a
    return tz(a) - tz(b)


def mul(a, b):
    a, b = _coerce2(a, b)
    if not is_sym(a) and not is_sym(b):
        return a * b
    if not is_sym(a) and a == 1:
        return b
    if not is_sym(b) and b == 1:
        return a
    if not is_sym(a) and a == 0 or not is_sym(b) and b == 0:
        return 0 if sort_of(a) == "int" else 0.0
    return tz(a) * tz(b)


def neg(a):
    a = as_num(a)
    if not is_sym(a):
        return -a
    return -a


def truediv(a, b):
    """Python ``/``.  Division by zero is NOT modelled here: callers that care
    (C03) use the ExtReal encoding; elsewhere the divisor non-zero is demanded."""
    a, b = as_real(a), as_real(b)
    if not is_sym(a) and not is_sym(b):
        return a / b
    return tz(a) / tz(b)


def floordiv(a, b):
    a, b = _coerce2(a, b)
    if not is_sym(a) and not is_sym(b):
        return a // b
    if sort_of(a) != "int":
        raise NotImplementedError("floor division of reals")
    a, b = tz(a), tz(b)
    # z3 div is Euclidean (remainder >= 0); Python floors.  They agree for b > 0.
    q = a / b
    return z3.If(b > 0, q, z3.If(a % b == 0, q, q - 1))


def mod(a, b):
    a, b = _coerce2(a, b)
    if not is_sym(a) and not is_sym(b):
        return a % b
    if sort_of(a) != "int":
        raise NotImplementedError("modulo of reals")
    a, b = tz(a), tz(b)
    r = a % b  # Euclidean: 0 <= r < |b|
    return z3.If(b > 0, r, z3.If(r == 0, r, r + b))


def cmp(op, a, b):
    if isinstance(a, str) or isinstance(b, str) or a is None or b is None:
        if op == "==":
            return a is b if (a is None or b is None) else a == b
        if op == "!=":
            return not (a is b if (a is None or b is None) else a == b)
        raise TypeError(f"comparison {op} on {a!r}, {b!r}")
    if sort_of(a) == "bool" and sort_of(b) == "bool" and op in ("==", "!="):
        r = Iff(a, b)
        return r if op == "==" else Not(r)
    a, b = _coerce2(a, b)
    if not is_sym(a) and not is_sym(b):
        return {
            "==": a == b,
            "!=": a != b,
            "<": a < b,
            "<=": a <= b,
            ">": a > b,
            ">=": a >= b,
        }[op]
    a, b = tz(a), tz(b)
    return {
        "==": lambda: a == b,
        "!=": lambda: a != b,
        "<": lambda: a < b,
        "<=": lambda: a <= b,
        ">": lambda: a > b,
        ">=": lambda: a >= b,
    }[op]()


def eq(a, b):
    return cmp("==", a, b)


def ne(a, b):
    return cmp("!=", a, b)


def lt(a, b):
    return cmp("<", a, b)


def le(a, b):
    return cmp("<=", a, b)


def gt(a, b):
    return cmp(">", a, b)


def ge(a, b):
    return cmp(">=", a, b)


def smax(a, b):
    a, b = _coerce2(a, b)
    if not is_sym(a) and not is_sym(b):
        return max(a, b)
    return z3.If(tz(a) >= tz(b), tz(a), tz(b))


def smin(a, b):
    a, b = _coerce2(a, b)
    if not is_sym(a) and not is_sym(b):
        return min(a, b)
    return z3.If(tz(a) <= tz(b), tz(a), tz(b))


def sabs(a):
    a = as_num(a)
    if not is_sym(a):
        return abs(a)
    return z3.If(a >= 0, a, -a)


# ---------------------------------------------------------------- quantifiers


def _vars_in(t, names):
    found = set()
    seen = set()
    stack = [t]
    while stack:
        u = stack.pop()
        i = u.get_id()
        if i in seen:
            continue
        seen.add(i)
        if z3.is_const(u) and u.decl().kind() == z3.Z3_OP_UNINTERPRETED and u.decl().name() in names:
            found.add(u.decl().name())
        if z3.is_app(u):
            stack.extend(u.children())
    return found


def _pattern_ok(p):
    return (
        isinstance(p, z3.ExprRef)
        and z3.is_app(p)
        and p.num_args() > 0
        and p.decl().kind() == z3.Z3_OP_UNINTERPRETED
    )


def ForAll(vs, body, patterns=None):
    """Universally quantify; ``vs`` are z3 constants.  body may be a Python bool.
    Patterns that z3 would reject (interpreted head, missing variables) are dropped."""
    if isinstance(body, bool):
        return body
    if not isinstance(vs, (list, tuple)):
        vs = [vs]
    vs = list(vs)
    if patterns:
        names = {v.decl().name() for v in vs}
        pats = []
        for p in patterns:
            group = list(p) if isinstance(p, (list, tuple)) else [p]
            if not all(_pattern_ok(g) for g in group):
                continue
            cover = set()
            for g in group:
                cover |= _vars_in(g, names)
            if cover != names:
                continue
            pats.append(z3.MultiPattern(*group) if len(group) > 1 else group[0])
        if pats:
            try:
                return z3.ForAll(vs, body, patterns=pats)
            except z3.Z3Exception:
                pass
    return z3.ForAll(vs, body)


def Exists(vs, body):
    if isinstance(body, bool):
        return body
    if not isinstance(vs, (list, tuple)):
        vs = [vs]
    return z3.Exists(list(vs), body)


def forall_range(lo, hi, f, name="q", patterns=None):
    """forall q. lo <= q < hi -> f(q)"""
    q = fresh_int(name)
    body = f(q)
    if body is True:
        return True
    pats = None
    if patterns is not None:
        pats = patterns(q)
    return ForAll([q], Implies(And(le(lo, q), lt(q, hi)), body), pats)


def exists_range(lo, hi, f, name="e"):
    q = fresh_int(name)
    body = f(q)
    if body is False:
        return False
    return Exists([q], And(le(lo, q), lt(q, hi), body))
