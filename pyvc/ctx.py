"""Path context: assumptions, obligations, branch decisions (replay-based forking)."""

from __future__ import annotations

import time
from dataclasses import dataclass, field
from typing import Any, List, Optional

import z3

from . import terms as T


class PathAbort(Exception):
    """The executor cannot continue on this path (unsupported construct, missing
    invariant, ...).  Never a violation: the path's remaining obligations are
    reported UNDECIDED."""

    def __init__(self, reason, line=None):
        super().__init__(reason)
        self.reason = reason
        self.line = line


class PathEnd(Exception):
    """Clean end of a partial path (e.g. the 'arbitrary iteration' path of a loop cut
    by its invariant): its obligations count, nothing follows."""

    def __init__(self, reason=""):
        super().__init__(reason)
        self.reason = reason


class PyRaise(Exception):
    """The analysed code raises a Python exception on this path."""

    def __init__(self, exc, msg="", line=None):
        super().__init__(f"{exc}: {msg}")
        self.exc = exc
        self.msg = msg
        self.line = line


@dataclass
class Obligation:
    name: str
    kind: str  # ensures | requires | index | raises | frame | invariant | cover | canary
    n_hyps: int  # number of assumptions (prefix of path assumptions) in scope
    goal: Any
    line: Optional[int] = None
    note: str = ""
    expect_sat: bool = False  # cover / canary: must NOT be provable
    only_hyps: Any = None  # isolated obligation: proved from exactly these hypotheses (each one an assumed / proved fact)


@dataclass
class PathResult:
    script: List[bool]
    outcome: str  # 'return' | 'raise' | 'abort'
    value: Any = None
    exc: Optional[str] = None
    reason: str = ""
    line: Optional[int] = None
    assumptions: List[Any] = field(default_factory=list)
    obligations: List[Obligation] = field(default_factory=list)
    trusted: set = field(default_factory=set)
    havocked: set = field(default_factory=set)
    dropped: set = field(default_factory=set)
    writes: list = field(default_factory=list)
    wall: float = 0.0


class Ctx:
    """One execution path.  Branches are resolved by the decision ``script``;
    when the script is exhausted the first feasible alternative is taken and the
    other one is queued in ``pending`` for a later re-execution from the start."""

    feas_timeout_ms = 1500

    def __init__(self, script=(), use_quantified_pc=False):
        self.script = list(script)
        self.pos = 0
        self.pending: List[List[bool]] = []
        self.assumptions: List[Any] = []
        self.obligations: List[Obligation] = []
        self.trusted: set = set()
        self.havocked: set = set()
        self.dropped: set = set()
        self.writes: list = []  # (target description, line) for frame obligations
        self.use_quantified_pc = use_quantified_pc
        self._solver = z3.Solver()
        self._solver.set("timeout", self.feas_timeout_ms)
        self.cur_line: Optional[int] = None
        self.prefix = ""
        # ghost functions of the axiomatised primitives executed on this path, in call order
        # (contracts use them to name witnesses)
        self.ghosts = {}
        self._obl_names = {}
        self.deadline = None
        # evaluation of an element expression for a symbolic index (lazy lists): obligations are
        # recorded under the guard "index in range" for one generic index and suppressed afterwards
        self.guards = []
        self.suppress = False

    # ------------------------------------------------------------ assumptions
    def assume(self, t, trusted: Optional[str] = None):
        if trusted:
            self.trusted.add(trusted)
        if t is True:
            return
        if t is False:
            t = z3.BoolVal(False)
        if z3.is_and(t):
            # conjunct by conjunct: the quantifier-free ones also reach the quick feasibility solver
            for c in t.children():
                self.assume(c)
            return
        self.assumptions.append(t)
        if self.use_quantified_pc or not _has_quant(t):
            self._solver.add(t)

    def _unique(self, name):
        k = self._obl_names.get(name, 0)
        self._obl_names[name] = k + 1
        return name if k == 0 else f"{name}~{k}"

    def oblige(self, goal, label, kind="ensures", note="", assume_after=True, only_hyps=None):
        """Record the obligation ``assumptions => goal``; then (by default) assume it,
        as the rest of the path is only meaningful if it holds."""
        if goal is True or self.suppress:
            return
        if goal is False:
            goal = z3.BoolVal(False)
        if self.guards:
            goal = z3.Implies(z3.And(*self.guards), goal)
        if z3.is_and(goal) and goal.num_args() > 1:
            # one obligation per conjunct: smaller queries, more stable verdicts
            for i, c in enumerate(goal.children()):
                self.oblige(c, f"{label}.{i}", kind, note, assume_after, only_hyps)
            return
        if kind not in ("ensures", "raises"):
            # obligations raised inside the body (callee preconditions, index bounds, loop invariants) are
            # named by the decisions taken so far: two paths share such an obligation exactly when they
            # share that prefix (the executor is deterministic), so equal names mean equal formulas
            label = f"{label}@{''.join('T' if b else 'F' for b in self.script[: self.pos]) or '-'}"
        name = self._unique(f"{self.prefix}#{kind}:{label}")
        if only_hyps is not None:
            # every hypothesis of an isolated obligation must already be in the context (assumed or proved earlier)
            have = {a.get_id() for a in self.assumptions}
            for h in only_hyps:
                if h.get_id() not in have and not all(c.get_id() in have for c in (h.children() if z3.is_and(h) else [h])):
                    raise PathAbort(f"isolated obligation {label}: hypothesis is not an established fact", self.cur_line)
        self.obligations.append(
            Obligation(name, kind, len(self.assumptions), goal, self.cur_line, note, only_hyps=list(only_hyps) if only_hyps is not None else None)
        )
        if assume_after:
            self.assume(goal)

    def log_ghost(self, kind, value):
        self.ghosts.setdefault(kind, []).append(value)

    def cover(self, label):
        """Vacuity guard: the current path condition must be satisfiable."""
        name = self._unique(f"{self.prefix}#cover:{label}")
        self.obligations.append(
            Obligation(
                name, "cover", len(self.assumptions), z3.BoolVal(False), self.cur_line,
                expect_sat=True,
            )
        )

    # ------------------------------------------------------------ branching
    def _check(self, extra):
        self._solver.push()
        try:
            self._solver.add(extra)
            r = self._solver.check()
        finally:
            self._solver.pop()
        return r

    def implied(self, cond) -> bool:
        """True iff the (quantifier-free part of the) path condition implies cond."""
        if cond is True:
            return True
        if cond is False:
            return False
        return self._check(z3.Not(cond)) == z3.unsat

    def branch(self, cond, label="") -> bool:
        if isinstance(cond, bool):
            return cond
        if not isinstance(cond, z3.BoolRef):
            raise PathAbort(f"branch on non-boolean {type(cond).__name__}", self.cur_line)
        cond = z3.simplify(cond)
        if (self.guards or self.suppress) and not (z3.is_true(cond) or z3.is_false(cond)):
            if self.implied(cond):
                return True
            if self.implied(z3.Not(cond)):
                return False
            raise PathAbort("data-dependent branch inside the element of a symbolic-length list", self.cur_line)
        if z3.is_true(cond):
            return True
        if z3.is_false(cond):
            return False
        if self.pos < len(self.script):
            choice = self.script[self.pos]
            self.pos += 1
        else:
            can_t = self._check(cond) != z3.unsat
            can_f = self._check(z3.Not(cond)) != z3.unsat
            if can_t and can_f:
                self.pending.append(self.script[: self.pos] + [False])
                choice = True
            elif can_t:
                choice = True
            elif can_f:
                choice = False
            else:
                # path condition itself is infeasible: stop quietly
                raise PathAbort("infeasible", self.cur_line)
            self.script.append(choice)
            self.pos += 1
        self.assume(cond if choice else z3.Not(cond))
        return choice

    def choice(self, label="") -> bool:
        """Non-deterministic choice: both alternatives are explored."""
        if self.pos < len(self.script):
            c = self.script[self.pos]
            self.pos += 1
            return c
        self.pending.append(self.script[: self.pos] + [False])
        self.script.append(True)
        self.pos += 1
        return True

    def raise_unless(self, cond, exc, msg=""):
        if not self.branch(cond, f"raise {exc}"):
            raise PyRaise(exc, msg, self.cur_line)


def _has_quant(t) -> bool:
    seen = set()
    stack = [t]
    while stack:
        u = stack.pop()
        if z3.is_quantifier(u):
            return True
        i = u.get_id()
        if i in seen:
            continue
        seen.add(i)
        if z3.is_app(u):
            stack.extend(u.children())
    return False


has_quant = _has_quant
