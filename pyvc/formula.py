"""Program-point formula obligations (C09, C10): the scalar quantities an algorithm reports are the
formulas the property states.

For a function and a variable, EVERY assignment to that variable in the function's current AST is
converted to a sympy expression -- arithmetic is interpreted, `np.sqrt`/`abs`/`np.abs`/`np.sum(x, 0)` are
functions, every other sub-expression (names, attribute reads, method calls such as `M.norm()`) is an opaque
atom named by its source text -- and must equal, up to algebraic simplification, one of the forms the
contract allows; forms marked required must occur.  This is a check of *which formula the code computes*,
not of floating-point behaviour (reals are mathematical), and says nothing about the atoms themselves
(`M.norm()`, `innerprod`, `mttkrp` are covered, boundedly, by the stand-ins of C02/C09/C10).
"""

from __future__ import annotations

import ast
import time
from typing import Dict, List

import sympy as sp

from .extract import Index

SQRT = {"np.sqrt", "math.sqrt", "sqrt"}
ABS = {"abs", "np.abs", "np.absolute"}
_FUN = {}


def _fun(name):
    if name not in _FUN:
        _FUN[name] = sp.Function(name)
    return _FUN[name]


_ALIASES: Dict[str, ast.AST] = {}


def to_sympy(n: ast.AST, depth=0):
    if isinstance(n, ast.Name) and n.id in _ALIASES and depth < 6:
        # a local assigned exactly once is read as its defining expression (harmless renamings / hoisting)
        return to_sympy(_ALIASES[n.id], depth + 1)
    if isinstance(n, ast.Constant) and isinstance(n.value, (int, float)) and not isinstance(n.value, bool):
        return sp.Integer(n.value) if isinstance(n.value, int) else sp.Float(n.value)
    if isinstance(n, ast.Name):
        return sp.Symbol(n.id, real=True)
    if isinstance(n, ast.UnaryOp) and isinstance(n.op, ast.USub):
        return -to_sympy(n.operand, depth)
    if isinstance(n, ast.UnaryOp) and isinstance(n.op, ast.UAdd):
        return to_sympy(n.operand, depth)
    if isinstance(n, ast.BinOp):
        a, b = to_sympy(n.left, depth), to_sympy(n.right, depth)
        if isinstance(n.op, ast.Add):
            return a + b
        if isinstance(n.op, ast.Sub):
            return a - b
        if isinstance(n.op, ast.Mult):
            return a * b
        if isinstance(n.op, ast.Div):
            return a / b
        if isinstance(n.op, ast.Pow):
            return a ** b
    if isinstance(n, ast.Call):
        f = ast.unparse(n.func)
        if f in SQRT and len(n.args) == 1:
            return sp.sqrt(to_sympy(n.args[0], depth))
        if f in ABS and len(n.args) == 1:
            return sp.Abs(to_sympy(n.args[0], depth))
        if f in ("np.sum", "sum") and len(n.args) == 2 and not n.keywords:
            return _fun("sum_axis")(to_sympy(n.args[0], depth), to_sympy(n.args[1], depth))
    # opaque atom, named by its (normalised) source text
    return sp.Symbol("⟦" + ast.unparse(n) + "⟧", real=True)


def parse(expr: str):
    return to_sympy(ast.parse(expr, mode="eval").body)


def equal(a, b) -> bool:
    d = sp.simplify(a - b)
    if d == 0:
        return True
    try:
        return sp.simplify(sp.expand(d)) == 0
    except Exception:
        return False


#: qualname -> variable -> list of (allowed form, required?)
SPECS: Dict[str, Dict[str, List[tuple]]] = {
    "pyttb.cp_als.cp_als": {
        "normresidual": [
            ("np.sqrt(np.abs(normX**2 + M.norm()**2 - 2*iprod))", True),
            ("M.norm()**2 - 2*iprod", True),  # data without a norm (sum tensor): the property's stated substitute
            ("np.sqrt(np.abs(normX**2 + M.norm()**2 - 2*input_tensor.innerprod(M)))", False),
            ("M.norm()**2 - 2*input_tensor.innerprod(M)", False),
        ],
        "fit": [("1 - normresidual/normX", True), ("normresidual", True), ("0", False)],
        "fitchange": [("np.abs(fitold - fit)", True)],
        "iprod": [("np.sum(np.sum(M.factor_matrices[dimorder[-1]] * U_mttkrp, 0) * weights, 0)", True)],
    },
    "pyttb.tucker_als.tucker_als": {
        "normresidual": [("np.sqrt(abs(normX**2 - core.norm()**2))", True)],
        "fit": [("1 - normresidual/normX", True), ("0", False)],
        "fitchange": [("abs(fitold - fit)", True)],
    },
    "pyttb.hosvd.hosvd": {
        "eigsumthresh": [("tol**2 * normxsqr / d", True)],
        "relnorm": [("np.sqrt(diffnormsqr / normxsqr)", True)],
    },
    "pyttb.cp_apr.tt_cp_apr_mu": {
        "normresidual": [("np.sqrt(normTensor**2 + M.norm()**2 - 2*input_tensor.innerprod(M))", True)],
        "fit": [("1 - normresidual/normTensor", True)],
    },
}


def c09_obligations(index: Index):
    return obligations(index, ("pyttb.cp_als.cp_als",))


def c10_obligations(index: Index):
    return obligations(index, ("pyttb.tucker_als.tucker_als", "pyttb.hosvd.hosvd"))


def obligations(index: Index, only=None):
    out = []
    for q, spec in SPECS.items():
        if only and q not in only:
            continue
        fi = index.get(q)
        t0 = time.time()
        if fi is None:
            out.append(dict(name=f"{q}#formula", function=q, kind="formula", line=None, status="missing", backend="sympy", time=0.0,
                            solver_output="function missing or renamed"))
            continue
        assigns: Dict[str, List[ast.Assign]] = {}
        for n in ast.walk(fi.node):
            if isinstance(n, ast.Assign) and len(n.targets) == 1 and isinstance(n.targets[0], ast.Name) and n.targets[0].id in spec:
                assigns.setdefault(n.targets[0].id, []).append(n)
        # single-assignment locals (other than the specified variables and loop-carried ones) are inlined
        counts: Dict[str, List[ast.AST]] = {}
        for n in ast.walk(fi.node):
            if isinstance(n, (ast.Assign, ast.AugAssign, ast.AnnAssign, ast.For)):
                tg = n.targets if isinstance(n, ast.Assign) else [n.target]
                for t in tg:
                    for el in ([t] if not isinstance(t, (ast.Tuple, ast.List)) else t.elts):
                        if isinstance(el, ast.Name):
                            counts.setdefault(el.id, []).append(n.value if isinstance(n, ast.Assign) and len(tg) == 1 and not isinstance(t, (ast.Tuple, ast.List)) else None)
        params = {a.arg for a in fi.node.args.args + fi.node.args.kwonlyargs}
        _ALIASES.clear()
        for name, vals in counts.items():
            if len(vals) == 1 and vals[0] is not None and name not in spec and name not in params and isinstance(vals[0], (ast.BinOp, ast.Call, ast.UnaryOp, ast.Attribute, ast.Name)):
                _ALIASES[name] = vals[0]
        for var, forms in spec.items():
            t1 = time.time()
            allowed = [(parse(f), f, req) for f, req in forms]  # same alias reading on both sides
            seen = set()
            bad = []
            for a in assigns.get(var, []):
                try:
                    e = to_sympy(a.value)
                except Exception as ex:  # pragma: no cover
                    bad.append(f"L{a.lineno}: cannot read `{ast.unparse(a.value)}` ({ex})")
                    continue
                hit = None
                for k, (g, txt, req) in enumerate(allowed):
                    if equal(e, g):
                        hit = k
                        break
                if hit is None:
                    bad.append(f"L{a.lineno}: `{var} = {ast.unparse(a.value)}` is none of the stated formulas")
                else:
                    seen.add(hit)
            for k, (g, txt, req) in enumerate(allowed):
                if req and k not in seen:
                    bad.append(f"the stated formula `{var} = {txt}` is not computed anywhere")
            if not assigns.get(var):
                status = "missing"
                bad = [f"no assignment to `{var}` (renamed?)"]
            else:
                status = "discharged" if not bad else "refuted"
            out.append(dict(name=f"{q}#formula:{var}", function=q, kind="formula", line=fi.node.lineno, status=status, backend="sympy",
                            time=round(time.time() - t1, 3), solver_output="; ".join(bad)[:2000]))
    return out


if __name__ == "__main__":
    import os
    for o in obligations(Index(os.environ.get("PYTTB_REPO", "/repo"))):
        print(o["status"], o["name"], o["solver_output"][:300])
