"""Program-point formula obligations (C09, C10): the scalar quantities an algorithm reports are the
formulas the property states.

For a function and a variable, EVERY assignment to that variable in the function's current AST is
converted to a sympy expression -- arithmetic is interpreted, `np.sqrt`/`abs`/`np.abs`/`np.sum(x, 0)` are
functions, every other sub-expression (names, attribute reads, method calls such as `M.norm()`) is an opaque
atom named by its source text -- and must equal, up to algebraic simplification, one of the forms the
contract allows; forms marked required must occur.  A form may carry a *guard* (the condition under which the
property states that form, e.g. the substitute formula only for data whose norm is zero): the conjunction of the
enclosing `if` tests on the way to the assignment (read into linear real arithmetic, anything else an opaque atom;
`x.norm()` atoms are non-negative) must then imply the guard -- a z3 validity query per assignment.  Targets may be
names or subscripted names (`ranks[k]`).  This is a check of *which formula the code computes*,
not of floating-point behaviour (reals are mathematical), and says nothing about the atoms themselves
(`M.norm()`, `innerprod`, `mttkrp` are covered, boundedly, by the stand-ins of C02/C09/C10).
"""

from __future__ import annotations

import ast
import time
from typing import Dict, List

import sympy as sp

from .extract import Index

SQRT = {"np.sqrt", "math.sqrt", "sqrt"}
ABS = {"abs", "np.abs", "np.absolute"}
_FUN = {}


def _fun(name):
    if name not in _FUN:
        _FUN[name] = sp.Function(name)
    return _FUN[name]


_ALIASES: Dict[str, ast.AST] = {}


def to_sympy(n: ast.AST, depth=0):
    if isinstance(n, ast.Name) and n.id in _ALIASES and depth < 6:
        # a local assigned exactly once is read as its defining expression (harmless renamings / hoisting)
        return to_sympy(_ALIASES[n.id], depth + 1)
    if isinstance(n, ast.Constant) and isinstance(n.value, (int, float)) and not isinstance(n.value, bool):
        return sp.Integer(n.value) if isinstance(n.value, int) else sp.Float(n.value)
    if isinstance(n, ast.Name):
        return sp.Symbol(n.id, real=True)
    if isinstance(n, ast.UnaryOp) and isinstance(n.op, ast.USub):
        return -to_sympy(n.operand, depth)
    if isinstance(n, ast.UnaryOp) and isinstance(n.op, ast.UAdd):
        return to_sympy(n.operand, depth)
    if isinstance(n, ast.BinOp):
        a, b = to_sympy(n.left, depth), to_sympy(n.right, depth)
        if isinstance(n.op, ast.Add):
            return a + b
        if isinstance(n.op, ast.Sub):
            return a - b
        if isinstance(n.op, ast.Mult):
            return a * b
        if isinstance(n.op, ast.Div):
            return a / b
        if isinstance(n.op, ast.Pow):
            return a ** b
    if isinstance(n, ast.Call):
        f = ast.unparse(n.func)
        if f in SQRT and len(n.args) == 1:
            return sp.sqrt(to_sympy(n.args[0], depth))
        if f in ABS and len(n.args) == 1:
            return sp.Abs(to_sympy(n.args[0], depth))
        if f in ("np.sum", "sum") and len(n.args) == 2 and not n.keywords:
            return _fun("sum_axis")(to_sympy(n.args[0], depth), to_sympy(n.args[1], depth))
    # opaque atom, named by its (normalised) source text
    return sp.Symbol("⟦" + ast.unparse(n) + "⟧", real=True)


def parse(expr: str):
    return to_sympy(ast.parse(expr, mode="eval").body)


def equal(a, b) -> bool:
    d = sp.simplify(a - b)
    if d == 0:
        return True
    try:
        return sp.simplify(sp.expand(d)) == 0
    except Exception:
        return False



def _walk_with_guards(fn):
    """Every statement of the function with the list of (if-test, polarity) pairs enclosing it.  A test whose names
    are assigned inside the branch before the statement says nothing about them there any more: marked stale."""
    def rec(stmts, path):
        for st in stmts:
            yield st, path
            if isinstance(st, ast.If):
                yield from rec(st.body, path + [(st.test, True, st.body)])
                yield from rec(st.orelse, path + [(st.test, False, st.orelse)])
            elif isinstance(st, (ast.For, ast.While)):
                yield from rec(st.body, path)
                yield from rec(st.orelse, path)
            elif isinstance(st, ast.With):
                yield from rec(st.body, path)
            elif isinstance(st, ast.Try):
                for blk in (st.body, st.orelse, st.finalbody) + tuple(h.body for h in st.handlers):
                    yield from rec(blk, path)
    yield from rec(fn.body, [])


class _Z3Reader:
    """if-tests into quantifier-free linear/nonlinear real arithmetic; whatever is not arithmetic or a comparison is
    an opaque atom named by its source text (after the same single-assignment alias reading as the formulas)."""

    def __init__(self):
        import z3
        self.z3 = z3
        self.axioms = []
        self._seen = set()
        self.numeric = set()  # source texts known to be numbers (they occur in arithmetic position in the stated guard)

    def real(self, n, depth=0):
        z3 = self.z3
        if isinstance(n, ast.Name) and n.id in _ALIASES and depth < 6:
            return self.real(_ALIASES[n.id], depth + 1)
        if isinstance(n, ast.Constant) and isinstance(n.value, (int, float)) and not isinstance(n.value, bool):
            return z3.RealVal(repr(n.value)) if isinstance(n.value, int) else z3.RealVal(str(sp.Rational(str(n.value))))
        if isinstance(n, ast.UnaryOp) and isinstance(n.op, ast.USub):
            return -self.real(n.operand, depth)
        if isinstance(n, ast.BinOp) and isinstance(n.op, (ast.Add, ast.Sub, ast.Mult)):
            a, b = self.real(n.left, depth), self.real(n.right, depth)
            return a + b if isinstance(n.op, ast.Add) else a - b if isinstance(n.op, ast.Sub) else a * b
        txt = ast.unparse(n)
        self.numeric.add(txt)
        v = z3.Real("⟦" + txt + "⟧")
        if txt.endswith(".norm()") and txt not in self._seen:
            self._seen.add(txt)
            self.axioms.append(v >= 0)
        return v

    def boolean(self, n):
        z3 = self.z3
        if isinstance(n, ast.BoolOp):
            parts = [self.boolean(v) for v in n.values]
            return z3.And(*parts) if isinstance(n.op, ast.And) else z3.Or(*parts)
        if isinstance(n, ast.UnaryOp) and isinstance(n.op, ast.Not):
            return z3.Not(self.boolean(n.operand))
        if isinstance(n, ast.Constant) and isinstance(n.value, bool):
            return z3.BoolVal(n.value)
        if isinstance(n, ast.Compare) and all(isinstance(o, (ast.Eq, ast.NotEq, ast.Lt, ast.LtE, ast.Gt, ast.GtE)) for o in n.ops):
            terms = [self.real(x) for x in [n.left] + list(n.comparators)]
            cs = []
            for o, a, b in zip(n.ops, terms, terms[1:]):
                cs.append({ast.Eq: a == b, ast.NotEq: a != b, ast.Lt: a < b, ast.LtE: a <= b, ast.Gt: a > b, ast.GtE: a >= b}[type(o)])
            return z3.And(*cs) if len(cs) > 1 else cs[0]
        # truth value of a number: a norm used as a condition means "is not zero"
        probe = n
        depth = 0
        while isinstance(probe, ast.Name) and probe.id in _ALIASES and depth < 6:
            probe, depth = _ALIASES[probe.id], depth + 1
        if ast.unparse(probe).endswith(".norm()") or ast.unparse(n) in self.numeric:
            return self.real(n) != 0
        return z3.Bool("⟦" + ast.unparse(n) + "⟧?")


def _assigned_names(stmts):
    out = set()
    for st in stmts:
        for n in ast.walk(st):
            if isinstance(n, (ast.Assign, ast.AugAssign, ast.AnnAssign, ast.For)):
                for t in (n.targets if isinstance(n, ast.Assign) else [n.target]):
                    for el in ast.walk(t):
                        if isinstance(el, ast.Name) and isinstance(el.ctx, ast.Store):
                            out.add(el.id)
                    base = t
                    while isinstance(base, (ast.Subscript, ast.Attribute)):
                        base = base.value  # a[i] = ..., a.f = ...: the container is what changes, not the index
                    if isinstance(base, ast.Name):
                        out.add(base.id)
    return out


def _guard_obligation(path, guard_txt, var):
    """valid( tests on the way  =>  guard ) ?  -> (status, explanation)"""
    import z3
    rd = _Z3Reader()
    goal = rd.boolean(ast.parse(guard_txt, mode="eval").body)  # first: its arithmetic atoms are then known to be numbers
    hyps = []
    for test, pol, block in path:
        names = {x.id for x in ast.walk(test) if isinstance(x, ast.Name)}
        target_base = var.split("[")[0]
        if names & (_assigned_names(block) - {target_base}):
            continue  # stale: the branch re-assigns what the test spoke about (the specified target itself is written last)
        b = rd.boolean(test)
        hyps.append(b if pol else z3.Not(b))
    s = z3.Solver()
    s.set("timeout", 5000)
    s.add(*rd.axioms)
    s.add(*hyps)
    s.add(z3.Not(goal))
    r = s.check()
    if r == z3.unsat:
        return "discharged", ""
    if r == z3.sat:
        return "refuted", "counter-model " + str(s.model())[:600]
    return "unknown", s.reason_unknown()

#: qualname -> variable (or subscripted name) -> list of (allowed form, required?[, guard])
SPECS: Dict[str, Dict[str, List[tuple]]] = {
    "pyttb.cp_als.cp_als": {
        "normresidual": [
            ("np.sqrt(np.abs(normX**2 + M.norm()**2 - 2*iprod))", True, "normX != 0"),
            ("M.norm()**2 - 2*iprod", True, "normX == 0"),  # data without a norm (sum tensor): the property's stated substitute
            ("np.sqrt(np.abs(normX**2 + M.norm()**2 - 2*input_tensor.innerprod(M)))", False, "normX != 0"),
            ("M.norm()**2 - 2*input_tensor.innerprod(M)", False, "normX == 0"),
        ],
        "fit": [("1 - normresidual/normX", True, "normX != 0"), ("normresidual", True, "normX == 0"), ("0", False)],
        "fitchange": [("np.abs(fitold - fit)", True)],
        "iprod": [("np.sum(np.sum(M.factor_matrices[dimorder[-1]] * U_mttkrp, 0) * weights, 0)", True)],
    },
    "pyttb.tucker_als.tucker_als": {
        "normresidual": [("np.sqrt(abs(normX**2 - core.norm()**2))", True)],
        "fit": [("1 - normresidual/normX", True), ("0", False)],
        "fitchange": [("abs(fitold - fit)", True)],
    },
    "pyttb.hosvd.hosvd": {
        "eigsumthresh": [("tol**2 * normxsqr / d", True)],
        "relnorm": [("np.sqrt(diffnormsqr / normxsqr)", True)],
        # ||X||^2 and ||X - T||^2 as sums of squares (the threshold and the reported error are relative to the SQUARED norm)
        "normxsqr": [("(input_tensor**2).collapse()", False), ("input_tensor.norm()**2", False)],
        "diffnormsqr": [("((input_tensor - result.full())**2).collapse()", False), ("(input_tensor - result.full()).norm()**2", False)],
        # the rank choice: eigenvalues in decreasing order, their tail sums, the last index whose tail sum still exceeds
        # the threshold (+1), only for modes whose rank was not requested
        "eigvec": [("D[pi]", True)],
        "eigsum": [("np.cumsum(eigvec[::-1])", True), ("eigsum[::-1]", True)],
        "ranks[k]": [("np.where(eigsum > eigsumthresh)[0][-1] + 1", True, "ranks[k] == 0")],
        "factor_matrices[k]": [("V[:, pi[0:ranks[k]]]", True)],
    },
    "pyttb.cp_apr.tt_cp_apr_mu": {
        "normresidual": [("np.sqrt(normTensor**2 + M.norm()**2 - 2*input_tensor.innerprod(M))", True)],
        "fit": [("1 - normresidual/normTensor", True)],
    },
}


def c09_obligations(index: Index):
    return obligations(index, ("pyttb.cp_als.cp_als",))


def c10_obligations(index: Index):
    return obligations(index, ("pyttb.tucker_als.tucker_als", "pyttb.hosvd.hosvd"))


def obligations(index: Index, only=None):
    out = []
    for q, spec in SPECS.items():
        if only and q not in only:
            continue
        fi = index.get(q)
        t0 = time.time()
        if fi is None:
            out.append(dict(name=f"{q}#formula", function=q, kind="formula", line=None, status="missing", backend="sympy", time=0.0,
                            solver_output="function missing or renamed"))
            continue
        assigns: Dict[str, List[ast.Assign]] = {}
        guards: Dict[int, list] = {}
        for n, path in _walk_with_guards(fi.node):
            if isinstance(n, ast.Assign) and len(n.targets) == 1 and isinstance(n.targets[0], (ast.Name, ast.Subscript)) \
                    and ast.unparse(n.targets[0]) in spec:
                assigns.setdefault(ast.unparse(n.targets[0]), []).append(n)
                guards[id(n)] = path
        # single-assignment locals (other than the specified variables and loop-carried ones) are inlined
        counts: Dict[str, List[ast.AST]] = {}
        for n in ast.walk(fi.node):
            if isinstance(n, (ast.Assign, ast.AugAssign, ast.AnnAssign, ast.For)):
                tg = n.targets if isinstance(n, ast.Assign) else [n.target]
                for t in tg:
                    for el in ([t] if not isinstance(t, (ast.Tuple, ast.List)) else t.elts):
                        if isinstance(el, ast.Name):
                            counts.setdefault(el.id, []).append(n.value if isinstance(n, ast.Assign) and len(tg) == 1 and not isinstance(t, (ast.Tuple, ast.List)) else None)
        params = {a.arg for a in fi.node.args.args + fi.node.args.kwonlyargs}
        _ALIASES.clear()
        for name, vals in counts.items():
            if len(vals) == 1 and vals[0] is not None and name not in spec and name not in params and isinstance(vals[0], (ast.BinOp, ast.Call, ast.UnaryOp, ast.Attribute, ast.Name)):
                _ALIASES[name] = vals[0]
        for var, forms in spec.items():
            t1 = time.time()
            allowed = [(parse(f[0]), f[0], f[1]) for f in forms]  # same alias reading on both sides
            form_guard = [f[2] if len(f) > 2 else None for f in forms]
            seen = set()
            bad = []
            for ordinal, a in enumerate(assigns.get(var, [])):
                try:
                    e = to_sympy(a.value)
                except Exception as ex:  # pragma: no cover
                    bad.append(f"L{a.lineno}: cannot read `{ast.unparse(a.value)}` ({ex})")
                    continue
                hit = None
                for k, (g, txt, req) in enumerate(allowed):
                    if equal(e, g):
                        hit = k
                        break
                if hit is None:
                    bad.append(f"L{a.lineno}: `{var} = {ast.unparse(a.value)}` is none of the stated formulas")
                else:
                    seen.add(hit)
                    if form_guard[hit] is not None:
                        t2 = time.time()
                        st, why = _guard_obligation(guards[id(a)], form_guard[hit], var)
                        out.append(dict(name=f"{q}#formula-guard:{var}:{ordinal}", function=q, kind="formula", line=a.lineno, status=st, backend="z3",
                                        time=round(time.time() - t2, 3),
                                        solver_output=("" if st == "discharged" else f"L{a.lineno}: `{var} = {allowed[hit][1]}` is stated for `{form_guard[hit]}`; "
                                                       f"the tests on the way to this assignment do not establish it: {why}")[:2000]))
            for k, (g, txt, req) in enumerate(allowed):
                if req and k not in seen:
                    bad.append(f"the stated formula `{var} = {txt}` is not computed anywhere")
            if not assigns.get(var):
                status = "missing"
                bad = [f"no assignment to `{var}` (renamed?)"]
            else:
                status = "discharged" if not bad else "refuted"
            out.append(dict(name=f"{q}#formula:{var}", function=q, kind="formula", line=fi.node.lineno, status=status, backend="sympy",
                            time=round(time.time() - t1, 3), solver_output="; ".join(bad)[:2000]))
    return out


if __name__ == "__main__":
    import os
    for o in obligations(Index(os.environ.get("PYTTB_REPO", "/repo"))):
        print(o["status"], o["name"], o["solver_output"][:300])
