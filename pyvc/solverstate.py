"""State obligations for the GCP solver classes (C13: "a solver object can be used for several solves, each depending only
on its arguments and the random stream, not on earlier solves"), decided on the real ASTs.

For every concrete stochastic solver class the *mutable state* is the set of attributes `self.X` written by any method
other than `__init__` / `reset` (update_step, set_failed_epoch, solve; the method resolution chain is followed).  The
obligations are:

  reset-restores(X)     `reset()` (with the `super().reset()` chain) assigns X, and the assigned expression is, as a
                        syntax tree, the one `__init__` assigns -- so after reset() the state is that of a new object;
  solve-resets-first    `StochasticSolver.solve` calls `self.reset()` as a statement of its own before the first loop and
                        before any other use of the mutable state;

With the proved epoch-loop contract (every path of solve starts from the reset state) this gives the reuse clause for the
stochastic solvers.  L-BFGS-B is not covered here: its solve() registers a monitor in the option dictionary of the object
and restores the caller's callback afterwards (a write that is undone, which this syntactic check cannot express); its
reuse is checked by the bounded stand-in c13.solvers.
"""

from __future__ import annotations

import ast
import os
import time

MOD = "pyttb/gcp/optimizers.py"
PREFIX = "pyttb.gcp.optimizers."


def _self_writes(fn: ast.FunctionDef):
    """{attr: [value-or-None, ...]} for statements that (re)bind or update self.attr in fn."""
    out = {}
    for n in ast.walk(fn):
        tgts, val = [], None
        if isinstance(n, ast.Assign):
            tgts, val = n.targets, n.value
        elif isinstance(n, ast.AnnAssign) and n.value is not None:
            tgts, val = [n.target], n.value
        elif isinstance(n, ast.AugAssign):
            tgts, val = [n.target], None
        for t in tgts:
            for x in ([t] if not isinstance(t, (ast.Tuple, ast.List)) else t.elts):
                base = x
                while isinstance(base, ast.Subscript):
                    base = base.value
                if isinstance(base, ast.Attribute) and isinstance(base.value, ast.Name) and base.value.id == "self":
                    direct = base is x
                    out.setdefault(base.attr, []).append(val if (direct and not isinstance(n, ast.AugAssign)) else None)
        if isinstance(n, ast.Call) and isinstance(n.func, ast.Attribute) and n.func.attr in ("append", "extend", "clear", "pop", "insert", "fill", "sort"):
            b = n.func.value
            if isinstance(b, ast.Attribute) and isinstance(b.value, ast.Name) and b.value.id == "self":
                out.setdefault(b.attr, []).append(None)
    return out


def obligations(index):
    t0 = time.time()
    tree = ast.parse(open(os.path.join(index.repo, MOD)).read())
    classes = {c.name: c for c in tree.body if isinstance(c, ast.ClassDef)}
    out = []

    def add(q, label, ok, why, line=None):
        out.append(dict(name=f"{q}#state:{label}", function=q, kind="state", line=line, backend="ast",
                        status="discharged" if ok else "refuted", time=0.0, solver_output="" if ok else why))

    def mro(name):
        chain = []
        while name in classes:
            chain.append(classes[name])
            bases = [b.id for b in classes[name].bases if isinstance(b, ast.Name)]
            name = next((b for b in bases if b in classes), None)
        return chain

    def method(cls, name):
        return next((f for f in cls.body if isinstance(f, ast.FunctionDef) and f.name == name), None)

    def calls_super(fn, name):
        return any(isinstance(n, ast.Call) and isinstance(n.func, ast.Attribute) and n.func.attr == name and isinstance(n.func.value, ast.Call)
                   and isinstance(n.func.value.func, ast.Name) and n.func.value.func.id == "super" for n in ast.walk(fn))

    def chain_writes(chain, name):
        """writes of method `name` along the chain, following super().name() calls"""
        w = {}
        for c in chain:
            f = method(c, name)
            if f is None:
                continue
            for k, v in _self_writes(f).items():
                w.setdefault(k, []).extend(v)
            if not calls_super(f, name):
                break
        return w

    solvers = [n for n, c in classes.items() if any(isinstance(b, ast.Name) and b.id == "StochasticSolver" for b in c.bases)]
    if not solvers:
        add(PREFIX + "StochasticSolver", "solver-classes-found", False, "no subclass of StochasticSolver found")
    for name in solvers:
        chain = mro(name)
        q = PREFIX + name
        mutable = set()
        for c in chain:
            for f in c.body:
                if isinstance(f, ast.FunctionDef) and f.name not in ("__init__", "reset"):
                    mutable |= set(_self_writes(f))
        init_w, reset_w = chain_writes(chain, "__init__"), chain_writes(chain, "reset")
        for a in sorted(mutable):
            iv = [v for v in init_w.get(a, []) if v is not None]
            rv = [v for v in reset_w.get(a, []) if v is not None]
            if not iv:
                add(q, f"reset-restores({a})", False, f"self.{a} is changed by a method but not initialised by a plain assignment in __init__")
            elif not rv:
                add(q, f"reset-restores({a})", False, f"self.{a} is changed by a method but reset() does not assign it: the value of an earlier solve survives")
            else:
                same = ast.dump(iv[-1]) == ast.dump(rv[-1])
                add(q, f"reset-restores({a})", same, f"reset() sets self.{a} = {ast.unparse(rv[-1])} but __init__ sets {ast.unparse(iv[-1])}", rv[-1].lineno)
        add(q, "has-mutable-state-listed", True, "", chain[0].lineno)
    # solve() resets first
    base = classes.get("StochasticSolver")
    f = method(base, "solve") if base else None
    q = PREFIX + "StochasticSolver.solve"
    if f is None:
        add(q, "solve-resets-first", False, "StochasticSolver.solve not found")
    else:
        all_mut = set()
        for name in solvers:
            for c in mro(name):
                for g in c.body:
                    if isinstance(g, ast.FunctionDef) and g.name not in ("__init__", "reset"):
                        all_mut |= set(_self_writes(g))
        ok, why = False, "no statement `self.reset()` before the first loop of solve()"
        for st in f.body:
            if isinstance(st, (ast.For, ast.While)):
                break
            if isinstance(st, ast.Expr) and isinstance(st.value, ast.Call) and ast.unparse(st.value.func) == "self.reset":
                ok = True
                break
            used = sorted({n.attr for n in ast.walk(st) if isinstance(n, ast.Attribute) and isinstance(n.value, ast.Name) and n.value.id == "self" and n.attr in all_mut})
            calls = [ast.unparse(n.func) for n in ast.walk(st) if isinstance(n, ast.Call) and ast.unparse(n.func).startswith("self.") and ast.unparse(n.func) != "self.reset"]
            if used or calls:
                why = f"L{st.lineno}: uses {used or calls} before self.reset()"
                break
        add(q, "solve-resets-first", ok, why, f.lineno)
    dt = time.time() - t0
    for o in out:
        o["time"] = round(dt / max(1, len(out)), 4)
    return out


if __name__ == "__main__":
    from .extract import Index
    for o in obligations(Index(os.environ.get("PYTTB_REPO", "/repo"))):
        print(o["status"], o["name"], o["solver_output"][:200])
