"""pyvc: contract-based verification-condition generator for pyttb.

Reads the real function bodies from /repo via ``ast`` on every run, executes
them symbolically against a symbolic NumPy (npsym), and emits per-path proof
obligations for z3 / cvc5.  See /verif/DESIGN.md section 2.
"""
