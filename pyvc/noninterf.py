"""Non-interference of printing / verbosity options (C18), as static obligations over the real ASTs.

For every function of the decomposition algorithms that receives a verbosity option the obligations are

  flow      verbosity values (the option and everything computed from it) are used only in `if` tests, as
            arguments of print / logging calls, as the verbosity argument of a callee, or echoed under their own
            name in the returned parameter record;
  control   no statement controlled by a verbosity test alters control flow (break / continue / return / raise);
  frame     statements controlled by a verbosity test are print / logging calls or assignments to local names;
            they write no array element, attribute or container, and call nothing whose ownership summary
            (pyvc.own) says it mutates an argument or its receiver;
  locals    a local name assigned under a verbosity test is never read outside such tests (so the assignment
            cannot reach the result), except for the listed, justified exemptions;
  entropy   random numbers come only from the global NumPy stream (np.random.<draw>), never from a
            separately seeded generator, the `random` module or the clock.

This is a conservative syntactic analysis: a failed obligation is a *may*-interference; the dynamic stand-in
(c18.presentation: same run with different printing options) is the confirmation.  It does not address the
other clauses of C18 (dense vs sparse, scaling, relabelling).
"""

from __future__ import annotations

import ast
from typing import Dict, List, Set

from .extract import Index

VERBOSITY_PARAMS = {"printitn", "printinneritn", "verbosity", "disp_warn", "dispLineWarn", "display_warning"}
VERBOSITY_ATTRS = {"_printitn"}
MODULES = ("pyttb.cp_als", "pyttb.cp_apr", "pyttb.hosvd", "pyttb.tucker_als", "pyttb.gcp_opt", "pyttb.gcp.optimizers")
#: modules whose random draws feed the algorithms (samplers, generators, initial guesses): entropy clause only
ENTROPY_MODULES = MODULES + ("pyttb.gcp.samplers", "pyttb.gcp.fg_setup", "pyttb.gcp.fg_est", "pyttb.gcp.fg", "pyttb.sptensor", "pyttb.tensor",
                             "pyttb.ktensor", "pyttb.ttensor", "pyttb.pyttb_utils")
PRINT_CALLS = {"print"}
PRINT_ROOTS = {"logging", "warnings"}
PURE_FUNCS = {"divmod", "len", "sum", "float", "int", "str", "abs", "min", "max", "round", "repr", "format", "range"}
#: (qualname, local) -> why a value assigned under a verbosity test may be read afterwards
#: (qualname, container) -> why a write into it under a verbosity test is accepted
FRAME_EXEMPT = {
    ("pyttb.cp_apr.tt_cp_apr_pdnr", "fnVals"): "diagnostic trace of the objective in the info record, evaluated only when an iteration is printed; not part of the model (C18 speaks of the model)",
    ("pyttb.cp_apr.tt_cp_apr_pqnr", "fnVals"): "same diagnostic trace",
}
LOCAL_EXEMPT = {
    ("pyttb.cp_als.cp_als", "normresidual"): "cp_als recomputes the reported residual with innerprod when printing; equal to the loop's value up to rounding, which C18 allows ('up to rounding'); the formula itself is a C09 clause",
    ("pyttb.cp_als.cp_als", "fit"): "same recomputation as normresidual",
}


def _names(e) -> Set[str]:
    return {n.id for n in ast.walk(e) if isinstance(n, ast.Name)}


def _attrs(e) -> Set[str]:
    return {n.attr for n in ast.walk(e) if isinstance(n, ast.Attribute)}


class _Fn:
    def __init__(self, fi, an):
        self.fi = fi
        self.node = fi.node
        self.an = an
        self.qual = fi.qualname
        params = [a.arg for a in self.node.args.args + self.node.args.kwonlyargs]
        self.tainted: Set[str] = {p for p in params if p in VERBOSITY_PARAMS}
        self.uses_attr = any(isinstance(n, ast.Attribute) and n.attr in VERBOSITY_ATTRS for n in ast.walk(self.node))
        self.viol: Dict[str, List[str]] = {k: [] for k in ("flow", "control", "frame", "locals", "entropy")}
        self.print_written: Dict[str, int] = {}

    def relevant(self):
        return bool(self.tainted) or self.uses_attr

    def is_tainted_expr(self, e):
        if _names(e) & self.tainted:
            return True
        return any(isinstance(n, ast.Attribute) and n.attr in VERBOSITY_ATTRS for n in ast.walk(e))

    def is_verbosity_test(self, test):
        """A test that reads a verbosity value other than for type validation (isinstance)."""
        if not self.is_tainted_expr(test):
            return False
        inside = set()
        for n in ast.walk(test):
            if isinstance(n, ast.Call) and isinstance(n.func, ast.Name) and n.func.id == "isinstance":
                inside |= {id(x) for x in ast.walk(n)}
        for n in ast.walk(test):
            bad = (isinstance(n, ast.Name) and n.id in self.tainted) or (isinstance(n, ast.Attribute) and n.attr in VERBOSITY_ATTRS)
            if bad and id(n) not in inside:
                return True
        return False

    # ---- taint propagation through plain assignments (fixpoint)
    def propagate(self):
        changed = True
        while changed:
            changed = False
            for n in ast.walk(self.node):
                if isinstance(n, ast.Assign) and len(n.targets) == 1 and isinstance(n.targets[0], ast.Name):
                    if n.targets[0].id not in self.tainted and not isinstance(n.value, (ast.Dict, ast.Tuple, ast.List)) and self._disallowed_uses(n.value, n):
                        # only a value *computed from* the option is a verbosity value (e.g. dispLineWarn = printinneritn > 0)
                        self.tainted.add(n.targets[0].id)
                        changed = True

    # ---- calls
    def _is_print_call(self, c: ast.Call):
        f = c.func
        if isinstance(f, ast.Name) and f.id in PRINT_CALLS:
            return True
        root = f
        while isinstance(root, ast.Attribute):
            root = root.value
        return isinstance(root, ast.Name) and root.id in PRINT_ROOTS

    def _mutating_call(self, c: ast.Call):
        """Name of a callee that may mutate an operand according to pyvc.own, else None."""
        f = c.func
        name = f.id if isinstance(f, ast.Name) else (f.attr if isinstance(f, ast.Attribute) else None)
        if name is None or name in PURE_FUNCS or self._is_print_call(c):
            return None
        if isinstance(f, ast.Attribute):
            root = f
            while isinstance(root, ast.Attribute):
                root = root.value
            if isinstance(root, ast.Name) and root.id in ("np", "time", "math"):
                from .own import NP_WRITE_FIRST_ARG
                return f"np.{name}" if name in NP_WRITE_FIRST_ARG else None
            from .own import ARR_METHOD_WRITE, LIST_WRITE
            if name in ARR_METHOD_WRITE or name in LIST_WRITE:
                return "." + name
        for q in self.an.by_name.get(name, []):
            s = self.an.summaries.get(q)
            if s is not None and s.mutates:
                return q
        return None

    # ---- the walk
    def walk(self, stmts, in_print):
        for s in stmts:
            if isinstance(s, ast.If):
                t = self.is_verbosity_test(s.test)
                self.walk(s.body, in_print or t)
                self.walk(s.orelse, in_print or t)
                if not t:
                    self._check_flow(s.test, s)
                continue
            if isinstance(s, (ast.For, ast.While)):
                if isinstance(s, ast.While) and self.is_tainted_expr(s.test):
                    self.viol["control"].append(f"L{s.lineno}: loop condition depends on a verbosity value")
                self._check_flow(s.iter if isinstance(s, ast.For) else s.test, s)
                self.walk(s.body, in_print)
                self.walk(s.orelse, in_print)
                continue
            if isinstance(s, (ast.With, ast.Try)):
                for blk in ([s.body] + ([h.body for h in s.handlers] + [s.orelse, s.finalbody] if isinstance(s, ast.Try) else [])):
                    self.walk(blk, in_print)
                continue
            if isinstance(s, (ast.FunctionDef, ast.ClassDef)):
                continue
            if in_print:
                self._check_print_stmt(s)
            else:
                self._check_flow_stmt(s)

    def _check_print_stmt(self, s):
        if isinstance(s, (ast.Break, ast.Continue, ast.Return, ast.Raise)):
            self.viol["control"].append(f"L{s.lineno}: {type(s).__name__.lower()} under a verbosity test")
            return
        if isinstance(s, ast.Assert):
            self.viol["control"].append(f"L{s.lineno}: assert under a verbosity test")
            return
        if isinstance(s, ast.Expr) and isinstance(s.value, ast.Call) and self._is_print_call(s.value):
            pass
        elif isinstance(s, ast.Expr) and isinstance(s.value, ast.Constant):
            return
        elif isinstance(s, (ast.Assign, ast.AugAssign, ast.AnnAssign)):
            targets = s.targets if isinstance(s, ast.Assign) else [s.target]
            for t in targets:
                for el in (t.elts if isinstance(t, (ast.Tuple, ast.List)) else [t]):
                    if isinstance(el, ast.Name):
                        self.print_written.setdefault(el.id, s.lineno)
                    elif isinstance(el, ast.Subscript) and isinstance(el.value, ast.Name) and (self.qual, el.value.id) in FRAME_EXEMPT:
                        pass
                    else:
                        self.viol["frame"].append(f"L{s.lineno}: writes {ast.unparse(el)} under a verbosity test")
        elif isinstance(s, ast.Pass):
            return
        else:
            self.viol["frame"].append(f"L{s.lineno}: statement `{ast.unparse(s)[:60]}` under a verbosity test is neither a print nor a local assignment")
        for c in [n for n in ast.walk(s) if isinstance(n, ast.Call)]:
            m = self._mutating_call(c)
            if m:
                self.viol["frame"].append(f"L{s.lineno}: call of {m} (may mutate an operand) under a verbosity test")

    # ---- where may a verbosity value be used outside printing branches?
    def _check_flow_stmt(self, s):
        if isinstance(s, ast.Assign) and len(s.targets) == 1 and isinstance(s.targets[0], ast.Name) and s.targets[0].id in self.tainted:
            return  # definition of a derived verbosity value
        self._check_flow(s, s)

    def _check_flow(self, e, s):
        for n in self._disallowed_uses(e, s):
            self.viol["flow"].append(f"L{getattr(n, 'lineno', '?')}: verbosity value `{ast.unparse(n)}` used in `{ast.unparse(s)[:70]}`")

    def _disallowed_uses(self, e, s):
        if e is None or not self.is_tainted_expr(e):
            return []
        if (isinstance(s, ast.Assign) and len(s.targets) == 1 and isinstance(s.targets[0], ast.Attribute) and s.targets[0].attr in VERBOSITY_ATTRS
                and isinstance(s.value, ast.Name)):
            return []  # self._printitn = printitn
        allowed = set()
        for n in ast.walk(e):
            if isinstance(n, ast.Call):
                if self._is_print_call(n):
                    allowed |= {id(x) for x in ast.walk(n)}
                    continue
                # verbosity passed on to a callee as its verbosity option (keyword of the same kind, or positional
                # to one of the analysed algorithms)
                for kw in n.keywords:
                    if kw.arg in VERBOSITY_PARAMS or kw.arg in ("printitn", "iprint", "disp"):
                        allowed |= {id(x) for x in ast.walk(kw.value)}
                fname = n.func.id if isinstance(n.func, ast.Name) else (n.func.attr if isinstance(n.func, ast.Attribute) else "")
                cands = self.an.by_name.get(fname, [])
                for q in cands:
                    fi = self.an.index.get(q)
                    if fi is None:
                        continue
                    ps = [a.arg for a in fi.node.args.args]
                    if fi.kind in ("method",):
                        ps = ps[1:]
                    for k, a in enumerate(n.args):
                        if k < len(ps) and ps[k] in VERBOSITY_PARAMS:
                            allowed |= {id(x) for x in ast.walk(a)}
            if isinstance(n, ast.Dict):
                for k, v in zip(n.keys, n.values):
                    if isinstance(k, ast.Constant) and isinstance(v, ast.Name) and k.value == v.id:
                        allowed.add(id(v))
                    if isinstance(k, ast.Constant) and k.value == "params":
                        allowed |= {id(x) for x in ast.walk(v)}  # echo of the options in the info record
            if isinstance(n, ast.Tuple) and isinstance(s, ast.Assign) is False:
                pass
            if isinstance(n, ast.Call) and isinstance(n.func, ast.Name) and n.func.id == "isinstance":
                allowed |= {id(x) for x in ast.walk(n)}
            if isinstance(n, ast.JoinedStr):
                allowed |= {id(x) for x in ast.walk(n)}
        out = []
        for n in ast.walk(e):
            bad = (isinstance(n, ast.Name) and n.id in self.tainted) or (isinstance(n, ast.Attribute) and n.attr in VERBOSITY_ATTRS)
            if bad and id(n) not in allowed:
                if isinstance(n, ast.Attribute) and isinstance(getattr(n, "ctx", None), ast.Store):
                    continue
                out.append(n)
        return out

    def check_locals(self):
        """Names written under a verbosity test must not be read elsewhere."""
        if not self.print_written:
            return
        # collect reads outside tainted regions
        reads: Dict[str, int] = {}

        def visit(stmts, in_print):
            for s in stmts:
                if isinstance(s, ast.If):
                    t = self.is_verbosity_test(s.test)
                    if not (in_print or t):
                        note(s.test)
                    visit(s.body, in_print or t)
                    visit(s.orelse, in_print or t)
                elif isinstance(s, (ast.For, ast.While)):
                    if not in_print:
                        note(s.iter if isinstance(s, ast.For) else s.test)
                    visit(s.body, in_print)
                    visit(s.orelse, in_print)
                elif isinstance(s, (ast.With, ast.Try)):
                    for blk in ([s.body] + ([h.body for h in s.handlers] + [s.orelse, s.finalbody] if isinstance(s, ast.Try) else [])):
                        visit(blk, in_print)
                elif isinstance(s, (ast.FunctionDef, ast.ClassDef)):
                    continue
                elif not in_print:
                    note(s)

        def note(e):
            for n in ast.walk(e):
                if isinstance(n, ast.Name) and isinstance(n.ctx, ast.Load) and n.id in self.print_written:
                    reads.setdefault(n.id, getattr(n, "lineno", 0))

        visit(self.node.body, False)
        # a name that is ALSO assigned outside printing branches before any read is an ordinary local that the
        # printing branch overwrites: still an interference unless exempt
        for name, line in reads.items():
            if (self.qual, name) in LOCAL_EXEMPT:
                continue
            self.viol["locals"].append(f"`{name}` is assigned under a verbosity test (L{self.print_written[name]}) and read outside one (L{line})")

    def check_entropy(self):
        for n in ast.walk(self.node):
            if isinstance(n, ast.Call):
                src = ast.unparse(n.func)
                if any(b in src for b in ("default_rng", "RandomState", "SeedSequence", "Generator(")) or src.startswith("random.") or src in ("os.urandom", "uuid.uuid4", "secrets.token_bytes"):
                    self.viol["entropy"].append(f"L{n.lineno}: `{src}` is not the global NumPy stream")
                if src in ("np.random.seed",):
                    self.viol["entropy"].append(f"L{n.lineno}: re-seeds the global stream")


CLAUSES = {
    "flow": "verbosity-values-reach-only-tests-prints-and-callee-verbosity-options",
    "control": "printing-branches-do-not-alter-control-flow",
    "frame": "printing-branches-write-nothing-but-locals-and-call-nothing-that-mutates",
    "locals": "locals-assigned-while-printing-are-not-read-elsewhere",
    "entropy": "random-draws-come-only-from-the-global-numpy-stream",
}


def obligations(index: Index):
    import time as _t
    from .own import Analyzer
    t0 = _t.time()
    an = Analyzer(index)
    an.run()
    out = []
    n_fn = 0
    for q, fi in sorted(index.funcs.items()):
        if not any(q.startswith(m + ".") for m in ENTROPY_MODULES):
            continue
        f = _Fn(fi, an)
        if not any(q.startswith(m + ".") for m in MODULES):
            # outside the algorithm modules only the entropy clause applies, and only where something is drawn
            f.check_entropy()
            src = ast.unparse(fi.node)
            if "random" in src or f.viol["entropy"]:
                v = f.viol["entropy"]
                out.append(dict(name=f"{q}#noninterference:{CLAUSES['entropy']}", function=q, kind="noninterference", line=fi.node.lineno,
                                status="discharged" if not v else "refuted", backend="ast-dataflow(pyvc.noninterf)", time=0.0, solver_output="; ".join(v)[:3000]))
            continue
        f.propagate()
        if f.relevant():
            f.walk(f.node.body, False)
            f.check_locals()
        f.check_entropy()
        if not f.relevant() and not f.viol["entropy"]:
            kinds = ["entropy"]
        else:
            kinds = list(CLAUSES) if f.relevant() else ["entropy"]
        n_fn += 1
        for k in kinds:
            v = f.viol[k]
            out.append(dict(
                name=f"{q}#noninterference:{CLAUSES[k]}", function=q, kind="noninterference", line=fi.node.lineno,
                status="discharged" if not v else "refuted", backend="ast-dataflow(pyvc.noninterf)", time=0.0,
                solver_output="; ".join(v)[:3000],
            ))
    dt = _t.time() - t0
    for o in out:
        o["time"] = round(dt / max(1, len(out)), 4)
    return out


def entropy_obligations(index: Index):
    """Only the random-source clause, for the GCP modules (C13)."""
    return [o for o in obligations(index) if o["name"].endswith(CLAUSES["entropy"]) and ".gcp" in o["function"]]


def exemption_notes():
    return [f"non-interference exemption: {q}.{n} -- {why}" for (q, n), why in list(LOCAL_EXEMPT.items()) + list(FRAME_EXEMPT.items())] + [
        "non-interference analysis is syntactic: a verbosity value is the option itself or a local computed from it; "
        "calls are judged by the ownership summaries of pyvc.own; values stored into objects (self._printitn) are tracked by attribute name only"]


if __name__ == "__main__":
    import os
    idx = Index(os.environ.get("PYTTB_REPO", "/repo"))
    obs = obligations(idx)
    bad = [o for o in obs if o["status"] != "discharged"]
    print(len(obs), "obligations;", len(bad), "refuted")
    for o in bad:
        print(o["name"], "\n    ", o["solver_output"][:600])
