"""sympy back end for C12: the gradient handle of every GCP loss is the derivative of its
function handle.  Both bodies are read from the real AST of pyttb/gcp/handles.py on every
run and translated expression by expression (np.log/exp/abs/sign/pi, **, the EPS constant,
boolean masks used as 0/1 factors).  Piecewise losses (Huber) are decided region by region."""

from __future__ import annotations

import ast
import time

import sympy as sp

from .extract import Index


class Untranslatable(Exception):
    pass


class Tr:
    def __init__(self, env, region=None):
        self.env = dict(env)
        self.region = region

    def run(self, fdef: ast.FunctionDef):
        for st in fdef.body:
            if isinstance(st, ast.Expr) and isinstance(st.value, ast.Constant):
                continue
            if isinstance(st, ast.Assign) and len(st.targets) == 1 and isinstance(st.targets[0], ast.Name):
                self.env[st.targets[0].id] = self.ev(st.value)
            elif isinstance(st, ast.Return):
                return self.ev(st.value)
            else:
                raise Untranslatable(type(st).__name__)
        raise Untranslatable("no return")

    def ev(self, n):
        if isinstance(n, ast.Constant):
            if isinstance(n.value, (int, float)):
                return sp.nsimplify(n.value) if isinstance(n.value, int) else sp.Float(n.value) if False else sp.Rational(str(n.value))
            raise Untranslatable(repr(n.value))
        if isinstance(n, ast.Name):
            if n.id in self.env:
                return self.env[n.id]
            raise Untranslatable(f"name {n.id}")
        if isinstance(n, ast.BinOp):
            a, b = self.ev(n.left), self.ev(n.right)
            op = type(n.op).__name__
            if op == "Add":
                return a + b
            if op == "Sub":
                return a - b
            if op == "Mult":
                return a * b
            if op == "Div":
                return a / b
            if op == "Pow":
                return a ** b
            raise Untranslatable(op)
        if isinstance(n, ast.UnaryOp):
            v = self.ev(n.operand)
            if isinstance(n.op, ast.USub):
                return -v
            if isinstance(n.op, ast.UAdd):
                return v
            raise Untranslatable("unary")
        if isinstance(n, ast.Attribute) and isinstance(n.value, ast.Name) and n.value.id == "np":
            if n.attr == "pi":
                return sp.pi
            raise Untranslatable(f"np.{n.attr}")
        if isinstance(n, ast.Compare) and len(n.ops) == 1:
            # a mask: its value is fixed by the region under analysis
            key = ast.unparse(n)
            if self.region is None or key not in self.region:
                raise Untranslatable(f"comparison {key} outside a declared region")
            return sp.Integer(1 if self.region[key] else 0)
        if isinstance(n, ast.Call):
            f = n.func
            name = None
            if isinstance(f, ast.Attribute) and isinstance(f.value, ast.Name) and f.value.id == "np":
                name = f.attr
            args = [self.ev(a) for a in n.args]
            if name == "log":
                return sp.log(args[0])
            if name == "exp":
                return sp.exp(args[0])
            if name in ("abs", "absolute", "fabs"):
                return sp.Abs(args[0])
            if name == "sign":
                return sp.sign(args[0])
            if name == "sqrt":
                return sp.sqrt(args[0])
            if name == "logical_not":
                return 1 - args[0]
            if name == "log1p":
                return sp.log(1 + args[0])
            if name == "maximum":
                return sp.Max(*args)
            raise Untranslatable(f"call {ast.unparse(f)}")
        raise Untranslatable(type(n).__name__)


LOSSES = {
    # name: (extra parameter, domain note)
    "gaussian": (None, "model real"),
    "bernoulli_odds": (None, "model >= 0"),
    "bernoulli_logit": (None, "model real"),
    "poisson": (None, "model >= 0"),
    "poisson_log": (None, "model real"),
    "rayleigh": (None, "model >= 0"),
    "gamma": (None, "model >= 0"),
    "huber": ("threshold", "model real, threshold > 0; three regions of data - model"),
    "negative_binomial": ("num_trials", "model >= 0"),
    "beta": ("b", "model >= 0"),
}


def _module_consts(index: Index, mod="pyttb.gcp.handles"):
    src = index.sources.get(mod, "")
    tree = ast.parse(src)
    out = {}
    for n in tree.body:
        if isinstance(n, ast.Assign) and len(n.targets) == 1 and isinstance(n.targets[0], ast.Name) and isinstance(n.value, ast.Constant) and isinstance(n.value.value, (int, float)):
            out[n.targets[0].id] = n.value.value
    return out


def derivative_obligations(index: Index):
    """One obligation per (loss, region): d f / d model - g == 0 after simplification."""
    out = []
    consts = _module_consts(index)
    for loss, (param, dom) in LOSSES.items():
        fi = index.get(f"pyttb.gcp.handles.{loss}")
        gi = index.get(f"pyttb.gcp.handles.{loss}_grad")
        name = f"pyttb.gcp.handles.{loss}#derivative"
        if fi is None or gi is None:
            out.append(dict(name=name, kind="ensures", status="missing", backend="sympy", time=0.0, line=None, function=f"pyttb.gcp.handles.{loss}"))
            continue
        t0 = time.time()
        d = sp.Symbol("data", real=True)
        eps = sp.Symbol("EPS", positive=True)
        regions = [("all", None, {})]
        if loss == "huber":
            # t = data - model; A: |t| < theta, B: t >= theta, C: t <= -theta
            regions = [("|x-m|<theta", "A", None), ("x-m>=theta", "B", None), ("x-m<=-theta", "C", None)]
        for rname, rkey, _ in regions:
            oname = name + (f"[{rname}]" if rkey else "")
            try:
                env = {"EPS": eps}
                for k in consts:
                    if k != "EPS":
                        env[k] = sp.Rational(str(consts[k]))
                if loss in ("bernoulli_odds", "poisson", "rayleigh", "gamma", "negative_binomial", "beta"):
                    m = sp.Symbol("model", nonnegative=True)
                else:
                    m = sp.Symbol("model", real=True)
                env["data"], env["model"] = d, m
                subs_back = {}
                region = None
                if param:
                    env[param] = sp.Symbol(param, positive=True)
                if loss == "huber":
                    th = env[param]
                    s = sp.Symbol("s", positive=True)
                    # parametrise data = model + t with the sign/size of t fixed by the region
                    if rkey == "A":
                        t = sp.Symbol("t", real=True)
                        region_flag = True
                    elif rkey == "B":
                        t = th + s
                        region_flag = False
                    else:
                        t = -(th + s)
                        region_flag = False
                    env["data"] = m + t
                    region = {"abs_diff < threshold": region_flag}
                    # differentiate w.r.t. model with data fixed: model appears as data - t
                f = Tr(env, region).run(fi.node)
                g = Tr(env, region).run(gi.node)
                if loss == "huber":
                    # f depends on (data - model) only: write x = data - model = t, df/dmodel = -df/dt
                    tt = sp.Symbol("tt", real=True)
                    if rkey == "A":
                        fsub = f.subs(t, tt)
                        gsub = g.subs(t, tt)
                        resid = sp.simplify(-sp.diff(fsub, tt) - gsub)
                        # Abs(tt)**2 = tt**2 for real tt
                        resid = sp.simplify(resid.rewrite(sp.Piecewise)) if resid != 0 else resid
                        resid = sp.simplify(resid.subs(sp.Abs(tt) ** 2, tt ** 2))
                    else:
                        ss = s
                        sign = 1 if rkey == "B" else -1
                        # t = sign*(th+s): d/dmodel = -d/dt = -sign * d/ds
                        resid = sp.simplify(-sign * sp.diff(f, ss) - g)
                else:
                    resid = sp.simplify(sp.diff(f, m) - g)
                ok = resid == 0
                out.append(dict(name=oname, kind="ensures", status="discharged" if ok else "refuted", backend="sympy", time=round(time.time() - t0, 3),
                                line=gi.lines[0], function=f"pyttb.gcp.handles.{loss}_grad",
                                solver_output="" if ok else f"d/dmodel {loss} - {loss}_grad simplifies to {resid} (domain: {dom})"))
            except Untranslatable as e:
                out.append(dict(name=oname, kind="ensures", status="unsupported", backend="sympy", time=round(time.time() - t0, 3), line=None,
                                function=f"pyttb.gcp.handles.{loss}", solver_output=f"untranslatable construct: {e}"))
            except Exception as e:  # pragma: no cover
                out.append(dict(name=oname, kind="ensures", status="error", backend="sympy", time=round(time.time() - t0, 3), line=None,
                                function=f"pyttb.gcp.handles.{loss}", solver_output=f"{type(e).__name__}: {e}"))
    return out


def setup_pairing_obligations(index: Index):
    """fg_setup.setup: every objective branch selects the loss and ITS OWN gradient, passes the
    same extra parameter to both, and returns the lower bound of the loss's domain."""
    fi = index.get("pyttb.gcp.fg_setup.setup")
    out = []
    if fi is None:
        return [dict(name="pyttb.gcp.fg_setup.setup#pairing", kind="ensures", status="missing", backend="ast", time=0.0, line=None, function="pyttb.gcp.fg_setup.setup")]
    expected_lb = {"GAUSSIAN": "-inf", "BERNOULLI_ODDS": "0", "BERNOULLI_LOGIT": "-inf", "POISSON": "0", "POISSON_LOG": "-inf",
                   "RAYLEIGH": "0", "GAMMA": "0", "HUBER": "-inf", "NEGATIVE_BINOMIAL": "0", "BETA": "0"}

    def handle_name(v):
        # handles.f  or  partial(handles.f, p=additional_parameter)
        if isinstance(v, ast.Attribute):
            return v.attr, None
        if isinstance(v, ast.Call) and getattr(v.func, "id", None) == "partial" and v.args and isinstance(v.args[0], ast.Attribute):
            kws = tuple((k.arg, ast.unparse(k.value)) for k in v.keywords)
            return v.args[0].attr, kws
        return None, None

    seen = set()
    node = None
    for st in ast.walk(fi.node):
        if isinstance(st, ast.If):
            t = st.test
            if isinstance(t, ast.Compare) and isinstance(t.comparators[0], ast.Attribute) and getattr(t.comparators[0].value, "id", None) == "Objectives":
                obj = t.comparators[0].attr
                vals = {}
                for b in st.body:
                    if isinstance(b, ast.Assign) and isinstance(b.targets[0], ast.Name):
                        vals[b.targets[0].id] = b.value
                fname, fk = handle_name(vals.get("function_handle"))
                gname, gk = handle_name(vals.get("gradient_handle"))
                lb = vals.get("lower_bound")
                lbs = ast.unparse(lb) if lb is not None else None
                lbn = {"-np.inf": "-inf", "0.0": "0", "0": "0"}.get(lbs, lbs)
                ok = fname is not None and fname == obj.lower() and gname == fname + "_grad" and (fk is None) == (gk is None) and (fk is None or fk[0][1] == gk[0][1]) and lbn == expected_lb.get(obj)
                seen.add(obj)
                out.append(dict(name=f"pyttb.gcp.fg_setup.setup#pairing[{obj}]", kind="ensures", status="discharged" if ok else "refuted", backend="ast", time=0.0,
                                line=st.lineno, function="pyttb.gcp.fg_setup.setup",
                                solver_output="" if ok else f"objective {obj}: function {fname}{fk}, gradient {gname}{gk}, lower bound {lbs}"))
    for obj in expected_lb:
        if obj not in seen:
            out.append(dict(name=f"pyttb.gcp.fg_setup.setup#pairing[{obj}]", kind="ensures", status="refuted", backend="ast", time=0.0, line=None,
                            function="pyttb.gcp.fg_setup.setup", solver_output=f"no branch for objective {obj}"))
    return out
