"""Forward symbolic executor over the real pyttb ASTs (DESIGN.md section 2.1/2.2)."""

from __future__ import annotations

import ast
import operator
from typing import Any, Dict, List, Optional

import z3

from . import npsym as N
from . import terms as T
from .ctx import Ctx, PathAbort, PathEnd, PyRaise
from .extract import Index, strip_docstring
from .values import Arr, FuncVal, HeapList, Opaque, Rec, SymList, cast_elem, join_dtype


class _Return(Exception):
    def __init__(self, value):
        self.value = value


class _Break(Exception):
    pass


class _Continue(Exception):
    pass


class TypeRef:
    def __init__(self, name):
        self.name = name

    def __repr__(self):
        return f"<type {self.name}>"


class ClassRef:
    def __init__(self, name):
        self.name = name

    def __repr__(self):
        return f"<class {self.name}>"


class Marker:
    """np / ttb / sparse ... module objects and their attributes."""

    def __init__(self, path):
        self.path = path

    def __repr__(self):
        return f"<{self.path}>"


class BoundMethod:
    def __init__(self, recv, name):
        self.recv = recv
        self.name = name


class Builtin:
    def __init__(self, name):
        self.name = name


class EnumVal:
    def __init__(self, cls, name):
        self.cls, self.name = cls, name

    def __eq__(self, o):
        return isinstance(o, EnumVal) and (o.cls, o.name) == (self.cls, self.name)

    def __hash__(self):
        return hash((self.cls, self.name))

    def __repr__(self):
        return f"{self.cls}.{self.name}"


PYTTB_CLASSES = ["tensor", "sptensor", "ktensor", "ttensor", "tenmat", "sptenmat", "sumtensor"]
CLASS_MODULE = {c: f"pyttb.{c}" for c in PYTTB_CLASSES}

BUILTIN_NAMES = [
    "len", "isinstance", "range", "int", "float", "bool", "tuple", "list", "max", "min", "sum",
    "all", "any", "enumerate", "zip", "abs", "sorted", "callable", "print", "map", "issubclass",
    "type", "prod", "cast", "get_args", "str", "repr", "set", "reversed", "round", "divmod", "dict",
]

TYPE_NAMES = {
    "int": "int", "float": "float", "bool": "bool", "str": "str", "tuple": "tuple", "list": "list",
    "slice": "slice", "Sequence": "Sequence", "Iterable": "Iterable", "Callable": "Callable",
    "dict": "dict",
}


class Interp:
    def __init__(self, ctx: Ctx, index: Index, contracts=None, inline=None, max_depth=6):
        self.ctx = ctx
        self.index = index
        self.contracts = contracts or {}
        self.inline = inline  # set of qualnames allowed to be inlined (None = any without contract)
        self.depth = 0
        self.max_depth = max_depth
        self.loop_specs = {}
        self.ghost_log: Dict[str, list] = {}
        self.call_log: List[str] = []

    # ================================================================ entry
    def run_function(self, qualname, args: Dict[str, Any], self_val=None):
        fi = self.index.get(qualname)
        if fi is None:
            raise PathAbort(f"missing function {qualname}")
        return self.call_def(fi, [], args, self_val=self_val, top=True)

    def call_def(self, fi, pos, kw, self_val=None, cls_val=None, top=False):
        node = fi.node
        env = {"__module__": fi.module, "__qual__": fi.qualname}
        params = [a.arg for a in node.args.args]
        defaults = node.args.defaults
        pos = list(pos)
        if fi.kind in ("method", "property") and self_val is not None:
            pos = [self_val] + pos
        elif fi.kind == "classmethod":
            pos = [cls_val or ClassRef(fi.cls)] + pos
        if len(pos) > len(params):
            raise PyRaise("TypeError", "too many positional arguments", self.ctx.cur_line)
        for p, v in zip(params, pos):
            env[p] = v
        kw = dict(kw)
        va_named = None
        if top and node.args.vararg and node.args.vararg.arg in kw:
            # the function under verification: the *args tuple is given by name (possibly of symbolic length)
            va_named = kw.pop(node.args.vararg.arg)
        for k, v in kw.items():
            if k in env and k in params[: len(pos)]:
                raise PyRaise("TypeError", f"multiple values for {k}", self.ctx.cur_line)
            if k not in params and not node.args.kwarg:
                kwonly = [a.arg for a in node.args.kwonlyargs]
                if k not in kwonly:
                    raise PyRaise("TypeError", f"unexpected keyword {k}", self.ctx.cur_line)
            env[k] = v
        nd = len(defaults)
        for i, p in enumerate(params):
            if p not in env:
                j = i - (len(params) - nd)
                if j < 0:
                    raise PyRaise("TypeError", f"missing argument {p}", self.ctx.cur_line)
                env[p] = self.eval(defaults[j], env)
        for a, d in zip(node.args.kwonlyargs, node.args.kw_defaults):
            if a.arg not in env:
                if d is None:
                    raise PyRaise("TypeError", f"missing keyword {a.arg}", self.ctx.cur_line)
                env[a.arg] = self.eval(d, env)
        if node.args.vararg:
            env[node.args.vararg.arg] = tuple(pos[len(params):]) if va_named is None else va_named
        self.depth += 1
        saved_line = self.ctx.cur_line
        if self.depth > self.max_depth:
            raise PathAbort("inlining depth exceeded", self.ctx.cur_line)
        try:
            self.exec_block(strip_docstring(node), env)
            ret = None
        except _Return as r:
            ret = r.value
        finally:
            self.depth -= 1
            if not top:
                self.ctx.cur_line = saved_line
            else:
                # final local environment of the function under verification (witness lemmas of a contract may
                # refer to the ghosts of arrays held in named locals)
                self.top_env = env
        return ret

    # ================================================================ statements
    def exec_block(self, stmts, env):
        for s in stmts:
            self.exec_stmt(s, env)

    def exec_stmt(self, s, env):
        if self.depth <= 1:
            self.ctx.cur_line = s.lineno
        m = getattr(self, "st_" + type(s).__name__, None)
        if m is None:
            raise PathAbort(f"unsupported statement {type(s).__name__}", s.lineno)
        m(s, env)

    def st_Expr(self, s, env):
        if isinstance(s.value, ast.Constant):
            return
        self.eval(s.value, env)

    def st_Pass(self, s, env):
        pass

    def st_Return(self, s, env):
        raise _Return(self.eval(s.value, env) if s.value is not None else None)

    def st_Break(self, s, env):
        raise _Break()

    def st_Continue(self, s, env):
        raise _Continue()

    def st_Import(self, s, env):
        pass

    def st_ImportFrom(self, s, env):
        pass

    def st_Raise(self, s, env):
        name = "Exception"
        if s.exc is not None:
            e = s.exc
            if isinstance(e, ast.Call):
                e = e.func
            if isinstance(e, ast.Name):
                name = e.id
            elif isinstance(e, ast.Attribute):
                name = e.attr
        raise PyRaise(name, "", s.lineno)

    def st_Assert(self, s, env):
        c = self.truth(self.eval(s.test, env))
        if not self.ctx.branch(c, "assert"):
            raise PyRaise("AssertionError", "", s.lineno)

    def st_If(self, s, env):
        c = self.truth(self.eval(s.test, env))
        if self.ctx.branch(c, f"if@{s.lineno}"):
            self.exec_block(s.body, env)
        else:
            self.exec_block(s.orelse, env)

    def st_With(self, s, env):
        # np.errstate(...) and similar: body only
        self.ctx.dropped.add("with-statement context managers (np.errstate): body only")
        self.exec_block(s.body, env)

    def st_Assign(self, s, env):
        v = self.eval(s.value, env)
        for t in s.targets:
            self.assign(t, v, env)

    def st_AnnAssign(self, s, env):
        if s.value is not None:
            self.assign(s.target, self.eval(s.value, env), env)

    def st_AugAssign(self, s, env):
        if isinstance(s.target, ast.Subscript):
            # the container and the key are evaluated once (Python semantics)
            obj = self.eval(s.target.value, env)
            key = self.eval_index(s.target.slice, env)
            rhs = self.eval(s.value, env)
            cur = self.subscript(obj, key, s.target)
            new = self.binop(s.op, cur, rhs)
            if isinstance(obj, Arr) and obj.kind == "ndarray":
                N.setitem(self.ctx, obj, key, new)
                self.ctx.writes.append((obj, s.lineno))
                return
            if isinstance(obj, list) and isinstance(key, int):
                obj[key] = new
                return
            if isinstance(obj, dict):
                obj[key] = new
                return
            if isinstance(obj, HeapList) and isinstance(cur, Arr) and getattr(cur, "heap", None) is not None and isinstance(new, Arr):
                # lst[k] op= x on an ndarray element: the element is updated in place (same array object)
                N.setitem(self.ctx, cur, (slice(None), slice(None)), N.snap(new))
                return
            raise PathAbort("augmented assignment to subscript of " + type(obj).__name__, s.lineno)
        cur = self.eval(_load(s.target), env)
        rhs = self.eval(s.value, env)
        if isinstance(cur, Arr) and isinstance(s.target, ast.Name) and cur.kind == "ndarray":
            new = self.binop(s.op, cur, rhs)
            if isinstance(new, Arr):
                # in-place update of the ndarray object (visible through every reference)
                if cur.dtype != new.dtype and join_dtype(cur.dtype, new.dtype) != cur.dtype:
                    raise PyRaise("UFuncTypeError", "cannot cast in-place result", s.lineno)
                cur.fn = new.fn
                cur.version += 1
                self.ctx.writes.append((cur, s.lineno))
                return
        new = self.binop(s.op, cur, rhs)
        self.assign(s.target, new, env)

    def st_FunctionDef(self, s, env):
        env[s.name] = FuncVal(s, env, module=env.get("__module__"))

    def st_Delete(self, s, env):
        for t in s.targets:
            if isinstance(t, ast.Name):
                env.pop(t.id, None)

    def st_Try(self, s, env):
        raise PathAbort("try/except", s.lineno)

    def st_While(self, s, env):
        spec = self.loop_spec(s)
        if spec is None:
            # bounded unrolling only when the guard is decided concretely
            for _ in range(64):
                c = self.truth(self.eval(s.test, env))
                if not isinstance(c, bool):
                    raise PathAbort("while loop without invariant", s.lineno)
                if not c:
                    self.exec_block(s.orelse, env)
                    return
                try:
                    self.exec_block(s.body, env)
                except _Break:
                    return
                except _Continue:
                    continue
            raise PathAbort("while loop: unroll limit", s.lineno)
        self.loop_by_invariant(s, env, spec, kind="while")

    def st_For(self, s, env):
        it = self.eval(s.iter, env)
        items = self.concrete_items(it)
        if items is not None:
            for item in items:
                self.assign(s.target, item, env)
                try:
                    self.exec_block(s.body, env)
                except _Break:
                    return
                except _Continue:
                    continue
            self.exec_block(s.orelse, env)
            return
        spec = self.loop_spec(s)
        if spec is None:
            if self._only_builds_text(s, env):
                # e.g. assembling an error message: no effect on the modelled state
                self.ctx.dropped.add("loops that only append to message strings: skipped")
                return
            raise PathAbort("for loop over a symbolic range without invariant", s.lineno)
        self.loop_by_invariant(s, env, spec, kind="for", iterable=it)

    def _only_builds_text(self, s, env):
        for st in s.body:
            if isinstance(st, ast.AugAssign) and isinstance(st.target, ast.Name) and isinstance(env.get(st.target.id), (str, Opaque)):
                continue
            if isinstance(st, ast.Expr) and isinstance(st.value, ast.Call) and getattr(st.value.func, "id", None) == "print":
                continue
            return False
        return bool(s.body)

    def loop_spec(self, s):
        q = None
        return self.loop_specs.get(s.lineno) or self.loop_specs.get(("ord", getattr(s, "_ordinal", None)))

    def loop_by_invariant(self, s, env, spec, kind, iterable=None):
        """Cut a loop by its sidecar invariant.
        spec: dict(modifies=[names], inv=lambda env, i: formula[, havoc=lambda name, env: value])
        The path forks: one alternative executes one arbitrary iteration from the
        invariant and must re-establish it (then ends); the other continues after the loop."""
        ctx = self.ctx
        # a loop variable named in the sidecar invariant may have been renamed in the code: if exactly as many other
        # variables are written by the loop body as names are missing, they are matched in order of first assignment
        # (the invariant then reads / havocs the renamed variables under the contract's names)
        alias = _rename_aliases(s, env, spec["modifies"])
        if alias:
            ctx.dropped.add("loop variables matched to the invariant's names by position: " + ", ".join(f"{k}->{v}" for k, v in sorted(alias.items())))
            real_env, env = env, _EnvView(env, alias)
            try:
                return self.loop_by_invariant(s, env, dict(spec, modifies=list(spec["modifies"])), kind, iterable)
            finally:
                pass
        inv = spec["inv"]
        if kind == "for":
            seq = iterable
            if isinstance(seq, (SymRange, SymEnumerate)):
                n = seq.length()
                item = seq.item
            elif isinstance(seq, Arr) and seq.ndim == 1:
                n = seq.shape[0]
                item = seq.fn
            elif isinstance(seq, SymList):
                n = seq.length
                item = seq.item
            else:
                raise PathAbort("for loop over unsupported symbolic iterable", s.lineno)
            if T.is_sym(n):
                ctx.assume(n >= 0)
        ctx.oblige(inv(env, 0), f"loop@{s.lineno}:entry", kind="invariant")
        for name in spec["modifies"]:
            env[name] = spec["havoc"](name, env) if "havoc" in spec else havoc_like(env[name])
        i = T.fresh_int("it")
        # iteration counts of the enclosing invariant-cut loops (outermost first), for invariants of nested loops whose
        # outer loop has no index variable (`for f in list_of_matrices`)
        env["__loop_indices__"] = tuple(env.get("__loop_indices__", ())) + (i,)
        if ctx.choice(f"loop@{s.lineno}"):
            if kind == "for":
                ctx.assume(T.And(T.le(0, i), T.lt(i, n)))
                ctx.assume(inv(env, i))
                self.assign(s.target, item(i), env)
            else:
                ctx.assume(i >= 0)
                ctx.assume(inv(env, i))
                g = self.truth(self.eval(s.test, env))
                ctx.assume(g)
            try:
                self.exec_block(s.body, env)
            except _Continue:
                raise PathAbort("continue in a loop cut by invariant", s.lineno)
            except _Break:
                # the arbitrary iteration left the loop: execution continues after the loop from this state
                # (Python skips the else clause after a break)
                return
            ctx.oblige(inv(env, T.add(i, 1)), f"loop@{s.lineno}:preserve", kind="invariant", assume_after=False)
            raise PathEnd(f"loop@{s.lineno} body")
        env["__loop_indices__"] = tuple(env.get("__loop_indices__", ()))[:-1]
        if kind == "for":
            ctx.assume(inv(env, n))
        else:
            ctx.assume(i >= 0)
            ctx.assume(inv(env, i))
            g = self.truth(self.eval(s.test, env))
            ctx.assume(T.Not(g))
        self.exec_block(s.orelse, env)

    # ================================================================ assignment
    def assign(self, target, v, env):
        if isinstance(target, ast.Name):
            env[target.id] = v
            return
        if isinstance(target, (ast.Tuple, ast.List)):
            items = self.concrete_items(v)
            if items is None:
                raise PathAbort("unpacking a symbolic-length value", target.lineno)
            if len(items) != len(target.elts):
                raise PyRaise("ValueError", "unpack length mismatch", target.lineno)
            for t, it in zip(target.elts, items):
                self.assign(t, it, env)
            return
        if isinstance(target, ast.Attribute):
            obj = self.eval(target.value, env)
            if isinstance(obj, Rec):
                obj.fields[target.attr] = v
                self.ctx.writes.append((obj, target.attr, target.lineno))
                return
            raise PathAbort("attribute assignment on non-record", target.lineno)
        if isinstance(target, ast.Subscript):
            obj = self.eval(target.value, env)
            key = self.eval_index(target.slice, env)
            if isinstance(obj, Arr):
                if obj.kind != "ndarray":
                    raise PathAbort(f"item assignment on {obj.kind}", target.lineno)
                if isinstance(v, (list, tuple)):
                    v = N.np_array(self.ctx, v)
                N.setitem(self.ctx, obj, key, v)
                self.ctx.writes.append((obj, target.lineno))
                return
            if isinstance(obj, list):
                if isinstance(key, int):
                    obj[key] = v
                    return
                if T.is_sym(key):
                    raise PathAbort("list item assignment at symbolic index", target.lineno)
            if isinstance(obj, dict):
                obj[key] = v
                return
            if isinstance(obj, Rec):
                return self.call_method(obj, "__setitem__", [key, v], {})
            if isinstance(obj, HeapList):
                k = N.norm_index(self.ctx, key, obj.length)
                if not (isinstance(v, Arr) and v.ndim == 2 and v.kind == "ndarray"):
                    raise PathAbort("re-binding an element of a list of matrices to something that is not a matrix", target.lineno)
                if getattr(v, "heap", None) is not None or getattr(v, "base", None) is not None and getattr(getattr(v, "base", None), "heap", None) is not None:
                    # the slot would share its array with another slot: later in-place writes through either would be seen
                    # through both, which the slot-wise model cannot express
                    raise PathAbort("a list slot is bound to the array of another list slot (aliasing between slots is not modelled)", target.lineno)
                obj.store(k, N.snap(v))
                return
            raise PathAbort(f"subscript assignment on {type(obj).__name__}", target.lineno)
        if isinstance(target, ast.Starred):
            raise PathAbort("starred assignment", target.lineno)
        raise PathAbort(f"assignment target {type(target).__name__}", target.lineno)

    # ================================================================ helpers
    def concrete_items(self, v):
        if isinstance(v, (list, tuple)):
            return list(v)
        if isinstance(v, range):
            return list(v)
        if isinstance(v, Arr) and v.ndim >= 1 and isinstance(v.shape[0], int):
            if v.ndim == 1:
                return [v.fn(i) for i in range(v.shape[0])]
            return [N.getitem(self.ctx, v, i) for i in range(v.shape[0])]
        if isinstance(v, SymRange) and v.concrete() is not None:
            return list(v.concrete())
        if isinstance(v, SymEnumerate):
            inner = self.concrete_items(v.seq)
            if inner is not None:
                return [(v.start + k, x) for k, x in enumerate(inner)]
        if isinstance(v, dict):
            return list(v.keys())
        if isinstance(v, SymZip):
            parts = [self.concrete_items(p) for p in v.parts]
            if all(p is not None for p in parts):
                return list(zip(*parts))
        return None

    def truth(self, v):
        if v is None:
            return False
        if isinstance(v, (bool, int, float)):
            return bool(v)
        if isinstance(v, z3.ExprRef):
            return T.truthy(v)
        if isinstance(v, str):
            return len(v) > 0
        if isinstance(v, (list, tuple, dict)):
            return len(v) > 0
        if isinstance(v, Arr):
            if v.kind != "ndarray":
                return T.gt(v.shape[0], 0)
            if v.ndim == 0:
                return T.truthy(v.fn())
            sz = N.size_of(self.ctx, v)
            if isinstance(sz, int) and sz == 1:
                return T.truthy(v.fn(*([0] * v.ndim)))
            raise PyRaise("ValueError", "truth value of an array is ambiguous", self.ctx.cur_line)
        if isinstance(v, (Rec, Opaque, FuncVal, ClassRef, Marker, EnumVal, TypeRef, Builtin, BoundMethod)):
            return True
        if isinstance(v, SymRange):
            return T.gt(v.length(), 0)
        raise PathAbort(f"truthiness of {type(v).__name__}", self.ctx.cur_line)

    # ================================================================ expressions
    def eval(self, node, env):
        m = getattr(self, "ev_" + type(node).__name__, None)
        if m is None:
            raise PathAbort(f"unsupported expression {type(node).__name__}", getattr(node, "lineno", None))
        return m(node, env)

    def ev_Constant(self, n, env):
        return n.value

    def ev_JoinedStr(self, n, env):
        return Opaque("fstring")

    def ev_Name(self, n, env):
        if n.id in env:
            return env[n.id]
        return self.global_name(n.id, env)

    def global_name(self, name, env):
        if name in ("np", "numpy"):
            return Marker("np")
        if name == "ttb":
            return Marker("ttb")
        if name in ("sparse", "scipy", "warnings", "logging", "math", "time"):
            return Marker(name)
        if name == "estimate":
            fi = self.index.get("pyttb.gcp.fg_est.estimate")
            if fi is not None:
                return fi
        if name == "GCPSampler":
            return ClassRef("GCPSampler")
        if name in PYTTB_CLASSES:
            return ClassRef(name)
        if name == "None":
            return None
        if name in TYPE_NAMES:
            if name in BUILTIN_NAMES:
                return Builtin(name)
            return TypeRef(TYPE_NAMES[name])
        if name in BUILTIN_NAMES:
            return Builtin(name)
        if name == "accumarray":
            return Marker("accumarray")
        if name == "IndexVariant":
            return Marker("IndexVariant")
        if name in ("LinearIndexType",):
            return (TypeRef("int"), TypeRef("np.integer"), TypeRef("slice"))
        if name in ("ge", "gt", "le", "lt"):
            return Builtin("operator." + name)
        # module-level function of the current module or of pyttb_utils
        mod = env.get("__module__")
        for m in (mod, "pyttb.pyttb_utils", "pyttb.khatrirao"):
            fi = self.index.get(f"{m}.{name}") if m else None
            if fi is not None:
                return fi
        if name in ("ValueError", "TypeError", "IndexError", "AssertionError", "Exception", "RuntimeError", "NotImplementedError"):
            return TypeRef(name)
        raise PathAbort(f"unknown name {name}", self.ctx.cur_line)

    def ev_Tuple(self, n, env):
        out = []
        for e in n.elts:
            if isinstance(e, ast.Starred):
                items = self.concrete_items(self.eval(e.value, env))
                if items is None:
                    raise PathAbort("starred symbolic sequence", n.lineno)
                out.extend(items)
            else:
                out.append(self.eval(e, env))
        return tuple(out)

    def ev_List(self, n, env):
        return list(self.ev_Tuple(n, env))

    def ev_Dict(self, n, env):
        return {self.eval(k, env): self.eval(v, env) for k, v in zip(n.keys, n.values)}

    def ev_Slice(self, n, env):
        f = lambda x: self.eval(x, env) if x is not None else None
        return slice(f(n.lower), f(n.upper), f(n.step))

    def ev_Lambda(self, n, env):
        return FuncVal(n, env, module=env.get("__module__"))

    def ev_IfExp(self, n, env):
        c = self.truth(self.eval(n.test, env))
        if isinstance(c, bool):
            return self.eval(n.body if c else n.orelse, env)
        if self.ctx.branch(c, "ifexp"):
            return self.eval(n.body, env)
        return self.eval(n.orelse, env)

    def ev_BoolOp(self, n, env):
        # short-circuit semantics with value results; symbolic operands fork
        is_and = isinstance(n.op, ast.And)
        last = None
        for i, e in enumerate(n.values):
            last = self.eval(e, env)
            if i == len(n.values) - 1:
                return last
            t = self.truth(last)
            if not isinstance(t, bool):
                t = self.ctx.branch(t, "boolop")
            if is_and and not t:
                return last
            if not is_and and t:
                return last
        return last

    def ev_UnaryOp(self, n, env):
        v = self.eval(n.operand, env)
        if isinstance(n.op, ast.Not):
            return T.Not(self.truth(v))
        if isinstance(n.op, ast.USub):
            if isinstance(v, Arr):
                return N.elementwise(self.ctx, T.neg, [v])
            if isinstance(v, Rec):
                return self.call_method(v, "__neg__", [], {})
            return T.neg(v)
        if isinstance(n.op, ast.UAdd):
            return v
        if isinstance(n.op, ast.Invert):
            if isinstance(v, Arr) and v.dtype == "bool":
                return N.elementwise(self.ctx, T.Not, [v], "bool")
            if T.is_scalar(v) and T.sort_of(v) == "bool":
                return T.Not(v)
        raise PathAbort("unary operator", n.lineno)

    def ev_BinOp(self, n, env):
        a = self.eval(n.left, env)
        b = self.eval(n.right, env)
        return self.binop(n.op, a, b)

    def binop(self, op, a, b):
        ctx = self.ctx
        name = type(op).__name__
        # sequences
        if name == "Add" and isinstance(a, (list, tuple)) and isinstance(b, (list, tuple)) and type(a) is type(b):
            return a + b
        if name == "Mult" and isinstance(a, list) and isinstance(b, int):
            return a * b
        if name == "Mult" and isinstance(b, list) and isinstance(a, int):
            return b * a
        if name == "Mult" and isinstance(a, list) and T.is_sym(b) and len(a) == 1 and isinstance(a[0], Arr) and a[0].kind == "ndarray":
            # [placeholder_array] * n: n references to one array; modelled as a list of matrices none of whose slots is
            # initialised yet (every slot must be re-bound before it is read or written in place)
            ctx.oblige(T.ge(b, 0), "list-repetition-count-non-negative", kind="index")
            return HeapList(b, rows=lambda m: 0, cols=lambda m: 0, entry=lambda m, i, j: 0.0, init=lambda m: False)
        if name == "Mult" and isinstance(a, list) and T.is_sym(b):
            if len(a) == 1:
                x = a[0]
                return Arr((T.smax(0, b),), lambda i: x, T.sort_of(x) if T.is_scalar(x) else "int", kind="list") if T.is_scalar(x) else _abort("list * symbolic", ctx)
        if name == "Mult" and isinstance(a, tuple) and isinstance(b, int):
            return a * b
        if name == "Mult" and isinstance(a, tuple) and len(a) == 1 and T.is_sym(b) and T.is_scalar(a[0]):
            x = a[0]
            return Arr((T.smax(0, b),), lambda i: x, T.sort_of(x), kind="tuple")
        if isinstance(a, str) or isinstance(b, str) or isinstance(a, Opaque) or isinstance(b, Opaque):
            return Opaque("string-op")
        if isinstance(a, Rec) or isinstance(b, Rec):
            dunder = {"Add": "add", "Sub": "sub", "Mult": "mul", "Div": "truediv", "MatMult": "matmul", "Pow": "pow"}.get(name)
            if dunder is None:
                raise PathAbort(f"operator {name} on record", ctx.cur_line)
            if isinstance(a, Rec):
                return self.call_method(a, f"__{dunder}__", [b], {})
            return self.call_method(b, f"__r{dunder}__", [a], {})
        if isinstance(a, (list, tuple)) and isinstance(b, Arr):
            a = N.np_array(ctx, a)
        if isinstance(b, (list, tuple)) and isinstance(a, Arr):
            b = N.np_array(ctx, b)
        if isinstance(a, Arr) and a.kind in ("tuple", "list") and not isinstance(b, Arr):
            raise PathAbort(f"operator {name} on symbolic {a.kind}", ctx.cur_line)
        fn = {
            "Add": T.add, "Sub": T.sub, "Mult": T.mul, "Div": self._div, "FloorDiv": T.floordiv,
            "Mod": T.mod, "BitAnd": self._bitand, "BitOr": self._bitor, "BitXor": self._bitxor,
            "Pow": self._pow,
        }.get(name)
        if name == "MatMult":
            return self.matmul(a, b)
        if fn is None:
            raise PathAbort(f"operator {name}", ctx.cur_line)
        if name == "Mult" and (isinstance(a, Arr) or isinstance(b, Arr)):
            isb = lambda x: isinstance(x, bool) or (isinstance(x, Arr) and x.dtype == "bool") or (T.is_sym(x) and not isinstance(x, Arr) and T.sort_of(x) == "bool")
            if isb(a) and isb(b):
                # NumPy: the product of Booleans is their conjunction and stays Boolean (`True * np.ones(n, dtype=bool)`)
                return N.elementwise(ctx, lambda x, y: T.And(x, y), [a, b], "bool")
        if isinstance(a, Arr) or isinstance(b, Arr):
            return N.elementwise(ctx, fn, [a, b])
        if not (T.is_scalar(a) and T.is_scalar(b)):
            raise PathAbort(f"operator {name} on {type(a).__name__}, {type(b).__name__}", ctx.cur_line)
        return fn(a, b)

    def _div(self, a, b):
        if not T.is_sym(b):
            if b == 0:
                raise PyRaise("ZeroDivisionError", "", self.ctx.cur_line)
            return T.truediv(a, b)
        if getattr(self.ctx, "div_checks", False) and T.sort_of(b) in ("real", "int"):
            # opt-in per contract: a scalar division is an obligation "divisor is not zero" (a zero divisor would give
            # inf / nan, which the real-number encoding cannot represent)
            self.ctx.oblige(T.tz(b) != 0, "divisor-not-zero", kind="index")
            if getattr(self.ctx, "div_as_product", False) and T.is_scalar(a):
                # opt-in: the quotient by a symbolic divisor is named and DEFINED by q * b = a (b != 0 was just demanded):
                # both solvers reason about products far better than about `/` with a non-constant divisor
                qv = z3.Real(T.fresh_name("quot"))
                self.ctx.assume(qv * T.tz(T.as_real(b)) == T.tz(T.as_real(a)))
                return qv
            return T.truediv(a, b)
        self.ctx.dropped.add("division: divisor assumed non-zero (IEEE inf/nan not modelled)")
        return T.truediv(a, b)

    def _pow(self, a, b):
        if isinstance(b, int) and b >= 0:
            r = 1
            for _ in range(b):
                r = T.mul(r, a)
            return r
        if T.is_scalar(a) and T.is_scalar(b):
            # abstraction: an uninterpreted real-valued function of base and exponent
            self.ctx.dropped.add("x ** y with a symbolic exponent: value abstracted to an uninterpreted real POW(x, y); "
                                 "ZeroDivisionError / OverflowError / complex results of float power not modelled")
            POW = z3.Function("POW", z3.RealSort(), z3.RealSort(), z3.RealSort())
            return POW(T.tz(T.as_real(a)), T.tz(T.as_real(b)))
        raise PathAbort("power with non-constant exponent", self.ctx.cur_line)

    def _bitand(self, a, b):
        if T.sort_of(a) == "bool" and T.sort_of(b) == "bool":
            return T.And(a, b)
        raise PathAbort("bitwise and on integers", self.ctx.cur_line)

    def _bitor(self, a, b):
        if T.sort_of(a) == "bool" and T.sort_of(b) == "bool":
            return T.Or(a, b)
        raise PathAbort("bitwise or on integers", self.ctx.cur_line)

    def _bitxor(self, a, b):
        if T.sort_of(a) == "bool" and T.sort_of(b) == "bool":
            return T.Not(T.Iff(a, b))
        raise PathAbort("bitwise xor on integers", self.ctx.cur_line)

    def matmul(self, a, b):
        # X @ diag(d): column scaling (the only matrix product inside the modelled fragment)
        d = getattr(b, "diag_of", None)
        if isinstance(a, Arr) and a.ndim == 2 and d is not None:
            if not N.same_extent(self.ctx, a.shape[1], d.shape[0]):
                raise PyRaise("ValueError", "matmul: dimension mismatch", self.ctx.cur_line)
            a_, d_ = N.snap(a), N.snap(d)
            dt = join_dtype(a.dtype, d.dtype)
            return Arr(a.shape, lambda i, j: T.mul(a_.fn(i, j), d_.fn(j)), dt)
        if getattr(self.ctx, "matmul_havoc", False) and isinstance(a, Arr) and isinstance(b, Arr) and a.ndim == 2 and b.ndim == 2:
            # opt-in per contract: a general matrix product is a matrix of the right shape with unconstrained entries (the
            # contract's clauses must not depend on them)
            if not N.same_extent(self.ctx, a.shape[1], b.shape[0]):
                raise PyRaise("ValueError", "matmul: dimension mismatch", self.ctx.cur_line)
            self.ctx.dropped.add("general matrix product: entries unconstrained (havoc)")
            return Arr.fresh("mm", (a.shape[0], b.shape[1]), "real")
        raise PathAbort("matrix product (needs Mat abstraction)", self.ctx.cur_line)

    def ev_Compare(self, n, env):
        left = self.eval(n.left, env)
        result = True
        for op, right_n in zip(n.ops, n.comparators):
            right = self.eval(right_n, env)
            r = self.compare(op, left, right)
            if len(n.ops) == 1:
                return r
            if isinstance(r, Arr):
                raise PathAbort("chained comparison of arrays", n.lineno)
            result = T.And(result, r)
            left = right
        return result

    def compare(self, op, a, b):
        ctx = self.ctx
        name = type(op).__name__
        if name in ("Is", "IsNot"):
            if a is None or b is None:
                r = a is None and b is None
            elif isinstance(a, (Arr, Rec, list, dict)) or isinstance(b, (Arr, Rec, list, dict)):
                r = a is b
            else:
                r = a is b
            return r if name == "Is" else not r
        if name in ("In", "NotIn"):
            r = self.contains(b, a)
            return r if name == "In" else T.Not(r)
        sym = {"Eq": "==", "NotEq": "!=", "Lt": "<", "LtE": "<=", "Gt": ">", "GtE": ">="}[name]
        if isinstance(a, Rec) or isinstance(b, Rec):
            d = {"==": "eq", "!=": "ne", "<": "lt", "<=": "le", ">": "gt", ">=": "ge"}[sym]
            if isinstance(a, Rec):
                return self.call_method(a, f"__{d}__", [b], {})
            sw = {"eq": "eq", "ne": "ne", "lt": "gt", "le": "ge", "gt": "lt", "ge": "le"}[d]
            return self.call_method(b, f"__{sw}__", [a], {})
        # ndarray involved -> elementwise
        if (isinstance(a, Arr) and a.kind == "ndarray") or (isinstance(b, Arr) and b.kind == "ndarray"):
            aa = N.np_array(ctx, a) if isinstance(a, (list, tuple, range)) else a
            bb = N.np_array(ctx, b) if isinstance(b, (list, tuple, range)) else b
            if isinstance(aa, Arr) and aa.kind != "ndarray":
                aa = _retag(aa, "ndarray")
            if isinstance(bb, Arr) and bb.kind != "ndarray":
                bb = _retag(bb, "ndarray")
            res = N.elementwise(ctx, lambda x, y: T.cmp(sym, x, y), [aa, bb], "bool")
            if sym == "==" and isinstance(aa, Arr) and isinstance(bb, Arr) and isinstance(res, Arr) and res.ndim >= 2:
                self._tag_row_eq(res, aa, bb)
            return res
        # tuples / lists / symbolic tuples: structural equality
        if _is_seq(a) or _is_seq(b):
            if sym not in ("==", "!="):
                # lexicographic order of two integer sequences (Python's tuple / list comparison)
                def view(x):
                    if isinstance(x, Arr) and x.ndim == 1:
                        xs = N.snap(x)
                        return xs.shape[0], (lambda q: T.tz(xs.fn(q)))
                    if isinstance(x, (tuple, list)) and all(T.is_scalar(e) for e in x):
                        items = list(x)

                        def at(q, items=items):
                            r_ = T.tz(items[-1]) if items else z3.IntVal(0)
                            for k_ in range(len(items) - 2, -1, -1):
                                r_ = z3.If(q == k_, T.tz(items[k_]), r_)
                            return r_
                        return len(items), at
                    raise PathAbort("ordering comparison of sequences", ctx.cur_line)
                (la, fa), (lb, fb) = view(a), view(b)
                la, lb = T.tz(la), T.tz(lb)
                k, q = T.fresh_int("lexk"), T.fresh_int("lexq")
                same_upto = lambda k_: T.ForAll([q], z3.Implies(z3.And(0 <= q, q < k_), fa(q) == fb(q)))
                strict = {"<": lambda x, y: x < y, "<=": lambda x, y: x < y, ">": lambda x, y: x > y, ">=": lambda x, y: x > y}[sym]
                first_diff = T.Exists([k], z3.And(0 <= k, k < la, k < lb, same_upto(k), strict(fa(k), fb(k))))
                prefix = z3.And(same_upto(z3.If(la < lb, la, lb)),
                                {"<": la < lb, "<=": la <= lb, ">": la > lb, ">=": la >= lb}[sym])
                return z3.Or(first_diff, prefix)
            r = self.seq_eq(a, b)
            return r if sym == "==" else T.Not(r)
        if isinstance(a, EnumVal) or isinstance(b, EnumVal):
            r = a == b
            return r if sym == "==" else not r
        if isinstance(a, slice) or isinstance(b, slice):
            r = isinstance(a, slice) and isinstance(b, slice) and self._slice_eq(a, b)
            return r if sym == "==" else T.Not(r)
        if sym in ("==", "!="):
            # dtype of a modelled array against a Python / NumPy scalar type
            def _dt(x):
                if isinstance(x, Opaque) and x.what.startswith("dtype:"):
                    return x.what[6:]
                nm = getattr(x, "name", None) or getattr(x, "path", None)
                return {"float": "real", "np.float64": "real", "np.floating": "real", "int": "int", "np.int64": "int", "np.int_": "int",
                        "bool": "bool", "np.bool_": "bool"}.get(nm) if isinstance(x, (TypeRef, Builtin, Marker)) else None
            da, db = _dt(a), _dt(b)
            if da is not None and db is not None and (isinstance(a, Opaque) or isinstance(b, Opaque)):
                return (da == db) if sym == "==" else (da != db)
        if isinstance(a, (Opaque, TypeRef, ClassRef)) or isinstance(b, (Opaque, TypeRef, ClassRef)):
            raise PathAbort("comparison of opaque values", ctx.cur_line)
        if a is None or b is None or isinstance(a, str) or isinstance(b, str):
            if T.is_sym(a) or T.is_sym(b):
                r = False  # a number never equals None / a string
                return r if sym == "==" else True
        return T.cmp(sym, a, b)

    def _slice_eq(self, a, b):
        def e(x, y):
            if x is None or y is None:
                return x is None and y is None
            return T.eq(x, y)
        return T.And(e(a.start, b.start), e(a.stop, b.stop), e(a.step, b.step))

    def _tag_row_eq(self, res, a, b):
        """Remember that res = (a == b) so that np.all(res, axis=-1) can use row keys."""
        ra, rb = getattr(a, "rowfn", None), getattr(b, "rowfn", None)
        if ra is None or rb is None:
            return
        nd = res.ndim
        # the last axes must be un-stretched for both
        if isinstance(a.shape[-1], int) and a.shape[-1] == 1 and not (isinstance(res.shape[-1], int) and res.shape[-1] == 1):
            return
        if isinstance(b.shape[-1], int) and b.shape[-1] == 1 and not (isinstance(res.shape[-1], int) and res.shape[-1] == 1):
            return

        def lead_map(x):
            off = nd - x.ndim
            ones = [isinstance(d, int) and d == 1 for d in x.shape]

            def m(lead):
                full = tuple(lead) + (0,)
                sel = [0 if ones[j] else full[off + j] for j in range(x.ndim)]
                return sel[:-1]

            return m

        ma, mb = lead_map(a), lead_map(b)
        res.eq_operands = (lambda lead: ra(*ma(lead)), lambda lead: rb(*mb(lead)))

    def seq_eq(self, a, b):
        ctx = self.ctx
        la, lb = seq_len(a), seq_len(b)
        if la is None or lb is None:
            return False
        if isinstance(la, int) and isinstance(lb, int):
            if la != lb:
                return False
            return T.And(*[self._elem_eq(seq_item(a, i), seq_item(b, i)) for i in range(la)])
        if isinstance(la, int) or isinstance(lb, int):
            n = la if isinstance(la, int) else lb
            return T.And(T.eq(la, lb), *[self._elem_eq(seq_item(a, i), seq_item(b, i)) for i in range(n)])
        q = T.fresh_int("q")
        return T.And(
            T.eq(la, lb),
            T.ForAll([q], T.Implies(T.And(0 <= q, T.lt(q, la)), T.eq(seq_item(a, q), seq_item(b, q)))),
        )

    def _elem_eq(self, x, y):
        if _is_seq(x) or _is_seq(y):
            return self.seq_eq(x, y)
        if isinstance(x, Arr) or isinstance(y, Arr):
            raise PyRaise("ValueError", "truth value of an array is ambiguous", self.ctx.cur_line)
        return T.cmp("==", x, y)

    def contains(self, container, x):
        if isinstance(x, (Builtin, FuncVal, TypeRef, ClassRef, EnumVal)) and isinstance(container, (list, tuple)):
            return any((e is x) or (isinstance(e, Builtin) and isinstance(x, Builtin) and e.name == x.name) or (isinstance(e, EnumVal) and e == x) for e in container)
        if isinstance(container, (list, tuple)):
            return T.Or(*[self._elem_eq(x, e) if not isinstance(e, str) and not isinstance(x, str) else (x == e) for e in container])
        if isinstance(container, dict):
            return x in container
        if isinstance(container, range):
            return T.Or(*[T.eq(x, e) for e in container])
        if isinstance(container, Arr) and container.ndim == 1:
            q = T.fresh_int("q")
            return T.Exists([q], T.And(0 <= q, T.lt(q, container.shape[0]), T.eq(container.fn(q), x)))
        if isinstance(container, SymRange):
            return container.contains(x)
        raise PathAbort("membership test", self.ctx.cur_line)

    # ---------------------------------------------------------------- subscripts
    def eval_index(self, node, env):
        return self.eval(node, env)

    def ev_Subscript(self, n, env):
        obj = self.eval(n.value, env)
        key = self.eval_index(n.slice, env)
        return self.subscript(obj, key, n)

    def subscript(self, obj, key, n=None):
        ctx = self.ctx
        if isinstance(obj, Arr):
            if obj.kind in ("tuple", "list", "range"):
                if T.is_scalar(key):
                    return obj.fn(N.norm_index(ctx, key, obj.shape[0]))
                if isinstance(key, slice):
                    r = N.getitem(ctx, obj, key)
                    r.kind = obj.kind
                    return r
                raise PathAbort(f"index of {obj.kind} by {type(key).__name__}", ctx.cur_line)
            if isinstance(key, list):
                key = N._as_index_arr(ctx, key) if all(T.is_scalar(e) for e in key) else key
            if isinstance(key, Arr) and key.kind in ("tuple", "list") and key.ndim == 1:
                key = _retag(key, "ndarray") if key.kind == "list" else key
            return N.getitem(ctx, obj, key)
        if isinstance(obj, (list, tuple)):
            if isinstance(key, bool):
                key = int(key)
            if isinstance(key, int):
                try:
                    return obj[key]
                except IndexError:
                    raise PyRaise("IndexError", "sequence index out of range", ctx.cur_line)
            if isinstance(key, slice):
                if all(v is None or isinstance(v, int) for v in (key.start, key.stop, key.step)):
                    return obj[key]
                raise PathAbort("symbolic slice of concrete sequence", ctx.cur_line)
            if T.is_sym(key):
                n_ = len(obj)
                k = N.norm_index(ctx, key, n_)
                # value by case split over the concrete positions
                return self._select_from(obj, k)
            raise PathAbort(f"sequence index {type(key).__name__}", ctx.cur_line)
        if isinstance(obj, range):
            if isinstance(key, slice):
                if all(v is None or isinstance(v, int) for v in (key.start, key.stop, key.step)):
                    return obj[key]
            if isinstance(key, int):
                return obj[key]
            raise PathAbort("symbolic index of range", ctx.cur_line)
        if isinstance(obj, SymRange):
            return obj.subscript(ctx, key)
        if isinstance(obj, dict):
            if key in obj:
                return obj[key]
            raise PyRaise("KeyError", str(key), ctx.cur_line)
        if isinstance(obj, Rec):
            return self.call_method(obj, "__getitem__", [key], {})
        if isinstance(obj, HeapList) and obj.init is not None and not isinstance(key, slice):
            k = N.norm_index(ctx, key, obj.length)
            ctx.oblige(obj.init(k), "list-slot-was-bound-before-it-is-read", kind="index")
            return obj.item(k)
        if isinstance(obj, SymList):
            if isinstance(key, slice):
                if key.step is None and key.stop is None and isinstance(key.start, int) and key.start >= 0:
                    lo, n_ = key.start, obj.length
                    ln = T.Ite(T.ge(n_, lo), T.sub(n_, lo), 0) if T.is_sym(n_) else max(n_ - lo, 0)
                    return SymList(ln, lambda i, obj=obj, lo=lo: obj.item(T.add(i, lo)), kind=obj.kind)
                raise PathAbort("slice form of a symbolic-length sequence", ctx.cur_line)
            k = N.norm_index(ctx, key, obj.length)
            return obj.item(k)
        if isinstance(obj, Opaque):
            return Opaque("opaque-item")
        raise PathAbort(f"subscript of {type(obj).__name__}", ctx.cur_line)

    def _select_from(self, seq, k):
        vals = list(seq)
        if all(T.is_scalar(v) for v in vals):
            r = vals[-1]
            for j in range(len(vals) - 2, -1, -1):
                r = T.Ite(T.eq(k, j), vals[j], r)
            return r
        # non-scalar items: fork on the position
        for j in range(len(vals) - 1):
            if self.ctx.branch(T.eq(k, j), "select"):
                return vals[j]
        return vals[-1]

    # ---------------------------------------------------------------- comprehensions
    def ev_ListComp(self, n, env):
        if len(n.generators) != 1:
            raise PathAbort("nested comprehension", n.lineno)
        g = n.generators[0]
        it = self.eval(g.iter, env)
        items = self.concrete_items(it)
        if items is not None:
            out = []
            for item in items:
                e2 = dict(env)
                self.assign(g.target, item, e2)
                ok = True
                for cond in g.ifs:
                    c = self.truth(self.eval(cond, e2))
                    if not isinstance(c, bool):
                        raise PathAbort("comprehension filter on symbolic condition", n.lineno)
                    ok = ok and c
                if ok:
                    out.append(self.eval(n.elt, e2))
            return out
        # symbolic range / sequence with scalar element and no filter -> definitional list
        if isinstance(it, Arr) and it.ndim == 1:
            seq = N.snap(it)
            it = SymRange(0, seq.shape[0])
            it.item = lambda i, seq=seq: seq.fn(i)
        if isinstance(it, SymRange) and not g.ifs and isinstance(g.target, ast.Name):
            length = it.length()
            probe_env = dict(env)
            probe_env[g.target.id] = it.item(0)
            probe = self.eval(n.elt, probe_env)
            if T.is_scalar(probe):
                def fn(i, self=self, env=env, it=it):
                    e2 = dict(env)
                    e2[g.target.id] = it.item(i)
                    return self.eval(n.elt, e2)
                return Arr((length,), fn, T.sort_of(probe), kind="list")
        if isinstance(it, SymRange) and not g.ifs and getattr(it, "step", 1) == 1:
            it = SymList(it.length(), it.item, kind="list")
        if isinstance(it, SymList) and not g.ifs:
            # definitional list: item i is the element expression evaluated with the target bound to
            # the i-th item of the iterable (re-evaluated for every index term it is asked for)
            def item_raw(i, self=self, env=env, it=it):
                e2 = dict(env)
                self.assign(g.target, it.item(i), e2)
                return self.eval(n.elt, e2)

            # obligations of the element expression (index bounds, callee preconditions) are generated once,
            # for a generic index under the guard "index in range"; later instantiations add none
            i0 = T.fresh_int("lc")
            ctx_ = self.ctx
            ctx_.guards.append(z3.And(0 <= i0, T.tz(T.lt(i0, it.length))))
            try:
                probe = item_raw(i0)
            finally:
                ctx_.guards.pop()

            def item(i, ctx_=ctx_):
                old = ctx_.suppress
                ctx_.suppress = True
                try:
                    return item_raw(i)
                finally:
                    ctx_.suppress = old
            if T.is_scalar(probe):
                return Arr((it.length,), item, T.sort_of(probe), kind="list")
            return SymList(it.length, item, kind="list")
        raise PathAbort("comprehension over symbolic iterable", n.lineno)

    def ev_GeneratorExp(self, n, env):
        return self.ev_ListComp(n, env)

    # ---------------------------------------------------------------- attributes
    def ev_Attribute(self, n, env):
        obj = self.eval(n.value, env)
        return self.getattr(obj, n.attr, n)

    def getattr(self, obj, attr, n=None):
        ctx = self.ctx
        if isinstance(obj, Marker):
            return self.marker_attr(obj, attr)
        if isinstance(obj, Arr):
            if attr == "shape":
                return tuple(obj.shape)
            if attr == "size":
                return N.size_of(ctx, obj)
            if attr == "ndim":
                return obj.ndim
            if attr == "T":
                return N.transpose(ctx, obj)
            if attr == "dtype":
                return Opaque("dtype:" + obj.dtype)
            if attr == "flags":
                return Opaque("flags")
            return BoundMethod(obj, attr)
        if isinstance(obj, Rec):
            if attr in obj.fields:
                return obj.fields[attr]
            fi = self.index.method(obj.cls, attr)
            if fi is not None:
                if fi.kind == "property":
                    return self.call_pyttb(fi, [], {}, self_val=obj)
                return BoundMethod(obj, attr)
            raise PyRaise("AttributeError", attr, ctx.cur_line)
        if isinstance(obj, ClassRef):
            fi = self.index.method(obj.name, attr)
            if fi is not None:
                return BoundMethod(obj, attr)
            raise PathAbort(f"class attribute {obj.name}.{attr}", ctx.cur_line)
        if isinstance(obj, slice):
            return getattr(obj, attr)
        if isinstance(obj, Opaque):
            if obj.what.startswith("dtype:") and attr == "type":
                return TypeRef("np." + {"int": "integer", "real": "floating", "bool": "bool_"}[obj.what[6:]])
            return Opaque(obj.what + "." + attr)
        if isinstance(obj, (list, tuple, dict, str)):
            return BoundMethod(obj, attr)
        if T.is_scalar(obj):
            if attr in ("item", "astype", "copy"):
                return BoundMethod(obj, attr)
            if attr == "size":
                return 1
            if attr == "shape":
                return ()
            if attr == "ndim":
                return 0
        if isinstance(obj, (SymList, SymRange)):
            return BoundMethod(obj, attr)
        raise PathAbort(f"attribute {attr} of {type(obj).__name__}", ctx.cur_line)

    def marker_attr(self, m, attr):
        path = f"{m.path}.{attr}"
        if m.path == "ttb":
            if attr in PYTTB_CLASSES:
                return ClassRef(attr)
            for mod in ("pyttb.pyttb_utils", "pyttb.khatrirao", "pyttb.tensor", "pyttb.sptensor", "pyttb.cp_als", "pyttb.hosvd", "pyttb.tucker_als"):
                fi = self.index.get(f"{mod}.{attr}")
                if fi is not None:
                    return fi
            if attr == "pyttb_utils":
                return Marker("ttb.pyttb_utils")
            raise PathAbort(f"ttb.{attr}", self.ctx.cur_line)
        if m.path == "ttb.pyttb_utils":
            fi = self.index.get(f"pyttb.pyttb_utils.{attr}")
            if fi is not None:
                return fi
        if m.path == "np":
            if attr in ("ndarray", "integer", "generic", "floating", "int_", "float64", "bool_", "int64", "number"):
                return TypeRef("np." + attr)
            if attr == "newaxis":
                return None
            if attr in ("inf",):
                return Opaque("inf")
            if attr == "pi":
                return 3.141592653589793
        if m.path == "IndexVariant":
            return EnumVal("IndexVariant", attr)
        return Marker(path)

    # ---------------------------------------------------------------- calls
    def ev_Call(self, n, env):
        f = self.eval(n.func, env)
        pos = []
        for a in n.args:
            if isinstance(a, ast.Starred):
                items = self.concrete_items(self.eval(a.value, env))
                if items is None:
                    raise PathAbort("star-args of symbolic length", n.lineno)
                pos.extend(items)
            else:
                pos.append(self.eval(a, env))
        kw = {}
        for k in n.keywords:
            if k.arg is None:
                d = self.eval(k.value, env)
                if not isinstance(d, dict):
                    raise PathAbort("**kwargs of non-dict", n.lineno)
                kw.update(d)
            else:
                kw[k.arg] = self.eval(k.value, env)
        return self.call(f, pos, kw, n)

    def call(self, f, pos, kw, n=None):
        from .extract import FuncInfo
        from . import pylib

        ctx = self.ctx
        if isinstance(f, Builtin):
            return pylib.call_builtin(self, f.name, pos, kw)
        if isinstance(f, Marker):
            return pylib.call_marker(self, f.path, pos, kw)
        if isinstance(f, BoundMethod):
            r = f.recv
            if isinstance(r, Arr):
                return pylib.call_arr_method(self, r, f.name, pos, kw)
            if isinstance(r, Rec):
                return self.call_method(r, f.name, pos, kw)
            if isinstance(r, ClassRef):
                fi = self.index.method(r.name, f.name)
                return self.call_pyttb(fi, pos, kw, cls_val=r)
            return pylib.call_py_method(self, r, f.name, pos, kw)
        if isinstance(f, FuncInfo):
            return self.call_pyttb(f, pos, kw)
        if isinstance(f, FuncVal):
            return self.call_funcval(f, pos, kw)
        if isinstance(f, ClassRef):
            return self.construct(f.name, pos, kw)
        if isinstance(f, TypeRef):
            if f.name in ("int", "float", "bool", "tuple", "list", "str"):
                return pylib.call_builtin(self, f.name, pos, kw)
            return Opaque(f"instance:{f.name}")
        if isinstance(f, Opaque):
            ctx.havocked.add(f"call of opaque {f.what}")
            return Opaque("result-of-" + f.what)
        if callable(f) and getattr(f, "_pyvc_native", False):
            return f(self, *pos, **kw)
        raise PathAbort(f"call of {type(f).__name__}", ctx.cur_line)

    def call_funcval(self, f: FuncVal, pos, kw):
        node = f.node
        env = dict(f.env)
        if isinstance(node, ast.Lambda):
            params = [a.arg for a in node.args.args]
            for p, v in zip(params, pos):
                env[p] = v
            env.update(kw)
            return self.eval(node.body, env)
        from .extract import FuncInfo
        fi = FuncInfo(f.qualname or node.name, f.module, node, None, "", "", "function")
        return self.call_def(fi, pos, kw)

    def construct(self, cls, pos, kw):
        fi = self.index.method(cls, "__init__")
        if fi is None:
            raise PathAbort(f"constructor of {cls}", self.ctx.cur_line)
        obj = Rec(cls)
        ab = getattr(self, "abstract_calls", None)
        if ab and fi.qualname in ab:
            # the contract under verification supplies an abstract semantics for this constructor (listed as an assumption)
            self.ctx.trusted.add(f"abstract callee: {fi.qualname} ({getattr(ab[fi.qualname], '__doc__', '') or 'see contract'})")
            ab[fi.qualname](self, pos, kw, obj)
            return obj
        c = self.contracts.get(fi.qualname)
        if c is not None and not self._is_target(fi.qualname):
            return c.apply(self, pos, kw, self_val=obj, constructing=True)
        self.call_def(fi, pos, kw, self_val=obj)
        return obj

    def call_method(self, obj: Rec, name, pos, kw):
        fi = self.index.method(obj.cls, name)
        if fi is None:
            raise PyRaise("AttributeError", f"{obj.cls}.{name}", self.ctx.cur_line)
        if fi.kind == "classmethod":
            return self.call_pyttb(fi, pos, kw, cls_val=ClassRef(obj.cls))
        return self.call_pyttb(fi, pos, kw, self_val=obj)

    target_qual = None

    def _is_target(self, q):
        return False

    def call_pyttb(self, fi, pos, kw, self_val=None, cls_val=None):
        """Modular call: use the callee's contract when it has one; otherwise inline the
        body (small helpers / properties) or abort."""
        q = fi.qualname
        self.call_log.append(q)
        ab = getattr(self, "abstract_calls", None)
        if ab and q in ab:
            # the contract under verification supplies an abstract semantics for this callee (listed as an assumption)
            self.ctx.trusted.add(f"abstract callee: {q} ({getattr(ab[q], '__doc__', '') or 'see contract'})")
            return ab[q](self, pos, kw, self_val)
        c = self.contracts.get(q)
        if c is not None and q not in getattr(self, "opaque_calls", ()):
            return c.apply(self, pos, kw, self_val=self_val, cls_val=cls_val)
        if q in getattr(self, "opaque_calls", ()):
            # the contract under verification declares this callee irrelevant to its clauses: the
            # result is an unconstrained opaque value; "operands unchanged" is the callee's own
            # C05 frame obligation (pyvc.own), listed as an assumption of this proof
            self.ctx.trusted.add(f"opaque call: {q} (result unconstrained; operands unchanged by its C05 frame obligation)")
            self.ctx.log_ghost("opaquecall:" + q.split(".")[-1], dict(pos=list(pos), kw=dict(kw), self=self_val))
            return Opaque("result-of-" + q.split(".")[-1])
        if self.inline is not None and q not in self.inline and fi.kind != "property":
            raise PathAbort(f"call of {q} without contract (not inlinable)", self.ctx.cur_line)
        self.ctx.havocked.discard(q)
        self.inlined = getattr(self, "inlined", set())
        self.inlined.add(q)
        return self.call_def(fi, pos, kw, self_val=self_val, cls_val=cls_val)


def _abort(msg, ctx):
    raise PathAbort(msg, ctx.cur_line)


def _load(t):
    import copy
    t2 = copy.copy(t)
    t2.ctx = ast.Load()
    return t2


def _retag(a: Arr, kind):
    b = Arr(a.shape, a.fn, a.dtype, kind)
    b.rowfn = getattr(a, "rowfn", None)
    return b


def _is_seq(x):
    return isinstance(x, (tuple, list)) or (isinstance(x, Arr) and x.kind in ("tuple", "list"))


class _EnvView(dict):
    """The local environment seen under the names a sidecar invariant uses (alias -> actual name)."""

    def __init__(self, real, alias):
        super().__init__()
        self._real, self._alias = real, alias

    def _k(self, k):
        return self._alias.get(k, k)

    def __getitem__(self, k):
        return self._real[self._k(k)]

    def __setitem__(self, k, v):
        self._real[self._k(k)] = v

    def __contains__(self, k):
        return self._k(k) in self._real

    def get(self, k, d=None):
        return self._real.get(self._k(k), d)

    def setdefault(self, k, d=None):
        return self._real.setdefault(self._k(k), d)

    def pop(self, k, *d):
        return self._real.pop(self._k(k), *d)

    def keys(self):
        return self._real.keys()

    def items(self):
        return self._real.items()

    def __iter__(self):
        return iter(self._real)

    def __len__(self):
        return len(self._real)


def _rename_aliases(s, env, names):
    if isinstance(env, _EnvView):
        return {}
    missing = [nm for nm in names if nm not in env]
    if not missing:
        return {}
    loopvars = {n.id for n in ast.walk(s.target) if isinstance(n, ast.Name)} if isinstance(s, ast.For) else set()
    seen = []
    for st in s.body:
        for n in ast.walk(st):
            tgt = None
            if isinstance(n, ast.Assign):
                tgt = n.targets
            elif isinstance(n, (ast.AugAssign, ast.AnnAssign)):
                tgt = [n.target]
            for t in tgt or []:
                base = t
                while isinstance(base, ast.Subscript):
                    base = base.value
                if isinstance(base, ast.Name) and base.id in env and base.id not in loopvars and base.id not in names and base.id not in seen:
                    seen.append(base.id)
    if len(seen) == len(missing):
        return dict(zip(missing, seen))
    return {}


def seq_len(x):
    if isinstance(x, (tuple, list)):
        return len(x)
    if isinstance(x, Arr) and x.ndim == 1:
        return x.shape[0]
    if isinstance(x, SymList):
        return x.length
    return None


def seq_item(x, i):
    if isinstance(x, SymList):
        return x.item(i)
    if isinstance(x, (tuple, list)):
        if isinstance(i, int):
            return x[i]
        vals = list(x)
        r = vals[-1]
        for j in range(len(vals) - 2, -1, -1):
            r = T.Ite(T.eq(i, j), vals[j], r)
        return r
    return x.fn(i)


def havoc_like(v):
    if isinstance(v, Arr):
        return Arr.fresh("hv", v.shape, v.dtype, v.kind)
    if T.is_scalar(v):
        s = T.sort_of(v)
        return {"int": T.fresh_int, "real": T.fresh_real, "bool": T.fresh_bool}[s]("hv")
    raise PathAbort(f"cannot havoc {type(v).__name__}")


class SymRange:
    """range(lo, hi) with symbolic bounds (step 1) or concrete."""

    def __init__(self, lo, hi, step=1):
        self.lo, self.hi, self.step = lo, hi, step

    def concrete(self):
        if all(isinstance(v, int) for v in (self.lo, self.hi, self.step)):
            return range(self.lo, self.hi, self.step)
        return None

    def length(self):
        if self.step == 1:
            return T.smax(0, T.sub(self.hi, self.lo))
        if self.step == -1:
            return T.smax(0, T.sub(self.lo, self.hi))
        raise PathAbort("symbolic range with non-unit step")

    def item(self, i):
        return T.add(self.lo, T.mul(self.step, i))

    def contains(self, x):
        if self.step == 1:
            return T.And(T.le(self.lo, x), T.lt(x, self.hi))
        raise PathAbort("membership in stepped symbolic range")

    def subscript(self, ctx, key):
        if isinstance(key, slice) and self.step == 1:
            n = self.length()
            start, length, step = N.slice_bounds(ctx, key, n)
            if step == 1:
                return SymRange(T.add(self.lo, start), T.add(T.add(self.lo, start), length))
        if T.is_scalar(key):
            return self.item(N.norm_index(ctx, key, self.length()))
        raise PathAbort("subscript of symbolic range")


class SymEnumerate:
    def __init__(self, seq, start=0):
        self.seq, self.start = seq, start

    def length(self):
        return seq_len(self.seq)

    def item(self, i):
        return (T.add(self.start, i), seq_item(self.seq, i))


class SymZip:
    def __init__(self, parts):
        self.parts = parts
