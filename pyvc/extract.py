"""Mechanical extraction of the real functions from /repo on every run."""

from __future__ import annotations

import ast
import hashlib
import os
from typing import Dict, Optional

REPO = os.environ.get("PYTTB_REPO", "/repo")

MODULES = {
    "pyttb.pyttb_utils": "pyttb/pyttb_utils.py",
    "pyttb.khatrirao": "pyttb/khatrirao.py",
    "pyttb.sptensor": "pyttb/sptensor.py",
    "pyttb.tensor": "pyttb/tensor.py",
    "pyttb.ktensor": "pyttb/ktensor.py",
    "pyttb.ttensor": "pyttb/ttensor.py",
    "pyttb.tenmat": "pyttb/tenmat.py",
    "pyttb.sptenmat": "pyttb/sptenmat.py",
    "pyttb.sumtensor": "pyttb/sumtensor.py",
    "pyttb.cp_als": "pyttb/cp_als.py",
    "pyttb.cp_apr": "pyttb/cp_apr.py",
    "pyttb.hosvd": "pyttb/hosvd.py",
    "pyttb.tucker_als": "pyttb/tucker_als.py",
    "pyttb.gcp_opt": "pyttb/gcp_opt.py",
    "pyttb.gcp.handles": "pyttb/gcp/handles.py",
    "pyttb.gcp.fg_setup": "pyttb/gcp/fg_setup.py",
    "pyttb.gcp.fg": "pyttb/gcp/fg.py",
    "pyttb.gcp.fg_est": "pyttb/gcp/fg_est.py",
    "pyttb.gcp.optimizers": "pyttb/gcp/optimizers.py",
    "pyttb.gcp.samplers": "pyttb/gcp/samplers.py",
    "pyttb.export_data": "pyttb/export_data.py",
    "pyttb.import_data": "pyttb/import_data.py",
}


class FuncInfo:
    def __init__(self, qualname, module, node, cls, src, file, kind):
        self.qualname = qualname
        self.module = module
        self.node = node
        self.cls = cls
        self.src = src
        self.file = file
        self.kind = kind  # function | method | property | classmethod | staticmethod
        self.sha = hashlib.sha256(src.encode()).hexdigest()[:16]
        self.lines = (node.lineno, node.end_lineno)


def _is_overload(node):
    for d in node.decorator_list:
        if isinstance(d, ast.Name) and d.id == "overload":
            return True
        if isinstance(d, ast.Attribute) and d.attr == "overload":
            return True
    return False


def _kind(node, in_class):
    for d in node.decorator_list:
        n = d.id if isinstance(d, ast.Name) else getattr(d, "attr", None)
        if n == "property":
            return "property"
        if n == "classmethod":
            return "classmethod"
        if n == "staticmethod":
            return "staticmethod"
        if n == "setter":
            return "setter"
    return "method" if in_class else "function"


class Index:
    """All functions of the anchored modules, keyed by qualified name; the AST is
    re-read from the working tree each time an Index is built."""

    def __init__(self, repo: Optional[str] = None):
        self.repo = repo or REPO
        self.funcs: Dict[str, FuncInfo] = {}
        self.classes: Dict[str, Dict[str, FuncInfo]] = {}
        self.class_slots: Dict[str, tuple] = {}
        self.sources: Dict[str, str] = {}
        for mod, rel in MODULES.items():
            path = os.path.join(self.repo, rel)
            if not os.path.exists(path):
                continue
            src = open(path).read()
            self.sources[mod] = src
            tree = ast.parse(src)
            lines = src.splitlines()

            def seg(node):
                return "\n".join(lines[node.lineno - 1 : node.end_lineno])

            for node in tree.body:
                if isinstance(node, ast.FunctionDef) and not _is_overload(node):
                    q = f"{mod}.{node.name}"
                    self.funcs[q] = FuncInfo(q, mod, node, None, seg(node), rel, "function")
                elif isinstance(node, ast.ClassDef):
                    cq = f"{mod}.{node.name}"
                    methods = {}
                    for sub in node.body:
                        if isinstance(sub, ast.FunctionDef) and not _is_overload(sub):
                            k = _kind(sub, True)
                            if k == "setter":
                                continue
                            q = f"{cq}.{sub.name}"
                            fi = FuncInfo(q, mod, sub, node.name, seg(sub), rel, k)
                            self.funcs[q] = fi
                            methods[sub.name] = fi
                    self.classes[node.name] = methods
                    self.classes[cq] = methods

    def get(self, qualname) -> Optional[FuncInfo]:
        return self.funcs.get(qualname)

    def method(self, cls, name) -> Optional[FuncInfo]:
        return self.classes.get(cls, {}).get(name)


def strip_docstring(node: ast.FunctionDef):
    body = node.body
    if body and isinstance(body[0], ast.Expr) and isinstance(body[0].value, ast.Constant) and isinstance(body[0].value.value, str):
        return body[1:]
    return body
