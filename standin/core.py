"""Bounded stand-in framework: contracts evaluated on the REAL functions over enumerated
small scopes.  Labelled *bounded* in every evidence file and never counted as proved.

A check is an object with
    name      : str
    props     : tuple of property ids it serves
    funcs     : tuple of qualified names it exercises (used to pick counterexample finders)
    cases(tier, rng) -> iterator of JSON-serialisable case dicts
    run(case) -> None (ok) | Fail(sig, msg)
``sig`` is a coarse failure class used to match KNOWN_FINDINGS entries: a different
class of failure of the same check is still reported.
"""

from __future__ import annotations

import contextlib
import io
import itertools
import logging
import json
import os
import random
import sys
import time
import traceback
import warnings

import numpy as np

REPO = os.environ.get("PYTTB_REPO", "/repo")

CHECKS = {}


class Fail(Exception):
    def __init__(self, sig, msg=""):
        super().__init__(f"{sig}: {msg}")
        self.sig = sig
        self.msg = msg


def check(name, props, funcs=()):
    def deco(cls):
        inst = cls()
        inst.name = name
        inst.props = tuple(props)
        inst.funcs = tuple(funcs)
        CHECKS[name] = inst
        return cls
    return deco


logging.disable(logging.WARNING)  # pyttb's own advisory log lines are not check output


def import_pyttb():
    """Import pyttb from the working tree under test (never from site-packages)."""
    if REPO not in sys.path:
        sys.path.insert(0, REPO)
    for m in list(sys.modules):
        pass
    import pyttb  # noqa
    assert os.path.realpath(pyttb.__file__).startswith(os.path.realpath(REPO)), pyttb.__file__
    return pyttb


@contextlib.contextmanager
def quiet():
    with warnings.catch_warnings():
        warnings.simplefilter("ignore")
        old = np.seterr(all="ignore")
        buf = io.StringIO()
        try:
            with contextlib.redirect_stdout(buf):
                yield
        finally:
            np.seterr(**old)


def jsonable(x):
    if isinstance(x, np.ndarray):
        return x.tolist()
    if isinstance(x, (np.integer,)):
        return int(x)
    if isinstance(x, (np.floating,)):
        return float(x)
    if isinstance(x, (np.bool_,)):
        return bool(x)
    if isinstance(x, dict):
        return {str(k): jsonable(v) for k, v in x.items()}
    if isinstance(x, (list, tuple)):
        return [jsonable(v) for v in x]
    if isinstance(x, slice):
        return {"__slice__": [x.start, x.stop, x.step]}
    return x


def run_case(chk, case):
    """Returns None or dict(sig, msg)."""
    try:
        with quiet():
            chk.run(case)
        return None
    except Fail as f:
        return dict(sig=f.sig, msg=f.msg[:2000])
    except AssertionError as e:
        tb = traceback.extract_tb(e.__traceback__)
        where = f"{os.path.basename(tb[-1].filename)}:{tb[-1].lineno}"
        return dict(sig=f"oracle-assert@{where}", msg=str(e)[:2000])
    except Exception as e:  # the real code crashed on an input the contract admits
        tb = traceback.extract_tb(e.__traceback__)
        inrepo = [t for t in tb if "/pyttb/" in t.filename]
        where = f"{os.path.basename(inrepo[-1].filename)}:{inrepo[-1].name}" if inrepo else "harness"
        extra = ""
        if hasattr(chk, "classify"):
            try:
                extra = ":" + chk.classify(case)
            except Exception:
                extra = ""
        return dict(sig=f"crash:{type(e).__name__}@{where}{extra}",
                    msg=((str(e) or repr(e)) + " | case=" + json.dumps(jsonable(case), default=str))[:2000])


def run_check(chk, tier, seed, budget_s=None, max_fail=25):
    rng = random.Random(seed)
    t0 = time.time()
    n = 0
    distinct = set()
    samples = []
    failures = []
    truncated = False
    for case in chk.cases(tier, rng):
        n += 1
        key = json.dumps(jsonable(case), sort_keys=True, default=str)
        distinct.add(hash(key))
        if len(samples) < 2:
            samples.append(jsonable(case))
        r = run_case(chk, case)
        if r is not None:
            r["case"] = jsonable(case)
            r["check"] = chk.name
            # keep one representative per failure class, plus a count
            same = [f for f in failures if f["sig"] == r["sig"]]
            if same:
                same[0]["count"] = same[0].get("count", 1) + 1
            elif len(failures) < max_fail:
                r["count"] = 1
                failures.append(r)
        if budget_s is not None and time.time() - t0 > budget_s:
            truncated = True
            break
    return dict(
        check=chk.name, evaluations=n, distinct=len(distinct), samples=samples, failures=failures,
        wall_s=round(time.time() - t0, 2), truncated=truncated,
    )


# ------------------------------------------------------------------ enumerators

def shapes_upto(max_cells, max_order=4, min_order=1, max_dim=None):
    """All shapes (tuples of ints >= 1) with prod <= max_cells and order in range."""
    out = []
    def rec(prefix, cells):
        if min_order <= len(prefix) <= max_order:
            out.append(tuple(prefix))
        if len(prefix) == max_order:
            return
        d = 1
        while cells * d <= max_cells and (max_dim is None or d <= max_dim):
            rec(prefix + [d], cells * d)
            d += 1
    rec([], 1)
    return out


def all_subs(shape):
    return [tuple(i) for i in itertools.product(*[range(d) for d in shape])]


def f_linear(shape, sub):
    """First-index-fastest linear index (the specification of tt_sub2ind)."""
    lin, mult = 0, 1
    for d, s in zip(shape, sub):
        lin += s * mult
        mult *= d
    return lin


def dense_from(shape, subs, vals):
    a = np.zeros(shape)
    for s, v in zip(subs, vals):
        a[tuple(s)] = v
    return a


def patterns(shape, rng, max_exhaustive_cells=6, samples=12):
    """Sparsity patterns (lists of subscripts): exhaustive for tiny tensors, sampled beyond;
    always includes empty, single and full."""
    cells = all_subs(shape)
    n = len(cells)
    if n <= max_exhaustive_cells:
        for mask in range(1 << n):
            yield [cells[i] for i in range(n) if mask >> i & 1]
        return
    yield []
    yield [cells[rng.randrange(n)]]
    yield list(cells)
    for _ in range(samples):
        k = rng.randint(1, n - 1)
        yield rng.sample(cells, k)


VALUE_POOL = [-2.0, -1.0, 1.0, 2.0, 0.5, 3.0, -1.5]


def orders_of(items, rng, max_exhaustive=4, samples=3):
    """All n! stored orders for up to max_exhaustive items, sampled beyond."""
    items = list(items)
    if len(items) <= max_exhaustive:
        for p in itertools.permutations(items):
            yield list(p)
        return
    yield items
    yield items[::-1]
    for _ in range(samples):
        p = items[:]
        rng.shuffle(p)
        yield p


def mk_sptensor(ttb, shape, subs, vals):
    if len(subs) == 0:
        return ttb.sptensor(shape=tuple(shape))
    return ttb.sptensor(np.array(subs, dtype=int).reshape(len(subs), len(shape)), np.array(vals, dtype=float).reshape(-1, 1), tuple(shape))


def wf_sptensor(S, what="result", zero_free=True):
    """Well-formedness of a sparse tensor (property C06); raises Fail with a class signature."""
    subs, vals, shape = S.subs, S.vals, tuple(S.shape)
    if subs.size == 0 and vals.size == 0:
        return
    if subs.ndim != 2 or vals.ndim != 2 or vals.shape[1] != 1:
        raise Fail("wf:array-rank", f"{what}: subs{subs.shape} vals{vals.shape}")
    if subs.shape[0] != vals.shape[0]:
        raise Fail("wf:one-value-per-subscript", f"{what}: {subs.shape[0]} subscripts but {vals.shape[0]} values")
    if subs.shape[1] != len(shape):
        raise Fail("wf:subs-columns", f"{what}: subs{subs.shape} shape{shape}")
    if not np.issubdtype(subs.dtype, np.integer):
        raise Fail("wf:integer-subs", f"{what}: dtype {subs.dtype}")
    if (subs < 0).any() or (subs >= np.array(shape)).any():
        raise Fail("wf:subs-in-range", f"{what}: subs {subs.tolist()} shape {shape}")
    if len({tuple(r) for r in subs.tolist()}) != subs.shape[0]:
        raise Fail("wf:distinct-subs", f"{what}: duplicate subscripts {subs.tolist()}")
    if S.nnz != subs.shape[0]:
        raise Fail("wf:nnz", f"{what}: nnz {S.nnz} but {subs.shape[0]} stored")
    if zero_free and (vals == 0).any():
        raise Fail("wf:explicit-zero", f"{what}: stored zero in {vals.ravel().tolist()}")


def den_sp(S):
    """Denotation of a well-formed sptensor as a dense ndarray (independent of full())."""
    a = np.zeros(tuple(S.shape))
    if S.subs.size:
        for s, v in zip(S.subs.tolist(), S.vals.ravel().tolist()):
            a[tuple(int(x) for x in s)] = v
    return a


def same(a, b, tol=0.0):
    a, b = np.asarray(a, dtype=float), np.asarray(b, dtype=float)
    if a.shape != b.shape:
        return False
    if tol == 0.0:
        return bool(np.array_equal(a, b, equal_nan=True))
    return bool(np.allclose(a, b, rtol=tol, atol=tol, equal_nan=True))
