"""Bounded stand-in for C05: operations never modify their operands and never alias them."""

import copy
import itertools

import numpy as np

from .core import Fail, check, import_pyttb


def arrays_of(ttb, obj, path="", seen=None):
    """(path, ndarray) for every array reachable from a pyttb object / container."""
    seen = seen if seen is not None else set()
    out = []
    if id(obj) in seen:
        return out
    seen.add(id(obj))
    if isinstance(obj, np.ndarray):
        out.append((path, obj))
    elif isinstance(obj, ttb.tensor):
        out.append((path + ".data", obj.data))
    elif isinstance(obj, ttb.sptensor):
        out += [(path + ".subs", obj.subs), (path + ".vals", obj.vals)]
    elif isinstance(obj, ttb.ktensor):
        out.append((path + ".weights", obj.weights))
        for i, f in enumerate(obj.factor_matrices):
            out.append((f"{path}.factor_matrices[{i}]", f))
    elif isinstance(obj, ttb.ttensor):
        out += arrays_of(ttb, obj.core, path + ".core", seen)
        for i, f in enumerate(obj.factor_matrices):
            out.append((f"{path}.factor_matrices[{i}]", f))
    elif isinstance(obj, ttb.tenmat):
        out += [(path + ".data", obj.data), (path + ".rindices", obj.rindices), (path + ".cindices", obj.cindices)]
    elif isinstance(obj, ttb.sptenmat):
        out += [(path + ".subs", obj.subs), (path + ".vals", obj.vals), (path + ".rdims", obj.rdims), (path + ".cdims", obj.cdims)]
    elif isinstance(obj, ttb.sumtensor):
        for i, p in enumerate(obj.parts):
            out += arrays_of(ttb, p, f"{path}.parts[{i}]", seen)
    elif isinstance(obj, (list, tuple)):
        for i, p in enumerate(obj):
            out += arrays_of(ttb, p, f"{path}[{i}]", seen)
    elif isinstance(obj, dict):
        for k, p in obj.items():
            out += arrays_of(ttb, p, f"{path}[{k!r}]", seen)
    elif hasattr(obj, "toarray") and hasattr(obj, "data"):
        out.append((path + ".data", obj.data))
    return out


def snapshot(ttb, objs):
    snap = []
    for name, o in objs.items():
        for p, a in arrays_of(ttb, o, name):
            snap.append((p, a, a.copy(), a.shape, a.dtype))
        if hasattr(o, "shape") and not isinstance(o, np.ndarray):
            snap.append((name + ".shape", None, tuple(o.shape), None, None))
    return snap


def check_unchanged(ttb, snap, objs, opname, allow_receiver=None):
    for p, a, c, shp, dt in snap:
        if allow_receiver and p.startswith(allow_receiver):
            continue
        if a is None:
            cur = tuple(objs[p[:-6]].shape)
            if cur != c:
                raise Fail(f"mutates-operand:{opname}", f"{p}: {c} -> {cur}")
            continue
        if a.shape != shp or a.dtype != dt or not np.array_equal(a, c, equal_nan=True):
            raise Fail(f"mutates-operand:{opname}", f"{p} changed by {opname}: {c.tolist()} -> {a.tolist()}")


def check_independent(ttb, result, objs, opname):
    res = arrays_of(ttb, result, "result")
    for name, o in objs.items():
        for p, a in arrays_of(ttb, o, name):
            if a.size == 0:
                continue
            for rp, ra in res:
                if ra.size and np.shares_memory(a, ra):
                    raise Fail(f"aliases-operand:{opname}", f"{rp} shares memory with {p} after {opname}")


def _objects(ttb, shp, rs):
    N = len(shp)
    X = rs.randint(-2, 3, size=shp).astype(float)
    X[rs.rand(*shp) < 0.4] = 0
    if not X.any():
        X[(0,) * N] = 1.0
    T = ttb.tensor(X.copy())
    S = T.to_sptensor()
    R = 2
    K = ttb.ktensor([rs.randint(1, 4, size=(d, R)).astype(float) for d in shp], np.array([2.0, 3.0]))
    ranks = tuple(min(2, d) for d in shp)
    TT = ttb.ttensor(ttb.tensor(rs.randint(-2, 3, size=ranks).astype(float)), [rs.randint(-2, 3, size=(d, k)).astype(float) for d, k in zip(shp, ranks)])
    return dict(T=T, S=S, K=K, TT=TT)


def _ops(ttb, shp, rs):
    """(name, operand names, callable(objs) -> result).  In-place operations are listed with
    inplace=<receiver name>."""
    N = len(shp)
    ident = np.arange(N)
    rev = ident[::-1].copy()
    vec = [np.arange(1.0, d + 1) for d in shp]
    mats = [np.arange(2.0 * d).reshape(2, d) + 1 for d in shp]
    U = [np.arange(2.0 * d).reshape(d, 2) + 1 for d in shp]
    tot = int(np.prod(shp))
    subs = np.array([[0] * N, [d - 1 for d in shp]])
    lin = np.array([0, tot - 1])
    neglin = np.array([-1, -tot])
    ops = []
    A = ops.append
    for cls in ("T", "S", "K", "TT"):
        A((f"{cls}.copy", lambda o, c=cls: o[c].copy()))
        A((f"{cls}.deepcopy", lambda o, c=cls: copy.deepcopy(o[c])))
        A((f"{cls}.full", lambda o, c=cls: o[c].full()))
        A((f"{cls}.double", lambda o, c=cls: o[c].double()))
        A((f"{cls}.permute(identity)", lambda o, c=cls: o[c].permute(ident.copy())))
        A((f"{cls}.permute(reverse)", lambda o, c=cls: o[c].permute(rev.copy())))
        A((f"{cls}.norm", lambda o, c=cls: o[c].norm()))
        A((f"{cls}.innerprod(T)", lambda o, c=cls: o[c].innerprod(o["T"])))
        A((f"{cls}.ttv(all)", lambda o, c=cls: o[c].ttv([v.copy() for v in vec])))
        if N >= 2:
            A((f"{cls}.ttv(mode0)", lambda o, c=cls: o[c].ttv(vec[0].copy(), 0)))
            A((f"{cls}.mttkrp", lambda o, c=cls: o[c].mttkrp([u.copy() for u in U], 0)))
            A((f"{cls}.mttkrp(ktensor)", lambda o, c=cls: o[c].mttkrp(o["K"], 1)))
            A((f"{cls}.nvecs", lambda o, c=cls: o[c].nvecs(0, 1)))
        A((f"-{cls}", lambda o, c=cls: -o[c]))
        A((f"+{cls}", lambda o, c=cls: +o[c]))
        A((f"{cls}.isequal", lambda o, c=cls: o[c].isequal(o[c].copy())))
    for cls in ("T", "S", "TT"):
        A((f"{cls}.ttm(mode0)", lambda o, c=cls: o[c].ttm(mats[0].copy(), 0)))
        A((f"{cls}.ttm(all)", lambda o, c=cls: o[c].ttm([m.copy() for m in mats])))
    for cls in ("T", "S"):
        A((f"{cls}.reshape(same)", lambda o, c=cls: o[c].reshape(tuple(shp))))
        A((f"{cls}.reshape(flat)", lambda o, c=cls: o[c].reshape((tot,))))
        A((f"{cls}.squeeze", lambda o, c=cls: o[c].squeeze()))
        A((f"{cls}.collapse", lambda o, c=cls: o[c].collapse(np.array([0]))))
        A((f"{cls}.scale", lambda o, c=cls: o[c].scale(vec[0].copy(), 0)))
        A((f"{cls}[subs]", lambda o, c=cls: o[c][subs.copy()]))
        A((f"{cls}[linear]", lambda o, c=cls: o[c][lin.copy()]))
        A((f"{cls}[neg-linear]", lambda o, c=cls: o[c][neglin.copy()]))
        A((f"{cls}[region]", lambda o, c=cls: o[c][tuple(slice(None) for _ in shp)]))
        A((f"{cls}.find", lambda o, c=cls: o[c].find()))
        A((f"{cls}*2", lambda o, c=cls: o[c] * 2))
        A((f"{cls}+{cls}", lambda o, c=cls: o[c] + o[c]))
        A((f"{cls}-T", lambda o, c=cls: o[c] - o["T"]))
        A((f"{cls}*T", lambda o, c=cls: o[c] * o["T"]))
        A((f"{cls}*S", lambda o, c=cls: o[c] * o["S"]))
        A((f"{cls}==T", lambda o, c=cls: o[c] == o["T"]))
        A((f"{cls}<S", lambda o, c=cls: o[c] < o["S"]))
        A((f"{cls}.logical_and", lambda o, c=cls: o[c].logical_and(o[c])))
        A((f"{cls}.logical_not", lambda o, c=cls: o[c].logical_not()))
        A((f"{cls}.mask", lambda o, c=cls: o[c].mask(o["S"] if c == "S" else o["T"])))
        if N >= 2 and shp[0] == shp[1]:
            A((f"{cls}.contract", lambda o, c=cls: o[c].contract(0, 1)))
    A(("T.to_sptensor", lambda o: o["T"].to_sptensor()))
    A(("T.to_tenmat", lambda o: o["T"].to_tenmat(np.array([0]))))
    A(("T.to_tenmat.to_tensor", lambda o: o["T"].to_tenmat(np.array([0])).to_tensor()))
    A(("T.exp", lambda o: o["T"].exp()))
    A(("T**2", lambda o: o["T"] ** 2))
    A(("T.tenfun", lambda o: o["T"].tenfun(lambda x: x + 1)))
    A(("tensor(data)", lambda o: ttb.tensor(o["T"].data)))
    A(("tensor(data,copy=True)", lambda o: ttb.tensor(o["T"].data, copy=True)))
    A(("sptensor(subs,vals,shape)", lambda o: ttb.sptensor(o["S"].subs, o["S"].vals, o["S"].shape)))
    A(("ktensor(factors,weights)", lambda o: ttb.ktensor(o["K"].factor_matrices, o["K"].weights)))
    A(("ttensor(core,factors)", lambda o: ttb.ttensor(o["TT"].core, o["TT"].factor_matrices)))
    A(("sumtensor([T,K])", lambda o: ttb.sumtensor([o["T"], o["K"]])))
    A(("sumtensor+T", lambda o: ttb.sumtensor([o["T"], o["K"]]) + o["T"]))
    A(("sumtensor.full", lambda o: ttb.sumtensor([o["T"], o["K"]]).full()))
    A(("S.to_sptenmat", lambda o: o["S"].to_sptenmat(np.array([0]))))
    A(("S.to_sptenmat.to_sptensor", lambda o: o["S"].to_sptenmat(np.array([0])).to_sptensor()))
    A(("S.elemfun", lambda o: o["S"].elemfun(lambda v: v + 1)))
    A(("S.ones", lambda o: o["S"].ones()))
    A(("S.extract", lambda o: o["S"].extract(subs.copy())))
    A(("S.squash", lambda o: o["S"].squash()))
    A(("S/2", lambda o: o["S"] / 2))
    A(("S/S", lambda o: o["S"] / o["S"]))
    A(("K.tovec", lambda o: o["K"].tovec()))
    A(("K.tolist", lambda o: o["K"].tolist()))
    A(("K.tolist(0)", lambda o: o["K"].tolist(0)))
    A(("K.extract", lambda o: o["K"].extract(np.array([0]))))
    A(("K+K", lambda o: o["K"] + o["K"]))
    A(("K-K", lambda o: o["K"] - o["K"]))
    A(("K*2", lambda o: o["K"] * 2))
    A(("K.to_tensor", lambda o: o["K"].to_tensor()))
    A(("K.score", lambda o: o["K"].score(o["K"].copy())))
    A(("K.mask", lambda o: o["K"].mask(o["S"])))
    A(("K.from_vector", lambda o: ttb.ktensor.from_vector(o["K"].tovec(), o["K"].shape, True)))
    A(("K.symmetrize", lambda o: o["K"].symmetrize()) if len(set(shp)) == 1 else ("K.ncomponents", lambda o: o["K"].ncomponents))
    A(("TT.reconstruct", lambda o: o["TT"].reconstruct()))
    A(("TT.to_tensor", lambda o: o["TT"].to_tensor()))
    A(("K.fixsigns(other)", lambda o: o["K"].copy().fixsigns(o["K"])))
    A(("K.copy.normalize", lambda o: o["K"].copy().normalize()))
    A(("K.copy.arrange", lambda o: o["K"].copy().arrange()))
    A(("K.copy.redistribute", lambda o: o["K"].copy().redistribute(0)))
    A(("khatrirao", lambda o: ttb.khatrirao(*[u for u in o["K"].factor_matrices])))
    # operations with extra operands: (name, f, prep) -- prep adds the operands to objs BEFORE the snapshot
    A(("tt_ind2sub(neg)", lambda o: ttb.pyttb_utils.tt_ind2sub(tuple(shp), o["idx"]), lambda o: o.update(idx=neglin.copy())))
    A(("tt_sub2ind", lambda o: ttb.pyttb_utils.tt_sub2ind(tuple(shp), o["subs"]), lambda o: o.update(subs=subs.copy())))
    A(("tt_renumber", lambda o: ttb.pyttb_utils.tt_renumber(o["subs"], tuple(shp), tuple(slice(0, d) for d in shp)), lambda o: o.update(subs=subs.copy())))

    # assignments: performed on a copy of the receiver; the right-hand side is an operand
    def region(off):
        return tuple(slice(off, d) for d in shp)

    def rhs_sparse(off):
        rshape = tuple(d - off for d in shp)
        V = np.arange(1.0, float(np.prod(rshape)) + 1).reshape(rshape)
        V[(0,) * N] = 0.0
        return ttb.tensor(V).to_sptensor()

    def assign(recv, key, val):
        recv[key] = val
        return recv

    for off in (0, 1):
        if all(d - off >= 1 for d in shp) and any(d - off >= 2 for d in shp):
            A((f"S.copy[region+{off}]=sptensor", lambda o, off=off: assign(o["S"].copy(), region(off), o["V"]), lambda o, off=off: o.update(V=rhs_sparse(off))))
            A((f"S.empty[region+{off}]=sptensor", lambda o, off=off: assign(ttb.sptensor(shape=shp), region(off), o["V"]), lambda o, off=off: o.update(V=rhs_sparse(off))))
            A((f"T.copy[region+{off}]=tensor", lambda o, off=off: assign(o["T"].copy(), region(off), o["V"]), lambda o, off=off: o.update(V=rhs_sparse(off).to_tensor())))
            A((f"T.copy[region+{off}]=ndarray", lambda o, off=off: assign(o["T"].copy(), region(off), o["V"]), lambda o, off=off: o.update(V=rhs_sparse(off).double())))
    A(("S.copy[subs]=vals", lambda o: assign(o["S"].copy(), o["subs"], o["vals"]), lambda o: o.update(subs=subs.copy(), vals=np.array([[5.0], [0.0]]))))
    A(("S.empty[subs]=vals", lambda o: assign(ttb.sptensor(shape=shp), o["subs"], o["vals"]), lambda o: o.update(subs=subs.copy(), vals=np.array([[5.0], [6.0]]))))
    A(("T.copy[subs]=vals", lambda o: assign(o["T"].copy(), o["subs"], o["vals"]), lambda o: o.update(subs=subs.copy(), vals=np.array([5.0, 0.0]))))
    A(("T.copy[lin]=vals", lambda o: assign(o["T"].copy(), o["lin"], o["vals"]), lambda o: o.update(lin=lin.copy(), vals=np.array([5.0, 0.0]))))
    return ops


@check("c05.operations", ["C05"], [
    "pyttb.tensor.tensor.permute", "pyttb.tensor.tensor.reshape", "pyttb.tensor.tensor.exp", "pyttb.ktensor.ktensor.ttv",
    "pyttb.ktensor.ktensor.fixsigns", "pyttb.pyttb_utils.tt_ind2sub", "pyttb.tensor.tensor.__init__",
    "pyttb.sptensor.sptensor.__init__", "pyttb.ktensor.ktensor.__init__", "pyttb.ttensor.ttensor.__init__",
    "pyttb.sptensor.sptensor.find", "pyttb.ktensor.ktensor.tolist", "pyttb.sumtensor.sumtensor.__init__"])
class _:
    """~150 public operations per shape (including identity permutations, size-preserving
    reshapes, singleton modes, single-mode selections): operands bit-for-bit unchanged and no
    array reachable from the result shares memory with an array reachable from an operand."""

    SHAPES = [(3,), (2, 2), (1, 3), (3, 1, 2), (2, 2, 2), (1, 1)]

    def cases(self, tier, rng):
        import random
        for shp in self.SHAPES:
            rs = np.random.RandomState(0)
            n = len(_ops(import_pyttb(), shp, rs))
            for i in range(n):
                for seed in range(1 if tier == "quick" else 3):
                    yield dict(shape=list(shp), op=i, seed=seed)

    def run(self, case):
        ttb = import_pyttb()
        shp = tuple(case["shape"])
        rs = np.random.RandomState(case["seed"])
        objs = _objects(ttb, shp, rs)
        op = _ops(ttb, shp, rs)[case["op"]]
        name, f = op[0], op[1]
        if len(op) > 2:
            op[2](objs)
        snap = snapshot(ttb, objs)
        try:
            res = f(objs)
        except (AssertionError, ValueError, TypeError, NotImplementedError, IndexError, AttributeError) as e:
            # an operation that is not offered for this class / shape: nothing to check,
            # but the operands must still be intact
            check_unchanged(ttb, snap, objs, name)
            return
        check_unchanged(ttb, snap, objs, name)
        # find() is documented to hand out the stored arrays; copy=False style constructors too
        if name.endswith(".find") or name in ("K.ncomponents",):
            return
        check_independent(ttb, res, objs, name)


def _algos(ttb):
    def cp_als(X, init):
        return ttb.cp_als(X, 2, init=init, maxiters=3, printitn=0)

    def cp_als_opt(X, init):
        return ttb.cp_als(X, 2, init=init, maxiters=3, printitn=0, optdims=[0, 1], dimorder=[1, 0, 2])

    def cp_apr(alg):
        def f(X, init):
            return ttb.cp_apr(X, 2, init=init, algorithm=alg, maxiters=2, maxinneriters=2, printitn=0, printinneritn=0)
        return f

    def tucker(X, init):
        return ttb.tucker_als(X, 2, init=[f.copy() if False else f for f in init.factor_matrices] if isinstance(init, ttb.ktensor) else init, maxiters=2, printitn=0)

    def hosvd(X, init):
        r = np.array([2, 2, 2])
        out = ttb.hosvd(X, 1e-2, ranks=r, verbosity=0)
        if not np.array_equal(r, [2, 2, 2]):
            raise Fail("mutates-operand:hosvd(ranks)", f"ranks became {r}")
        r0 = np.zeros(3, dtype=int)
        ttb.hosvd(X, 1e-1, ranks=r0, verbosity=0)
        if r0.any():
            raise Fail("mutates-operand:hosvd(ranks)", f"ranks became {r0}")
        return out

    def gcp(X, init):
        from pyttb.gcp.optimizers import LBFGSB
        from pyttb.gcp.fg_setup import Objectives
        return ttb.gcp_opt(X, 2, Objectives.GAUSSIAN, LBFGSB(maxiter=2), init=init, printitn=0)

    def gcp_stoch(opt, rate, max_fails, direct=False):
        # stochastic solvers, with rates from cautious to far too large (the first epochs then fail and are rolled back)
        def f(X, init):
            from pyttb.gcp import optimizers
            from pyttb.gcp.fg_setup import Objectives
            solver = getattr(optimizers, opt)(rate=rate, epoch_iters=3, max_iters=3, max_fails=max_fails, printitn=0)
            if direct:
                # the solver's own entry point, as gcp_opt calls it
                from pyttb.gcp import samplers
                from pyttb.gcp.handles import gaussian, gaussian_grad
                return solver.solve(init, X, gaussian, gaussian_grad, sampler=samplers.GCPSampler(X, function_samples=20, gradient_samples=10))
            return ttb.gcp_opt(X, 2, Objectives.GAUSSIAN, solver, init=init, printitn=0)
        return f

    out = dict(cp_als=cp_als, cp_als_optdims=cp_als_opt, cp_apr_mu=cp_apr("mu"), cp_apr_pdnr=cp_apr("pdnr"),
               cp_apr_pqnr=cp_apr("pqnr"), tucker_als=tucker, hosvd=hosvd, gcp_opt=gcp)
    for opt in ("SGD", "Adam", "Adagrad"):
        for rate in (1e-3, 0.5, 50.0):
            for mf in (0, 1):
                out[f"gcp_{opt}_rate{rate}_fails{mf}"] = gcp_stoch(opt, rate, mf)
                out[f"solve_{opt}_rate{rate}_fails{mf}"] = gcp_stoch(opt, rate, mf, direct=True)
    return out


STOCH_ALGS = [f"{pre}_{opt}_rate{rate}_fails{mf}" for pre in ("gcp", "solve") for opt in ("SGD", "Adam", "Adagrad") for rate in (1e-3, 0.5, 50.0) for mf in (0, 1)]


@check("c05.algorithms", ["C05", "C09", "C10", "C11"], [
    "pyttb.cp_als.cp_als", "pyttb.cp_apr.cp_apr", "pyttb.cp_apr.tt_cp_apr_mu", "pyttb.cp_apr.tt_cp_apr_pdnr",
    "pyttb.cp_apr.tt_cp_apr_pqnr", "pyttb.hosvd.hosvd", "pyttb.tucker_als.tucker_als", "pyttb.gcp_opt.gcp_opt"])
class _:
    """Algorithm entry points on dense and sparse data with a caller-supplied initial guess
    (including guesses with zero rows / unnormalised columns): data, guess and option arrays
    unchanged; the returned model and initial guess do not alias the caller's objects."""

    def cases(self, tier, rng):
        for alg in ["cp_als", "cp_als_optdims", "cp_apr_mu", "cp_apr_pdnr", "cp_apr_pqnr", "tucker_als", "hosvd", "gcp_opt"]:
            for data in ("dense", "sparse"):
                for guess in ("plain", "zero-row"):
                    for seed in range(1 if tier == "quick" else 3):
                        yield dict(alg=alg, data=data, guess=guess, seed=seed)
        for alg in STOCH_ALGS:
            for data in ("dense", "sparse"):
                for guess in ("plain", "near-optimal"):
                    for seed in range(1 if tier == "quick" else 3):
                        yield dict(alg=alg, data=data, guess=guess, seed=seed)

    def run(self, case):
        ttb = import_pyttb()
        rs = np.random.RandomState(case["seed"])
        shp = (4, 3, 3)
        X = rs.poisson(1.0, size=shp).astype(float)
        X[0, :, :] = 0 if case["guess"] == "zero-row" else X[0, :, :]
        data = ttb.tensor(X.copy()) if case["data"] == "dense" else ttb.tensor(X.copy()).to_sptensor()
        if case["alg"] in ("hosvd", "tucker_als") and case["data"] == "sparse":
            return
        U = [rs.rand(d, 2) + 0.1 for d in shp]
        if case["guess"] == "zero-row":
            U[0][0, :] = 0.0
        init = ttb.ktensor([u.copy() for u in U], np.array([1.0, 1.0]))
        if case["guess"] == "near-optimal":
            # the data are (almost) the model of the guess: any sizeable step makes the estimate worse
            Xm = np.einsum("ar,br,cr->abc", *U)
            data = ttb.tensor(Xm.copy()) if case["data"] == "dense" else ttb.tensor(np.where(Xm > np.median(Xm), Xm, 0.0)).to_sptensor()
        objs = dict(data=data, init=init)
        if case["alg"] == "tucker_als":
            objs["init"] = [u.copy() for u in U]
        snap = snapshot(ttb, objs)
        np.random.seed(case["seed"])
        f = _algos(ttb)[case["alg"]]
        try:
            res = f(objs["data"], objs["init"])
        except (AssertionError, ValueError):
            # the algorithm declined the problem (its own validation): operands must be intact
            check_unchanged(ttb, snap, objs, case["alg"])
            return
        check_unchanged(ttb, snap, objs, case["alg"])
        model = res[0] if isinstance(res, tuple) else res
        check_independent(ttb, model, objs, case["alg"] + ":model")
        if isinstance(res, tuple) and len(res) > 1 and res[1] is not objs["init"]:
            check_independent(ttb, res[1], objs, case["alg"] + ":returned-guess")
