"""Bounded stand-ins for C14 (nvecs), C15 (symmetrize / issymmetric), C16 (export / import)
and C20 (generators, aggregating constructors)."""

import itertools
import os
import tempfile

import numpy as np

from .core import Fail, all_subs, check, den_sp, import_pyttb, same, wf_sptensor
from .c08 import kfull


# ============================================================================ C14

def _spectral(rs, shp, n, gaps, balanced=False, decay=0.5):
    """Tensor whose mode-n unfolding has prescribed, well separated singular values.  balanced: the leading
    mode-n vectors are (1,..,1)/sqrt(d) and (1,-1,0,..)/sqrt(2) (largest and most negative entry of equal size)."""
    d = shp[n]
    rest = int(np.prod(shp)) // d
    k = min(d, rest)
    U = np.linalg.qr(rs.randn(d, d))[0]
    if balanced and d >= 2:
        B = rs.randn(d, d)
        B[:, 0] = 1.0
        B[:, 1] = 0.0
        B[0, 1], B[1, 1] = 1.0, -1.0
        U = np.linalg.qr(B)[0]
        U[:, 0] *= np.sign(U[0, 0])
        U[:, 1] *= np.sign(U[0, 1])
    V = np.linalg.qr(rs.randn(rest, rest))[0]
    s = np.array([10.0 * (decay ** i) for i in range(k)])
    Xn = (U[:, :k] * s) @ V[:, :k].T
    order = [n] + [m for m in range(len(shp)) if m != n]
    X = Xn.reshape([shp[m] for m in order], order="F")
    return np.transpose(X, np.argsort(order)), U, s


@check("c14.nvecs", ["C14"], [
    "pyttb.tensor.tensor.nvecs", "pyttb.sptensor.sptensor.nvecs", "pyttb.ktensor.ktensor.nvecs", "pyttb.ttensor.ttensor.nvecs"])
class _:
    """All modes n and counts 1 <= r <= size(n) (iterative and dense paths) for dense, sparse,
    Kruskal and Tucker holders of the same data with a well separated spectrum."""

    def cases(self, tier, rng):
        shapes = [(4, 3), (3, 4, 2), (5, 2, 2)] if tier == "quick" else [(4, 3), (7, 3), (3, 4, 2), (5, 2, 2), (4, 4, 3), (2, 12, 3), (3, 2, 2, 3)]
        for shp in shapes:
            for n in range(len(shp)):
                for r in range(1, shp[n] + 1):
                    for flip in (True, False):
                        for kind in ("tensor", "sptensor", "ktensor", "ttensor"):
                            yield dict(shape=list(shp), n=n, r=r, flip=flip, kind=kind, seed=rng.randrange(10**6))
        # slices without any stored entry at the end / start of the mode (the unfolding must still have shape[n] rows)
        for shp in [(5, 3, 2), (4, 4)]:
            for n in range(len(shp)):
                for r in (1, 2, shp[n]):
                    for kind in ("tensor", "sptensor"):
                        for where in ("last", "first"):
                            yield dict(shape=list(shp), n=n, r=r, flip=True, kind=kind, empty_slice=where, seed=rng.randrange(10**6))
        # data held in another element type: single precision with a steep spectrum (the third eigenvalue of the Gram
        # matrix is 1e-8 of the first: lost if the Gram matrix is formed in single precision), small integers
        for shp in [(6, 5, 4), (5, 6)]:
            for n in range(len(shp)):
                for r in (1, 3, shp[n]):
                    yield dict(shape=list(shp), n=n, r=r, flip=True, kind="tensor", dtype="float32", decay=1e-2, seed=rng.randrange(10**6))
                    yield dict(shape=list(shp), n=n, r=r, flip=True, kind="tensor", dtype="int16", seed=rng.randrange(10**6))
        # the same data at very small / large overall scale (the vectors do not depend on it), Tucker with a sparse core
        for shp in [(4, 3, 3), (5, 4)]:
            for n in range(len(shp)):
                for r in (1, 2, shp[n]):
                    for kind in ("tensor", "sptensor", "ktensor", "ttensor", "ttensor-sparse-core"):
                        for scale in (1e-8, 1e6):
                            yield dict(shape=list(shp), n=n, r=r, flip=True, kind=kind, scale=scale, seed=rng.randrange(10**6))
        # leading vectors whose largest and most negative entries have the same magnitude (sign rule ties)
        for shp in [(2, 3, 2), (4, 3), (3, 2, 2)]:
            for n in range(len(shp)):
                for r in range(1, shp[n] + 1):
                    for kind in ("tensor", "sptensor"):
                        yield dict(shape=list(shp), n=n, r=r, flip=True, kind=kind, balanced=True, seed=rng.randrange(10**6))

    def run(self, case):
        ttb = import_pyttb()
        rs = np.random.RandomState(case["seed"])
        shp, n, r, kind = tuple(case["shape"]), case["n"], case["r"], case["kind"]
        N = len(shp)
        if kind in ("tensor", "sptensor"):
            X, _, _ = _spectral(rs, shp, n, None, case.get("balanced", False), case.get("decay", 0.5))
            if case.get("dtype"):
                # data held in single precision (or as integers): the vectors are those of the real values stored
                X = (np.round(X * 200) if case["dtype"].startswith("int") else X).astype(case["dtype"])
                Xs, X = X, X.astype(float)
            if case.get("empty_slice"):
                sl = [slice(None)] * N
                sl[n] = shp[n] - 1 if case["empty_slice"] == "last" else 0
                X = X.copy()
                X[tuple(sl)] = 0.0
            if case.get("scale"):
                X = X * case["scale"]
            obj = ttb.tensor(Xs.copy() if case.get("dtype") else X.copy())
            if kind == "sptensor":
                obj = obj.to_sptensor()
        elif kind == "ktensor":
            R = 3
            U = [rs.randn(d, R) for d in shp]
            w = np.array([5.0, 2.0, 0.7]) * case.get("scale", 1.0)
            obj = ttb.ktensor([u.copy() for u in U], w.copy())
            X = kfull(U, w)
        else:
            ranks = [min(3, d) for d in shp]
            G = rs.randn(*ranks) * case.get("scale", 1.0)
            V = [rs.randn(d, k) for d, k in zip(shp, ranks)]
            core = ttb.tensor(G.copy())
            if kind == "ttensor-sparse-core":
                G = np.where(rs.rand(*ranks) < 0.7, G, 0.0)
                G[(0,) * N] = case.get("scale", 1.0)
                core = ttb.tensor(G.copy()).to_sptensor()
            obj = ttb.ttensor(core, [v.copy() for v in V])
            X = G
            for m in range(N):
                X = np.moveaxis(np.tensordot(V[m], X, axes=(1, m)), 0, m)
        Xn = np.moveaxis(X, n, 0).reshape(shp[n], -1)
        Gram = Xn @ Xn.T
        ew, ev = np.linalg.eigh(Gram)
        ew, ev = ew[::-1], ev[:, ::-1]
        rank = int((ew > 1e-9 * ew[0]).sum())
        path = "iter" if r < shp[n] - 1 else "dense"
        # (the dense path of sptensor.nvecs is a recorded finding: its failures keep one class whatever the scale)
        cls = f"{kind}:{path}" + (":scaled" if case.get("scale") and not (kind == "sptensor" and path == "dense") else "")
        V_ = obj.nvecs(n, r, flipsign=case["flip"])
        V_ = np.asarray(V_)
        if np.iscomplexobj(V_):
            raise Fail(f"complex-output:{cls}", f"{case}")
        if V_.shape != (shp[n], r):
            raise Fail(f"shape:{cls}", f"{case}: {V_.shape}")
        if np.abs(V_.T @ V_ - np.eye(r)).max() > 1e-8:
            raise Fail(f"orthonormal:{cls}", f"{case}: {V_.T @ V_}")
        k = min(r, rank)
        # columns are eigenvectors of the Gram matrix for its largest eigenvalues, in decreasing order
        for c in range(k):
            res = np.linalg.norm(Gram @ V_[:, c] - ew[c] * V_[:, c])
            if res > 1e-6 * (max(1.0, ew[0]) if not case.get("scale") else ew[0]):
                raise Fail(f"eigenvector-order:{cls}", f"{case}: column {c} residual {res} for eigenvalue {ew[c]} (spectrum {ew})")
        if case["flip"]:
            for c in range(k):
                a = np.abs(V_[:, c])
                i = int(np.argmax(a))
                tie = (a >= a[i] * (1 - 1e-9)).sum() > 1 and (V_[a >= a[i] * (1 - 1e-9), c] < 0).any() and (V_[a >= a[i] * (1 - 1e-9), c] > 0).any()
                if V_[i, c] < 0 and not tie:
                    raise Fail(f"sign:{cls}", f"{case}: column {c}")
        # same subspace as the dense representation
        Pd = ev[:, :k] @ ev[:, :k].T
        Pv = V_[:, :k] @ V_[:, :k].T
        if np.abs(Pd - Pv).max() > 1e-6:
            raise Fail(f"subspace:{cls}", f"{case}")


# ============================================================================ C15

def _sym_avg(X, grps):
    """Average over all permutations of the modes within each group (by definition)."""
    N = X.ndim
    Y = X.copy()
    for g in grps:
        acc = np.zeros_like(Y)
        perms = list(itertools.permutations(g))
        for p in perms:
            full = list(range(N))
            for a, b in zip(g, p):
                full[a] = b
            acc += np.transpose(Y, full)
        Y = acc / len(perms)
    return Y


def _is_sym(X, grps):
    N = X.ndim
    for g in grps:
        for p in itertools.permutations(g):
            full = list(range(N))
            for a, b in zip(g, p):
                full[a] = b
            if not np.array_equal(np.transpose(X, full), X):
                return False
    return True


@check("c15.symmetry", ["C15"], [
    "pyttb.tensor.tensor.symmetrize", "pyttb.tensor.tensor.issymmetric", "pyttb.ktensor.ktensor.symmetrize",
    "pyttb.ktensor.ktensor.issymmetric"])
class _:
    """Every choice of one or two disjoint groups of equal-sized modes (proper subsets included)
    for cubical-per-group shapes, both algorithm versions, with and without details; Kruskal
    symmetrisation for even / odd orders and weights of either sign."""

    def cases(self, tier, rng):
        specs = [((2, 2), [[0, 1]]), ((3, 3), [[0, 1]]), ((2, 2, 2), [[0, 1, 2]]), ((2, 2, 2), [[0, 1]]), ((2, 2, 2), [[0, 2]]),
                 ((2, 3, 2), [[0, 2]]), ((3, 2, 2), [[1, 2]]), ((2, 2, 3, 3), [[0, 1], [2, 3]]), ((2, 3, 3, 2), [[0, 3], [1, 2]]),
                 ((2, 2, 2, 2), [[0, 3], [1, 2]]), ((3, 3, 3), [[0, 1, 2]]), ((3, 3, 2), [[0, 1]])]
        # a group of trailing modes behind two or more untouched leading modes of different sizes, and the converse
        extra = [((2, 3, 2, 2), [[2, 3]]), ((2, 2, 3, 3), [[2, 3]]), ((3, 2, 2, 2), [[1, 2, 3]]), ((2, 2, 3, 4), [[0, 1]]), ((2, 3, 4, 2, 2), [[3, 4]])]
        if tier == "quick":
            specs = specs[:9] + extra[:3]
        else:
            specs = specs + extra
        for shp, grps in specs:
            for version in (None, 1):
                for kind in ("generic", "symmetric", "integer"):
                    yield dict(shape=list(shp), grps=grps, version=version, kind=kind, seed=rng.randrange(10**6))
        for N in (2, 3, 4):
            for w in ("pos", "mixed"):
                yield dict(k=True, N=N, d=2 if N == 4 else 3, R=2, w=w, seed=rng.randrange(10**6))

    def run(self, case):
        ttb = import_pyttb()
        rs = np.random.RandomState(case["seed"])
        if case.get("k"):
            N, d, R = case["N"], case["d"], case["R"]
            w = np.array([2.0, 3.0]) if case["w"] == "pos" else np.array([-2.0, 3.0])
            # already symmetric Kruskal tensor keeps its value; a generic one becomes symmetric
            A = rs.rand(d, R) + 0.2
            Ksym = ttb.ktensor([A.copy() for _ in range(N)], w.copy())
            X = kfull([A] * N, w)
            S1 = Ksym.symmetrize()
            if not same(kfull([np.asarray(f) for f in S1.factor_matrices], np.asarray(S1.weights)), X, 1e-9):
                raise Fail(f"ktensor.symmetrize:symmetric-input-changes:{'even' if N % 2 == 0 else 'odd'}:{case['w']}", f"{case}")
            K = ttb.ktensor([rs.rand(d, R) + 0.2 for _ in range(N)], w.copy())
            S2 = K.symmetrize()
            if not S2.issymmetric():
                raise Fail("ktensor.symmetrize:result-not-symmetric", f"{case}")
            Y = kfull([np.asarray(f) for f in S2.factor_matrices], np.asarray(S2.weights))
            if not _is_close_sym(Y):
                raise Fail("ktensor.symmetrize:array-not-symmetric", f"{case}")
            S3 = S2.copy().symmetrize()
            if not same(kfull([np.asarray(f) for f in S3.factor_matrices], np.asarray(S3.weights)), Y, 1e-9):
                raise Fail("ktensor.symmetrize:not-idempotent", f"{case}")
            if bool(Ksym.issymmetric()) is not True or bool(K.issymmetric()) is not False:
                raise Fail("ktensor.issymmetric", f"{case}")
            # a padded (all-zero) component: in every factor (the tensor is still symmetric and keeps its value) and in
            # one factor only (the component contributes nothing; the result is symmetric and finite)
            Az = np.hstack([A, np.zeros((d, 1))])
            wz = np.append(w, 1.5)
            Kz = ttb.ktensor([Az.copy() for _ in range(N)], wz.copy())
            Sz = Kz.symmetrize()
            Yz = kfull([np.asarray(f) for f in Sz.factor_matrices], np.asarray(Sz.weights))
            if not np.isfinite(Yz).all() or not same(Yz, X, 1e-9):
                raise Fail("ktensor.symmetrize:zero-component-changes-symmetric-input", f"{case}")
            Fz = [rs.rand(d, R + 1) + 0.2 for _ in range(N)]
            Fz[N - 1][:, R] = 0.0
            Kz = ttb.ktensor([f.copy() for f in Fz], wz.copy())
            Sz = Kz.symmetrize()
            Yz = kfull([np.asarray(f) for f in Sz.factor_matrices], np.asarray(Sz.weights))
            if not np.isfinite(Yz).all() or not _is_close_sym(Yz) or not Sz.issymmetric():
                raise Fail("ktensor.symmetrize:zero-column", f"{case}")
            Sz2 = Sz.copy().symmetrize()
            if not same(kfull([np.asarray(f) for f in Sz2.factor_matrices], np.asarray(Sz2.weights)), Yz, 1e-9):
                raise Fail("ktensor.symmetrize:zero-column:not-idempotent", f"{case}")
            # the test is exact: factors that differ by a rounding-size amount / by a small relative amount on large
            # entries are not symmetric
            for eps, scale in ((1e-9, 1.0), (1.0, 1e5)):
                B = [A.copy() * scale for _ in range(N)]
                B[N - 1][0, 0] += eps
                Kn = ttb.ktensor([b.copy() for b in B], w.copy())
                if bool(Kn.issymmetric()) is not False:
                    raise Fail("ktensor.issymmetric:nearly-equal-factors-accepted", f"{case} eps={eps} scale={scale}")
                ok, diffs = Kn.issymmetric(return_diffs=True)
                if bool(ok) is not False or not (np.asarray(diffs) != 0).any():
                    raise Fail("ktensor.issymmetric:diffs", f"{case}")
            return
        shp, grps, version = tuple(case["shape"]), case["grps"], case["version"]
        g = np.array(grps)
        cls = f"v{version or 2}:{len(grps)}grp:{'proper' if sum(len(x) for x in grps) < len(shp) else 'all'}"
        if case["kind"] == "integer":
            X = rs.randint(-3, 4, size=shp).astype(float)
        else:
            X = rs.randn(*shp)
        if case["kind"] == "symmetric":
            X = _sym_avg(rs.randint(-3, 4, size=shp).astype(float) * 8, grps)
        T = ttb.tensor(X.copy())
        exp = _sym_avg(X, grps)
        tol = 1e-12
        # symmetry test is exact
        want = _is_sym(X, grps)
        got = T.issymmetric(g, version=version)
        if bool(got) != want:
            raise Fail(f"issymmetric:{cls}", f"{case}: {got} but invariant={want}")
        det = T.issymmetric(g, version=version, return_details=True)
        if bool(det[0]) != want:
            raise Fail(f"issymmetric(details):{cls}", f"{case}")
        Y = T.symmetrize(g, version=version)
        if tuple(Y.shape) != shp or not same(Y.data, exp, tol):
            raise Fail(f"symmetrize:average:{cls}", f"{case}: max dev {np.abs(Y.data - exp).max() if Y.data.shape == exp.shape else 'shape'}")
        if not Y.issymmetric(g, version=version):
            raise Fail(f"symmetrize:result-fails-test:{cls}", f"{case}")
        Z = Y.symmetrize(g, version=version)
        if not same(Z.data, Y.data, 0.0 if version is None else 1e-13):
            raise Fail(f"symmetrize:not-idempotent:{cls}", f"{case}: {np.abs(Z.data - Y.data).max()}")
        if case["kind"] == "symmetric" and not same(Y.data, X, 0.0 if version is None else 1e-13):
            raise Fail(f"symmetrize:symmetric-input-changes:{cls}", f"{case}")
        # the two implementations agree
        other = T.symmetrize(g, version=1 if version is None else None)
        if not same(other.data, Y.data, 1e-12):
            raise Fail(f"symmetrize:versions-disagree:{cls}", f"{case}")
        if bool(T.issymmetric(g, version=1 if version is None else None)) != bool(got):
            raise Fail(f"issymmetric:versions-disagree:{cls}", f"{case}")


def _is_close_sym(Y):
    for p in itertools.permutations(range(Y.ndim)):
        if np.abs(np.transpose(Y, p) - Y).max() > 1e-9 * max(1.0, np.abs(Y).max()):
            return False
    return True


# ============================================================================ C16

EXTREME = [0.0, 1.0, -1.0, 1 / 3, 2.0 ** -1074, 2.0 ** -1022, 1.7976931348623157e308, -4.9e-324, 1e-5, 123456789.123456789,
           0.1, 1e22, 1e23, 9007199254740993.0, np.nextafter(1.0, 2.0), np.nextafter(1.0, 0.0), -2.2250738585072014e-308, 5e-324, 1e300, 6.02214076e23]


def _vals(rs, n):
    v = np.array([EXTREME[rs.randint(len(EXTREME))] if rs.rand() < 0.5 else np.ldexp(rs.rand() * 2 - 1, int(rs.randint(-1000, 1000))) for _ in range(n)])
    return v


@check("c16.roundtrip", ["C16"], ["pyttb.export_data.export_data", "pyttb.import_data.import_data", "pyttb.export_data.export_array",
                                   "pyttb.export_data.export_factor", "pyttb.export_data.export_sparse_array", "pyttb.export_data.export_size",
                                   "pyttb.export_data.export_rank", "pyttb.import_data.import_array", "pyttb.import_data.import_sparse_array"])
class _:
    """dense / sparse / Kruskal / matrix (C- and F-ordered, views) over shapes incl. 1-way and
    singleton modes, finite doubles across the exponent range, unsorted sparse entries, both index bases."""

    def cases(self, tier, rng):
        shapes = [(3,), (2, 3), (1, 3), (2, 1, 2), (2, 3, 2)] if tier == "quick" else [(3,), (1,), (2, 3), (3, 2), (1, 3), (3, 1), (2, 1, 2), (2, 3, 2), (2, 2, 2, 2), (4, 3)]
        for shp in shapes:
            for kind in ("tensor", "sptensor", "ktensor", "matrix"):
                if kind == "matrix" and len(shp) != 2:
                    continue
                for rep in range(2 if tier == "quick" else 4):
                    yield dict(shape=list(shp), kind=kind, seed=rng.randrange(10**6), layout=rng.choice(["C", "F", "view"]), base=rng.choice([1, 0, 1]))
        # modes of size zero (empty dense objects are written with a well-formed header and no entries)
        for shp in [(0, 3), (3, 0), (2, 0, 4), (0,)]:
            for kind in ("tensor", "ktensor", "matrix"):
                if kind == "matrix" and len(shp) != 2:
                    continue
                yield dict(shape=list(shp), kind=kind, seed=rng.randrange(10**6), layout="C", base=1)

    def run(self, case):
        ttb = import_pyttb()
        rs = np.random.RandomState(case["seed"])
        shp, kind = tuple(case["shape"]), case["kind"]
        with tempfile.TemporaryDirectory() as d:
            path = os.path.join(d, "obj.tns")
            # earlier in the same process an object of the same kind and order was written with a coarse, caller-chosen
            # number format: the default export that follows must not be affected by it
            pre = os.path.join(d, "earlier.tns")
            ones = [np.ones((dd, 2)) for dd in shp]
            earlier = {"tensor": lambda: ttb.tensor(np.full(shp, 2.0)),
                       "sptensor": lambda: ttb.tensor(np.full(shp, 3.0)).to_sptensor(),
                       "ktensor": lambda: ttb.ktensor(ones, np.ones(2)),
                       "matrix": lambda: np.full(shp, 4.0)}[kind]()
            ttb.export_data(earlier, pre, fmt_data="%d", fmt_weights="%d")
            if kind == "tensor":
                X = _vals(rs, int(np.prod(shp))).reshape(shp)
                ttb.export_data(ttb.tensor(X.copy()), path)
                back = ttb.import_data(path)
                if 0 in shp:
                    # an empty tensor: kind, shape and emptiness come back (the layout of the empty data array is not compared)
                    if not isinstance(back, ttb.tensor) or tuple(back.shape) != shp or np.asarray(back.data).size != 0:
                        raise Fail("tensor:empty", f"{case}")
                    return
                if not isinstance(back, ttb.tensor) or tuple(back.shape) != shp or not np.array_equal(back.data, X):
                    raise Fail("tensor", f"{case}")
            elif kind == "sptensor":
                cells = all_subs(shp)
                k = rs.randint(0, len(cells) + 1)
                idx = rs.permutation(len(cells))[:k]
                subs = np.array([cells[i] for i in idx], dtype=int).reshape(k, len(shp))
                vals = _vals(rs, k).reshape(k, 1)
                vals[vals == 0] = 1.5
                S = ttb.sptensor(subs, vals, shp) if k else ttb.sptensor(shape=shp)
                ttb.export_data(S, path)
                txt = open(path).read().split("\n")
                if k:
                    first = [int(t) for t in txt[4].split()[: len(shp)]]
                    if first != [int(s) + 1 for s in subs[0]]:
                        raise Fail("sptensor:file-not-1-based", f"{case}: {txt[4]}")
                back = ttb.import_data(path)
                if not isinstance(back, ttb.sptensor) or tuple(back.shape) != shp:
                    raise Fail("sptensor:type-or-shape", f"{case}")
                if k and (not np.array_equal(back.subs, subs) or not np.array_equal(back.vals, vals)):
                    raise Fail("sptensor:entries-or-order", f"{case}: {back.subs.tolist()} vs {subs.tolist()}")
                if not k and back.nnz != 0:
                    raise Fail("sptensor:empty", f"{case}")
                if k and case["base"] == 0:
                    # a file written with another base is read correctly when the base is given
                    lines = open(path).read().split("\n")
                    out = lines[:4]
                    for ln in lines[4:]:
                        t = ln.split()
                        if len(t) == len(shp) + 1:
                            out.append(" ".join([str(int(x) - 1) for x in t[: len(shp)]] + [t[-1]]))
                    p0 = os.path.join(d, "zero.tns")
                    open(p0, "w").write("\n".join(out) + "\n")
                    b0 = ttb.import_data(p0, index_base=0)
                    if not np.array_equal(b0.subs, subs) or not np.array_equal(b0.vals, vals):
                        raise Fail("sptensor:index-base-0", f"{case}")
            elif kind == "ktensor":
                R = int(rs.randint(1, 4))
                U = [_vals(rs, dd * R).reshape(dd, R) for dd in shp]
                w = _vals(rs, R)
                K = ttb.ktensor([u.copy() for u in U], w.copy())
                ttb.export_data(K, path)
                back = ttb.import_data(path)
                if not isinstance(back, ttb.ktensor) or tuple(back.shape) != shp or not np.array_equal(back.weights, w):
                    raise Fail("ktensor:weights-or-shape", f"{case}")
                for n, (a, b) in enumerate(zip(back.factor_matrices, U)):
                    if not np.array_equal(a, b):
                        raise Fail("ktensor:factor", f"{case} mode {n}")
            else:
                M = _vals(rs, int(np.prod(shp))).reshape(shp)
                if case["layout"] == "F":
                    A = np.asfortranarray(M)
                elif case["layout"] == "view":
                    A = np.ascontiguousarray(M.T).T
                else:
                    A = M.copy()
                ttb.export_data(A, path)
                back = ttb.import_data(path)
                if not isinstance(back, np.ndarray) or back.shape != shp or not np.array_equal(back, M):
                    raise Fail(f"matrix:{case['layout']}", f"{case}")


# ============================================================================ C20

@check("c20.generators", ["C20", "C06"], [
    "pyttb.tensor.tenones", "pyttb.tensor.tenzeros", "pyttb.tensor.tenrand", "pyttb.tensor.tendiag", "pyttb.tensor.teneye",
    "pyttb.tensor.tensor.from_function", "pyttb.sptensor.sptenrand", "pyttb.sptensor.sptendiag",
    "pyttb.sptensor.sptensor.from_function", "pyttb.sptensor.sptensor.from_aggregator", "pyttb.ktensor.ktensor.from_function"])
class _:
    def cases(self, tier, rng):
        shapes = [(3,), (2, 3), (2, 1, 2), (4, 4), (3, 3, 3)] if tier == "quick" else [(3,), (1,), (2, 3), (2, 1, 2), (4, 4), (3, 3, 3), (2, 2, 2, 2), (5, 5, 5)]
        for shp in shapes:
            yield dict(kind="dense", shape=list(shp), seed=rng.randrange(10**6))
            for nel in (1, 2, 3, 5):
                yield dict(kind="diag", shape=list(shp), nel=nel, seed=rng.randrange(10**6))
            for frac in (0.0, 0.1, 0.34, 0.5, 0.8, 1.0):
                yield dict(kind="sprand", shape=list(shp), frac=frac, seed=rng.randrange(10**6))
            for rep in range(3):
                yield dict(kind="agg", shape=list(shp), seed=rng.randrange(10**6), reducer=rng.choice(["sum", "max", "min", "len"]))
        for n, sz in ((2, 2), (2, 3), (4, 2), (4, 3), (6, 2), (2, 1), (4, 1), (6, 3)):
            yield dict(kind="eye", n=n, sz=sz, seed=rng.randrange(10**6))
        for nel in (1, 2, 3):
            yield dict(kind="diag-default", nel=nel, seed=0)

    def run(self, case):
        ttb = import_pyttb()
        rs = np.random.RandomState(case["seed"])
        kind = case["kind"]
        if kind == "dense":
            shp = tuple(case["shape"])
            O, Z = ttb.tenones(shp), ttb.tenzeros(shp)
            if tuple(O.shape) != shp or not (O.data == 1).all() or tuple(Z.shape) != shp or not (Z.data == 0).all():
                raise Fail("tenones/tenzeros", f"{case}")
            np.random.seed(case["seed"])
            R1 = ttb.tenrand(shp)
            np.random.seed(case["seed"])
            R2 = ttb.tenrand(shp)
            if tuple(R1.shape) != shp or (R1.data < 0).any() or (R1.data >= 1).any() or not np.array_equal(R1.data, R2.data):
                raise Fail("tenrand", f"{case}")
            seen = []
            F = ttb.tensor.from_function(lambda s: (seen.append(tuple(s)), np.arange(float(np.prod(s))).reshape(s))[1], shp)
            if tuple(F.shape) != shp or seen[0] != shp:
                raise Fail("tensor.from_function", f"{case}")
            # entry by entry what the function returned, whatever the memory layout of the returned array
            base = np.arange(float(np.prod(shp))).reshape(shp) * 1.5 - 2.0
            for lay, mk in (("C-ordered", lambda s: np.ascontiguousarray(base)), ("F-ordered", lambda s: np.asfortranarray(base)),
                            ("strided", lambda s: np.repeat(np.ascontiguousarray(base), 2, axis=len(shp) - 1)[..., ::2])):
                Fl = ttb.tensor.from_function(mk, shp)
                if tuple(Fl.shape) != shp or not np.array_equal(np.asarray(Fl.data), base):
                    raise Fail(f"tensor.from_function:values:{lay}", f"{case}")
            K = ttb.ktensor.from_function(np.ones, shp, 2)
            if tuple(K.shape) != shp or K.ncomponents != 2 or not all((f == 1).all() for f in K.factor_matrices) or not (K.weights == 1).all():
                raise Fail("ktensor.from_function", f"{case}")
            # factor k is the function's answer to the request (shape[k], R) -- also for functions whose values depend
            # on the requested shape
            asked = []

            def gen(s):
                asked.append(tuple(int(x) for x in s))
                return np.arange(float(np.prod(s))).reshape(s) + 10.0 * s[0]
            Kg = ttb.ktensor.from_function(gen, shp, 3)
            if asked != [(d, 3) for d in shp] or any(not np.array_equal(np.asarray(f), np.arange(float(d * 3)).reshape((d, 3)) + 10.0 * d) for f, d in zip(Kg.factor_matrices, shp)):
                raise Fail("ktensor.from_function:shape-dependent-generator", f"{case}: asked {asked}")
            Ke = ttb.ktensor.from_function(lambda s: np.eye(*s), shp, 2)
            if any(not np.array_equal(np.asarray(f), np.eye(d, 2)) for f, d in zip(Ke.factor_matrices, shp)):
                raise Fail("ktensor.from_function:eye", f"{case}")
            np.random.seed(3)
            Ka = ttb.ktensor.from_function(np.random.random_sample, shp, 2)
            np.random.seed(3)
            Kb = ttb.ktensor.from_function(np.random.random_sample, shp, 2)
            if not Ka.isequal(Kb):
                raise Fail("ktensor.from_function:seed", f"{case}")
            return
        if kind in ("diag", "diag-default"):
            nel = case["nel"]
            el = np.arange(1.0, nel + 1)
            if kind == "diag":
                shp = tuple(case["shape"])
                D = ttb.tendiag(el.copy(), shp)
                SD = ttb.sptendiag(el.copy(), shp)
                eshape = tuple(max(nel, d) for d in shp)
            else:
                D = ttb.tendiag(el.copy())
                SD = ttb.sptendiag(el.copy())
                eshape = (nel,) * nel
            exp = np.zeros(eshape)
            for t in range(nel):
                exp[(t,) * len(eshape)] = el[t]
            if tuple(D.shape) != eshape or not np.array_equal(D.data, exp):
                raise Fail("tendiag", f"{case}: shape {D.shape}")
            wf_sptensor(SD, "sptendiag")
            if tuple(SD.shape) != eshape or not np.array_equal(den_sp(SD), exp):
                raise Fail("sptendiag", f"{case}")
            return
        if kind == "eye":
            n, sz = case["n"], case["sz"]
            E = ttb.teneye(n, sz)
            if tuple(E.shape) != (sz,) * n:
                raise Fail("teneye:shape", f"{case}")
            for _ in range(3):
                x = rs.randn(sz)
                x /= np.linalg.norm(x)
                y = E.data
                for _k in range(n - 1):
                    y = np.tensordot(y, x, axes=(y.ndim - 1, 0))
                if np.abs(y - x).max() > 1e-10:
                    raise Fail("teneye:identity-action", f"{case}")
            return
        shp = tuple(case["shape"])
        tot = int(np.prod(shp))
        if kind == "sprand":
            want = int(np.ceil(tot * case["frac"])) if case["frac"] > 0 else 0
            for how in ("density", "nonzeros"):
                if case["frac"] == 0.0 and how == "density":
                    continue
                np.random.seed(case["seed"])
                S = ttb.sptenrand(shp, density=case["frac"]) if how == "density" else ttb.sptenrand(shp, nonzeros=want)
                np.random.seed(case["seed"])
                S2 = ttb.sptenrand(shp, density=case["frac"]) if how == "density" else ttb.sptenrand(shp, nonzeros=want)
                wf_sptensor(S, "sptenrand", zero_free=False)
                if tuple(S.shape) != shp:
                    raise Fail("sptenrand:shape", f"{case}")
                if S.nnz > want:
                    raise Fail("sptenrand:too-many", f"{case}: {S.nnz} > {want}")
                if want == tot and tot >= 8 and S.nnz < tot // 4:
                    raise Fail("sptenrand:full-request-nearly-empty", f"{case}: {S.nnz} of {tot} cells for a full request")
                if S.nnz < want and want <= 0.5 * tot:
                    raise Fail("sptenrand:too-few", f"{case}: {S.nnz} < {want} of {tot} cells")
                if S.nnz and ((S.vals < 0).any() or (S.vals >= 1).any()):
                    raise Fail("sptenrand:values", f"{case}")
                if not np.array_equal(S.subs, S2.subs) or not np.array_equal(S.vals, S2.vals):
                    raise Fail("sptenrand:seed", f"{case}")
            calls = []
            F = ttb.sptensor.from_function(lambda s: (calls.append(tuple(s)), 2.0 * np.ones(s))[1], shp, float(want)) if want < tot else None
            if F is not None:
                wf_sptensor(F, "sptensor.from_function", zero_free=False)
                if F.nnz > want or (F.nnz and not (F.vals == 2.0).all()) or (calls and calls[0] != (F.nnz, 1)):
                    raise Fail("sptensor.from_function", f"{case}: nnz {F.nnz} calls {calls}")
            return
        # aggregating constructor: arbitrary multiplicities, zero values, cancellation
        cells = all_subs(shp)
        m = rs.randint(1, 2 * len(cells) + 2)
        pick = [cells[rs.randint(len(cells))] for _ in range(m)]
        vals = rs.randint(-2, 3, size=m).astype(float)
        red = case["reducer"]
        fn = {"sum": "sum", "max": "max", "min": "min", "len": (lambda x: float(len(x)))}[red]
        S = ttb.sptensor.from_aggregator(np.array(pick, dtype=int).reshape(m, len(shp)), vals.reshape(m, 1), shp, fn) if red != "sum" or rs.rand() < 0.5 else ttb.sptensor.from_aggregator(np.array(pick, dtype=int).reshape(m, len(shp)), vals.reshape(m, 1), shp)
        exp = np.zeros(shp)
        groups = {}
        for s, v in zip(pick, vals):
            groups.setdefault(s, []).append(v)
        for s, vs in groups.items():
            exp[s] = {"sum": sum, "max": max, "min": min, "len": len}[red](vs)
        try:
            wf_sptensor(S, "from_aggregator", zero_free=True)
        except Fail as f:
            raise Fail(f"from_aggregator:{f.sig}:{red}", f"{f.msg} for {case}")
        if tuple(S.shape) != shp or not np.array_equal(den_sp(S), exp):
            raise Fail(f"from_aggregator:values:{red}", f"{case}: got {den_sp(S).tolist()} expected {exp.tolist()}")
