"""Bounded stand-in for C02: multilinear products equal their definition in every representation."""

import itertools

import numpy as np

from .core import Fail, all_subs, check, den_sp, import_pyttb, same

LETTERS = "abcdefgh"
TOL = 1e-9


def _holders(ttb, shp, rs, kinds=("tensor", "sptensor", "ktensor", "ttensor", "sumtensor")):
    """Objects of each class with their dense denotation.  Integer-valued data, so the
    identities hold exactly up to summation order."""
    N = len(shp)
    out = {}
    X = rs.randint(-2, 3, size=shp).astype(float)
    X[rs.rand(*shp) < 0.45] = 0
    if "tensor" in kinds:
        out["tensor"] = (ttb.tensor(X.copy()), X)
    if "sptensor" in kinds:
        S = ttb.tensor(X.copy()).to_sptensor()
        # store the nonzeros in a scrambled order
        if S.nnz > 1:
            p = rs.permutation(S.nnz)
            S = ttb.sptensor(S.subs[p], S.vals[p], S.shape)
        out["sptensor"] = (S, X)
    R = 2
    U = [rs.randint(-2, 3, size=(d, R)).astype(float) for d in shp]
    w = np.array([2.0, -1.0])
    if "ktensor" in kinds:
        K = ttb.ktensor([u.copy() for u in U], w.copy())
        KX = np.zeros(shp)
        for idx in all_subs(shp):
            KX[idx] = sum(w[r] * np.prod([U[m][idx[m], r] for m in range(N)]) for r in range(R))
        out["ktensor"] = (K, KX)
    if "ttensor" in kinds:
        ranks = tuple(min(2, d) for d in shp)
        G = rs.randint(-2, 3, size=ranks).astype(float)
        V = [rs.randint(-2, 3, size=(d, k)).astype(float) for d, k in zip(shp, ranks)]
        TX = np.zeros(shp)
        for idx in all_subs(shp):
            TX[idx] = sum(G[j] * np.prod([V[m][idx[m], j[m]] for m in range(N)]) for j in all_subs(ranks))
        out["ttensor"] = (ttb.ttensor(ttb.tensor(G.copy()), [v.copy() for v in V]), TX)
    if "sumtensor" in kinds and "ktensor" in kinds:
        D = rs.randint(-2, 3, size=shp).astype(float)
        out["sumtensor"] = (ttb.sumtensor([ttb.tensor(D.copy()), ttb.ktensor([u.copy() for u in U], w.copy())]), D + out["ktensor"][1])
    return out


def _dense(ttb, R):
    if isinstance(R, ttb.sptensor):
        return den_sp(R)
    if isinstance(R, (ttb.ktensor, ttb.ttensor, ttb.sumtensor)):
        return np.asarray(R.full().data, dtype=float)
    if isinstance(R, ttb.tensor):
        return np.asarray(R.data, dtype=float)
    return np.asarray(R, dtype=float)


def _close(a, b):
    a, b = np.asarray(a, dtype=float), np.asarray(b, dtype=float)
    if a.shape != b.shape:
        if a.size == b.size == 1:
            a, b = a.reshape(()), b.reshape(())
        else:
            return False
    scale = max(1.0, float(np.max(np.abs(b))) if b.size else 1.0)
    return bool(np.all(np.abs(a - b) <= TOL * scale))


def _mode_selections(N, rng, tier):
    sels = []
    for k in range(1, N + 1):
        sels += list(itertools.permutations(range(N), k))
    if tier == "quick" and len(sels) > 12:
        sels = rng.sample(sels, 12)
    return sels


SHAPES_Q = [(3,), (2, 3), (2, 2, 2), (2, 3, 2), (3, 2, 2, 2)]
SHAPES_T = [(3,), (1, 3), (2, 3), (2, 2, 2), (2, 3, 2), (3, 1, 2), (3, 2, 2, 2), (2, 2, 3, 2), (2, 2, 2, 2, 2)]


@check("c02.ttv_ttm", ["C02", "C17"], [
    "pyttb.tensor.tensor.ttv", "pyttb.sptensor.sptensor.ttv", "pyttb.ktensor.ktensor.ttv", "pyttb.ttensor.ttensor.ttv",
    "pyttb.sumtensor.sumtensor.ttv", "pyttb.tensor.tensor.ttm", "pyttb.sptensor.sptensor.ttm", "pyttb.ttensor.ttensor.ttm",
    "pyttb.pyttb_utils.tt_dimscheck"])
class _:
    """ttv / ttm for every class, every non-empty ordered selection of modes via dims and via
    exclude_dims, multiplicand lists of length |dims| and N, transpose flag."""

    def cases(self, tier, rng):
        for shp in (SHAPES_Q if tier == "quick" else SHAPES_T):
            N = len(shp)
            for sel in _mode_selections(N, rng, tier):
                for how in ("dims", "exclude", "dims-full-list"):
                    if how == "dims-full-list" and len(sel) == N:
                        continue  # |dims| == N: the list is read as aligned with dims
                    yield dict(shape=list(shp), sel=list(sel), how=how, seed=rng.randrange(10**6))

    def run(self, case):
        ttb = import_pyttb()
        shp = tuple(case["shape"])
        N = len(shp)
        rs = np.random.RandomState(case["seed"])
        sel, how = case["sel"], case["how"]
        vecs = [rs.randint(-2, 3, size=d).astype(float) for d in shp]
        if how == "exclude":
            excl = [m for m in range(N) if m not in sel]
            if not excl and len(sel) == N:
                kw = dict(exclude_dims=np.array([], dtype=int))
            else:
                kw = dict(exclude_dims=np.array(excl, dtype=int))
            modes = sorted(sel)
            vlist = [vecs[m] for m in modes]  # one per selected mode, ascending
        elif how == "dims":
            kw = dict(dims=np.array(sel, dtype=int))
            modes = list(sel)
            vlist = [vecs[m] for m in sel]  # aligned with dims as given
        else:
            kw = dict(dims=np.array(sel, dtype=int))
            modes = list(sel)
            vlist = list(vecs)  # one per mode of the tensor
        rest = [m for m in range(N) if m not in modes]
        expr = LETTERS[:N] + "," + ",".join(LETTERS[m] for m in modes) + "->" + "".join(LETTERS[m] for m in rest)
        for name, (obj, X) in _holders(ttb, shp, rs).items():
            exp = np.einsum(expr, X, *[vecs[m] for m in modes])
            try:
                got = obj.ttv([v.copy() for v in vlist], **kw)
            except Exception as e:
                raise Fail(f"ttv:{name}:raises:{how}", f"{type(e).__name__}: {e} for {case}")
            if not _close(_dense(ttb, got), exp):
                raise Fail(f"ttv:{name}:{how}", f"{case}: got {np.asarray(_dense(ttb, got)).tolist()} expected {exp.tolist()}")
        # multiplicands that are not 1-D (an (n, 1) column as sliced out of a factor matrix, an (n, 2) matrix): either refused
        # or -- for the column, which has the right number of entries -- answered with the product for its n entries
        if how != "all" or True:
            for form in ("column", "matrix"):
                vl = [(v.reshape(-1, 1).copy() if form == "column" else np.stack([v, v], axis=1)) for v in vlist]
                for name, (obj, X) in _holders(ttb, shp, rs).items():
                    exp = np.einsum(expr, X, *[vecs[m] for m in modes])
                    try:
                        got = obj.ttv(vl, **kw)
                    except Exception:
                        continue
                    if form == "matrix" or not _close(_dense(ttb, got), exp):
                        raise Fail(f"ttv:{name}:non-1-D-multiplicand-answered-wrongly:{form}", f"{case}")
        # ttm: matrices J_m x I_m (plain) or I_m x J_m (transpose flag)
        mats = [rs.randint(-2, 3, size=(2, d)).astype(float) for d in shp]
        for transpose in (False, True):
            if how == "exclude":
                mlist = [mats[m] for m in sorted(sel)]
            elif how == "dims":
                mlist = [mats[m] for m in sel]
            else:
                mlist = list(mats)
            use = [(m.T.copy() if transpose else m.copy()) for m in mlist]
            for name, (obj, X) in _holders(ttb, shp, rs, ("tensor", "sptensor", "ttensor", "ktensor")).items():
                if name == "ktensor":
                    continue
                exp = X
                for m in modes:
                    exp = np.moveaxis(np.tensordot(mats[m], exp, axes=(1, m)), 0, m)
                try:
                    got = obj.ttm(use, transpose=transpose, **kw)
                except Exception as e:
                    raise Fail(f"ttm:{name}:raises:{how}", f"{type(e).__name__}: {e} for {case} transpose={transpose}")
                if not _close(_dense(ttb, got), exp):
                    raise Fail(f"ttm:{name}:{how}:{'t' if transpose else 'n'}", f"{case}")


@check("c02.mttkrp_innerprod_norm", ["C02", "C12", "C09"], [
    "pyttb.tensor.tensor.mttkrp", "pyttb.tensor.tensor.mttkrps", "pyttb.sptensor.sptensor.mttkrp", "pyttb.ktensor.ktensor.mttkrp",
    "pyttb.ttensor.ttensor.mttkrp", "pyttb.sumtensor.sumtensor.mttkrp", "pyttb.pyttb_utils.get_mttkrp_factors",
    "pyttb.tensor.tensor.innerprod", "pyttb.sptensor.sptensor.innerprod", "pyttb.ktensor.ktensor.innerprod",
    "pyttb.ttensor.ttensor.innerprod", "pyttb.sumtensor.sumtensor.innerprod", "pyttb.tensor.tensor.norm",
    "pyttb.sptensor.sptensor.norm", "pyttb.ktensor.ktensor.norm", "pyttb.ttensor.ttensor.norm", "pyttb.khatrirao.khatrirao"])
class _:
    """MTTKRP in every mode (factor list and Kruskal operand with weights), all-mode MTTKRPs,
    inner products between every pair of classes, norms."""

    def cases(self, tier, rng):
        shapes = [(2, 3), (2, 3, 2), (3, 2, 2, 2), (4, 2, 3, 2), (2, 3, 2, 5), (2, 3, 2, 3, 2)] if tier == "quick" else [(2, 3), (3, 1), (2, 3, 2), (2, 2, 2), (3, 2, 2, 2), (4, 2, 3, 2), (2, 3, 2, 5), (2, 3, 2, 2, 2), (2, 3, 2, 3, 2)]
        for shp in shapes:
            for rep in range(1 if tier == "quick" else 3):
                yield dict(shape=list(shp), seed=rng.randrange(10**6))

    def run(self, case):
        ttb = import_pyttb()
        shp = tuple(case["shape"])
        N = len(shp)
        rs = np.random.RandomState(case["seed"])
        R = 3
        F = [rs.randint(-2, 3, size=(d, R)).astype(float) for d in shp]
        lam = np.array([2.0, -1.0, 0.5])
        hold = _holders(ttb, shp, rs)
        for n in range(N):
            others = [m for m in range(N) if m != n]
            expr = LETTERS[:N] + "," + ",".join(LETTERS[m] + "z" for m in others) + "->" + LETTERS[n] + "z"
            for name, (obj, X) in hold.items():
                exp = np.einsum(expr, X, *[F[m] for m in others])
                got = obj.mttkrp([f.copy() for f in F], n)
                if not _close(got, exp):
                    raise Fail(f"mttkrp:{name}:list", f"{case} n={n}")
                # Kruskal operand: weights are applied (to a factor other than the skipped one)
                Kop = ttb.ktensor([f.copy() for f in F], lam.copy())
                got = obj.mttkrp(Kop, n)
                if not _close(got, exp * lam[None, :]):
                    raise Fail(f"mttkrp:{name}:ktensor-operand", f"{case} n={n}")
                if not np.array_equal(Kop.weights, lam):
                    raise Fail(f"mttkrp:{name}:modifies-operand", f"{case}")
        T, X = hold["tensor"]
        allm = T.mttkrps([f.copy() for f in F])
        for n in range(N):
            if not _close(allm[n], T.mttkrp([f.copy() for f in F], n)):
                raise Fail("mttkrps-vs-mttkrp", f"{case} n={n}")
        # ranks beyond any block size an implementation might use for the components (not a multiple of 8 / 16)
        for Rh in (9, 10, 17):
            Fh = [rs.randint(-2, 3, size=(d, Rh)).astype(float) for d in shp]
            allh = T.mttkrps([f.copy() for f in Fh])
            for n in range(N):
                others = [m for m in range(N) if m != n]
                expr = LETTERS[:N] + "," + ",".join(LETTERS[m] + "z" for m in others) + "->" + LETTERS[n] + "z"
                exp = np.einsum(expr, X, *[Fh[m] for m in others])
                if not _close(allh[n], exp):
                    raise Fail("mttkrps:high-rank", f"{case} n={n} R={Rh}")
                for name in ("tensor", "sptensor", "ktensor"):
                    if not _close(hold[name][0].mttkrp([f.copy() for f in Fh], n), np.einsum(expr, hold[name][1], *[Fh[m] for m in others])):
                        raise Fail(f"mttkrp:{name}:high-rank", f"{case} n={n} R={Rh}")
        names = list(hold)
        for a in names:
            A, XA = hold[a]
            if a != "sumtensor":
                if not _close(A.norm(), np.sqrt((XA ** 2).sum())):
                    raise Fail(f"norm:{a}", f"{case}: {A.norm()} vs {np.sqrt((XA**2).sum())}")
            for b in names:
                B, XB = hold[b]
                if b == "sumtensor" and a == "sumtensor":
                    continue
                exp = float((XA * XB).sum())
                try:
                    got = A.innerprod(B)
                except (AssertionError, ValueError, NotImplementedError, TypeError) as e:
                    if b == "sumtensor" or a == "sumtensor":
                        continue  # not every pairing with a sum tensor is offered
                    raise Fail(f"innerprod:{a}:{b}:raises", f"{type(e).__name__}: {e}")
                if not _close(got, exp):
                    raise Fail(f"innerprod:{a}:{b}", f"{case}: {got} vs {exp}")


        # norms of structured tensors whose factors have special form: orthonormal columns, unit but not orthogonal
        # columns (repeated / nearly parallel), tall and flat factors, dense and sparse cores
        for kind in ("orthonormal", "unit-repeated", "unit-oblique", "flat"):
            ranks = [min(2, d) if kind != "flat" else d + 1 for d in shp]
            V = []
            for d, k in zip(shp, ranks):
                M = rs.randn(d, k)
                if kind == "orthonormal":
                    M = np.linalg.qr(rs.randn(d, d))[0][:, :k]
                elif kind == "unit-repeated":
                    M[:, -1] = M[:, 0]
                    M = M / np.linalg.norm(M, axis=0)
                elif kind == "unit-oblique":
                    M = M / np.linalg.norm(M, axis=0)
                V.append(M)
            G = rs.randint(-2, 3, size=ranks).astype(float)
            G[(0,) * N] = 2.0
            for core_kind in ("dense", "sparse"):
                core = ttb.tensor(G.copy()) if core_kind == "dense" else ttb.tensor(G.copy()).to_sptensor()
                TT = ttb.ttensor(core, [v.copy() for v in V])
                ref = G
                for m in range(N):
                    ref = np.moveaxis(np.tensordot(V[m], ref, axes=(1, m)), 0, m)
                want = float(np.sqrt((ref ** 2).sum()))
                if not _close(TT.norm(), want):
                    raise Fail(f"norm:ttensor:{kind}-factors:{core_kind}-core", f"{case}: {TT.norm()} vs {want}")
        for kind in ("repeated-component", "zero-weight", "unit-columns"):
            Fk = [rs.randn(d, R) for d in shp]
            wk = np.array([1.5, -2.0, 0.5])
            if kind == "repeated-component":
                for f in Fk:
                    f[:, 2] = f[:, 0]
            elif kind == "zero-weight":
                wk[1] = 0.0
            else:
                Fk = [f / np.linalg.norm(f, axis=0) for f in Fk]
            Kk = ttb.ktensor([f.copy() for f in Fk], wk.copy())
            ref = np.einsum(",".join(LETTERS[m] + "z" for m in range(N)) + ",z->" + LETTERS[:N], *Fk, wk)
            if not _close(Kk.norm(), float(np.sqrt((ref ** 2).sum()))):
                raise Fail(f"norm:ktensor:{kind}", f"{case}: {Kk.norm()} vs {np.sqrt((ref ** 2).sum())}")


@check("c02.contract_collapse_scale_ttt", ["C02"], [
    "pyttb.tensor.tensor.contract", "pyttb.sptensor.sptensor.contract", "pyttb.tensor.tensor.collapse",
    "pyttb.sptensor.sptensor.collapse", "pyttb.tensor.tensor.scale", "pyttb.sptensor.sptensor.scale",
    "pyttb.tensor.tensor.ttt", "pyttb.tenmat.tenmat.__mul__", "pyttb.tensor.tensor.ttsv", "pyttb.ktensor.ktensor.mask",
    "pyttb.ttensor.ttensor.reconstruct"])
class _:
    def cases(self, tier, rng):
        shapes = [(2, 2), (2, 3, 2), (2, 2, 2), (3, 2, 3, 2)] if tier == "quick" else [(2, 2), (3, 3), (2, 3, 2), (2, 2, 2), (3, 1, 3), (3, 2, 3, 2), (2, 2, 2, 2)]
        for shp in shapes:
            for rep in range(1 if tier == "quick" else 3):
                yield dict(shape=list(shp), seed=rng.randrange(10**6))

    def run(self, case):
        ttb = import_pyttb()
        shp = tuple(case["shape"])
        N = len(shp)
        rs = np.random.RandomState(case["seed"])
        hold = _holders(ttb, shp, rs, ("tensor", "sptensor", "ktensor", "ttensor"))
        for name in ("tensor", "sptensor"):
            obj, X = hold[name]
            # contraction of every pair of equally sized modes
            for i, j in itertools.permutations(range(N), 2):
                if shp[i] != shp[j]:
                    continue
                exp = np.trace(X, axis1=i, axis2=j)
                got = obj.contract(i, j)
                if not _close(_dense(ttb, got), exp):
                    raise Fail(f"contract:{name}", f"{case} ({i},{j})")
            # collapse over every mode subset with sum (and max for dense)
            for k in range(1, N + 1):
                for dims in itertools.combinations(range(N), k):
                    for perm in (dims, dims[::-1]):
                        exp = X.sum(axis=dims)
                        got = obj.collapse(np.array(perm))
                        if not _close(_dense(ttb, got), exp):
                            raise Fail(f"collapse:{name}:sum", f"{case} dims={perm}")
                    if name == "tensor":
                        got = obj.collapse(np.array(dims), np.max)
                        if not _close(_dense(ttb, got), X.max(axis=dims)):
                            raise Fail("collapse:tensor:max", f"{case} dims={dims}")
            if not _close(obj.collapse(), X.sum()):
                raise Fail(f"collapse:{name}:all", f"{case}")
        # reducers whose result is not of the element type: the mean over fibres of an integer-valued tensor
        Xi = rs.randint(-3, 4, size=shp)
        Ti = ttb.tensor(Xi.copy())
        for k in range(1, N):
            for dims in itertools.combinations(range(N), k):
                for fun, ref, nm in ((np.mean, lambda a, ax: a.mean(axis=ax), "mean"), (lambda v: v.sum() / 2.0, lambda a, ax: a.sum(axis=ax) / 2.0, "half-sum")):
                    got = Ti.collapse(np.array(dims), fun)
                    if not _close(_dense(ttb, got), ref(Xi.astype(float), dims)):
                        raise Fail(f"collapse:integer-tensor:{nm}", f"{case} dims={dims}")
            # scale along one mode by a vector, along two modes by a tensor
            for n in range(N):
                v = rs.randint(-2, 3, size=shp[n]).astype(float)
                exp = X * v.reshape([shp[n] if m == n else 1 for m in range(N)])
                got = obj.scale(v, n)
                if not _close(_dense(ttb, got), exp):
                    raise Fail(f"scale:{name}:vector", f"{case} n={n}")
            if N >= 2:
                for d in itertools.combinations(range(N), 2):
                    Fd = rs.randint(-2, 3, size=[shp[m] for m in d]).astype(float)
                    exp = X * Fd.reshape([shp[m] if m in d else 1 for m in range(N)])
                    got = obj.scale(ttb.tensor(Fd.copy()), np.array(d))
                    if not _close(_dense(ttb, got), exp):
                        raise Fail(f"scale:{name}:tensor", f"{case} dims={d}")
        T, X = hold["tensor"]
        # tensor times tensor: outer product, full inner product, contraction of mode subsets
        Y = rs.randint(-2, 3, size=shp).astype(float)
        TY = ttb.tensor(Y.copy())
        if not _close(_dense(ttb, T.ttt(TY)), np.multiply.outer(X, Y)):
            raise Fail("ttt:outer", f"{case}")
        alld = np.arange(N)
        if not _close(_dense(ttb, T.ttt(TY, alld, alld)), (X * Y).sum()):
            raise Fail("ttt:inner", f"{case}")
        for k in range(1, N):
            for sd in itertools.permutations(range(N), k):
                exp = np.tensordot(X, Y, axes=(list(sd), list(sd)))
                got = T.ttt(TY, np.array(sd), np.array(sd))
                if not _close(_dense(ttb, got), exp):
                    raise Fail("ttt:modes", f"{case} dims={sd}")
        # the k-th listed mode of self is contracted with the k-th listed mode of other, whatever the two orders:
        # other = Y with its modes permuted, so the matching mode lists are differently ordered
        for perm in itertools.permutations(range(N)):
            if list(perm) == list(range(N)):
                continue
            Z = np.transpose(Y, perm).copy()          # mode j of Z is mode perm[j] of Y
            TZ = ttb.tensor(Z.copy())
            where = {perm[j]: j for j in range(N)}
            for k in range(1, N + 1):
                for sd in itertools.permutations(range(N), k):
                    od = [where[m] for m in sd]
                    exp = np.tensordot(X, Z, axes=(list(sd), od))
                    got = T.ttt(TZ, np.array(sd), np.array(od))
                    if not _close(_dense(ttb, got), exp):
                        raise Fail("ttt:mode-pairing", f"{case} selfdims={sd} otherdims={od}")
        # ttsv on cubical tensors
        if len(set(shp)) == 1 and N >= 2:
            v = rs.randint(-2, 3, size=shp[0]).astype(float)
            for skip in (None, 0, 1) if N > 2 else (None, 0):
                for version in (None, 1):
                    k_keep = 0 if skip is None else skip + 1
                    exp = X
                    for _ in range(N - k_keep):
                        exp = np.tensordot(exp, v, axes=(exp.ndim - 1, 0))
                    got = T.ttsv(v.copy(), skip, version)
                    if not _close(_dense(ttb, got), exp):
                        raise Fail(f"ttsv:v{version}", f"{case} skip={skip}")
        # Kruskal mask and Tucker reconstruct
        K, KX = hold["ktensor"]
        W = ttb.tensor((rs.rand(*shp) < 0.5).astype(float)).to_sptensor()
        if W.nnz:
            got = K.mask(W)
            exp = np.array([KX[tuple(s)] for s in W.subs.tolist()]).reshape(-1, 1)
            if not _close(got, exp):
                raise Fail("ktensor.mask", f"{case}")
        TT, TX = hold["ttensor"]
        if not _close(_dense(ttb, TT.reconstruct()), TX):
            raise Fail("ttensor.reconstruct:full", f"{case}")
        for n in range(N):
            idx = np.array([shp[n] - 1, 0])
            got = TT.reconstruct(idx, n)
            if not _close(_dense(ttb, got), np.take(TX, idx, axis=n)):
                raise Fail("ttensor.reconstruct:samples", f"{case} n={n}")


@check("c02.dense_dtypes", ["C02", "C10", "C18", "C09", "C14"], [
    "pyttb.tensor.tensor.norm", "pyttb.tensor.tensor.innerprod", "pyttb.tensor.tensor.mttkrp", "pyttb.tensor.tensor.ttv",
    "pyttb.tensor.tensor.ttm", "pyttb.tensor.tensor.collapse", "pyttb.tensor.tensor.nvecs", "pyttb.tenmat.tenmat.double"])
class _:
    """Dense tensors whose data are held in an element type other than float64 (small and large integers, unsigned,
    booleans, float32): every product must be the one defined on the real values of the entries -- no wrap-around in
    the element type, no truncation of the result to it."""

    def cases(self, tier, rng):
        for dt in ("int8", "uint8", "int16", "int32", "int64", "bool", "float32"):
            for shp in ((3, 4), (4, 3, 5), (3, 2, 4, 3)):
                yield dict(dtype=dt, shape=list(shp), seed=rng.randrange(10**6))

    def classify(self, case):
        return case["dtype"]

    def run(self, case):
        ttb = import_pyttb()
        shp = tuple(case["shape"])
        N = len(shp)
        rs = np.random.RandomState(case["seed"])
        dt = np.dtype(case["dtype"])
        if dt.kind == "b":
            raw = rs.rand(*shp) < 0.6
        elif dt.kind == "f":
            raw = (rs.randint(-40, 41, size=shp) / 8.0).astype(dt)     # exactly representable
        elif dt.kind == "u":
            raw = rs.randint(100, 256, size=shp).astype(dt)             # squares and sums exceed the type
        else:
            hi = min(120, np.iinfo(dt).max)
            raw = rs.randint(-hi, hi + 1, size=shp).astype(dt)
        X = raw.astype(float)
        T = ttb.tensor(raw.copy())
        tol = 1e-5 if dt == np.float32 else 1e-9

        def close(a, b):
            a, b = np.asarray(a, dtype=float), np.asarray(b, dtype=float)
            return a.shape == b.shape and bool(np.all(np.abs(a - b) <= tol * max(1.0, float(np.max(np.abs(b))) if b.size else 1.0)))
        if not close(T.norm(), np.sqrt((X ** 2).sum())):
            raise Fail("norm", f"{case}: {T.norm()} vs {np.sqrt((X ** 2).sum())}")
        if not close(T.innerprod(T), (X * X).sum()):
            raise Fail("innerprod", f"{case}: {T.innerprod(T)} vs {(X * X).sum()}")
        R = 2
        F = [rs.randint(-7, 8, size=(d, R)) / 4.0 for d in shp]      # fractional factor values
        for n in range(N):
            others = [m for m in range(N) if m != n]
            expr = LETTERS[:N] + "," + ",".join(LETTERS[m] + "z" for m in others) + "->" + LETTERS[n] + "z"
            exp = np.einsum(expr, X, *[F[m] for m in others])
            if not close(T.mttkrp([f.copy() for f in F], n), exp):
                raise Fail("mttkrp", f"{case} n={n}")
            v = rs.randint(-7, 8, size=shp[n]) / 4.0
            if not close(_dense(ttb, T.ttv(v.copy(), n)), np.tensordot(X, v, axes=(n, 0))):
                raise Fail("ttv", f"{case} n={n}")
            M = rs.randint(-7, 8, size=(2, shp[n])) / 4.0
            if not close(_dense(ttb, T.ttm(M.copy(), n)), np.moveaxis(np.tensordot(M, X, axes=(1, n)), 0, n)):
                raise Fail("ttm", f"{case} n={n}")
            if dt.kind != "b" and not close(_dense(ttb, T.collapse(np.array([n]))), X.sum(axis=n)):
                raise Fail("collapse", f"{case} n={n}")


@check("c02.large_dense", ["C02", "C10", "C09", "C14"], [
    "pyttb.tensor.tensor.ttm", "pyttb.tensor.tensor.ttv", "pyttb.tensor.tensor.mttkrp", "pyttb.tensor.tensor.norm",
    "pyttb.tensor.tensor.innerprod", "pyttb.tensor.tensor.collapse", "pyttb.tensor.tensor.nvecs"])
class _:
    """The dense kernels on tensors that are large in one or all modes (unfoldings with tens of thousands of columns, not
    a multiple of any power of two), against einsum: sizes at which blocked / chunked implementations behave differently."""

    def cases(self, tier, rng):
        for shp in ((40, 180, 190), (3, 70001), (33000, 5, 7), (17, 19, 23, 29)):
            yield dict(shape=list(shp), seed=rng.randrange(10**6))

    def run(self, case):
        ttb = import_pyttb()
        shp = tuple(case["shape"])
        N = len(shp)
        rs = np.random.RandomState(case["seed"])
        X = rs.randint(-3, 4, size=shp).astype(float)
        T = ttb.tensor(X.copy())

        def close(a, b, tol=1e-9):
            a, b = np.asarray(a, dtype=float), np.asarray(b, dtype=float)
            return a.shape == b.shape and bool(np.all(np.abs(a - b) <= tol * max(1.0, float(np.max(np.abs(b))))))
        if not close(T.norm(), np.sqrt((X ** 2).sum())) or not close(T.innerprod(T), (X * X).sum()):
            raise Fail("norm-or-innerprod", f"{case}")
        F = [rs.randint(-2, 3, size=(d, 2)).astype(float) for d in shp]
        for n in range(N):
            M = rs.randint(-2, 3, size=(3, shp[n])).astype(float)
            exp = np.moveaxis(np.tensordot(M, X, axes=(1, n)), 0, n)
            if not close(T.ttm(M.copy(), n).data, exp):
                raise Fail("ttm", f"{case} n={n}")
            if not close(T.ttm(M.T.copy(), n, transpose=True).data, exp):
                raise Fail("ttm-transpose", f"{case} n={n}")
            v = rs.randint(-2, 3, size=shp[n]).astype(float)
            if not close(_dense(ttb, T.ttv(v.copy(), n)), np.tensordot(X, v, axes=(n, 0))):
                raise Fail("ttv", f"{case} n={n}")
            others = [m for m in range(N) if m != n]
            expr = LETTERS[:N] + "," + ",".join(LETTERS[m] + "z" for m in others) + "->" + LETTERS[n] + "z"
            if not close(T.mttkrp([f.copy() for f in F], n), np.einsum(expr, X, *[F[m] for m in others])):
                raise Fail("mttkrp", f"{case} n={n}")
            if not close(_dense(ttb, T.collapse(np.array([n]))), X.sum(axis=n)):
                raise Fail("collapse", f"{case} n={n}")
        # all but one mode at once (the projection step of the Tucker algorithms)
        mats = [rs.randint(-2, 3, size=(2, d)).astype(float) for d in shp]
        exp = X
        for m in range(1, N):
            exp = np.moveaxis(np.tensordot(mats[m], exp, axes=(1, m)), 0, m)
        if not close(T.ttm([m_.copy() for m_ in mats], exclude_dims=np.array([0])).data, exp):
            raise Fail("ttm-all-but-one", f"{case}")
