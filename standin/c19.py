"""Bounded stand-ins for C19 (ill-formed requests are rejected) and C18 (presentation
independence of the decomposition algorithms)."""

import itertools

import numpy as np

from .core import Fail, check, import_pyttb
from .c05 import snapshot, check_unchanged
from .c08 import kfull


def _objs(ttb, rs, shp=(2, 3, 4)):
    X = rs.randint(1, 4, size=shp).astype(float)
    T = ttb.tensor(X.copy())
    S = ttb.tensor(np.where(rs.rand(*shp) < 0.5, X, 0)).to_sptensor()
    K = ttb.ktensor([rs.rand(d, 2) + 0.1 for d in shp], np.array([1.0, 2.0]))
    TT = ttb.ttensor(ttb.tensor(rs.rand(2, 2, 2)), [rs.rand(d, 2) for d in shp])
    # degenerate receivers: validation must not depend on there being stored entries
    S0 = ttb.sptensor(shape=shp)
    one = np.zeros(shp)
    one[tuple(d - 1 for d in shp)] = 2.0
    S1 = ttb.tensor(one).to_sptensor()
    return dict(T=T, S=S, K=K, TT=TT, S0=S0, S1=S1)


def _requests(ttb, o, rs):
    """(label, receiver-name, thunk) triples: every thunk is an ill-formed request."""
    shp = tuple(o["T"].shape)
    N = len(shp)
    T, S, K, TT = o["T"], o["S"], o["K"], o["TT"]
    other_shape = tuple(d + 1 for d in shp)
    T2 = ttb.tensor(np.ones(other_shape))
    S2 = T2.to_sptensor()
    K2 = ttb.ktensor([np.ones((d, 2)) for d in other_shape], np.ones(2))
    TT2 = ttb.ttensor(ttb.tensor(np.ones((2, 2, 2))), [np.ones((d, 2)) for d in other_shape])
    R = []
    A = lambda label, recv, f: R.append((label, recv, f))
    for name, obj in o.items():
        for oname, oth in (("tensor", T2), ("sptensor", S2), ("ktensor", K2), ("ttensor", TT2)):
            A(f"{name}.innerprod({oname}-other-shape)", name, lambda obj=obj, oth=oth: obj.innerprod(oth))
        # ttv: wrong-length vector, too many / too few vectors, bad modes
        A(f"{name}.ttv(wrong-length)", name, lambda obj=obj: obj.ttv(np.ones(shp[0] + 1), 0))
        A(f"{name}.ttv(too-many-vectors)", name, lambda obj=obj: obj.ttv([np.ones(d) for d in shp] + [np.ones(2)]))
        A(f"{name}.ttv(count-between-dims-and-N)", name, lambda obj=obj: obj.ttv([np.ones(shp[0]), np.ones(shp[1])], np.array([0])))
        A(f"{name}.ttv(negative-mode)", name, lambda obj=obj: obj.ttv(np.ones(shp[0]), -1))
        A(f"{name}.ttv(mode-out-of-range)", name, lambda obj=obj: obj.ttv(np.ones(shp[0]), N))
        A(f"{name}.ttv(dims-and-exclude)", name, lambda obj=obj: obj.ttv(np.ones(shp[0]), np.array([0]), np.array([1])))
        A(f"{name}.permute(repeated)", name, lambda obj=obj: obj.permute(np.array([0] * N)))
        A(f"{name}.permute(ones)", name, lambda obj=obj: obj.permute(np.array([1] * N)))
        A(f"{name}.permute(too-short)", name, lambda obj=obj: obj.permute(np.arange(N - 1)))
        A(f"{name}.permute(too-long-with-repeat)", name, lambda obj=obj: obj.permute(np.array(list(range(N)) + [0])))
        A(f"{name}.permute(out-of-range)", name, lambda obj=obj: obj.permute(np.arange(1, N + 1)))
        A(f"{name}.mttkrp(wrong-list-length)", name, lambda obj=obj: obj.mttkrp([np.ones((d, 2)) for d in shp][:-1], 0))
        A(f"{name}.mttkrp(wrong-rows)", name, lambda obj=obj: obj.mttkrp([np.ones((d + 1, 2)) for d in shp], 0))
        # the Kruskal-operand form: one factor per mode of the receiver, with matching row counts
        A(f"{name}.mttkrp(ktensor-with-extra-mode)", name, lambda obj=obj: obj.mttkrp(ttb.ktensor([np.ones((d, 2)) for d in shp + (5,)], np.ones(2)), 0))
        A(f"{name}.mttkrp(ktensor-with-extra-singleton-mode)", name, lambda obj=obj: obj.mttkrp(ttb.ktensor([np.ones((d, 2)) for d in shp + (1,)], np.ones(2)), N - 1))
        A(f"{name}.mttkrp(ktensor-with-too-few-modes)", name, lambda obj=obj: obj.mttkrp(ttb.ktensor([np.ones((d, 2)) for d in shp[:-1]], np.ones(2)), 0))
        A(f"{name}.mttkrp(ktensor-wrong-rows)", name, lambda obj=obj: obj.mttkrp(ttb.ktensor([np.ones((d + 1, 2)) for d in shp], np.ones(2)), 0))
    for name in ("T", "S", "TT", "S0", "S1"):
        obj = o[name]
        A(f"{name}.ttm(wrong-size)", name, lambda obj=obj: obj.ttm(np.ones((2, shp[0] + 1)), 0))
        A(f"{name}.ttm(wrong-size-transposed)", name, lambda obj=obj: obj.ttm(np.ones((2, shp[0])), 0, transpose=True) if shp[0] != 2 else obj.ttm(np.ones((3, shp[0] + 1)), 0, transpose=True))
        A(f"{name}.ttm(not-a-matrix)", name, lambda obj=obj: obj.ttm(np.ones(shp[0]), 0))
        A(f"{name}.ttm(mode-out-of-range)", name, lambda obj=obj: obj.ttm(np.ones((2, shp[0])), N))
    for name in ("T", "S", "S0", "S1"):
        obj = o[name]
        A(f"{name}.reshape(changes-count)", name, lambda obj=obj: obj.reshape((int(np.prod(shp)) + 1,)))
        uneq = [(i, j) for i in range(N) for j in range(N) if shp[i] != shp[j]][0]
        A(f"{name}.contract(unequal-sizes)", name, lambda obj=obj, uneq=uneq: obj.contract(*uneq))
        A(f"{name}.contract(same-mode)", name, lambda obj=obj: obj.contract(0, 0))
        A(f"{name}.scale(wrong-length)", name, lambda obj=obj: obj.scale(np.ones(shp[0] + 1), 0))
        A(f"{name}.collapse(bad-mode)", name, lambda obj=obj: obj.collapse(np.array([N])))
    # dense-only
    A("T.ttt(mismatched-dims)", "T", lambda: T.ttt(T2, np.array([0]), np.array([0])))
    # contracted mode lists of different lengths whose sizes would broadcast against each other (singleton modes)
    A("T.ttt(two-singleton-modes-against-one)", "T", lambda: ttb.tensor(np.ones((1, 1, 3))).ttt(ttb.tensor(np.ones((1, 4))), np.array([0, 1]), np.array([0])))
    A("T.ttt(one-singleton-mode-against-two)", "T", lambda: ttb.tensor(np.ones((1, 4))).ttt(ttb.tensor(np.ones((1, 1, 3))), np.array([0]), np.array([0, 1])))
    A("T.ttt(no-mode-against-a-singleton)", "T", lambda: ttb.tensor(np.ones((2, 3))).ttt(ttb.tensor(np.ones((1, 4))), None, 0))
    A("T.ttt(sizes-differ-singleton-vs-larger)", "T", lambda: ttb.tensor(np.ones((1, 3))).ttt(ttb.tensor(np.ones((2, 4))), 0, 0))
    # matricized tensors combine entry by entry only when they have the same matrix shape (same tensor shape is not enough)
    allm = np.arange(N)
    V1 = ttb.tensor(np.arange(1.0, 4.0))
    for opn, op in (("add", lambda x, y: x + y), ("sub", lambda x, y: x - y)):
        A(f"tenmat.{opn}(all-modes-in-rows vs all-in-columns)", "T", lambda op=op: op(T.to_tenmat(rdims=allm), T.to_tenmat(cdims=allm)))
        A(f"tenmat.{opn}(order-1: column vs row)", "T", lambda op=op: op(V1.to_tenmat(rdims=np.array([0])), V1.to_tenmat(cdims=np.array([0]))))
        if shp[0] != shp[1]:     # (with equal sizes the two matrix shapes coincide and the sum is well-formed)
            A(f"tenmat.{opn}(different-splits)", "T", lambda op=op: op(T.to_tenmat(rdims=np.array([0])), T.to_tenmat(rdims=np.array([1]))))
        A(f"tenmat.{opn}(singleton-mode-on-opposite-sides)", "T", lambda op=op: op(ttb.tensor(np.ones((1, 3))).to_tenmat(rdims=np.array([0])), ttb.tensor(np.ones((1, 3))).to_tenmat(rdims=np.array([1]))))
    A("T.to_tenmat(no-dims)", "T", lambda: T.to_tenmat())
    A("T.to_tenmat(repeated-mode)", "T", lambda: T.to_tenmat(np.array([0, 0]), np.array([1, 2])))
    A("T.to_tenmat(missing-mode)", "T", lambda: T.to_tenmat(np.array([0]), np.array([1])))
    A("T.to_tenmat(out-of-range)", "T", lambda: T.to_tenmat(np.array([N])))
    A("T+T2", "T", lambda: T + T2)
    A("T*T2", "T", lambda: T * T2)
    A("T.mask(bigger)", "T", lambda: T.mask(T2))
    # a mask that is smaller in an earlier mode and larger in a later one (and the other way round), of another order
    if N >= 2:
        up = tuple((max(d - 1, 1) if m == 0 else d + 2) if m < 2 else d for m, d in enumerate(shp))
        down = tuple((d + 2 if m == 0 else max(d - 1, 1)) if m < 2 else d for m, d in enumerate(shp))
        for nm, wshape in (("smaller-then-larger", up), ("larger-then-smaller", down)):
            for hn, holder in (("K", K), ("T", T), ("S", S)):
                Wd = ttb.tensor(np.ones(wshape))
                for wk, W in (("dense-mask", Wd), ("sparse-mask", Wd.to_sptensor())):
                    if hn == "T" and wk == "sparse-mask":
                        continue
                    A(f"{hn}.mask({nm}:{wk})", hn, lambda holder=holder, W=W: holder.mask(W))
    A("K.mask(bigger)", "K", lambda: K.mask(S2))
    A("K.mask(other-order)", "K", lambda: K.mask(ttb.tensor(np.ones(shp + (1,))).to_sptensor()))
    A("tensor(data,wrong-shape)", None, lambda: ttb.tensor(np.ones(6), (2, 2)))
    A("tensor(non-numeric)", None, lambda: ttb.tensor(np.array(["a", "b"])))
    # sparse
    for op, f in (("+", lambda a, b: a + b), ("-", lambda a, b: a - b), ("*", lambda a, b: a * b), ("/", lambda a, b: a / b),
                  ("==", lambda a, b: a == b), ("!=", lambda a, b: a != b), ("<", lambda a, b: a < b), (">=", lambda a, b: a >= b)):
        A(f"S{op}S2", "S", lambda f=f: f(S, S2))
        A(f"S{op}T2", "S", lambda f=f: f(S, T2))
    for lop in ("logical_and", "logical_or", "logical_xor"):
        A(f"S.{lop}(S2)", "S", lambda lop=lop: getattr(S, lop)(S2))
    A("S.mask(bigger)", "S", lambda: S.mask(S2))
    A("S.extract(out-of-range)", "S", lambda: S.extract(np.array([list(shp)])))
    A("S.extract(negative)", "S", lambda: S.extract(np.array([[-1] * N])))
    A("S.to_sptenmat(missing-mode)", "S", lambda: S.to_sptenmat(np.array([0]), np.array([1])))
    A("S.to_sptenmat(repeated-mode)", "S", lambda: S.to_sptenmat(np.array([0, 0]), np.array([1, 2])))
    A("sptensor(subs-beyond-shape)", None, lambda: ttb.sptensor(np.array([[0, 0, 9]]), np.array([[1.0]]), shp))
    A("sptensor(wrong-columns)", None, lambda: ttb.sptensor(np.array([[0, 0]]), np.array([[1.0]]), shp))
    A("sptensor(subs-only)", None, lambda: ttb.sptensor(np.array([[0, 0, 0]]), None, shp))
    A("from_aggregator(count-mismatch)", None, lambda: ttb.sptensor.from_aggregator(np.array([[0, 0, 0], [1, 1, 1]]), np.array([[1.0]]), shp))
    A("from_aggregator(beyond-shape)", None, lambda: ttb.sptensor.from_aggregator(np.array([[0, 0, 9]]), np.array([[1.0]]), shp))
    A("from_aggregator(negative)", None, lambda: ttb.sptensor.from_aggregator(np.array([[0, 0, -1]]), np.array([[1.0]]), shp))
    A("from_aggregator(too-many-columns)", None, lambda: ttb.sptensor.from_aggregator(np.array([[0, 0, 0, 0]]), np.array([[1.0]]), shp))
    # Kruskal / Tucker
    A("ktensor(column-counts-differ)", None, lambda: ttb.ktensor([np.ones((2, 2)), np.ones((3, 3))]))
    A("ktensor(weights-length)", None, lambda: ttb.ktensor([np.ones((2, 2)), np.ones((3, 2))], np.ones(3)))
    A("K+K2", "K", lambda: K + K2)
    A("K-K2", "K", lambda: K - K2)
    A("K.extract(out-of-range)", "K", lambda: K.extract(5))
    A("K.extract(empty)", "K", lambda: K.extract([]))
    A("K.arrange(wrong-length-permutation)", "K", lambda: K.copy().arrange(permutation=[0]))
    A("K.normalize(bad-mode)", "K", lambda: K.copy().normalize(mode=N))
    A("K.redistribute(bad-mode)", "K", lambda: K.copy().redistribute(N))
    A("K.from_vector(wrong-length)", None, lambda: ttb.ktensor.from_vector(np.ones(2 * sum(shp) + 1), shp, False))
    A("ttensor(core-factor-mismatch)", None, lambda: ttb.ttensor(ttb.tensor(np.ones((2, 2, 2))), [np.ones((2, 2)), np.ones((3, 2)), np.ones((4, 3))]))
    A("ttensor(wrong-number-of-factors)", None, lambda: ttb.ttensor(ttb.tensor(np.ones((2, 2, 2))), [np.ones((2, 2)), np.ones((3, 2))]))
    A("TT.reconstruct(modes-without-samples)", "TT", lambda: TT.reconstruct(None, 0))
    # matricized / sum / Khatri-Rao
    A("tenmat(prod-mismatch)", None, lambda: ttb.tenmat(np.ones((2, 12)), np.array([0]), np.array([1, 2]), (2, 3, 5)))
    A("tenmat(dims-not-partition)", None, lambda: ttb.tenmat(np.ones((2, 12)), np.array([0]), np.array([1]), (2, 3, 4)))
    A("tenmat*tenmat(inner-mismatch)", None, lambda: T.to_tenmat(np.array([0])) * T.to_tenmat(np.array([0])))
    A("tenmat+tenmat(shape-mismatch)", None, lambda: T.to_tenmat(np.array([0])) + T2.to_tenmat(np.array([0])))
    A("sptenmat(row-index-too-large)", None, lambda: ttb.sptenmat(np.array([[2, 0]]), np.array([[1.0]]), np.array([0]), np.array([1, 2]), (2, 3, 4)))
    A("sptenmat(col-index-too-large)", None, lambda: ttb.sptenmat(np.array([[0, 12]]), np.array([[1.0]]), np.array([0]), np.array([1, 2]), (2, 3, 4)))
    A("sptenmat(dims-not-partition)", None, lambda: ttb.sptenmat(np.array([[0, 0]]), np.array([[1.0]]), np.array([0]), np.array([1]), (2, 3, 4)))
    A("sumtensor(shape-mismatch)", None, lambda: ttb.sumtensor([T, T2]))
    A("sumtensor+list(bad-type)", None, lambda: ttb.sumtensor([T]) + 5)
    A("khatrirao(column-mismatch)", None, lambda: ttb.khatrirao(np.ones((2, 2)), np.ones((2, 3))))
    A("khatrirao(vector)", None, lambda: ttb.khatrirao(np.ones((2, 2)), np.ones(2)))
    A("khatrirao(list)", None, lambda: ttb.khatrirao([np.ones((2, 2)), np.ones((2, 2))]))
    # utilities
    from pyttb.pyttb_utils import tt_dimscheck
    A("tt_dimscheck(both)", None, lambda: tt_dimscheck(3, None, np.array([0]), np.array([1])))
    A("tt_dimscheck(negative)", None, lambda: tt_dimscheck(3, None, np.array([-1])))
    A("tt_dimscheck(exclude-out-of-range)", None, lambda: tt_dimscheck(3, None, None, np.array([3])))
    A("tt_dimscheck(M>N)", None, lambda: tt_dimscheck(3, 4))
    A("tt_dimscheck(P<M<N)", None, lambda: tt_dimscheck(4, 3, np.array([0, 1])))
    A("tt_dimscheck(M<P)", None, lambda: tt_dimscheck(4, 1, np.array([0, 1])))
    # algorithms
    A("cp_als(rank-0)", "T", lambda: ttb.cp_als(T, 0, printitn=0))
    A("cp_als(bad-dimorder)", "T", lambda: ttb.cp_als(T, 2, dimorder=[0, 0, 1], printitn=0))
    A("cp_als(init-wrong-rank)", "T", lambda: ttb.cp_als(T, 3, init=K, printitn=0))
    A("cp_als(init-wrong-size)", "T", lambda: ttb.cp_als(T, 2, init=K2, printitn=0))
    A("cp_als(bad-init-string)", "T", lambda: ttb.cp_als(T, 2, init="zeros", printitn=0))
    A("cp_apr(negative-data)", "T", lambda: ttb.cp_apr(ttb.tensor(-np.ones(shp)), 2, printitn=0))
    A("cp_apr(bad-algorithm)", "T", lambda: ttb.cp_apr(T, 2, algorithm="newton", printitn=0))
    A("cp_apr(init-wrong-rank)", "T", lambda: ttb.cp_apr(T, 3, init=K, printitn=0))
    A("cp_apr(negative-init)", "T", lambda: ttb.cp_apr(T, 2, init=ttb.ktensor([-np.ones((d, 2)) for d in shp], np.ones(2)), printitn=0))
    A("hosvd(ranks-wrong-length)", "T", lambda: ttb.hosvd(T, 0.1, ranks=[1, 1], verbosity=0))
    A("hosvd(bad-dimorder)", "T", lambda: ttb.hosvd(T, 0.1, dimorder=[0, 0, 1], verbosity=0))
    A("tucker_als(bad-dimorder)", "T", lambda: ttb.tucker_als(T, 2, dimorder=[0, 0, 1], printitn=0))
    A("tucker_als(init-wrong-length)", "T", lambda: ttb.tucker_als(T, 2, init=[np.ones((2, 2))], printitn=0))
    A("tucker_als(init-wrong-shape)", "T", lambda: ttb.tucker_als(T, 2, init=[np.ones((d + 1, 2)) for d in shp], printitn=0))
    A("tucker_als(bad-init-string)", "T", lambda: ttb.tucker_als(T, 2, init="zeros", printitn=0))
    from pyttb.gcp.optimizers import LBFGSB, SGD
    from pyttb.gcp.handles import Objectives
    A("gcp_opt(bad-objective)", "T", lambda: ttb.gcp_opt(T, 2, ("a", "b"), LBFGSB(), printitn=0))
    A("gcp_opt(bad-optimizer)", "T", lambda: ttb.gcp_opt(T, 2, Objectives.GAUSSIAN, "lbfgs", printitn=0))
    A("gcp_opt(sparse-with-lbfgsb)", "S", lambda: ttb.gcp_opt(S, 2, Objectives.GAUSSIAN, LBFGSB(), printitn=0))
    A("gcp_opt(mask-with-sparse)", "S", lambda: ttb.gcp_opt(S, 2, Objectives.GAUSSIAN, SGD(), mask=T, printitn=0))
    A("gcp_opt(bad-init)", "T", lambda: ttb.gcp_opt(T, 2, Objectives.GAUSSIAN, LBFGSB(), init="zeros", printitn=0))
    return R


@check("c19.rejections", ["C19"], [
    "pyttb.pyttb_utils.tt_dimscheck", "pyttb.tensor.tensor.permute", "pyttb.sptensor.sptensor.permute", "pyttb.ktensor.ktensor.permute",
    "pyttb.ttensor.ttensor.permute", "pyttb.tensor.tensor.ttv", "pyttb.sptensor.sptensor.ttv", "pyttb.ktensor.ktensor.ttv",
    "pyttb.ttensor.ttensor.ttv", "pyttb.tensor.tensor.ttm", "pyttb.sptensor.sptensor.ttm", "pyttb.tensor.tensor.reshape",
    "pyttb.sptensor.sptensor.reshape", "pyttb.sptenmat.sptenmat.__init__", "pyttb.tenmat.tenmat.__init__",
    "pyttb.sptensor.sptensor.__init__", "pyttb.sptensor.sptensor.from_aggregator", "pyttb.cp_als.cp_als", "pyttb.hosvd.hosvd",
    "pyttb.tucker_als.tucker_als", "pyttb.gcp_opt.gcp_opt", "pyttb.cp_apr.cp_apr", "pyttb.khatrirao.khatrirao"])
class _:
    """~200 (operation, violated precondition) pairs over three shapes: each must raise and leave
    its receiver unchanged."""

    def cases(self, tier, rng):
        ttb = import_pyttb()
        for shp in ([(2, 3, 4)] if tier == "quick" else [(2, 3, 4), (3, 2, 2), (2, 2, 3)]):
            rs = np.random.RandomState(0)
            n = len(_requests(ttb, _objs(ttb, rs, shp), rs))
            for i in range(n):
                yield dict(shape=list(shp), i=i)

    def run(self, case):
        ttb = import_pyttb()
        rs = np.random.RandomState(0)
        o = _objs(ttb, rs, tuple(case["shape"]))
        label, recv, f = _requests(ttb, o, rs)[case["i"]]
        snap = snapshot(ttb, o)
        try:
            out = f()
        except Exception:
            check_unchanged(ttb, snap, o, "rejected:" + label)
            return
        raise Fail(f"accepted:{label}", f"returned {type(out).__name__} instead of raising")


# ============================================================================ C18

def _kden(K):
    return kfull([np.asarray(f, dtype=float) for f in K.factor_matrices], np.asarray(K.weights, dtype=float))


def _dense_of(ttb, M):
    if isinstance(M, ttb.ktensor):
        return _kden(M)
    return np.asarray(M.full().data, dtype=float)


def _relclose(a, b, tol):
    return np.abs(a - b).max() <= tol * max(1.0, np.abs(b).max())


@check("c18.presentation", ["C18"], ["pyttb.cp_als.cp_als", "pyttb.cp_apr.cp_apr", "pyttb.cp_apr.tt_cp_apr_mu", "pyttb.cp_apr.tt_cp_apr_pdnr",
                                     "pyttb.cp_apr.tt_cp_apr_pqnr", "pyttb.hosvd.hosvd", "pyttb.tucker_als.tucker_als", "pyttb.gcp_opt.gcp_opt"])
class _:
    """Pairs of runs that differ only in presentation: dense vs sparse data (with empty slices),
    printing settings, same seed twice, positive scaling (incl. very small / large scales), mode
    relabelling."""

    def cases(self, tier, rng):
        algs = ["cp_als", "cp_apr_mu", "cp_apr_pdnr", "cp_apr_pqnr", "hosvd", "tucker_als", "gcp_lbfgsb"]
        for alg in algs:
            for var in ("dense-vs-sparse", "printing", "seed", "scaling", "relabel"):
                for seed in range(1 if tier == "quick" else 3):
                    yield dict(alg=alg, var=var, seed=rng.randrange(10**6))

    def _run(self, ttb, alg, data, init, seed, quiet=True, order=None, tol=1e-2, apr_iters=(4, 4)):
        np.random.seed(seed)
        p = 0 if quiet else 1
        if alg == "cp_als":
            kw = dict(dimorder=order) if order is not None else {}
            return ttb.cp_als(data, 2, init=init, maxiters=6, printitn=p, stoptol=1e-14, **kw)[0]
        if alg.startswith("cp_apr"):
            return ttb.cp_apr(data, 2, init=init, algorithm=alg.split("_")[-1], maxiters=apr_iters[0], maxinneriters=apr_iters[1], printitn=p, printinneritn=0 if quiet else 1, stoptol=1e-10)[0]
        if alg == "hosvd":
            kw = dict(dimorder=order) if order is not None else {}
            return ttb.hosvd(data, tol, verbosity=0 if quiet else 10, **kw)
        if alg == "tucker_als":
            kw = dict(dimorder=order) if order is not None else {}
            return ttb.tucker_als(data, 2, init=init if not isinstance(init, ttb.ktensor) else [f.copy() for f in init.factor_matrices], maxiters=4, printitn=p, stoptol=1e-14, **kw)[0]
        if alg == "gcp_lbfgsb":
            from pyttb.gcp.handles import Objectives
            from pyttb.gcp.optimizers import LBFGSB
            return ttb.gcp_opt(data, 2, Objectives.GAUSSIAN, LBFGSB(maxiter=6, iprint=-1), init=init, printitn=p)[0]
        raise ValueError(alg)

    def run(self, case):
        try:
            self._run_case(case)
        except AssertionError as e:
            if "first iterate is bad" in str(e):
                return  # the algorithm declined this start
            raise

    def _run_case(self, case):
        ttb = import_pyttb()
        alg, var = case["alg"], case["var"]
        shp = (4, 3, 3)
        for attempt in range(8):
            rs = np.random.RandomState(case["seed"] + attempt)
            U = [rs.rand(d, 2) for d in shp]
            X = np.round(kfull(U, np.array([3.0, 2.0])) * 2 + (rs.rand(*shp) < 0.3))
            if alg != "cp_apr_pqnr" or attempt >= 6:
                X[1, :, :] = 0  # an empty slice
                X[:, 2, 0] = 0
            dense = ttb.tensor(X.copy())
            U0 = [rs.rand(d, 2) + 0.1 for d in shp]
            init = lambda: ttb.ktensor([u.copy() for u in U0], np.ones(2))
            if alg != "cp_apr_pqnr":
                break
            # the quasi-Newton variant declines many starts ("first iterate is bad", typically with an empty slice): look
            # for a problem it accepts, so that its pairs of runs are really compared
            try:
                self._run(ttb, alg, dense, init(), 1)
                break
            except AssertionError:
                continue
        if var == "dense-vs-sparse":
            if alg in ("hosvd", "tucker_als", "gcp_lbfgsb"):
                return
            A = self._run(ttb, alg, dense, init(), 1)
            B = self._run(ttb, alg, dense.to_sptensor(), init(), 1)
            # "the same model up to rounding": the Newton variants of CP-APR solve nearly singular row problems (model values
            # close to zero), where a 1e-16 difference between the dense and the sparse summation order grows by 1e6-1e7 per outer
            # iteration (measured: 1e-15 after two iterations, 7e-9 after three, 4e-8 after four, same data) -- rounding, not a
            # different path; a single damped Newton step inside one outer iteration can do the same (measured: 2e-15 after three
            # inner steps, 3e-9 after the fourth).  They are therefore compared tightly after ONE Newton step of ONE outer iteration
            # (no accumulation) and at 1e-5 otherwise; a path difference between the representations shows at the first step or is
            # far above 1e-5
            newton = alg in ("cp_apr_pdnr", "cp_apr_pqnr")
            if not _relclose(_dense_of(ttb, A), _dense_of(ttb, B), 1e-5 if newton else 1e-8):
                raise Fail(f"dense-vs-sparse:{alg}", f"{case}: max diff {np.abs(_dense_of(ttb, A) - _dense_of(ttb, B)).max()}")
            if newton:
                for inner in (1, 4):
                    A1 = self._run(ttb, alg, dense, init(), 1, apr_iters=(1, inner))
                    B1 = self._run(ttb, alg, dense.to_sptensor(), init(), 1, apr_iters=(1, inner))
                    if not _relclose(_dense_of(ttb, A1), _dense_of(ttb, B1), 1e-9 if inner == 1 else 1e-5):
                        raise Fail(f"dense-vs-sparse:{alg}", f"{case} one outer iteration, {inner} inner: max diff {np.abs(_dense_of(ttb, A1) - _dense_of(ttb, B1)).max()}")
            if alg.startswith("cp_apr"):
                # an admissible start that is exactly zero on a non-empty slice (the model vanishes at nonzero data)
                Z0 = [u.copy() for u in U0]
                Z0[0][0, :] = 0.0
                Z0[2][2, 0] = 0.0
                zinit = lambda: ttb.ktensor([u.copy() for u in Z0], np.ones(2))
                A = self._run(ttb, alg, dense, zinit(), 1)
                B = self._run(ttb, alg, dense.to_sptensor(), zinit(), 1)
                if not _relclose(_dense_of(ttb, A), _dense_of(ttb, B), 1e-5 if newton else 1e-8):
                    raise Fail(f"dense-vs-sparse:{alg}:zero-row-start", f"{case}: max diff {np.abs(_dense_of(ttb, A) - _dense_of(ttb, B)).max()}")
        elif var == "printing":
            A = self._run(ttb, alg, dense, init(), 1, quiet=True)
            B = self._run(ttb, alg, dense, init(), 1, quiet=False)
            if not _relclose(_dense_of(ttb, A), _dense_of(ttb, B), 1e-10):
                raise Fail(f"printing:{alg}", f"{case}")
            # every printing interval, and everything that is reported next to the model (objective, fit, iteration counts)
            if alg in ("cp_als", "tucker_als") or alg.startswith("cp_apr"):
                def full_run(p):
                    np.random.seed(1)
                    if alg == "cp_als":
                        return ttb.cp_als(dense, 2, init=init(), maxiters=4, printitn=p, stoptol=1e-14)
                    if alg == "tucker_als":
                        return ttb.tucker_als(dense, 2, init=[u.copy() for u in U0], maxiters=4, printitn=p, stoptol=1e-14)
                    return ttb.cp_apr(dense, 2, init=init(), algorithm=alg.split("_")[-1], maxiters=4, maxinneriters=4, printitn=p, printinneritn=0, stoptol=1e-10)
                ref = full_run(0)
                for p in (1, 2, 3, 7):
                    got = full_run(p)
                    if not _relclose(_dense_of(ttb, got[0]), _dense_of(ttb, ref[0]), 1e-10):
                        raise Fail(f"printing:{alg}:interval", f"{case} printitn={p}")
                    oa, ob = ref[-1], got[-1]
                    if isinstance(oa, dict) and isinstance(ob, dict):
                        for key in oa:
                            va, vb = oa[key], ob.get(key)
                            if key in ("params", "time", "main_time", "times", "totalTime", "timeTrace") or "time" in key.lower():
                                continue
                            if isinstance(va, (int, float, np.integer, np.floating)) and isinstance(vb, (int, float, np.integer, np.floating)):
                                if not (abs(float(va) - float(vb)) <= 1e-9 * max(1.0, abs(float(va))) or (np.isnan(va) and np.isnan(vb))):
                                    raise Fail(f"printing:{alg}:reported-{key}", f"{case} printitn={p}: {va} vs {vb}")
        elif var == "seed":
            if alg == "hosvd":
                return
            A = self._run(ttb, alg, dense, "random", 7)
            B = self._run(ttb, alg, dense, "random", 7)
            if not _relclose(_dense_of(ttb, A), _dense_of(ttb, B), 1e-9):
                raise Fail(f"seed:{alg}", f"{case}: max diff {np.abs(_dense_of(ttb, A) - _dense_of(ttb, B)).max()}")
        elif var == "scaling":
            if alg.startswith("cp_apr") or alg == "gcp_lbfgsb":
                return
            Xs = rs.randn(*shp) * 0.05 + kfull(U, np.array([3.0, 2.0]))
            for c in (7.5, 1e-6, 1e-9, 1e5):
                A = self._run(ttb, alg, ttb.tensor(Xs.copy()), init(), 1, tol=1e-3)
                B = self._run(ttb, alg, ttb.tensor(c * Xs), init(), 1, tol=1e-3)
                if isinstance(A, ttb.ttensor) and tuple(A.core.shape) != tuple(B.core.shape):
                    raise Fail(f"scaling:{alg}:ranks-change", f"{case} c={c}: core {A.core.shape} vs {B.core.shape}")
                if not _relclose(_dense_of(ttb, B) / c, _dense_of(ttb, A), 1e-7):
                    raise Fail(f"scaling:{alg}", f"{case} c={c}")
        elif var == "relabel":
            if alg.startswith("cp_apr") or alg == "gcp_lbfgsb":
                return
            perm = [2, 0, 1]
            A = self._run(ttb, alg, dense, init(), 1, order=[0, 1, 2])
            Xp = np.transpose(X, perm)
            initp = ttb.ktensor([U0[m].copy() for m in perm], np.ones(2))
            # new mode j is old mode perm[j]; updating old modes 0,1,2 in turn = new modes in the order below
            orderp = [perm.index(m) for m in [0, 1, 2]]
            B = self._run(ttb, alg, ttb.tensor(Xp.copy()), initp, 1, order=orderp)
            if not _relclose(_dense_of(ttb, B), np.transpose(_dense_of(ttb, A), perm), 1e-7):
                raise Fail(f"relabel:{alg}", f"{case}")
