"""Bounded stand-in for C09 (CP-ALS), C10 (HOSVD, Tucker-ALS) and C18 (presentation
independence) on a grid of tiny problems x seeds x options."""

import itertools

import numpy as np

from .core import Fail, check, import_pyttb
from .c08 import den as kden


def _lowrank(rs, shp, R, noise=0.0, nonneg=False):
    U = [rs.rand(d, R) + (0.0 if nonneg else -0.3) for d in shp]
    X = np.zeros(shp)
    for r in range(R):
        t = 1.0
        for u in U:
            t = np.multiply.outer(t, u[:, r])
        X += t * (r + 1)
    if noise:
        X = X + noise * rs.randn(*shp)
    return X


def _data(ttb, kind, X, rs):
    if kind == "dense":
        return ttb.tensor(X.copy())
    if kind == "sparse":
        Y = X.copy()
        return ttb.tensor(Y).to_sptensor()
    if kind == "ttensor":
        return None
    if kind == "sum":
        half = X / 2
        return ttb.sumtensor([ttb.tensor(half.copy()), ttb.tensor((X - half).copy()).to_sptensor()])
    raise ValueError(kind)


def _tdense(ttb, T):
    return np.asarray(T.full().data if not isinstance(T, ttb.tensor) else T.data, dtype=float)


@check("c09.cp_als", ["C09", "C18"], ["pyttb.cp_als.cp_als", "pyttb.ktensor.ktensor.arrange", "pyttb.ktensor.ktensor.fixsigns"])
class _:
    """cp_als on tiny problems: data kinds (dense / sparse / Tucker / sum), ranks, given /
    seeded-random / nvecs starts, every mode order (3-way), optimised-mode subsets, sign
    fixing on/off, printing on/off, iteration limits 1..5."""

    def cases(self, tier, rng):
        shapes = [(4, 3, 3), (3, 4)] if tier == "quick" else [(4, 3, 3), (3, 4), (3, 2, 3, 2), (5, 4, 3)]
        for shp in shapes:
            N = len(shp)
            orders = list(itertools.permutations(range(N)))
            if tier == "quick":
                orders = [orders[0], orders[-1], orders[len(orders) // 2]]
            for kind in ("dense", "sparse", "ttensor", "sum"):
                for R in (1, 2):
                    for order in orders:
                        for init in ("given", "random", "nvecs"):
                            if init == "nvecs" and kind == "sum":
                                continue
                            for optd in (None, "drop-last", "drop-first"):
                                if optd and (order != orders[0] or tier == "quick" and init != "given"):
                                    continue
                                yield dict(shape=list(shp), kind=kind, R=R, order=list(order), init=init, optdims=optd,
                                           fixsigns=bool(rng.randrange(2)), printitn=rng.choice([0, 1, 2]), seed=rng.randrange(10**6))
        # data of very small / very large norm: the reported quantities are relative, the formulas must not switch
        # with the scale of the data (only data whose norm is exactly zero / undefined uses the substitute formula)
        for kind in ("dense", "sparse", "ttensor"):
            for scale in (1e-10, 1e-13, 1e9):
                for init in ("given", "random"):
                    yield dict(shape=[4, 3, 3], kind=kind, R=2, order=[0, 1, 2], init=init, optdims=None, fixsigns=True,
                               printitn=rng.choice([0, 1]), seed=rng.randrange(10**6), scale=scale)

    def run(self, case):
        ttb = import_pyttb()
        rs = np.random.RandomState(case["seed"])
        shp, R, N = tuple(case["shape"]), case["R"], len(case["shape"])
        X = _lowrank(rs, shp, R + 1, noise=0.05)
        if case["kind"] == "sparse":
            X[rs.rand(*shp) < 0.4] = 0
        if case["kind"] == "ttensor":
            G = rs.randn(*[min(2, d) for d in shp])
            V = [rs.randn(d, min(2, d)) for d in shp]
            data = ttb.ttensor(ttb.tensor(G * case.get("scale", 1.0)), V)
            X = np.asarray(data.full().data)
        else:
            X = X * case.get("scale", 1.0)
            data = _data(ttb, case["kind"], X, rs)
        normX = np.linalg.norm(X)
        if case["init"] == "given":
            U0 = [rs.rand(d, R) + 0.1 for d in shp]
            init = ttb.ktensor([u.copy() for u in U0], np.ones(R))
        else:
            init = case["init"]
        optd = None
        if case["optdims"] == "drop-last":
            optd = list(range(N - 1))
        elif case["optdims"] == "drop-first":
            optd = list(range(1, N))
        kw = dict(dimorder=list(case["order"]), fixsigns=case["fixsigns"], printitn=case["printitn"], stoptol=1e-12)
        if optd is not None:
            kw["optdims"] = optd
        fits = []
        first = None
        for maxit in (1, 2, 3, 5):
            np.random.seed(case["seed"])
            M, Minit, out = ttb.cp_als(data, R, init=init, maxiters=maxit, **kw)
            cls = f"{case['kind']}"
            if M.ncomponents != R or tuple(M.shape) != shp:
                raise Fail(f"rank-or-shape:{cls}", f"{case}")
            if out["iters"] > maxit - 1:
                raise Fail(f"iteration-limit:{cls}", f"{case}: {out['iters']} for maxiters {maxit}")
            Xm = kden(M)
            res = np.linalg.norm(X - Xm)
            if case["kind"] == "sum":
                exp_val = np.linalg.norm(Xm) ** 2 - 2 * float((X * Xm).sum())
                if abs(out["normresidual"] - exp_val) > 1e-7 * max(1.0, abs(exp_val)) or abs(out["fit"] - exp_val) > 1e-7 * max(1.0, abs(exp_val)):
                    raise Fail(f"reported-value:sum:print{int(case['printitn'] > 0)}", f"{case}: reported {out['normresidual']} recomputed {exp_val}")
            else:
                # reported through a cancellation-prone formula: compare squared residuals
                if abs(out["normresidual"] ** 2 - res ** 2) > 1e-8 * normX ** 2:
                    raise Fail(f"reported-residual:{cls}:print{int(case['printitn'] > 0)}", f"{case} maxit={maxit}: reported {out['normresidual']} recomputed {res}")
                if abs(out["fit"] - (1 - out["normresidual"] / normX)) > 1e-12:
                    raise Fail(f"reported-fit:{cls}", f"{case}: fit {out['fit']}")
                fits.append(1 - res / normX)
            # normal form (only the optimised problem with all modes rescales every factor)
            w = np.asarray(M.weights)
            if (w < 0).any() or (np.diff(w) > 1e-12 * max(1.0, abs(w).max())).any():
                raise Fail(f"normal-form:weights:{cls}", f"{case}: {w}")
            for n, f in enumerate(M.factor_matrices):
                cn = np.linalg.norm(f, axis=0)
                nz = cn > 0
                if np.abs(cn[nz] - 1).max(initial=0) > 1e-10:
                    raise Fail(f"normal-form:unit-columns:{cls}", f"{case} mode {n}: {cn}")
            # last updated mode satisfies its normal equations
            last = [d for d in case["order"] if optd is None or d in optd][-1]
            A = [np.asarray(f) for f in M.factor_matrices]
            Y = np.ones((R, R))
            for i in range(N):
                if i != last:
                    Y = Y * (A[i].T @ A[i])
            letters = "abcdefg"
            others = [m for m in range(N) if m != last]
            expr = letters[:N] + "," + ",".join(letters[m] + "z" for m in others) + "->" + letters[last] + "z"
            rhs = np.einsum(expr, X, *[A[m] for m in others])
            lhs = (A[last] * w[None, :]) @ Y
            if np.abs(lhs - rhs).max() > 1e-7 * max(1.0, np.abs(rhs).max()):
                raise Fail(f"normal-equations:{cls}", f"{case} maxit={maxit}: max dev {np.abs(lhs - rhs).max()}")
            # returned initial guess is the one used
            if case["init"] == "given":
                if not np.array_equal(Minit.weights, np.ones(R)) or any(not np.array_equal(a, b) for a, b in zip(Minit.factor_matrices, U0)):
                    raise Fail("returned-guess-differs:given", f"{case}")
            elif maxit == 2:
                M2, _, out2 = ttb.cp_als(data, R, init=Minit, maxiters=maxit, **kw)
                if np.abs(kden(M2) - Xm).max() > 1e-9 * max(1.0 if "scale" not in case else 0.0, np.abs(Xm).max()):
                    raise Fail(f"returned-guess-not-the-one-used:{case['init']}", f"{case}")
        # fit never gets worse from one iteration count to the next
        for a, b in zip(fits, fits[1:]):
            if b < a - 1e-9:
                raise Fail(f"fit-decreases:{case['kind']}", f"{case}: fits by maxiters {fits}")


@check("c10.tucker", ["C10", "C18"], ["pyttb.hosvd.hosvd", "pyttb.tucker_als.tucker_als", "pyttb.tensor.tensor.nvecs", "pyttb.ttensor.ttensor.full", "pyttb.tensor.tensor.ttm"])
class _:
    """hosvd (tolerances, requested ranks incl. ranks larger than the product of the other
    modes, both truncation strategies, all mode orders) and tucker_als (starts, iteration limits)."""

    def cases(self, tier, rng):
        shapes = [(4, 3, 3), (5, 2, 2)] if tier == "quick" else [(4, 3, 3), (5, 2, 2), (3, 4, 2, 2), (6, 2, 2), (4, 4, 4)]
        for shp in shapes:
            N = len(shp)
            orders = list(itertools.permutations(range(N)))
            if tier == "quick" or N > 3:
                orders = [orders[0], orders[-1], orders[len(orders) // 2]]
            for order in orders:
                for seq in (True, False):
                    for tol in (0.5, 0.1, 1e-3):
                        yield dict(alg="hosvd", shape=list(shp), order=list(order), seq=seq, tol=tol, ranks=None, seed=rng.randrange(10**6), scale=rng.choice([1.0, 1e-6, 1e5]))
                    for ranks in ([min(2, d) for d in shp], [d for d in shp], [max(1, d - 1) for d in shp], [1] * N):
                        yield dict(alg="hosvd", shape=list(shp), order=list(order), seq=seq, tol=1e-4, ranks=ranks, seed=rng.randrange(10**6), scale=1.0)
                for init in ("random", "nvecs", "given"):
                    for ranks in ([min(2, d) for d in shp], [d for d in shp], 1):
                        yield dict(alg="tucker_als", shape=list(shp), order=list(order), init=init, ranks=ranks, seed=rng.randrange(10**6), exact=bool(rng.randrange(2)))
        # a dominant term plus noise of comparable total energy spread over many small spectral components: the rank choice
        # has to add up the discarded tail, no single component is above the threshold on its own
        for shp in ([6, 6, 6], [7, 5, 6]) if tier == "quick" else ([6, 6, 6], [7, 5, 6], [8, 8, 4], [5, 5, 5, 3]):
            for seq in (True, False):
                for tol in (0.3, 0.2, 0.4):
                    for noise in (0.1, 0.2):
                        yield dict(alg="hosvd", shape=list(shp), order=list(range(len(shp))), seq=seq, tol=tol, ranks=None,
                                   seed=rng.randrange(10**6), scale=1.0, noisy=noise)
        # single-precision data (the decomposition itself must be carried out in double precision): tolerances at the
        # scale of the small spectral components
        for seq in (True, False):
            for tol in (1e-4, 2e-4):
                yield dict(alg="hosvd", shape=[6, 5, 4], order=[0, 1, 2], seq=seq, tol=tol, ranks=None, seed=rng.randrange(10**6), scale=1.0, f32=True)
        # data with mirror structure: a size-2 mode holding two identical slices / a slice and its negative, so that leading
        # mode vectors are (1, 1)/sqrt 2 and (1, -1)/sqrt 2 (largest and most negative entries of equal size)
        for mirror in ("same", "negated"):
            for init in ("random", "nvecs"):
                for ranks in ([2, 2, 2], [1, 2, 2]):
                    yield dict(alg="tucker_als", shape=[2, 3, 3], order=[0, 1, 2], init=init, ranks=ranks, seed=rng.randrange(10**6), exact=False, mirror=mirror)

    def run(self, case):
        ttb = import_pyttb()
        rs = np.random.RandomState(case["seed"])
        shp, N = tuple(case["shape"]), len(case["shape"])
        if case["alg"] == "hosvd":
            X = (_lowrank(rs, shp, 2, noise=0.05)) * case["scale"]
            if case.get("noisy"):
                X = _lowrank(rs, shp, 1, nonneg=True)
                X = X / np.linalg.norm(X) + case["noisy"] * rs.randn(*shp) / np.sqrt(X.size) * 3
            if case.get("f32"):
                comps = [np.multiply.outer(np.multiply.outer(*[np.linalg.qr(rs.randn(d, 4))[0][:, j] for d in shp[:2]]), np.linalg.qr(rs.randn(shp[2], 4))[0][:, j]) for j in range(4)]
                X = (comps[0] + 3e-4 * (comps[1] + comps[2] + comps[3])).astype(np.float32)
                X = np.asarray(X)
            T = ttb.tensor(X.copy())
            X = np.asarray(X, dtype=float)
            normX = np.linalg.norm(X)
            ranks = None if case["ranks"] is None else np.array(case["ranks"])
            R = ttb.hosvd(T, case["tol"], verbosity=0, dimorder=list(case["order"]), sequential=case["seq"], ranks=ranks)
            cls = "seq" if case["seq"] else "nonseq"
            for n, U in enumerate(R.factor_matrices):
                if np.abs(U.T @ U - np.eye(U.shape[1])).max() > 1e-10:
                    raise Fail(f"hosvd:orthonormal:{cls}", f"{case} mode {n}")
            G = X
            for n, U in enumerate(R.factor_matrices):
                G = np.moveaxis(np.tensordot(U.T, G, axes=(1, n)), 0, n)
            if G.shape != tuple(R.core.shape) or np.abs(G - R.core.data).max() > 1e-10 * max(normX, 1e-300):
                raise Fail(f"hosvd:core-relation:{cls}", f"{case}")
            if case["ranks"] is None:
                err = np.linalg.norm(X - R.full().data) / normX
                if err > case["tol"] * (1 + 1e-8):
                    raise Fail(f"hosvd:error-bound:{cls}", f"{case}: relative error {err} > tol {case['tol']}")
            else:
                got = [U.shape[1] for U in R.factor_matrices]
                if got != list(case["ranks"]) or list(R.core.shape) != list(case["ranks"]):
                    raise Fail(f"hosvd:requested-ranks:{cls}", f"{case}: got {got}, core {R.core.shape}")
            return
        # tucker_als
        ranks = case["ranks"]
        rk = [ranks] * N if isinstance(ranks, int) else list(ranks)
        if case["exact"]:
            G = rs.randn(*rk)
            V = [np.linalg.qr(rs.randn(d, k))[0] if d >= k else rs.randn(d, k) for d, k in zip(shp, rk)]
            X = G
            for n, U in enumerate(V):
                X = np.moveaxis(np.tensordot(U, X, axes=(1, n)), 0, n)
        else:
            X = _lowrank(rs, shp, 3, noise=0.1)
        if case.get("mirror"):
            A = rs.randn(*shp[1:])
            X = np.stack([A, A if case["mirror"] == "same" else -A])
        T = ttb.tensor(X.copy())
        normX = np.linalg.norm(X)
        init = case["init"]
        if init == "given":
            init = [rs.rand(d, k) for d, k in zip(shp, rk)]
        fits = []
        for maxit in (1, 2, 4):
            np.random.seed(case["seed"])
            init_k = [u.copy() for u in init] if isinstance(init, list) else init
            S, Uinit, out = ttb.tucker_als(T, ranks if isinstance(ranks, int) else np.array(ranks), init=init_k, maxiters=maxit, printitn=0, dimorder=list(case["order"]), stoptol=1e-14)
            if [U.shape for U in S.factor_matrices] != [(d, k) for d, k in zip(shp, rk)]:
                raise Fail("tucker_als:ranks", f"{case}")
            for n, U in enumerate(S.factor_matrices):
                if np.abs(U.T @ U - np.eye(U.shape[1])).max() > 1e-8:
                    raise Fail("tucker_als:orthonormal", f"{case} mode {n}")
            G = X
            for n, U in enumerate(S.factor_matrices):
                G = np.moveaxis(np.tensordot(U.T, G, axes=(1, n)), 0, n)
            if np.abs(G - S.core.data).max() > 1e-9 * max(1.0, normX):
                raise Fail("tucker_als:core-relation", f"{case}")
            res = np.linalg.norm(X - S.full().data)
            if not np.isfinite(out["fit"]) or abs(out["normresidual"] ** 2 - res ** 2) > 1e-8 * normX ** 2 or abs(out["fit"] - (1 - out["normresidual"] / normX)) > 1e-12:
                raise Fail("tucker_als:reported-fit", f"{case} maxit={maxit}: reported fit {out['fit']} residual {out['normresidual']} recomputed residual {res}")
            if out["iters"] > maxit - 1:
                raise Fail("tucker_als:iteration-limit", f"{case}")
            fits.append(1 - res / normX)
        for a, b in zip(fits, fits[1:]):
            if b < a - 1e-9:
                raise Fail("tucker_als:fit-decreases", f"{case}: {fits}")
