"""Bounded stand-in for C08: Kruskal re-parameterisations preserve the tensor and reach
their normal form."""

import itertools

import numpy as np

from .core import Fail, all_subs, check, import_pyttb, same

TOL = 1e-10


def kfull(U, w):
    """Definition of the Kruskal tensor (independent of ktensor.full)."""
    shp = tuple(u.shape[0] for u in U)
    N, R = len(U), len(w)
    out = np.zeros(shp)
    for r in range(R):
        term = w[r]
        for n in range(N):
            term = np.multiply.outer(term, U[n][:, r])
        out += term
    return out


def den(K):
    return kfull([np.asarray(f, dtype=float) for f in K.factor_matrices], np.asarray(K.weights, dtype=float))


def close(a, b, tol=TOL):
    a, b = np.asarray(a, dtype=float), np.asarray(b, dtype=float)
    if a.shape != b.shape:
        return False
    return bool(np.all(np.abs(a - b) <= tol * max(1.0, np.max(np.abs(b)) if b.size else 1.0)))


def _make(ttb, case):
    rs = np.random.RandomState(case["seed"])
    shp, R = tuple(case["shape"]), case["R"]
    U = [rs.randint(-3, 4, size=(d, R)).astype(float) for d in shp]
    if case.get("zero_col") and R >= 2:
        U[0][:, 1] = 0.0
    wk = case["w"]
    if wk == "ones":
        w = np.ones(R)
    elif wk == "mixed":
        w = np.array([(-1.0) ** r * (r + 1.5) for r in range(R)])
    elif wk == "zero":
        w = np.array([0.0] + [2.0 + r for r in range(R - 1)])
    else:
        w = np.array([1.0 + r for r in range(R)][::-1])
    sc = case.get("scale_col")
    if sc:
        # a badly scaled but perfectly regular component: a tiny (huge) factor column compensated by its weight
        U[-1][:, 0] = np.where(U[-1][:, 0] == 0, 1.0, U[-1][:, 0]) * sc
        w[0] = (w[0] if w[0] != 0 else 1.0) / sc
    return ttb.ktensor([u.copy() for u in U], w.copy()), U, w


SHAPES_Q = [(3,), (2, 3), (2, 1, 3), (2, 2, 2, 2)]
SHAPES_T = [(3,), (1,), (2, 3), (3, 3), (2, 1, 3), (2, 3, 2), (2, 2, 2, 2), (2, 2, 1, 3)]


def _cases(tier, rng):
    for shp in (SHAPES_Q if tier == "quick" else SHAPES_T):
        for R in (1, 2, 3, 4) if tier != "quick" else (1, 3):
            for w in ("ones", "mixed", "zero", "desc"):
                for zc in (False, True):
                    yield dict(shape=list(shp), R=R, w=w, zero_col=zc, seed=rng.randrange(10**6))
            for sc in (1e-20, 1e-300 ** 0.5, 1e18):
                yield dict(shape=list(shp), R=R, w="mixed", zero_col=False, scale_col=sc, seed=rng.randrange(10**6))


@check("c08.reparam", ["C08"], [
    "pyttb.ktensor.ktensor.normalize", "pyttb.ktensor.ktensor.arrange", "pyttb.ktensor.ktensor.fixsigns",
    "pyttb.ktensor.ktensor.redistribute", "pyttb.ktensor.ktensor.extract", "pyttb.ktensor.ktensor.permute"])
class _:
    """normalize (all variants), arrange, fixsigns (alone / against every reference built from
    sign flips), redistribute, extract, permute of components: array unchanged, normal form reached."""

    def cases(self, tier, rng):
        yield from _cases(tier, rng)

    def run(self, case):
        ttb = import_pyttb()
        K0, U, w = _make(ttb, case)
        X = kfull(U, w)
        N, R = len(U), len(w)

        def fresh():
            return ttb.ktensor([u.copy() for u in U], w.copy())

        def colnorms(K, ord_):
            return [np.linalg.norm(f, ord=ord_, axis=0) for f in K.factor_matrices]

        # normalize: all variants
        for normtype in (2, 1):
            for wf in [None, "all"] + list(range(N)):
                for sort in (False, True):
                    K = fresh()
                    K.normalize(weight_factor=wf, sort=sort, normtype=normtype)
                    if not close(den(K), X):
                        raise Fail("normalize:array-changed", f"{case} wf={wf} sort={sort} normtype={normtype}")
                    if wf is None:
                        if (K.weights < 0).any():
                            raise Fail("normalize:negative-weight", f"{case} -> {K.weights}")
                        for n, cn in enumerate(colnorms(K, normtype)):
                            zero = np.all(K.factor_matrices[n] == 0, axis=0)
                            if not close(cn[~zero], np.ones((~zero).sum())):
                                raise Fail("normalize:unit-columns", f"{case} normtype={normtype} mode {n}: {cn}")
                        if sort and (np.diff(K.weights) > 1e-12).any():
                            raise Fail("normalize:sorted", f"{case}: {K.weights}")
                    else:
                        if not close(K.weights, np.ones(R)):
                            raise Fail("normalize:absorbed-weights-not-one", f"{case} wf={wf}: {K.weights}")
            for mode in range(N):
                K = fresh()
                K.normalize(mode=mode, normtype=normtype)
                if not close(den(K), X):
                    raise Fail("normalize(mode):array-changed", f"{case} mode={mode}")
                cn = np.linalg.norm(K.factor_matrices[mode], ord=normtype, axis=0)
                zero = np.all(K.factor_matrices[mode] == 0, axis=0)
                if not close(cn[~zero], np.ones((~zero).sum())):
                    raise Fail("normalize(mode):unit-columns", f"{case} mode={mode}")
        # arrange
        K = fresh()
        K.arrange()
        if not close(den(K), X):
            raise Fail("arrange:array-changed", f"{case}")
        if (K.weights < 0).any() or (np.diff(K.weights) > 1e-12).any():
            raise Fail("arrange:normal-form", f"{case}: {K.weights}")
        for n in range(N):
            K = fresh()
            K.arrange(weight_factor=n)
            if not close(den(K), X) or not close(K.weights, np.ones(R)):
                raise Fail("arrange(weight_factor)", f"{case} n={n}")
        perms = list(itertools.permutations(range(R))) if R <= 3 else [tuple(np.roll(np.arange(R), k)) for k in range(R)] + [(1, 2, 3, 0)[:R], (2, 0, 3, 1)[:R]]
        for p in perms:
            for ptype in (np.array, list):
                K = fresh()
                K.arrange(permutation=ptype(p))
                if not close(den(K), X):
                    raise Fail("arrange(permutation):array-changed", f"{case} p={p}")
                if not np.array_equal(K.weights, w[list(p)]) or any(not np.array_equal(K.factor_matrices[n], U[n][:, list(p)]) for n in range(N)):
                    raise Fail("arrange(permutation):components", f"{case} p={p}")
        # redistribute
        for n in range(N):
            K = fresh()
            K.redistribute(n)
            if not close(den(K), X) or not close(K.weights, np.ones(R)):
                raise Fail("redistribute", f"{case} n={n}")
        # extract: every non-empty subset / ordering of up to 2 components
        for k in (1, 2):
            for comp in itertools.permutations(range(R), k):
                E = fresh().extract(list(comp) if k > 1 else comp[0])
                if not close(den(E), kfull([u[:, list(comp)] for u in U], w[list(comp)])):
                    raise Fail("extract", f"{case} comp={comp}")
        # fixsigns stand-alone
        K = fresh()
        K.fixsigns()
        if not close(den(K), X):
            raise Fail("fixsigns:array-changed", f"{case}")
        # fixsigns against a reference: the same tensor with pairs of factors sign-flipped
        for r in range(R):
            for pair in itertools.combinations(range(N), 2):
                V = [u.copy() for u in U]
                for n in pair:
                    V[n][:, r] *= -1
                ref = ttb.ktensor([v.copy() for v in V], w.copy())
                K = fresh()
                K.fixsigns(ref)
                if not close(den(K), X):
                    raise Fail("fixsigns(other):array-changed", f"{case} r={r} pair={pair}")


@check("c08.vector_list_algebra", ["C08"], [
    "pyttb.ktensor.ktensor.tovec", "pyttb.ktensor.ktensor.from_vector", "pyttb.ktensor.ktensor.update",
    "pyttb.ktensor.ktensor.tolist", "pyttb.ktensor.ktensor.__add__", "pyttb.ktensor.ktensor.__sub__",
    "pyttb.ktensor.ktensor.__neg__", "pyttb.ktensor.ktensor.__mul__", "pyttb.ktensor.ktensor.score",
    "pyttb.ktensor.ktensor.copy"])
class _:
    """tovec / from_vector / update / tolist round trips (exact), + - neg scalar* algebra,
    score of a tensor against a sign-flipped / permuted copy of itself."""

    def cases(self, tier, rng):
        yield from _cases(tier, rng)

    def run(self, case):
        ttb = import_pyttb()
        K, U, w = _make(ttb, case)
        X = kfull(U, w)
        N, R = len(U), len(w)
        for inc in (True, False):
            v = K.tovec(include_weights=inc)
            if v.shape != (R * (sum(case["shape"]) + (1 if inc else 0)),):
                raise Fail("tovec:length", f"{case}")
            K2 = ttb.ktensor.from_vector(v.copy(), tuple(case["shape"]), inc)
            exp_w = w if inc else np.ones(R)
            if not np.array_equal(K2.weights, exp_w) or any(not np.array_equal(a, b) for a, b in zip(K2.factor_matrices, U)):
                raise Fail("from_vector(tovec)-not-exact", f"{case} include_weights={inc}")
            if not np.array_equal(K2.tovec(inc), v):
                raise Fail("tovec(from_vector)-not-exact", f"{case}")
        # the vector form must not depend on how the factor matrices happen to be laid out in memory:
        # tensors reached through other operations (which may leave C-ordered factors) and factors
        # assigned by the user
        def variants():
            for nm, op in (("normalize(0)", lambda k: k.normalize(weight_factor=0)), ("normalize(all)", lambda k: k.normalize(weight_factor="all")),
                           ("normalize", lambda k: k.normalize()), ("arrange", lambda k: k.arrange()), ("redistribute", lambda k: k.redistribute(N - 1)),
                           ("fixsigns", lambda k: k.fixsigns())):
                k = ttb.ktensor([u.copy() for u in U], w.copy())
                try:
                    op(k)
                except (AssertionError, ValueError, ZeroDivisionError):
                    continue
                yield nm, k
            k = ttb.ktensor([u.copy() for u in U], w.copy())
            k.factor_matrices[0] = np.ascontiguousarray(k.factor_matrices[0])
            yield "C-ordered-factor", k
            k = ttb.ktensor([u.copy() for u in U], w.copy())
            k.factor_matrices[N - 1] = np.array(k.factor_matrices[N - 1][::-1, :][::-1, :])
            yield "strided-factor", k
        for nm, Kh in variants():
            fm = [np.array(f, dtype=float) for f in Kh.factor_matrices]
            ww = np.array(Kh.weights, dtype=float)
            if not np.all(np.isfinite(ww)) or any(not np.all(np.isfinite(f)) for f in fm):
                continue
            v = Kh.tovec(include_weights=True)
            exp = np.concatenate([ww] + [f.reshape(-1, order="F") for f in fm])
            if v.shape != exp.shape or not np.array_equal(v, exp):
                raise Fail(f"tovec-is-not-the-column-stacking:{nm}", f"{case}")
            K2 = ttb.ktensor.from_vector(v.copy(), tuple(case["shape"]), True)
            if not np.array_equal(K2.weights, ww) or any(not np.array_equal(a, b) for a, b in zip(K2.factor_matrices, fm)):
                raise Fail(f"from_vector(tovec)-not-exact:{nm}", f"{case}")
        # update: all modes + weights from the vector of another tensor
        rs = np.random.RandomState(case["seed"] + 1)
        V = [rs.randint(-3, 4, size=u.shape).astype(float) for u in U]
        w2 = np.arange(1.0, R + 1)
        O = ttb.ktensor([v.copy() for v in V], w2.copy())
        K3 = ttb.ktensor([u.copy() for u in U], w.copy())
        K3.update(np.array([-1] + list(range(N))), O.tovec())
        if not np.array_equal(K3.weights, w2) or any(not np.array_equal(a, b) for a, b in zip(K3.factor_matrices, V)):
            raise Fail("update(all)", f"{case}")
        for n in range(N):
            K4 = ttb.ktensor([u.copy() for u in U], w.copy())
            K4.update(n, V[n].reshape(-1, order="F").copy())
            exp = [u.copy() for u in U]
            exp[n] = V[n]
            if not np.array_equal(K4.weights, w) or any(not np.array_equal(a, b) for a, b in zip(K4.factor_matrices, exp)):
                raise Fail("update(mode)", f"{case} n={n}")
        # update replaces one factor; factors that share their array with the replaced one (same array used for two modes
        # of equal size, or a second tensor built over the same arrays without copying) keep their values
        for n in range(N):
            for n2 in range(N):
                if n2 != n and U[n2].shape == U[n].shape:
                    A = np.asfortranarray(U[n].copy())
                    fm = [np.asfortranarray(u.copy()) for u in U]
                    fm[n] = fm[n2] = A
                    Ks = ttb.ktensor(fm, w.copy(), copy=False)
                    Ks.update(n, V[n].reshape(-1, order="F").copy())
                    if not np.array_equal(Ks.factor_matrices[n], V[n]) or not np.array_equal(Ks.factor_matrices[n2], U[n]):
                        raise Fail("update(mode):shared-array-between-modes", f"{case} n={n} n2={n2}")
        fmA = [np.asfortranarray(u.copy()) for u in U]
        K5 = ttb.ktensor(list(fmA), w.copy(), copy=False)       # separate lists, the same arrays
        K6 = ttb.ktensor(list(fmA), w.copy(), copy=False)
        K5.update(0, V[0].reshape(-1, order="F").copy())
        if not np.array_equal(K6.factor_matrices[0], U[0]) or not np.array_equal(fmA[0], U[0]):
            raise Fail("update(mode):changes-another-tensor-built-over-the-same-arrays", f"{case}")
        # tolist: the list of factors denotes the same tensor with unit weights
        L = ttb.ktensor([u.copy() for u in U], w.copy()).tolist()
        if not close(kfull([np.asarray(f) for f in L], np.ones(R)), X):
            raise Fail("tolist:array-changed", f"{case}")
        for n in range(N):
            Kc = ttb.ktensor([u.copy() for u in U], w.copy())
            L = Kc.tolist(n)
            if not close(kfull([np.asarray(f) for f in L], np.ones(R)), X):
                raise Fail("tolist(mode):array-changed", f"{case} n={n}")
        # algebra
        Y = kfull(V, w2)
        if not close(den(K + O), X + Y):
            raise Fail("add", f"{case}")
        if not close(den(K - O), X - Y):
            raise Fail("sub", f"{case}")
        if not close(den(-K), -X):
            raise Fail("neg", f"{case}")
        for c in (2.5, -1.0, 0.0):
            if not close(den(K * c), c * X) or not close(den(c * K), c * X):
                raise Fail("scalar-mul", f"{case} c={c}")
        if not close(den(K.copy()), X):
            raise Fail("copy", f"{case}")
        # score: a tensor against a copy of itself with permuted components and flipped sign pairs
        if R >= 2 and N >= 2 and case["w"] in ("desc",) and not case.get("zero_col"):
            rs = np.random.RandomState(case["seed"] + 2)
            G = [rs.rand(d, R) + 0.1 * np.eye(d, R) for d in case["shape"]]
            A = ttb.ktensor([g.copy() for g in G], np.arange(1.0, R + 1))
            p = list(np.roll(np.arange(R), 1))
            B = ttb.ktensor([g[:, p].copy() for g in G], np.arange(1.0, R + 1)[p])
            B.factor_matrices[0][:, 0] *= -1
            B.factor_matrices[1][:, 0] *= -1
            score, An, flag, perm = A.score(B)
            if abs(score - 1.0) > 1e-8:
                raise Fail("score:self-match", f"{case}: score {score}")
            if not close(den(An), den(A), 1e-8):
                raise Fail("score:array-changed", f"{case}")


@check("c08.score_degenerate", ["C08"], ["pyttb.ktensor.ktensor.score"])
class _:
    """score() against references that make whole rounds of the greedy matching tie at congruence zero (a zero-weight
    component, a component with disjoint support in one mode): the returned re-ordered tensor must still denote the same
    array and its permutation must be a permutation."""

    def cases(self, tier, rng):
        for shp in ([(4, 3, 3), (5, 4)] if tier == "quick" else [(4, 3, 3), (5, 4), (4, 4, 4), (6, 3, 2)]):
            for R in (3, 4):
                for kind in ("zero-weight-middle", "zero-weight-last", "disjoint-support", "zero-column"):
                    for seed in range(2 if tier == "quick" else 5):
                        yield dict(shape=list(shp), R=R, kind=kind, seed=rng.randrange(10**6))

    def classify(self, case):
        return case["kind"]

    def run(self, case):
        ttb = import_pyttb()
        rs = np.random.RandomState(case["seed"])
        shp, R = case["shape"], case["R"]
        G = [rs.rand(d, R) + 0.1 for d in shp]
        wA = np.arange(1.0, R + 1)
        wB = np.arange(1.0, R + 1)
        GB = [g.copy() for g in G]
        k = case["kind"]
        if k == "zero-weight-middle":
            wA[1] = 0.0
        elif k == "zero-weight-last":
            wA[R - 1] = 0.0
        elif k == "disjoint-support":
            # component 1 of the reference lives on rows where no component of A is non-zero in mode 0
            d0 = shp[0]
            G[0][d0 - 1, :] = 0.0
            GB[0] = G[0].copy()
            GB[0][:, 1] = 0.0
            GB[0][d0 - 1, 1] = 1.0
        elif k == "zero-column":
            GB[1][:, 0] = 0.0
        A = ttb.ktensor([g.copy() for g in G], wA.copy())
        B = ttb.ktensor([g.copy() for g in GB], wB.copy())
        XA = kfull(G, wA)
        try:
            out = A.score(B)
        except (AssertionError, ValueError, ZeroDivisionError, FloatingPointError):
            return
        score, An, flag, perm = out
        perm = [int(x) for x in np.asarray(perm).reshape(-1)]
        if sorted(perm) != list(range(R)):
            raise Fail(f"score:permutation-is-not-a-permutation:{k}", f"{case}: {perm}")
        got = kfull([np.asarray(f, dtype=float) for f in An.factor_matrices], np.asarray(An.weights, dtype=float))
        if not np.all(np.isfinite(got)):
            return
        if np.abs(got - XA).max() > 1e-8 * max(1.0, np.abs(XA).max()):
            raise Fail(f"score:array-changed:{k}", f"{case}: max diff {np.abs(got - XA).max()}")
