"""Bounded stand-in for C17: index arithmetic, row-set helpers, Khatri-Rao."""

import itertools

import numpy as np

from .core import Fail, all_subs, check, f_linear, import_pyttb, shapes_upto


def _rows(mat):
    return [tuple(int(x) for x in r) for r in np.asarray(mat).tolist()]


def _first_occurrence(rows):
    seen, out = set(), []
    for r in rows:
        if r not in seen:
            seen.add(r)
            out.append(r)
    return out


@check("c17.sub2ind_ind2sub", ["C17", "C01", "C04", "C07"], ["pyttb.pyttb_utils.tt_sub2ind", "pyttb.pyttb_utils.tt_ind2sub"])
class _:
    """Exhaustive: every shape up to the cell bound, every subscript, both orders;
    negative linear indices; the caller's index array must not be modified."""

    def cases(self, tier, rng):
        for shp in shapes_upto(12 if tier == "quick" else 24, 4):
            for order in ("F", "C", None):
                yield dict(shape=list(shp), order=order)

    def run(self, case):
        ttb = import_pyttb()
        from pyttb.pyttb_utils import tt_ind2sub, tt_sub2ind
        shp = tuple(case["shape"])
        order = case["order"]
        kw = {} if order is None else dict(order=order)
        subs = np.array(all_subs(shp), dtype=int).reshape(-1, len(shp))
        P = int(np.prod(shp))
        lin = tt_sub2ind(shp, subs, **kw)
        if order in ("F", None):
            exp = np.array([f_linear(shp, s) for s in subs.tolist()])
        else:
            exp = np.array([f_linear(shp[::-1], s[::-1]) for s in subs.tolist()])
        if not np.array_equal(lin, exp):
            raise Fail("sub2ind-formula", f"{shp} {order}: {lin.tolist()} != {exp.tolist()}")
        if sorted(lin.tolist()) != list(range(P)):
            raise Fail("sub2ind-not-bijective", f"{shp}")
        back = tt_ind2sub(shp, np.array(lin), **kw)
        if not np.array_equal(back, subs):
            raise Fail("ind2sub-not-inverse", f"{shp} {order}")
        # arbitrary order of the linear indices, and negative indices
        idx = np.arange(P)[::-1].copy()
        r = tt_ind2sub(shp, idx.copy(), **kw)
        if not np.array_equal(tt_sub2ind(shp, r, **kw), idx):
            raise Fail("sub2ind-ind2sub-roundtrip", f"{shp}")
        for dt in (np.intp, np.int64, np.int32):
            own = np.arange(P).astype(dt)
            r2 = tt_ind2sub(shp, own, **kw)
            if np.shares_memory(np.asarray(r2), own):
                raise Fail("ind2sub-result-shares-memory-with-its-argument", f"{shp} {order} idx of type {np.dtype(dt)}")
        own = subs.copy()
        l2 = tt_sub2ind(shp, own, **kw)
        if np.shares_memory(np.asarray(l2), own):
            raise Fail("sub2ind-result-shares-memory-with-its-argument", f"{shp} {order}")
        neg = np.arange(-P, 0)
        keep = neg.copy()
        r = tt_ind2sub(shp, neg, **kw)
        if not np.array_equal(tt_sub2ind(shp, r, **kw), np.arange(P)):
            raise Fail("ind2sub-negative", f"{shp}")
        if not np.array_equal(neg, keep):
            raise Fail("ind2sub-mutates-argument", f"{shp}: idx {keep.tolist()} became {neg.tolist()}")
        e = tt_ind2sub(shp, np.array([], dtype=int), **kw)
        if e.shape != (0, len(shp)):
            raise Fail("ind2sub-empty-shape", f"{e.shape}")


@check("c17.dimscheck", ["C17", "C02", "C19"], ["pyttb.pyttb_utils.tt_dimscheck"])
class _:
    """All N <= 4, all ordered selections of distinct modes (dims) and all exclude sets,
    M in {None, 0..N+1}; plus ill-formed requests."""

    def cases(self, tier, rng):
        for N in range(1, 5):
            sels = [()]
            for k in range(1, N + 1):
                sels += list(itertools.permutations(range(N), k))
            for sel in sels:
                for mode in ("dims", "excl"):
                    for M in [None] + list(range(0, N + 2)):
                        yield dict(N=N, sel=list(sel), mode=mode, M=M)
            yield dict(N=N, sel=[], mode="none", M=None)
            yield dict(N=N, sel=[], mode="none", M=N)
            yield dict(N=N, sel=[-1], mode="dims", M=None)
            yield dict(N=N, sel=[N], mode="excl", M=None)
            yield dict(N=N, sel=[0], mode="both", M=None)
            yield dict(N=N, sel=[0, 0], mode="dims", M=None)
            yield dict(N=N, sel=[N], mode="dims", M=None)

    def run(self, case):
        import_pyttb()
        from pyttb.pyttb_utils import tt_dimscheck
        N, sel, mode, M = case["N"], case["sel"], case["mode"], case["M"]
        kw = {}
        if mode == "dims":
            kw["dims"] = np.array(sel, dtype=int)
            exp = sorted(sel)
        elif mode == "excl":
            kw["exclude_dims"] = np.array(sel, dtype=int)
            exp = [m for m in range(N) if m not in sel]
        elif mode == "both":
            kw["dims"] = np.array(sel)
            kw["exclude_dims"] = np.array(sel)
            exp = None
        else:
            exp = list(range(N))
        must_raise = (
            mode == "both"
            or (mode == "dims" and any(d < 0 or d >= N for d in sel))
            or (mode == "excl" and any(d < 0 or d >= N for d in sel))
        )
        if not must_raise and M is not None:
            P = len(exp)
            must_raise = M > N or M not in (N, P)
        try:
            sd, vi = tt_dimscheck(N, M, **kw)
        except (ValueError, AssertionError):
            if must_raise:
                return
            raise Fail("rejects-valid-request", f"{case}")
        if must_raise:
            raise Fail("accepts-invalid-request", f"{case} -> {sd}, {vi}")
        if mode == "dims" and len(set(sel)) != len(sel):
            # repeated dims are C19's business (callers index with them)
            return
        if list(sd) != exp:
            raise Fail("sdims", f"{case}: {list(sd)} != {exp}")
        if M is None:
            if vi is not None:
                raise Fail("vidx-without-M", f"{case}")
            return
        P = len(exp)
        if M == P:
            if mode == "dims":
                if [sel[v] for v in vi] != exp:
                    raise Fail("vidx-alignment(M==P)", f"{case}: vidx {list(vi)}")
            else:
                if list(vi) != list(range(P)):
                    raise Fail("vidx-alignment(M==P)", f"{case}: vidx {list(vi)}")
        else:
            if list(vi) != exp:
                raise Fail("vidx-alignment(M==N)", f"{case}: vidx {list(vi)}")


def _row_matrices(tier):
    """All integer row matrices with <= R rows, 2 columns over a small alphabet, plus empties."""
    alpha = [0, 1] if tier == "quick" else [0, 1, 2]
    R = 3 if tier == "quick" else 3
    rows = list(itertools.product(alpha, repeat=2))
    mats = [[]]
    for k in range(1, R + 1):
        mats += [list(m) for m in itertools.product(rows, repeat=k)]
    return mats


def _mat(m):
    return np.array(m, dtype=int).reshape(len(m), 2)


@check("c17.row_helpers", ["C17", "C03", "C06"], [
    "pyttb.pyttb_utils.tt_ismember_rows", "pyttb.pyttb_utils.tt_intersect_rows",
    "pyttb.pyttb_utils.tt_setdiff_rows", "pyttb.pyttb_utils.tt_union_rows"])
class _:
    """Every ordered pair of small row matrices (repeated rows and empty operands included)
    against set algebra on rows."""

    def cases(self, tier, rng):
        mats = _row_matrices(tier)
        if tier == "quick":
            mats = [m for m in mats if len(m) <= 2] + rng.sample([m for m in mats if len(m) == 3], 12)
        for a in mats:
            for b in mats:
                yield dict(A=a, B=b)

    def run(self, case):
        import_pyttb()
        from pyttb.pyttb_utils import tt_intersect_rows, tt_ismember_rows, tt_setdiff_rows, tt_union_rows
        A, B = _mat(case["A"]), _mat(case["B"])
        ra, rb = _rows(A), _rows(B)
        # --- ismember(search=A, source=B)
        matched, res = tt_ismember_rows(A, B)
        if len(matched) != len(ra) or len(res) != len(ra):
            raise Fail("ismember-length", f"{len(matched)}, {len(res)} for {len(ra)} rows")
        for k, r in enumerate(ra):
            if bool(matched[k]) != (r in rb):
                raise Fail("ismember-matched", f"A={ra} B={rb} k={k}")
            if r in rb:
                if not (0 <= res[k] < len(rb)) or rb[res[k]] != r:
                    raise Fail("ismember-location", f"A={ra} B={rb} k={k} loc={res[k]}")
            elif res[k] != -1:
                raise Fail("ismember-unmatched-not-minus-one", f"A={ra} B={rb} k={k} loc={res[k]}")
        ua, ub = _first_occurrence(ra), _first_occurrence(rb)
        # --- intersect: (first-occurrence) positions in A of the distinct rows common to A and B, in B's order
        loc = tt_intersect_rows(A, B)
        exp = [ra.index(r) for r in ub if r in ra]
        if list(loc) != exp:
            raise Fail("intersect", f"A={ra} B={rb}: {list(loc)} != {exp}")
        # --- setdiff: for A with distinct rows, ascending positions of rows of A absent from B
        if len(ua) == len(ra):
            d = tt_setdiff_rows(A, B)
            exp = [i for i, r in enumerate(ra) if r not in rb]
            if list(d) != exp:
                raise Fail("setdiff", f"A={ra} B={rb}: {list(d)} != {exp}")
        else:
            # repeated rows in A: one (first-occurrence) position per distinct row of A that is absent from B, ascending
            d = tt_setdiff_rows(A, B)
            exp = sorted({ra.index(r) for r in ra if r not in rb})
            if list(d) != exp:
                raise Fail("setdiff-repeated-rows", f"A={ra} B={rb}: {list(d)} != {exp}")
        # --- union: exactly the distinct rows of A and B, each once
        if len(ra) or len(rb):
            u = tt_union_rows(A, B)
            ur = _rows(u) if u.size else []
            if sorted(ur) != sorted(set(ra) | set(rb)):
                raise Fail("union-row-set", f"A={ra} B={rb}: {ur}")


@check("c17.khatrirao", ["C17", "C02", "C01"], ["pyttb.khatrirao.khatrirao"])
class _:
    """All tuples of 1..4 matrices with row counts in 1..3 and 1..2 columns, generic integer
    entries; both orders; rejection of unequal column counts and non-matrices."""

    def cases(self, tier, rng):
        maxp = 3 if tier == "quick" else 4
        for p in range(1, maxp + 1):
            for rows in itertools.product([1, 2, 3], repeat=p):
                if np.prod(rows) > (12 if tier == "quick" else 36):
                    continue
                for R in (1, 2):
                    for reverse in (False, True):
                        yield dict(rows=list(rows), R=R, reverse=reverse, seed=rng.randrange(10**6))
        yield dict(rows=[2, 2], R=2, reverse=False, seed=1, bad="cols")
        yield dict(rows=[2, 2], R=2, reverse=False, seed=1, bad="vector")

    def run(self, case):
        ttb = import_pyttb()
        rs = np.random.RandomState(case["seed"])
        mats = [rs.randint(-3, 4, size=(r, case["R"])).astype(float) for r in case["rows"]]
        if case.get("bad") == "cols":
            mats[1] = np.ones((2, 3))
        if case.get("bad") == "vector":
            mats[1] = np.ones(2)
        if case.get("bad"):
            try:
                ttb.khatrirao(*mats)
            except (ValueError, AssertionError):
                return
            raise Fail("accepts-invalid-request", case["bad"])
        K = ttb.khatrirao(*mats, reverse=case["reverse"])
        seq = mats[::-1] if case["reverse"] else mats
        exp = np.zeros((int(np.prod([m.shape[0] for m in seq])), case["R"]))
        for r in range(case["R"]):
            col = np.array([1.0])
            for m in seq:
                col = np.kron(col, m[:, r])
            exp[:, r] = col
        if K.shape != exp.shape or not np.array_equal(K, exp):
            raise Fail("khatrirao-columnwise-kronecker", f"{case}")


@check("c17.parsers", ["C17", "C07"], ["pyttb.pyttb_utils.parse_shape", "pyttb.pyttb_utils.parse_one_d", "pyttb.pyttb_utils.gather_wrap_dims"])
class _:
    def cases(self, tier, rng):
        for N in range(1, 5):
            for r in range(N):
                for cyc in ("fc", "bc", "t", None):
                    yield dict(kind="wrap", N=N, r=[r], cyc=cyc)
            for k in range(0, N + 1):
                for sel in itertools.permutations(range(N), k):
                    yield dict(kind="wrap", N=N, r=list(sel), cyc=None)
                    yield dict(kind="wrapc", N=N, c=list(sel))
        for shp in [3, [2, 3], (1, 1), np.array([2, 3]), np.array([[2], [3]]), np.array(4)]:
            yield dict(kind="shape", val=shp if not isinstance(shp, np.ndarray) else shp.tolist(), nd=isinstance(shp, np.ndarray))

    def run(self, case):
        import_pyttb()
        from pyttb.pyttb_utils import gather_wrap_dims, parse_shape
        if case["kind"] == "shape":
            v = np.array(case["val"]) if case["nd"] else case["val"]
            out = parse_shape(v)
            exp = tuple(int(x) for x in np.array(case["val"]).reshape(-1))
            if tuple(out) != exp or not isinstance(out, tuple):
                raise Fail("parse_shape", f"{case} -> {out}")
            return
        N = case["N"]
        if case["kind"] == "wrapc":
            c = np.array(case["c"], dtype=int)
            r, c2 = gather_wrap_dims(N, None, c)
            if list(c2) != case["c"] or list(r) != [m for m in range(N) if m not in case["c"]]:
                raise Fail("gather_wrap_dims(cdims)", f"{case} -> {list(r)}, {list(c2)}")
            return
        r = np.array(case["r"], dtype=int)
        cyc = case["cyc"]
        rr, cc = gather_wrap_dims(N, r, None, cyc)
        if cyc == "fc":
            exp_r, exp_c = case["r"], list(range(case["r"][0] + 1, N)) + list(range(case["r"][0]))
        elif cyc == "bc":
            exp_r, exp_c = case["r"], list(range(case["r"][0] - 1, -1, -1)) + list(range(N - 1, case["r"][0], -1))
        elif cyc == "t":
            exp_c, exp_r = case["r"], [m for m in range(N) if m not in case["r"]]
        else:
            exp_r, exp_c = case["r"], [m for m in range(N) if m not in case["r"]]
        if list(rr) != exp_r or list(cc) != exp_c:
            raise Fail("gather_wrap_dims", f"{case} -> {list(rr)}, {list(cc)}")


@check("c17.index_dtypes", ["C17", "C07", "C06", "C03", "C04"], [
    "pyttb.pyttb_utils.tt_sub2ind", "pyttb.pyttb_utils.tt_ind2sub", "pyttb.pyttb_utils.tt_ismember_rows",
    "pyttb.pyttb_utils.tt_intersect_rows", "pyttb.pyttb_utils.tt_setdiff_rows", "pyttb.sptensor.sptensor.reshape",
    "pyttb.sptensor.sptensor.__eq__", "pyttb.sptensor.sptensor.__ne__"])
class _:
    """Subscripts held in integer types other than the platform integer (int8 ... uint32, as imported from other
    libraries): the index maps must not wrap around when the linear index exceeds the range of the subscript type,
    rows must compare by value, and sparse operations must give the result they give for int64 subscripts."""

    def cases(self, tier, rng):
        for dt, shp in (("int8", (20, 20)), ("uint8", (30, 40)), ("int16", (200, 300)), ("int16", (40, 50, 60)),
                        ("int32", (70000, 70000)), ("uint16", (300, 400)), ("int32", (3, 4)), ("uint32", (5, 3, 2))):
            for order in ("F", "C"):
                yield dict(kind="index-maps", dtype=dt, shape=list(shp), order=order, seed=rng.randrange(10**6))
        for dt in ("int8", "int16", "int32", "uint8", "uint32"):
            yield dict(kind="rows", dtype=dt, seed=rng.randrange(10**6))
            for shp in ((3, 4), (2, 3, 2), (12, 11)):
                yield dict(kind="sparse-ops", dtype=dt, shape=list(shp), seed=rng.randrange(10**6))
        for dt, shp, tgt in (("int16", (200, 300), (300, 200)), ("int8", (20, 20), (400,)), ("int16", (40, 50, 60), (2000, 60)), ("int32", (6, 4), (4, 6))):
            yield dict(kind="reshape", dtype=dt, shape=list(shp), target=list(tgt), seed=rng.randrange(10**6))
        # index spaces beyond 2**53 cells (where float64 stops being exact) and beyond 2**63 (where int64 keys wrap)
        for shp, tgt in (((2**27, 2**27), (2**30, 2**24)), ((2**18, 2**18, 2**18), (2**27, 2**27)), ((2, 2**27, 2**27), (2**31, 2**24))):
            yield dict(kind="huge-index-maps", dtype="int64", shape=list(shp), target=list(tgt), seed=rng.randrange(10**6))
        for shp in ((100000,) * 4, (2**32, 2**32, 2**32), (2**40, 2**40)):
            yield dict(kind="huge-aggregate", dtype="int64", shape=list(shp), seed=rng.randrange(10**6))

    def classify(self, case):
        return f"{case['kind']}:{case['dtype']}"

    def run(self, case):
        ttb = import_pyttb()
        from pyttb.pyttb_utils import tt_ind2sub, tt_intersect_rows, tt_ismember_rows, tt_setdiff_rows, tt_sub2ind
        rs = np.random.RandomState(case["seed"])
        dt = np.dtype(case["dtype"])
        if case["kind"] == "index-maps":
            shp = tuple(case["shape"])
            k = 40
            subs64 = np.stack([rs.randint(0, d, size=k) for d in shp], axis=1)
            subs64[0] = [d - 1 for d in shp]           # the last cell: the largest linear index
            subs = subs64.astype(dt)
            if not np.array_equal(subs.astype(np.int64), subs64):
                raise Fail("harness", "subscripts do not fit the type")
            lin = np.asarray(tt_sub2ind(shp, subs, order=case["order"]))
            strides = np.cumprod((1,) + shp[:-1]) if case["order"] == "F" else np.cumprod((1,) + shp[::-1][:-1])[::-1]
            exp = (subs64 * strides.astype(np.int64)).sum(axis=1)
            if not np.array_equal(lin.astype(np.int64), exp) or lin.dtype.kind not in "iu":
                bad = int(np.flatnonzero(lin.astype(np.int64) != exp)[0]) if lin.shape == exp.shape else -1
                raise Fail(f"sub2ind:{case['order']}", f"{dt} subscripts, shape {shp}: row {subs64[bad].tolist()} -> {lin[bad] if bad >= 0 else lin} expected {exp[bad] if bad >= 0 else exp}")
            back = tt_ind2sub(shp, exp.copy(), order=case["order"])
            if not np.array_equal(np.asarray(back).astype(np.int64), subs64):
                raise Fail(f"ind2sub:{case['order']}", f"shape {shp}")
            return
        if case["kind"] == "huge-index-maps":
            shp, tgt = tuple(case["shape"]), tuple(case["target"])
            P = 1
            for d in shp:
                P *= d
            lins = [P - 1, P - 2, 2**53 + 1, 2**53 + 2**20 + 1, 0, 1, P // 2 + 1] + [int(rs.randint(0, 2**62) % P) for _ in range(20)]
            lins = sorted({x for x in lins if 0 <= x < P})

            def unravel(x, shape):       # exact, Python integers, first subscript fastest
                out = []
                for d in shape:
                    out.append(x % d)
                    x //= d
                return out
            subs = np.array([unravel(x, shp) for x in lins], dtype=np.int64)
            got = np.asarray(tt_sub2ind(shp, subs))
            if [int(v) for v in got] != lins:
                raise Fail("sub2ind:huge", f"shape {shp}: {[int(v) for v in got][:4]} expected {lins[:4]}")
            back = np.asarray(tt_ind2sub(shp, np.array(lins, dtype=np.int64)))
            if not np.array_equal(back.astype(np.int64), subs):
                bad = int(np.flatnonzero((back.astype(np.int64) != subs).any(axis=1))[0])
                raise Fail("ind2sub:huge", f"shape {shp}: index {lins[bad]} -> {back[bad].tolist()} expected {subs[bad].tolist()}")
            vals = np.arange(1.0, len(lins) + 1)[:, None]
            S = ttb.sptensor(subs.copy(), vals.copy(), shp)
            R = S.reshape(tgt)
            exp = np.array([unravel(x, tgt) for x in lins], dtype=np.int64)
            order = np.lexsort(np.asarray(R.subs).T[::-1])
            eorder = np.lexsort(exp.T[::-1])
            if tuple(R.shape) != tgt or not np.array_equal(np.asarray(R.subs)[order].astype(np.int64), exp[eorder]) or not np.array_equal(R.vals[order], vals[eorder]):
                raise Fail("sparse-reshape:huge", f"{shp} -> {tgt}")
            B = R.reshape(shp)
            order = np.lexsort(np.asarray(B.subs).T[::-1])
            eorder = np.lexsort(subs.T[::-1])
            if not np.array_equal(np.asarray(B.subs)[order].astype(np.int64), subs[eorder]) or not np.array_equal(B.vals[order], vals[eorder]):
                raise Fail("sparse-reshape-roundtrip:huge", f"{shp} -> {tgt} -> {shp}")
            return
        if case["kind"] == "huge-aggregate":
            shp = tuple(case["shape"])
            Nm = len(shp)
            base = [int(rs.randint(0, min(d, 2**31))) for d in shp]
            rows = [list(base)]
            for m in (0, Nm - 1):                     # differ in the first / the last mode only, by various amounts
                for delta in (1, 2**16, 2**32 - 1 if shp[m] > 2**32 else shp[m] // 2):
                    r = list(base)
                    r[m] = (r[m] + delta) % shp[m]
                    rows.append(r)
            rows.append([0] * Nm)
            if shp == (100000,) * 4:
                rows.append([18446, 74407, 37095, 51616])   # linear index 2**64 in row-major order
            rows.append(list(rows[1]))                  # one genuine duplicate
            subs = np.array(rows, dtype=np.int64)
            vals = np.arange(1.0, len(rows) + 1)[:, None]
            want = {}
            for r, v in zip(rows, vals.ravel()):
                want[tuple(r)] = want.get(tuple(r), 0.0) + v
            for perm_nm, perm in (("given", np.arange(len(rows))), ("reversed", np.arange(len(rows))[::-1])):
                S = ttb.sptensor.from_aggregator(subs[perm].copy(), vals[perm].copy(), shp)
                got = {tuple(int(x) for x in r): float(v) for r, v in zip(np.asarray(S.subs), np.asarray(S.vals).ravel())}
                if got != want or S.nnz != len(want):
                    raise Fail("from_aggregator:huge-shape", f"shape {shp} ({perm_nm} order): {S.nnz} entries, expected {len(want)}")
            A = ttb.sptensor(subs[:-1].copy(), vals[:-1].copy(), shp)
            Z = A + A
            got = {tuple(int(x) for x in r): float(v) for r, v in zip(np.asarray(Z.subs), np.asarray(Z.vals).ravel())}
            if got != {tuple(r): 2.0 * float(v) for r, v in zip(rows[:-1], vals[:-1].ravel())}:
                raise Fail("add:huge-shape", f"shape {shp}: {Z.nnz} entries")
            return
        if case["kind"] == "rows":
            A64 = rs.randint(0, 5, size=(7, 3))
            B64 = np.vstack([A64[[4, 1]], rs.randint(0, 5, size=(4, 3))])
            for a_dt, b_dt in ((dt, np.int64), (np.int64, dt), (dt, dt)):
                A, B = A64.astype(a_dt), B64.astype(b_dt)
                ref = [np.asarray(x) for x in (*tt_ismember_rows(A64, B64), tt_intersect_rows(A64, B64), tt_setdiff_rows(A64, B64))]
                got = [np.asarray(x) for x in (*tt_ismember_rows(A, B), tt_intersect_rows(A, B), tt_setdiff_rows(A, B))]
                for nm, g, r in zip(("ismember-matched", "ismember-location", "intersect", "setdiff"), got, ref):
                    if not np.array_equal(g, r):
                        raise Fail(f"{nm}", f"rows of type {np.dtype(a_dt)} against {np.dtype(b_dt)}: {g.tolist()} != {r.tolist()}")
            return
        shp = tuple(case["shape"])
        ncell = int(np.prod(shp))
        n = max(2, ncell // 3)
        lin = rs.choice(ncell, size=n, replace=False)
        subs64 = np.array(np.unravel_index(lin, shp)).T
        vals = rs.choice([1.0, 2.0, -1.0, 3.0], size=(n, 1))
        A = ttb.sptensor(subs64.astype(dt), vals.copy(), shp)
        R = ttb.sptensor(subs64.copy(), vals.copy(), shp)

        def den(X, what):
            if isinstance(X, ttb.sptensor):
                out = np.zeros(X.shape)
                if X.subs.size:
                    if np.unique(X.subs, axis=0).shape[0] != X.subs.shape[0]:
                        raise Fail(f"repeated-subscripts:{what}", f"{dt} subscripts, shape {shp}: {X.subs.tolist()}")
                    out[tuple(np.asarray(X.subs).astype(np.int64).T)] = X.vals.ravel()
                return out
            return np.asarray(X.data if hasattr(X, "data") else X, dtype=float)
        if case["kind"] == "reshape":
            tgt = tuple(case["target"])
            got, ref = A.reshape(tgt), R.reshape(tgt)
            dense = np.zeros(shp)
            dense[tuple(subs64.T)] = vals.ravel()
            exp = dense.reshape(tgt, order="F")
            if got.shape != tgt or not np.array_equal(den(got, "reshape"), exp):
                raise Fail("sparse-reshape", f"{dt} subscripts, {shp} -> {tgt}: differs from the dense reshape")
            if not np.array_equal(den(got.reshape(shp), "reshape-back"), dense):
                raise Fail("sparse-reshape-roundtrip", f"{dt} subscripts, {shp} -> {tgt} -> {shp}")
            return
        lin2 = rs.choice(ncell, size=n, replace=False)
        sb = np.array(np.unravel_index(lin2, shp)).T
        sb[0] = subs64[0]
        _, first = np.unique(sb, axis=0, return_index=True)
        sb = sb[np.sort(first)]
        B = ttb.sptensor(sb, rs.choice([1.0, 2.0], size=(sb.shape[0], 1)), shp)
        D = ttb.tensor(den(R, "ref") + 1.0)
        ops = [("A != 1", lambda X: X != 1), ("A == 1", lambda X: X == 1), ("A == 0", lambda X: X == 0), ("A < 2", lambda X: X < 2),
               ("A >= 0", lambda X: X >= 0), ("A != B", lambda X: X != B), ("B != A", lambda X: B != X), ("A == B", lambda X: X == B),
               ("A * B", lambda X: X * B), ("A + B", lambda X: X + B), ("A - B", lambda X: X - B), ("A < B", lambda X: X < B),
               ("A >= B", lambda X: X >= B), ("A & B", lambda X: X.logical_and(B)), ("A | B", lambda X: X.logical_or(B)),
               ("A ^ B", lambda X: X.logical_xor(B)), ("not A", lambda X: X.logical_not()), ("A != D", lambda X: X != D),
               ("A[subs]", lambda X: X[sb]), ("full", lambda X: X.full()), ("A == A64", lambda X: X == R)]
        for nm, op in ops:
            with np.errstate(all="ignore"):
                g, r = den(op(A), nm), den(op(R), nm)
            if g.shape != r.shape or not np.array_equal(g, r, equal_nan=True):
                raise Fail(f"sparse-op:{nm}", f"{dt} subscripts give a different result than int64 subscripts, shape {shp}")
