"""Bounded stand-ins for C12 (GCP losses / gradients / evaluation) and C13 (solvers, samplers)."""

import itertools

import numpy as np

from .core import Fail, all_subs, check, import_pyttb
from .c08 import kfull

LOSS_SPECS = [
    # objective name, extra parameter, data generator kind, model domain (lo, hi)
    ("GAUSSIAN", None, "real", (-3.0, 3.0)),
    ("BERNOULLI_ODDS", None, "binary", (0.05, 4.0)),
    ("BERNOULLI_LOGIT", None, "binary", (-4.0, 4.0)),
    ("POISSON", None, "count", (0.05, 5.0)),
    ("POISSON_LOG", None, "count", (-3.0, 2.0)),
    ("RAYLEIGH", None, "pos", (0.1, 4.0)),
    ("GAMMA", None, "pos", (0.1, 4.0)),
    ("HUBER", 0.75, "real", (-3.0, 3.0)),
    ("NEGATIVE_BINOMIAL", 3.0, "count", (0.05, 4.0)),
    ("BETA", 0.5, "pos", (0.1, 3.0)),
    ("BETA", 1.7, "pos", (0.1, 3.0)),
    ("NEGATIVE_BINOMIAL", 1.0, "count", (0.05, 4.0)),
    ("HUBER", 2.0, "real", (-3.0, 3.0)),
]


def _data(rs, kind, shape):
    if kind == "binary":
        return (rs.rand(*shape) < 0.5).astype(float)
    if kind == "count":
        return rs.poisson(1.5, size=shape).astype(float)
    if kind == "pos":
        return rs.rand(*shape) * 3 + 0.2
    return rs.randn(*shape) * 1.5


def _handles(ttb, name, param):
    from pyttb.gcp.fg_setup import setup
    from pyttb.gcp.handles import Objectives
    return setup(getattr(Objectives, name), None, param)


@check("c12.handles", ["C12"], ["pyttb.gcp.handles." + n for n in (
    "gaussian", "gaussian_grad", "bernoulli_odds", "bernoulli_odds_grad", "bernoulli_logit", "bernoulli_logit_grad",
    "poisson", "poisson_grad", "poisson_log", "poisson_log_grad", "rayleigh", "rayleigh_grad", "gamma", "gamma_grad",
    "huber", "huber_grad", "negative_binomial", "negative_binomial_grad", "beta", "beta_grad")] + ["pyttb.gcp.fg_setup.setup"])
class _:
    """Central finite differences of every loss against its gradient handle on a grid over the
    loss's domain (both sides of every kink), for the handle pair selected by setup()."""

    def cases(self, tier, rng):
        for name, param, kind, dom in LOSS_SPECS:
            yield dict(loss=name, param=param, kind=kind, dom=list(dom), n=60 if tier == "quick" else 400, seed=rng.randrange(10**6))

    def run(self, case):
        ttb = import_pyttb()
        f, g, lb = _handles(ttb, case["loss"], case["param"])
        rs = np.random.RandomState(case["seed"])
        n = case["n"]
        lo, hi = case["dom"]
        m = np.concatenate([np.linspace(lo, hi, n), lo + (hi - lo) * rs.rand(n)])
        x = _data(rs, case["kind"], (m.size,))
        if case["loss"] == "HUBER":
            # stay away from the kinks by a margin larger than the step
            keep = np.abs(np.abs(x - m) - case["param"]) > 1e-3
            x, m = x[keep], m[keep]
        h = 1e-6
        fd = (f(x, m + h) - f(x, m - h)) / (2 * h)
        gr = g(x, m)
        err = np.abs(fd - gr) / np.maximum(1.0, np.abs(gr))
        if err.max() > 1e-5:
            i = int(np.argmax(err))
            side = "neg" if m[i] < 0 else "pos"
            raise Fail(f"gradient-is-not-derivative:{case['loss']}:{side}", f"{case}: data {x[i]} model {m[i]}: finite difference {fd[i]} gradient {gr[i]}")
        exp_lb = {"GAUSSIAN": -np.inf, "BERNOULLI_LOGIT": -np.inf, "POISSON_LOG": -np.inf, "HUBER": -np.inf}.get(case["loss"], 0.0)
        if lb != exp_lb:
            raise Fail(f"lower-bound:{case['loss']}", f"{lb} != {exp_lb}")


@check("c12.evaluate_estimate", ["C12"], ["pyttb.gcp.fg.evaluate", "pyttb.gcp.fg_est.estimate", "pyttb.gcp.fg_est.estimate_helper",
                                          "pyttb.tensor.tensor.mttkrps", "pyttb.tensor.mttv_left", "pyttb.tensor.mttv_mid", "pyttb.tensor.min_split"])
class _:
    """evaluate(): objective = (weighted) sum of the loss over all entries; gradients = finite
    differences of that objective w.r.t. every factor entry; estimate() on every entry with unit
    weights (and with the same per-entry weights) equals evaluate()."""

    def cases(self, tier, rng):
        shapes = [(3, 2), (2, 3, 2), (2, 2, 2, 2)] if tier == "quick" else [(3, 2), (4, 3), (2, 3, 2), (3, 1, 2), (2, 2, 2, 2), (2, 3, 2, 2, 2)]
        for shp in shapes:
            for name, param, kind, dom in LOSS_SPECS[:10]:
                for w in ("none", "mask", "fractional"):
                    yield dict(shape=list(shp), loss=name, param=param, kind=kind, dom=list(dom), w=w, R=2, seed=rng.randrange(10**6))
        for shp in [(3, 2), (2, 3, 2), (2, 2, 2, 2)]:
            for name, param, kind, dom in LOSS_SPECS[:10]:
                yield dict(shape=list(shp), loss=name, param=param, kind=kind, dom=list(dom), w="none", R=2, zeros=True, seed=rng.randrange(10**6))
        # higher orders with unequal mode sizes (the multi-mode kernel treats first / middle / last modes differently)
        for shp in [(4, 2, 3, 2), (2, 3, 2, 5), (2, 3, 2, 3, 2)]:
            for name, param, kind, dom in LOSS_SPECS[:3]:
                for w in ("none", "mask"):
                    yield dict(shape=list(shp), loss=name, param=param, kind=kind, dom=list(dom), w=w, R=3, seed=rng.randrange(10**6))

    def run(self, case):
        ttb = import_pyttb()
        from pyttb.gcp.fg import evaluate
        from pyttb.gcp.fg_est import estimate
        f, g, lb = _handles(ttb, case["loss"], case["param"])
        rs = np.random.RandomState(case["seed"])
        shp, R = tuple(case["shape"]), case["R"]
        N = len(shp)
        lo, hi = case["dom"]
        if lo >= 0:
            U = [rs.rand(d, R) * 0.8 + 0.4 for d in shp]
        else:
            U = [rs.randn(d, R) * 0.7 for d in shp]
        if case.get("zeros"):
            # factor entries that are exactly zero (entries clamped at a lower bound): in different rows of one mode and
            # different components, so every model value keeps a non-zero term and stays inside the loss's domain
            U[0][0, 0] = 0.0
            U[0][1, R - 1] = 0.0
        X = _data(rs, case["kind"], shp)
        W = None
        if case["w"] == "mask":
            W = (rs.rand(*shp) < 0.6).astype(float)
        elif case["w"] == "fractional":
            W = rs.rand(*shp) * 2.5
        K = ttb.ktensor([u.copy() for u in U], np.ones(R))
        data = ttb.tensor(X.copy())

        def obj(Ulist):
            M = kfull(Ulist, np.ones(R))
            Y = f(X, M)
            return float((Y * W).sum() if W is not None else Y.sum())

        F, G = evaluate(K, data, None if W is None else W.copy(), f, g)
        exp = obj(U)
        if abs(F - exp) > 1e-9 * max(1.0, abs(exp)):
            raise Fail(f"objective-not-weighted-sum:{case['w']}", f"{case}: {F} vs {exp}")
        # evaluating with a sparse copy of the data gives the same objective
        Fs = evaluate(K, data.to_sptensor(), None if W is None else W.copy(), f, None)
        if abs(Fs - exp) > 1e-9 * max(1.0, abs(exp)):
            raise Fail("objective:sparse-data", f"{case}")
        h = 1e-6
        for n in range(N):
            if G[n].shape != U[n].shape:
                raise Fail("gradient-shape", f"{case} mode {n}")
            for (i, r) in itertools.product(range(shp[n]), range(R)):
                Up = [u.copy() for u in U]
                Um = [u.copy() for u in U]
                Up[n][i, r] += h
                Um[n][i, r] -= h
                fd = (obj(Up) - obj(Um)) / (2 * h)
                if abs(fd - G[n][i, r]) > 2e-4 * max(1.0, abs(fd)):
                    raise Fail(f"gradient-not-derivative-of-objective:{case['w']}", f"{case} mode {n} ({i},{r}): fd {fd} vs {G[n][i, r]}")
        # sampled estimator on every entry
        subs = np.array(all_subs(shp), dtype=int)
        vals = np.array([X[tuple(s)] for s in subs])
        wts = np.ones(len(subs)) if W is None else np.array([W[tuple(s)] for s in subs])
        order = rs.permutation(len(subs))
        Fe, Ge = estimate(K, subs[order], vals[order], wts[order], f, g, False, None)
        if abs(Fe - exp) > 1e-9 * max(1.0, abs(exp)):
            raise Fail(f"estimate-objective:{case['w']}", f"{case}: {Fe} vs {exp}")
        for n in range(N):
            if np.abs(Ge[n] - G[n]).max() > 1e-8 * max(1.0, np.abs(G[n]).max()):
                raise Fail(f"estimate-gradient:{case['w']}", f"{case} mode {n}")


# ============================================================================ C13

def _problem(ttb, rs, shp, kind):
    R = 2
    U = [rs.rand(d, R) + 0.2 for d in shp]
    X = kfull(U, np.ones(R)) + 0.05 * rs.rand(*shp)
    if kind == "sparse":
        X = X * (rs.rand(*shp) < 0.35)
        return ttb.tensor(X).to_sptensor(), X
    return ttb.tensor(X), X


@check("c13.samplers", ["C13"], ["pyttb.gcp.samplers.nonzeros", "pyttb.gcp.samplers.zeros", "pyttb.gcp.samplers.uniform",
                                 "pyttb.gcp.samplers.stratified", "pyttb.gcp.samplers.semistrat", "pyttb.gcp.samplers.GCPSampler"])
class _:
    """Sampler outputs for dense / sparse data, every sampler kind, sample counts up to and
    beyond the number of available nonzeros / zeros."""

    def cases(self, tier, rng):
        for shp in [(4, 3, 2), (5, 4)]:
            for kind in ("uniform", "stratified", "semistrat"):
                for nz, z in [(2, 3), (5, 5), (40, 3), (3, 60), (0, 4), (4, 0), (1, 0), (0, 1)]:
                    for seed in range(2 if tier == "quick" else 6):
                        yield dict(shape=list(shp), kind=kind, nz=nz, z=z, seed=rng.randrange(10**6))

    def run(self, case):
        ttb = import_pyttb()
        from pyttb.gcp import samplers
        rs = np.random.RandomState(case["seed"])
        shp = tuple(case["shape"])
        np.random.seed(case["seed"])
        kind = case["kind"]
        tot = int(np.prod(shp))
        if kind == "uniform":
            data, X = _problem(ttb, rs, shp, "dense")
            n = case["nz"] + case["z"]
            if n == 0:
                return
            subs, vals, wts = samplers.uniform(data, n)
            rep = tot
        else:
            data, X = _problem(ttb, rs, shp, "sparse")
            nnz = data.nnz
            try:
                if kind == "stratified":
                    subs, vals, wts = _call_strat(samplers, data, case)
                else:
                    subs, vals, wts = samplers.semistrat(data, case["nz"], case["z"])
            except ValueError:
                if nnz == 0 and case["nz"] > 0:
                    return  # nonzero samples were requested from a tensor without nonzeros: declined
                raise
            rep = tot
        cls = f"{kind}:nz{'>' if case['nz'] > (X != 0).sum() else '<='}nnz:z{'>' if case['z'] > (X == 0).sum() else '<='}zeros"
        if subs.ndim != 2 or subs.shape[1] != len(shp):
            raise Fail(f"subs-shape:{cls}", f"{case}: {subs.shape}")
        n = subs.shape[0]
        if np.asarray(vals).shape != (n,) or np.asarray(wts).shape != (n,):
            raise Fail(f"one-value-and-weight-per-sample:{cls}", f"{case}: {n} subscripts, {np.asarray(vals).size} values, {np.asarray(wts).size} weights")
        if n and ((subs < 0).any() or (subs >= np.array(shp)).any()):
            raise Fail(f"subs-out-of-range:{cls}", f"{case}: {subs.tolist()}")
        v = np.asarray(vals, dtype=float).reshape(-1)
        true = np.array([X[tuple(int(t) for t in s)] for s in subs]) if n else np.zeros(0)
        if kind == "semistrat":
            # draws labelled zero are unconfirmed zeros by design: values of the nonzero draws must match
            nzpart = v != 0
            if n and not np.array_equal(v[nzpart], true[nzpart]):
                raise Fail(f"values-differ-from-data:{cls}", f"{case}")
        elif n and not np.array_equal(v, true):
            raise Fail(f"values-differ-from-data:{cls}", f"{case}: {v.tolist()} vs {true.tolist()}")
        w = np.asarray(wts, dtype=float).reshape(-1)
        if kind == "semistrat":
            # by design: the nonzero draws stand for the stored nonzeros, the unconfirmed zero draws
            # for the whole tensor (corrected at the nonzero draws through crng)
            rep = int((X != 0).sum()) + tot
        if n and abs(w.sum() - rep) > 1e-8 * rep:
            # weights total the number of entries the sample stands for
            if not (kind != "uniform" and (case["nz"] == 0 or case["z"] == 0)):
                raise Fail(f"weights-total:{cls}", f"{case}: weights sum {w.sum()} but {rep} entries")


@check("c13.sampler_primitives", ["C13"], ["pyttb.gcp.samplers.zeros", "pyttb.gcp.samplers.nonzeros"])
class _:
    """The two primitive samplers called directly, with and without replacement, on sparse tensors of unequal mode sizes:
    `zeros` returns in-range subscripts of true zeros (pairwise distinct without replacement), `nonzeros` returns stored
    entries with their values (pairwise distinct without replacement)."""

    def cases(self, tier, rng):
        for shp in [(3, 4, 5), (5, 2), (2, 3, 2, 4), (4, 4, 4)]:
            for k in (1, 5, 12):
                for repl in (True, False):
                    for seed in range(2 if tier == "quick" else 5):
                        yield dict(shape=list(shp), k=k, repl=repl, seed=rng.randrange(10**6))

    def classify(self, case):
        return "with-replacement" if case["repl"] else "without-replacement"

    def run(self, case):
        ttb = import_pyttb()
        from pyttb.gcp import samplers
        from pyttb.pyttb_utils import tt_sub2ind
        rs = np.random.RandomState(case["seed"])
        np.random.seed(case["seed"])
        shp = tuple(case["shape"])
        X = np.where(rs.rand(*shp) < 0.5, np.round(rs.rand(*shp) * 4 + 1), 0.0)
        data = ttb.tensor(X.copy()).to_sptensor()
        if data.nnz == 0 or data.nnz == X.size:
            return
        nz_idx = np.sort(tt_sub2ind(shp, data.subs))
        k = case["k"]
        nzeros = int(X.size - data.nnz)
        if case["repl"] or k <= nzeros:
            try:
                zs = np.asarray(samplers.zeros(data, nz_idx, k, with_replacement=case["repl"]))
            except ValueError:
                if case["repl"]:
                    raise
                zs = np.zeros((0, len(shp)), dtype=int)      # declined: too few zeros left for rejection sampling
            if zs.ndim != 2 or zs.shape[1] != len(shp) or zs.shape[0] > k:
                raise Fail("zeros:shape", f"{case}: {zs.shape}")
            if len(zs) and ((zs < 0).any() or (zs >= np.array(shp)).any()):
                raise Fail("zeros:out-of-range", f"{case}")
            bad = [tuple(int(t) for t in z) for z in zs if X[tuple(int(t) for t in z)] != 0]
            if bad:
                raise Fail("zeros:returns-a-stored-nonzero", f"{case}: {bad[:3]} hold {[float(X[b]) for b in bad[:3]]}")
            if not case["repl"] and len({tuple(z) for z in zs.tolist()}) != len(zs):
                raise Fail("zeros:repeated-without-replacement", f"{case}")
        if case["repl"] or k <= data.nnz:
            subs, vals = samplers.nonzeros(data, k, with_replacement=case["repl"])
            subs, vals = np.asarray(subs), np.asarray(vals, dtype=float).reshape(-1)
            if subs.shape != (k, len(shp)) or vals.shape != (k,):
                raise Fail("nonzeros:shape", f"{case}: {subs.shape} {vals.shape}")
            if any(X[tuple(int(t) for t in s_)] != v or v == 0 for s_, v in zip(subs, vals)):
                raise Fail("nonzeros:values-differ-from-data", f"{case}")
            if not case["repl"] and len({tuple(z) for z in subs.tolist()}) != k:
                raise Fail("nonzeros:repeated-without-replacement", f"{case}")


@check("c13.sampler_object", ["C13"], ["pyttb.gcp.samplers.GCPSampler", "pyttb.gcp.samplers.stratified", "pyttb.gcp.samplers.uniform",
                                       "pyttb.gcp.samplers.semistrat"])
class _:
    """GCPSampler for every combination of data kind, function sampler and gradient sampler (given explicitly or left
    to the default), integer and stratified counts: both draws return in-range subscripts with one value and weight
    each, and the values are the data at those subscripts (semi-stratified: for the draws labelled nonzero)."""

    def cases(self, tier, rng):
        for kind in ("dense", "sparse"):
            for fs in (None, "UNIFORM", "STRATIFIED"):
                for gs in (None, "UNIFORM", "STRATIFIED", "SEMISTRATIFIED"):
                    for counts in ("int", "strat", "default"):
                        for seed in range(1 if tier == "quick" else 3):
                            yield dict(kind=kind, fs=fs, gs=gs, counts=counts, seed=rng.randrange(10**6))

    def classify(self, case):
        return f"{case['kind']}:f={case['fs']}:g={case['gs']}"

    def run(self, case):
        ttb = import_pyttb()
        from pyttb.gcp import samplers
        rs = np.random.RandomState(case["seed"])
        np.random.seed(case["seed"])
        shp = (5, 4, 3)
        data, X = _problem(ttb, rs, shp, case["kind"])
        S = samplers.Samplers
        kw = {}
        if case["fs"]:
            kw["function_sampler"] = getattr(S, case["fs"])
        if case["gs"]:
            kw["gradient_sampler"] = getattr(S, case["gs"])
        strat_f = (case["fs"] == "STRATIFIED") or (case["fs"] is None and case["kind"] == "sparse")
        strat_g = (case["gs"] in ("STRATIFIED", "SEMISTRATIFIED")) or (case["gs"] is None and case["kind"] == "sparse")
        if case["counts"] == "int":
            kw.update(function_samples=12, gradient_samples=9)
        elif case["counts"] == "strat":
            kw["function_samples"] = samplers.StratifiedCount(7, 5) if strat_f else 12
            kw["gradient_samples"] = samplers.StratifiedCount(6, 4) if strat_g else 9
        try:
            smp = samplers.GCPSampler(data, **kw)
        except ValueError:
            return  # combination not offered (stratified sampling of dense data)
        for which, draw in (("function", smp.function_sample), ("gradient", smp.gradient_sample), ("gradient-again", smp.gradient_sample)):
            try:
                subs, vals, wts = draw(data)
            except ValueError:
                if case["kind"] == "sparse" and data.nnz == 0:
                    return
                raise
            except AttributeError:
                if case["kind"] == "dense" and case["gs"] == "SEMISTRATIFIED" and which.startswith("gradient"):
                    return  # semi-stratified sampling needs stored nonzeros: not available for dense data (fails, no answer)
                raise
            subs = np.asarray(subs)
            v, w = np.asarray(vals, dtype=float).reshape(-1), np.asarray(wts, dtype=float).reshape(-1)
            n = subs.shape[0]
            if subs.ndim != 2 or (n and subs.shape[1] != len(shp)) or v.shape != (n,) or w.shape != (n,):
                raise Fail(f"sample-shape:{which}", f"{case}: subs {subs.shape} vals {v.shape} weights {w.shape}")
            if n and ((subs < 0).any() or (subs >= np.array(shp)).any()):
                raise Fail(f"subs-out-of-range:{which}", f"{case}")
            true = np.array([X[tuple(int(t) for t in s_)] for s_ in subs]) if n else np.zeros(0)
            semi = which.startswith("gradient") and case["gs"] == "SEMISTRATIFIED"
            ok = np.array_equal(v[v != 0], true[v != 0]) if semi else np.array_equal(v, true)
            if not ok:
                bad = int(np.flatnonzero(v != true)[0])
                raise Fail(f"values-differ-from-data:{which}", f"{case}: subscript {subs[bad].tolist()} reported as {v[bad]} but the data there is {true[bad]}")
            if n and (w <= 0).any():
                raise Fail(f"non-positive-weight:{which}", f"{case}")


def _call_strat(samplers, data, case):
    nz_idx = None
    try:
        from pyttb.pyttb_utils import tt_sub2ind
        nz_idx = np.sort(tt_sub2ind(data.shape, data.subs)) if data.nnz else np.array([], dtype=int)
    except Exception:
        pass
    return samplers.stratified(data, nz_idx, case["nz"], case["z"])


@check("c13.solvers", ["C13"], ["pyttb.gcp.optimizers.StochasticSolver.solve", "pyttb.gcp.optimizers.SGD.update_step",
                                "pyttb.gcp.optimizers.Adam.update_step", "pyttb.gcp.optimizers.Adagrad.update_step",
                                "pyttb.gcp.optimizers.LBFGSB.solve", "pyttb.gcp_opt.gcp_opt"])
class _:
    """Stochastic solves (SGD / Adam / Adagrad, rates from tiny to far too large so that failed
    epochs and roll-backs occur, also back to back) and L-BFGS-B: best model kept, trace, bounds,
    reuse of one optimizer object for consecutive solves."""

    def cases(self, tier, rng):
        for opt in ("SGD", "Adam", "Adagrad"):
            for rate in (1e-3, 1e-1, 10.0, 1e3):
                for loss in ("GAUSSIAN", "POISSON"):
                    for seed in range(1 if tier == "quick" else 3):
                        yield dict(opt=opt, rate=rate, loss=loss, max_fails=2, epochs=4, seed=rng.randrange(10**6))
        for loss in ("GAUSSIAN", "POISSON", "RAYLEIGH"):
            for seed in range(1 if tier == "quick" else 3):
                yield dict(opt="LBFGSB", loss=loss, seed=rng.randrange(10**6))

    def run(self, case):
        ttb = import_pyttb()
        from pyttb.gcp import optimizers, samplers
        from pyttb.gcp.fg_est import estimate
        from pyttb.gcp.fg import evaluate
        from pyttb.gcp.handles import Objectives
        from pyttb.gcp.fg_setup import setup
        rs = np.random.RandomState(case["seed"])
        shp = (4, 3, 3)
        data, X = _problem(ttb, rs, shp, "dense")
        if case["loss"] == "POISSON":
            data = ttb.tensor(np.round(X * 3))
            X = data.data
        f, g, lb = setup(getattr(Objectives, case["loss"]), data)
        U0 = [rs.rand(d, 2) + 0.1 for d in shp]
        init = ttb.ktensor([u.copy() for u in U0], np.ones(2))
        if case["opt"] == "LBFGSB":
            solver = optimizers.LBFGSB(maxiter=8)
            F0 = evaluate(init, data, None, f, None)
            M, info = solver.solve(init.copy(), data, f, g, lb)
            F1 = evaluate(M, data, None, f, None)
            if F1 > F0 + 1e-9 * max(1.0, abs(F0)):
                raise Fail("lbfgsb:objective-increased", f"{case}: {F0} -> {F1}")
            for n, fm in enumerate(M.factor_matrices):
                if (fm < lb - 1e-12).any():
                    raise Fail("lbfgsb:bound-violated", f"{case} mode {n}")
            M2, _ = solver.solve(init.copy(), data, f, g, lb)
            if any(not np.allclose(a, b, rtol=1e-10, atol=1e-12) for a, b in zip(M.factor_matrices, M2.factor_matrices)):
                raise Fail("lbfgsb:second-solve-differs", f"{case}")
            # reuse after a solve of a DIFFERENT problem size: same answer as a fresh optimizer object
            big = (7, 6, 5)
            dataB, XB = _problem(ttb, rs, big, "dense")
            if case["loss"] == "POISSON":
                dataB = ttb.tensor(np.round(XB * 3))
            fB, gB, lbB = setup(getattr(Objectives, case["loss"]), dataB)
            initB = ttb.ktensor([rs.rand(d, 2) + 0.1 for d in big], np.ones(2))
            used = optimizers.LBFGSB(maxiter=200)
            used.solve(initB, dataB, fB, gB, lbB)
            Mu, _ = used.solve(init.copy(), data, f, g, lb)
            Mf, _ = optimizers.LBFGSB(maxiter=200).solve(init.copy(), data, f, g, lb)
            if any(not np.allclose(a, b, rtol=1e-8, atol=1e-10) for a, b in zip(Mu.factor_matrices, Mf.factor_matrices)):
                raise Fail("lbfgsb:solve-depends-on-earlier-solve-of-another-size", f"{case}")
            return
        cls_ = getattr(optimizers, case["opt"])
        solver = cls_(rate=case["rate"], epoch_iters=5, max_iters=case["epochs"], max_fails=case["max_fails"], printitn=0)

        def one_solve(seed):
            np.random.seed(seed)
            smp = samplers.GCPSampler(data, function_samples=20, gradient_samples=10)
            np.random.seed(seed)
            M, info = solver.solve(init.copy(), data, f, g, lb, smp)
            return M, info

        try:
            M, info = one_solve(case["seed"])
        except ValueError as e:
            if "Infinite gradient" in str(e):
                return  # the solver declined a diverging run
            raise
        for n, fm in enumerate(M.factor_matrices):
            if (fm < lb - 1e-12).any():
                raise Fail(f"bound-violated:{case['opt']}", f"{case} mode {n}: min {fm.min()} < {lb}")
        trace = np.asarray(info["f_est_trace"], dtype=float)
        nep = info["n_epoch"] if "n_epoch" in info else None
        if not np.isfinite(trace[0]):
            raise Fail("trace-start-not-finite", f"{case}")
        fin = trace[np.isfinite(trace)]
        if fin.min() > trace[0] + 1e-12:
            raise Fail("trace-min-above-start", f"{case}")
        # the returned model is the best seen: its estimated objective (on the fixed function
        # sample, recomputed with the same seed) equals the smallest value of the trace
        np.random.seed(case["seed"])
        smp = samplers.GCPSampler(data, function_samples=20, gradient_samples=10)
        np.random.seed(case["seed"])
        fs, fv, fw = smp.function_sample(data)
        fM = estimate(M, fs, fv, fw, f, None, False, None)
        f0 = estimate(init, fs, fv, fw, f, None, False, None)
        if abs(f0 - trace[0]) > 1e-9 * max(1.0, abs(f0)):
            raise Fail("trace-start-is-not-the-start-objective", f"{case}: {trace[0]} vs {f0}")
        # comparisons written so that an undefined (NaN) estimate of the returned model fails them
        if not fM <= f0 + 1e-9 * max(1.0, abs(f0)):
            raise Fail(f"returned-model-worse-than-start:{case['opt']}", f"{case}: {fM} vs start {f0}, trace {trace.tolist()}")
        if not abs(fM - fin.min()) <= 1e-7 * max(1.0, abs(fM)):
            raise Fail(f"returned-model-is-not-the-best-of-trace:{case['opt']}", f"{case}: est {fM}, trace {trace.tolist()}")
        # reuse: a second solve with the same arguments and seed gives the same answer
        M2, info2 = one_solve(case["seed"])
        if any(not np.allclose(a, b, rtol=1e-9, atol=1e-12, equal_nan=True) for a, b in zip(M.factor_matrices, M2.factor_matrices)):
            raise Fail(f"second-solve-depends-on-first:{case['opt']}", f"{case}")
        # reuse after a solve of a different problem size: same answer as a fresh solver object
        big = (6, 5, 4)
        dataB, XB = _problem(ttb, rs, big, "dense")
        if case["loss"] == "POISSON":
            dataB = ttb.tensor(np.round(XB * 3))
        fB, gB, lbB = setup(getattr(Objectives, case["loss"]), dataB)
        initB = ttb.ktensor([rs.rand(d, 2) + 0.1 for d in big], np.ones(2))
        try:
            np.random.seed(case["seed"])
            smpB = samplers.GCPSampler(dataB, function_samples=20, gradient_samples=10)
            solver.solve(initB, dataB, fB, gB, lbB, smpB)
        except ValueError as e:
            if "Infinite gradient" not in str(e):
                raise
        M3, _ = one_solve(case["seed"])
        if any(not np.allclose(a, b, rtol=1e-9, atol=1e-12) for a, b in zip(M.factor_matrices, M3.factor_matrices)):
            raise Fail(f"solve-depends-on-earlier-solve-of-another-size:{case['opt']}", f"{case}")
