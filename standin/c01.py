"""Bounded stand-in for C01 (conversions preserve the tensor) and C07 (permute / reshape /
squeeze are exact index maps)."""

import itertools

import numpy as np

from .core import (Fail, VALUE_POOL, all_subs, check, den_sp, f_linear, import_pyttb, mk_sptensor,
                   orders_of, patterns, same, shapes_upto, wf_sptensor)
from .c06 import wf_sptenmat


def _dense_for(shape, pat, vals):
    a = np.zeros(shape)
    for s, v in zip(pat, vals):
        a[tuple(s)] = v
    return a


def _partitions(N):
    """All ordered (rdims, cdims) partitions of range(N) (either side may be empty)."""
    out = []
    for k in range(N + 1):
        for r in itertools.permutations(range(N), k):
            rest = [m for m in range(N) if m not in r]
            for c in itertools.permutations(rest):
                out.append((list(r), list(c)))
    return out


def _mat_spec(shape, rdims, cdims, X):
    """Matricization by definition: entry (RAVEL_F(row subs), RAVEL_F(col subs))."""
    rs = [shape[m] for m in rdims]
    cs = [shape[m] for m in cdims]
    M = np.zeros((int(np.prod(rs)) if rs else 1, int(np.prod(cs)) if cs else 1))
    for idx in all_subs(shape):
        M[f_linear(rs, [idx[m] for m in rdims]), f_linear(cs, [idx[m] for m in cdims])] = X[idx]
    return M


@check("c01.dense_sparse", ["C01"], [
    "pyttb.tensor.tensor.find", "pyttb.tensor.tensor.to_sptensor", "pyttb.sptensor.sptensor.full",
    "pyttb.sptensor.sptensor.double", "pyttb.sptensor.sptensor.to_tensor", "pyttb.tensor.tensor.nnz"])
class _:
    """dense <-> sparse for every shape up to the cell bound, every sparsity pattern (exhaustive
    for <= 6 cells), every stored order."""

    def cases(self, tier, rng):
        for shp in shapes_upto(8 if tier == "quick" else 16, 4):
            for pat in patterns(shp, rng, 5 if tier == "quick" else 8, samples=6):
                vals = [VALUE_POOL[rng.randrange(len(VALUE_POOL))] for _ in pat]
                order = list(range(len(pat)))
                rng.shuffle(order)
                yield dict(shape=list(shp), subs=[list(pat[i]) for i in order], vals=[vals[i] for i in order])

    def run(self, case):
        ttb = import_pyttb()
        shp = tuple(case["shape"])
        X = _dense_for(shp, case["subs"], case["vals"])
        T = ttb.tensor(X.copy())
        S = T.to_sptensor()
        wf_sptensor(S, "tensor.to_sptensor()")
        if tuple(S.shape) != shp or not same(den_sp(S), X):
            raise Fail("dense->sparse", f"{case}")
        if S.nnz != int((X != 0).sum()) or T.nnz != S.nnz:
            raise Fail("nnz", f"{case}: {S.nnz} {T.nnz}")
        subs, vals = T.find()
        lin = [f_linear(shp, s) for s in subs.tolist()]
        if lin != sorted(lin) or len(set(lin)) != len(lin):
            raise Fail("find-order", f"{case}")
        S2 = mk_sptensor(ttb, shp, case["subs"], case["vals"])
        for name, D in (("full", S2.full().data), ("double", S2.double()), ("to_tensor", S2.to_tensor().data)):
            if D.shape != shp or not same(D, X):
                raise Fail(f"sparse->dense:{name}", f"{case}")
        if S2.full().shape != shp:
            raise Fail("shape", f"{case}")
        if not same(S2.full().to_sptensor().full().data, X):
            raise Fail("roundtrip", f"{case}")
        # the same dense tensor held in other memory layouts: built from a C-ordered / transposed-view / strided array
        # without copying, and grown into its shape by an assignment beyond the extent (the data array is then re-made)
        variants = {}
        Xc = np.ascontiguousarray(X)
        for nm, arr in (("C-ordered", Xc), ("F-ordered", np.asfortranarray(X)), ("strided-view", np.repeat(Xc, 2, axis=0)[::2])):
            try:
                variants[nm] = ttb.tensor(arr, copy=False)
            except (ValueError, AssertionError):
                variants[nm] = ttb.tensor(arr)
        if all(d >= 2 for d in shp) or len(shp) == 1 and shp[0] >= 2:
            small = tuple(d - 1 for d in shp)
            G = ttb.tensor(X[tuple(slice(0, d) for d in small)].copy())
            last = tuple(d - 1 for d in shp)
            G[last] = X[last] if X[last] != 0 else 9.0
            for idx in all_subs(shp):
                if any(i == d - 1 for i, d in zip(idx, shp)) and idx != last and X[idx] != 0:
                    G[idx] = X[idx]
            Xg = X.copy()
            Xg[last] = X[last] if X[last] != 0 else 9.0
            variants["grown"] = (G, Xg)
        for nm, V in variants.items():
            V, Xv = V if isinstance(V, tuple) else (V, X)
            Sv = V.to_sptensor()
            wf_sptensor(Sv, f"to_sptensor() of a {nm} tensor")
            if tuple(Sv.shape) != shp or not same(den_sp(Sv), Xv):
                raise Fail(f"dense->sparse:{nm}", f"{case}: {den_sp(Sv).tolist()} expected {Xv.tolist()}")
            su, va = V.find()
            back = np.zeros(shp)
            if len(su):
                back[tuple(np.asarray(su).T)] = np.asarray(va).ravel()
            if not same(back, Xv):
                raise Fail(f"find:{nm}", f"{case}")
            if not same(np.asarray(V.full().data), Xv) or not same(np.asarray(V.double()), Xv):
                raise Fail(f"dense->dense:{nm}", f"{case}")


@check("c01.matricize", ["C01"], [
    "pyttb.tensor.tensor.to_tenmat", "pyttb.tenmat.tenmat.to_tensor", "pyttb.tenmat.tenmat.__init__",
    "pyttb.sptensor.sptensor.to_sptenmat", "pyttb.sptenmat.sptenmat.to_sptensor", "pyttb.sptenmat.sptenmat.full",
    "pyttb.sptenmat.sptenmat.double", "pyttb.sptenmat.sptenmat.from_array", "pyttb.pyttb_utils.gather_wrap_dims"])
class _:
    """Every ordered partition of the modes into rows / columns (either side may be empty) plus
    fc / bc / t, for shapes up to the bound, dense and sparse, and back."""

    def cases(self, tier, rng):
        shapes = [(3,), (2, 3), (2, 1, 2), (2, 3, 2)] if tier == "quick" else [(3,), (1,), (2, 3), (3, 1), (2, 1, 2), (2, 3, 2), (2, 2, 2, 2), (1, 2, 1, 3)]
        for shp in shapes:
            N = len(shp)
            parts = _partitions(N)
            if tier == "quick" and len(parts) > 30:
                parts = rng.sample(parts, 30)
            for r, c in parts:
                yield dict(shape=list(shp), r=r, c=c, cyc=None, seed=rng.randrange(10**6))
            for n in range(N):
                for cyc in ("fc", "bc", "t"):
                    yield dict(shape=list(shp), r=[n], c=None, cyc=cyc, seed=rng.randrange(10**6))
                yield dict(shape=list(shp), r=[n], c=None, cyc=None, seed=rng.randrange(10**6))
                yield dict(shape=list(shp), r=None, c=[n], cyc=None, seed=rng.randrange(10**6))

    def run(self, case):
        ttb = import_pyttb()
        shp = tuple(case["shape"])
        N = len(shp)
        rs = np.random.RandomState(case["seed"])
        X = rs.randint(-3, 4, size=shp).astype(float)
        X[rs.rand(*shp) < 0.4] = 0
        r, c, cyc = case["r"], case["c"], case["cyc"]
        kw = {}
        if r is not None:
            kw["rdims"] = np.array(r, dtype=int)
        if c is not None:
            kw["cdims"] = np.array(c, dtype=int)
        if cyc:
            kw["cdims_cyclic"] = cyc
        # expected mode split
        if r is not None and c is not None:
            er, ec = r, c
        elif c is None:
            n = r[0]
            if cyc == "fc":
                er, ec = r, list(range(n + 1, N)) + list(range(n))
            elif cyc == "bc":
                er, ec = r, list(range(n - 1, -1, -1)) + list(range(N - 1, n, -1))
            elif cyc == "t":
                ec, er = r, [m for m in range(N) if m not in r]
            else:
                er, ec = r, [m for m in range(N) if m not in r]
        else:
            ec, er = c, [m for m in range(N) if m not in c]
        M = _mat_spec(shp, er, ec, X)
        T = ttb.tensor(X.copy())
        TM = T.to_tenmat(**kw)
        if list(TM.rindices) != er or list(TM.cindices) != ec or tuple(TM.tshape) != shp:
            raise Fail("tenmat:mode-split", f"{case}: {TM.rindices} {TM.cindices}")
        if TM.shape != M.shape or not same(TM.data, M):
            raise Fail("tenmat:entries", f"{case}")
        back = TM.to_tensor()
        if tuple(back.shape) != shp or not same(back.data, X):
            raise Fail("tenmat:roundtrip", f"{case}")
        S = T.to_sptensor()
        SM = S.to_sptenmat(**kw)
        wf_sptenmat(SM, "to_sptenmat")
        if list(SM.rdims) != er or list(SM.cdims) != ec or tuple(SM.tshape) != shp:
            raise Fail("sptenmat:mode-split", f"{case}")
        D = np.asarray(SM.double().toarray())
        if D.shape != M.shape or not same(D, M):
            raise Fail("sptenmat:entries(double)", f"{case}")
        F = SM.full()
        if not same(F.data, M):
            raise Fail("sptenmat:entries(full)", f"{case}")
        # the dense matricization must report the same mode split and denote the same tensor
        if list(F.rindices) != er or list(F.cindices) != ec or tuple(F.tshape) != shp:
            raise Fail("sptenmat:full:mode-split", f"{case}: {F.rindices} {F.cindices} {F.tshape}")
        FT = F.to_tensor()
        if tuple(FT.shape) != shp or not same(FT.data, X):
            raise Fail("sptenmat:full:tensor", f"{case}")
        if SM.nnz != int((X != 0).sum()):
            raise Fail("sptenmat:nnz", f"{case}")
        S2 = SM.to_sptensor()
        wf_sptensor(S2, "sptenmat.to_sptensor()")
        if tuple(S2.shape) != shp or not same(den_sp(S2), X):
            raise Fail("sptenmat:roundtrip", f"{case}")
        SM2 = ttb.sptenmat.from_array(SM.double(), SM.rdims, SM.cdims, SM.tshape)
        if not same(np.asarray(SM2.double().toarray()), M):
            raise Fail("sptenmat:from_array", f"{case}")


@check("c01.structured_to_dense", ["C01", "C02"], [
    "pyttb.ktensor.ktensor.full", "pyttb.ttensor.ttensor.full", "pyttb.sumtensor.sumtensor.full",
    "pyttb.ktensor.ktensor.to_tenmat", "pyttb.khatrirao.khatrirao"])
class _:
    """Kruskal / Tucker / sum -> dense against the defining sums, shapes incl. 1-way and
    singleton modes, ranks 1..3, zero and negative weights."""

    def cases(self, tier, rng):
        shapes = [(3,), (2, 3), (1, 3), (2, 1, 2), (2, 3, 2)] if tier == "quick" else shapes_upto(16, 4)
        for shp in shapes:
            for R in (1, 2, 3):
                for wk in ("ones", "mixed", "zero"):
                    yield dict(shape=list(shp), R=R, w=wk, seed=rng.randrange(10**6))

    def run(self, case):
        ttb = import_pyttb()
        shp = tuple(case["shape"])
        N, R = len(shp), case["R"]
        rs = np.random.RandomState(case["seed"])
        U = [rs.randint(-2, 3, size=(d, R)).astype(float) for d in shp]
        w = {"ones": np.ones(R), "mixed": np.array([(-1.0) ** r * (r + 1) for r in range(R)]), "zero": np.array([0.0] + [2.0] * (R - 1))}[case["w"]]
        K = ttb.ktensor([u.copy() for u in U], w.copy())
        exp = np.zeros(shp)
        for idx in all_subs(shp):
            exp[idx] = sum(w[r] * np.prod([U[m][idx[m], r] for m in range(N)]) for r in range(R))
        F = K.full()
        if tuple(F.shape) != shp or not same(F.data, exp, 1e-12):
            raise Fail("ktensor.full", f"{case}")
        if K.double().shape != shp or not same(K.double(), exp, 1e-12):
            raise Fail("ktensor.double", f"{case}")
        if N >= 2:
            TM = K.to_tenmat(np.array([0]))
            if not same(TM.to_tensor().data, exp, 1e-12):
                raise Fail("ktensor.to_tenmat", f"{case}")
        # Tucker: core of size ranks, factors shp[m] x ranks[m]
        ranks = [min(2, d) for d in shp]
        G = rs.randint(-2, 3, size=ranks).astype(float)
        V = [rs.randint(-2, 3, size=(d, k)).astype(float) for d, k in zip(shp, ranks)]
        TT = ttb.ttensor(ttb.tensor(G.copy()), [v.copy() for v in V])
        expT = np.zeros(shp)
        for idx in all_subs(shp):
            expT[idx] = sum(G[j] * np.prod([V[m][idx[m], j[m]] for m in range(N)]) for j in all_subs(tuple(ranks)))
        FT = TT.full()
        if tuple(FT.shape) != shp or not same(FT.data, expT, 1e-12):
            raise Fail("ttensor.full", f"{case}")
        # a conversion describes the object as it is now, also when it was converted before and changed since
        F.data[(0,) * N] += 100.0        # the earlier result belongs to the caller
        K.factor_matrices[0][0, 0] += 3.0
        K.weights[R - 1] -= 1.5
        U2 = [np.array(f, dtype=float) for f in K.factor_matrices]
        w2 = np.array(K.weights, dtype=float)
        exp2 = np.zeros(shp)
        for idx in all_subs(shp):
            exp2[idx] = sum(w2[r] * np.prod([U2[m][idx[m], r] for m in range(N)]) for r in range(R))
        if not same(K.full().data, exp2, 1e-12) or not same(K.double(), exp2, 1e-12):
            raise Fail("ktensor.full:after-in-place-change", f"{case}")
        K = ttb.ktensor([u.copy() for u in U], w.copy())
        FT.data[(0,) * N] -= 100.0
        TT.core[(0,) * N] = float(G[(0,) * N]) + 7.0
        TT.factor_matrices[N - 1][0, 0] -= 2.0
        G2 = np.array(TT.core.data, dtype=float)
        V2 = [np.array(f, dtype=float) for f in TT.factor_matrices]
        expT2 = np.zeros(shp)
        for idx in all_subs(shp):
            expT2[idx] = sum(G2[j] * np.prod([V2[m][idx[m], j[m]] for m in range(N)]) for j in all_subs(tuple(ranks)))
        for nm, got in (("full", TT.full().data), ("double", TT.double()), ("to_tensor", TT.to_tensor().data)):
            if not same(np.asarray(got), expT2, 1e-12):
                raise Fail(f"ttensor.{nm}:after-in-place-change", f"{case}")
        if abs(TT.norm() - np.linalg.norm(expT2.ravel())) > 1e-9 * max(1.0, np.linalg.norm(expT2.ravel())):
            raise Fail("ttensor.norm:after-in-place-change", f"{case}")
        # sum tensor of (dense, sparse, ktensor)
        D = rs.randint(-2, 3, size=shp).astype(float)
        Sp = ttb.tensor(np.where(rs.rand(*shp) < 0.5, 1.0, 0.0)).to_sptensor()
        ST = ttb.sumtensor([ttb.tensor(D.copy()), Sp, K])
        FS = ST.full()
        if not same(FS.data, D + den_sp(Sp) + exp, 1e-12):
            raise Fail("sumtensor.full", f"{case}")
        ST2 = ttb.sumtensor([K, ttb.tensor(D.copy())])
        if not same(ST2.full().data, D + exp, 1e-12):
            raise Fail("sumtensor.full(kruskal-first)", f"{case}")
        # element types must not matter: an integer-valued dense part followed by parts with fractional values
        Di = rs.randint(-2, 3, size=shp)
        Spf = ttb.tensor(np.where(rs.rand(*shp) < 0.6, rs.randint(-7, 8, size=shp) / 4.0, 0.0)).to_sptensor()
        for parts, want, nm in (([ttb.tensor(Di.copy()), Spf], Di + den_sp(Spf), "int-dense+sparse"),
                                ([ttb.tensor(Di.copy()), Spf, K], Di + den_sp(Spf) + exp, "int-dense+sparse+kruskal"),
                                ([Spf, ttb.tensor(Di.copy())], Di + den_sp(Spf), "sparse+int-dense")):
            got = ttb.sumtensor(parts).full().data
            if not same(np.asarray(got, dtype=float), np.asarray(want, dtype=float), 1e-12):
                raise Fail(f"sumtensor.full:{nm}", f"{case}")


def _perm_spec(X, order):
    return np.transpose(X, order)


@check("c07.index_maps", ["C07", "C01"], [
    "pyttb.tensor.tensor.permute", "pyttb.tensor.tensor.reshape", "pyttb.tensor.tensor.squeeze",
    "pyttb.sptensor.sptensor.permute", "pyttb.sptensor.sptensor.reshape", "pyttb.sptensor.sptensor.squeeze",
    "pyttb.ktensor.ktensor.permute", "pyttb.ttensor.ttensor.permute"])
class _:
    """All N! mode orders, all factorisations of the element count as a target shape, squeeze;
    dense / sparse / Kruskal / Tucker holders; round trips; sparse reshape of a mode subset."""

    def cases(self, tier, rng):
        shapes = [(3,), (2, 3), (1, 3), (2, 1, 2), (2, 3, 2), (1, 1), (2, 3, 4)] if tier == "quick" else [s for s in shapes_upto(12, 4)] + [(2, 3, 4), (3, 2, 2, 3)]
        for shp in shapes:
            yield dict(shape=list(shp), seed=rng.randrange(10**6))

    def run(self, case):
        ttb = import_pyttb()
        shp = tuple(case["shape"])
        N = len(shp)
        rs = np.random.RandomState(case["seed"])
        X = rs.randint(-3, 4, size=shp).astype(float)
        X[rs.rand(*shp) < 0.4] = 0
        T = ttb.tensor(X.copy())
        S = T.to_sptensor()
        R = 2
        U = [rs.randint(-2, 3, size=(d, R)).astype(float) for d in shp]
        K = ttb.ktensor([u.copy() for u in U], np.array([2.0, -1.0]))
        KX = K.full().data
        ranks = [min(2, d) for d in shp]
        TT = ttb.ttensor(ttb.tensor(rs.randint(-2, 3, size=ranks).astype(float)), [rs.randint(-2, 3, size=(d, k)).astype(float) for d, k in zip(shp, ranks)])
        TX = TT.full().data
        for order in itertools.permutations(range(N)):
            o = np.array(order)
            inv = np.argsort(o)
            exp = np.transpose(X, order)
            P = T.permute(o)
            if tuple(P.shape) != exp.shape or not same(P.data, exp):
                raise Fail("permute:dense", f"{shp} {order}")
            if not same(P.permute(inv).data, X):
                raise Fail("permute:dense-inverse", f"{shp} {order}")
            PS = S.permute(o)
            wf_sptensor(PS, "sptensor.permute")
            if tuple(PS.shape) != exp.shape or not same(den_sp(PS), exp):
                raise Fail("permute:sparse", f"{shp} {order}")
            if not same(den_sp(PS.permute(inv)), X):
                raise Fail("permute:sparse-inverse", f"{shp} {order}")
            PK = K.permute(o)
            if not same(PK.full().data, np.transpose(KX, order), 1e-12):
                raise Fail("permute:kruskal", f"{shp} {order}")
            PT = TT.permute(o)
            if not same(PT.full().data, np.transpose(TX, order), 1e-12):
                raise Fail("permute:tucker", f"{shp} {order}")
        tot = int(np.prod(shp))
        targets = [t for t in shapes_upto(tot, 4) if int(np.prod(t)) == tot]
        for tgt in targets:
            exp = X.reshape(tgt, order="F")
            Rd = T.reshape(tgt)
            if tuple(Rd.shape) != tuple(tgt) or not same(Rd.data, exp):
                raise Fail("reshape:dense", f"{shp}->{tgt}")
            if not same(Rd.reshape(shp).data, X):
                raise Fail("reshape:dense-back", f"{shp}->{tgt}")
            Rs = S.reshape(tgt)
            wf_sptensor(Rs, "sptensor.reshape")
            if tuple(Rs.shape) != tuple(tgt) or not same(den_sp(Rs), exp):
                raise Fail("reshape:sparse", f"{shp}->{tgt}")
            if not same(den_sp(Rs.reshape(shp)), X):
                raise Fail("reshape:sparse-back", f"{shp}->{tgt}")
        # sparse reshape of a subset of modes (moved to the end)
        if N >= 2:
            for k in range(1, N):
                for modes in itertools.permutations(range(N), k):
                    keep = [m for m in range(N) if m not in modes]
                    sub_tot = int(np.prod([shp[m] for m in modes]))
                    Rs = S.reshape((sub_tot,), np.array(modes))
                    wf_sptensor(Rs, "sptensor.reshape(subset)")
                    exp = np.transpose(X, keep + list(modes)).reshape([shp[m] for m in keep] + [sub_tot], order="F")
                    if tuple(Rs.shape) != exp.shape or not same(den_sp(Rs), exp):
                        raise Fail("reshape:sparse-subset", f"{shp} modes {modes}")
        # squeeze
        exp = np.squeeze(X)
        for name, obj in (("dense", T), ("sparse", S)):
            Q = obj.squeeze()
            if exp.ndim == 0:
                if isinstance(Q, (ttb.tensor, ttb.sptensor)) or float(Q) != float(exp):
                    raise Fail(f"squeeze:{name}-scalar", f"{shp}: {Q}")
            else:
                got = Q.data if name == "dense" else den_sp(Q)
                if name == "sparse":
                    wf_sptensor(Q, "sptensor.squeeze")
                if tuple(Q.shape) != exp.shape or not same(got, exp):
                    raise Fail(f"squeeze:{name}", f"{shp}")
