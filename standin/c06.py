"""Bounded stand-in for C06: well-formed sparse results, independence of stored order."""

import itertools

import numpy as np

from .core import (Fail, VALUE_POOL, all_subs, check, den_sp, import_pyttb, mk_sptensor, orders_of,
                   patterns, same, wf_sptensor)
from .c03 import BIN_OPS


def wf_sptenmat(M, what="sptenmat", zero_free=True):
    subs, vals = M.subs, M.vals
    R = int(np.prod(np.array(M.tshape)[M.rdims])) if len(M.rdims) else 1
    C = int(np.prod(np.array(M.tshape)[M.cdims])) if len(M.cdims) else 1
    if tuple(M.shape) != (R, C):
        raise Fail("wf-mat:shape", f"{what}: shape {M.shape} but mode sizes give {(R, C)}")
    if sorted(list(M.rdims) + list(M.cdims)) != list(range(len(M.tshape))):
        raise Fail("wf-mat:mode-split", f"{what}: rdims {M.rdims} cdims {M.cdims}")
    if subs.size == 0 and vals.size == 0:
        if M.nnz != 0:
            raise Fail("wf-mat:nnz", f"{what}")
        return
    if subs.ndim != 2 or subs.shape[1] != 2 or vals.ndim != 2 or vals.shape[1] != 1:
        raise Fail("wf-mat:array-rank", f"{what}: subs{subs.shape} vals{vals.shape}")
    if subs.shape[0] != vals.shape[0]:
        raise Fail("wf-mat:one-value-per-subscript", f"{what}")
    if (subs < 0).any() or (subs[:, 0] >= R).any() or (subs[:, 1] >= C).any():
        raise Fail("wf-mat:subs-in-range", f"{what}: {subs.tolist()} in {(R, C)}")
    if len({tuple(r) for r in subs.tolist()}) != subs.shape[0]:
        raise Fail("wf-mat:distinct-subs", f"{what}: {subs.tolist()}")
    if M.nnz != subs.shape[0]:
        raise Fail("wf-mat:nnz", f"{what}")
    if zero_free and (vals == 0).any():
        raise Fail("wf-mat:explicit-zero", f"{what}")


def _canon(ttb, R):
    """Order-independent description of a result."""
    if isinstance(R, ttb.sptensor):
        wf_sptensor(R, "result", zero_free=False)
        return ("sptensor", tuple(R.shape), den_sp(R))
    if isinstance(R, ttb.sptenmat):
        wf_sptenmat(R, "result", zero_free=False)
        a = np.zeros(R.shape)
        for s, v in zip(R.subs.tolist(), R.vals.ravel().tolist()):
            a[tuple(s)] = v
        return ("sptenmat", tuple(R.shape), a)
    if isinstance(R, ttb.tensor):
        return ("tensor", tuple(R.shape), np.asarray(R.data, dtype=float))
    if isinstance(R, tuple):
        return tuple(_canon(ttb, r) for r in R)
    if isinstance(R, dict):
        return tuple((k, np.asarray(v).tolist()) for k, v in sorted(R.items()))
    if hasattr(R, "toarray"):
        return ("spmatrix", R.shape, np.asarray(R.toarray(), dtype=float))
    return ("array", np.asarray(R, dtype=float).shape, np.asarray(R, dtype=float))


def _same_canon(a, b, tol=1e-12):
    if isinstance(a, tuple) and a and isinstance(a[0], tuple):
        return len(a) == len(b) and all(_same_canon(x, y, tol) for x, y in zip(a, b))
    if a[0] != b[0] or a[1] != b[1]:
        return False
    if isinstance(a[2], np.ndarray):
        return same(a[2], b[2], tol)
    return a[2:] == b[2:]


def _unary_ops(ttb, shp, rng):
    N = len(shp)
    ops = {
        "copy": lambda S: S.copy(), "neg": lambda S: -S, "ones": lambda S: S.ones(),
        "not": lambda S: S.logical_not(), "squeeze": lambda S: S.squeeze(),
        "elemfun": lambda S: S.elemfun(lambda v: v * v - 1), "squash": lambda S: S.squash(),
        "full": lambda S: S.full(), "double": lambda S: S.double(), "norm": lambda S: S.norm(),
        "scalar*": lambda S: S * 2.0, "scalar/": lambda S: S / 2.0, "eq1": lambda S: S == 1.0, "ne1": lambda S: S != 1.0,
        "lt1": lambda S: S < 1.0, "ge0": lambda S: S >= 0, "gt-1": lambda S: S > -1,
        "and1": lambda S: S.logical_and(1), "find": lambda S: ttb.sptensor(*S.find(), S.shape),
        "allsubs-setdiff": lambda S: S.logical_not().logical_not(),
        "innerprod-self": lambda S: S.innerprod(S),
        "collapse-all": lambda S: S.collapse(),
    }
    for perm in itertools.permutations(range(N)):
        ops[f"permute{perm}"] = (lambda p: lambda S: S.permute(np.array(p)))(perm)
    for n in range(N):
        ops[f"collapse[{n}]"] = (lambda n: lambda S: S.collapse(np.array([n])))(n)
        v = np.arange(1, shp[n] + 1, dtype=float) - 1.5
        ops[f"ttv[{n}]"] = (lambda n, v: lambda S: S.ttv(v, n))(n, v)
        ops[f"ttv-ones[{n}]"] = (lambda n: lambda S: S.ttv(np.ones(shp[n]), n))(n)
        e0 = np.zeros(shp[n])
        e0[0] = 1.0
        ops[f"ttv-unit[{n}]"] = (lambda n, e0: lambda S: S.ttv(e0, n))(n, e0)
        ops[f"scale-unit[{n}]"] = (lambda n, e0: lambda S: S.scale(e0 + 0.0, n))(n, e0) if False else ops[f"ttv[{n}]"]
        ops[f"scale[{n}]"] = (lambda n, v: lambda S: S.scale(v, n))(n, v)
        M = (np.arange(2 * shp[n], dtype=float).reshape(2, shp[n]) - 1.0)
        ops[f"ttm[{n}]"] = (lambda n, M: lambda S: S.ttm(M, n))(n, M)
        ops[f"to_sptenmat[{n}]"] = (lambda n: lambda S: S.to_sptenmat(np.array([n])))(n)
        ops[f"to_sptenmat[{n}]t"] = (lambda n: lambda S: S.to_sptenmat(np.array([n]), cdims_cyclic="t"))(n)
        ops[f"roundtrip-sptenmat[{n}]"] = (lambda n: lambda S: S.to_sptenmat(np.array([n])).to_sptensor())(n)
        if N >= 2:
            ops[f"slice[{n}]=0"] = (lambda n: lambda S: S[tuple(0 if m == n else slice(None) for m in range(N))])(n)
        U = [np.arange(2 * d, dtype=float).reshape(d, 2) + 1 for d in shp]
        if N >= 2:
            ops[f"mttkrp[{n}]"] = (lambda n, U: lambda S: S.mttkrp(U, n))(n, U)
    for i, j in itertools.combinations(range(N), 2):
        if shp[i] == shp[j]:
            ops[f"contract[{i},{j}]"] = (lambda i, j: lambda S: S.contract(i, j))(i, j)
    tot = int(np.prod(shp))
    ops["reshape-flat"] = lambda S: S.reshape((tot,))
    if N == 2:
        ops["spmatrix"] = lambda S: S.spmatrix()
    sub = np.array(all_subs(shp)[:: max(1, tot // 3)], dtype=int).reshape(-1, N)
    ops["extract"] = lambda S: S.extract(sub)
    ops["getitem-subs"] = lambda S: np.atleast_1d(S[sub])
    ops["getitem-linear"] = lambda S: np.atleast_1d(S[np.arange(tot)])
    Wsubs = all_subs(shp)[::2]
    ops["mask"] = lambda S: S.mask(mk_sptensor(ttb, shp, Wsubs[::-1], [1.0] * len(Wsubs)))
    return ops


@check("c06.unary_wf_order", ["C06", "C07", "C01", "C02"], [
    "pyttb.sptensor.sptensor.permute", "pyttb.sptensor.sptensor.reshape", "pyttb.sptensor.sptensor.squeeze",
    "pyttb.sptensor.sptensor.collapse", "pyttb.sptensor.sptensor.contract", "pyttb.sptensor.sptensor.ttv",
    "pyttb.sptensor.sptensor.ttm", "pyttb.sptensor.sptensor.to_sptenmat", "pyttb.sptensor.sptensor.mask",
    "pyttb.sptensor.sptensor.extract", "pyttb.sptensor.sptensor.squash", "pyttb.sptensor.sptensor.scale",
    "pyttb.sptensor.sptensor.from_aggregator", "pyttb.sptenmat.sptenmat.__init__", "pyttb.sptenmat.sptenmat.to_sptensor"])
class _:
    """Every single-operand public sparse operation, applied to every stored order (all n! for
    <= 4 nonzeros, sampled beyond) of each pattern: the result is well-formed and identical
    across stored orders."""

    def cases(self, tier, rng):
        shapes = [(3,), (2, 2), (2, 1, 2), (2, 3), (1, 1)] if tier == "quick" else [(3,), (4,), (2, 2), (2, 3), (3, 3), (2, 1, 2), (2, 2, 2), (1, 1), (1, 3, 1)]
        for shp in shapes:
            for pat in patterns(shp, rng, 4 if tier == "quick" else 6, samples=4):
                vals = [VALUE_POOL[rng.randrange(len(VALUE_POOL))] for _ in pat]
                yield dict(shape=list(shp), subs=[list(s) for s in pat], vals=vals, seed=rng.randrange(10**6))

    def run(self, case):
        import random
        ttb = import_pyttb()
        shp = tuple(case["shape"])
        rng = random.Random(case["seed"])
        items = list(zip(case["subs"], case["vals"]))
        ops = _unary_ops(ttb, shp, rng)
        ref = {}
        for k, order in enumerate(orders_of(items, rng, 4 if len(items) <= 4 else 3, samples=3)):
            S = mk_sptensor(ttb, shp, [s for s, _ in order], [v for _, v in order])
            for name, f in ops.items():
                try:
                    R = f(S)
                except Exception as e:
                    if k == 0:
                        ref[name] = ("exc", type(e).__name__)
                        if isinstance(e, (AssertionError, ValueError)) and name.startswith(("mttkrp", "contract")):
                            continue
                        raise
                    if ref.get(name, ("",))[0] == "exc":
                        continue
                    raise Fail(f"order-dependent-exception:{name.split('[')[0]}", f"{type(e).__name__}: {e} for order {order}")
                try:
                    c = _canon(ttb, R)
                except Fail as f_:
                    raise Fail(f"{f_.sig}:{name.split('[')[0].split('(')[0]}", f"{f_.msg} op={name} order={order}")
                if k == 0:
                    ref[name] = c
                elif ref[name][0] == "exc" or not _same_canon(ref[name], c):
                    raise Fail(f"order-dependent:{name.split('[')[0].split('(')[0]}", f"op={name} order={order}: {c} vs {ref[name]}")
            # combining / filtering operations leave no explicit zero
            for name, f in ops.items():
                base = name.split("[")[0]
                if base in ("elemfun", "collapse", "ttv", "ttv-ones", "ttv-unit", "contract", "scalar*", "roundtrip-sptenmat",
                            "find", "ttm", "slice", "reshape-flat", "squeeze", "allsubs-setdiff") or base.startswith("permute"):
                    try:
                        R = f(S)
                    except Exception:
                        continue
                    if isinstance(R, ttb.sptensor):
                        try:
                            wf_sptensor(R, name, zero_free=True)
                        except Fail as f_:
                            raise Fail(f"{f_.sig}:{base}", f_.msg + f" op={name} order={order}")
            Sm = mk_sptensor(ttb, shp, [s for s, _ in order], [-v for _, v in order])
            for nm, R in (("add-negation", S + Sm), ("sub-self", S - S)):
                wf_sptensor(R, nm, zero_free=True)
                if R.nnz != 0:
                    raise Fail(f"value:{nm}", f"{den_sp(R).tolist()}")


@check("c06.binary_order", ["C06", "C03"], [
    "pyttb.sptensor.sptensor.__mul__", "pyttb.sptensor.sptensor.__truediv__", "pyttb.sptensor.sptensor.__eq__",
    "pyttb.sptensor.sptensor.__ne__", "pyttb.sptensor.sptensor._compare", "pyttb.sptensor.sptensor.__add__",
    "pyttb.sptensor.sptensor.logical_and", "pyttb.sptensor.sptensor.innerprod",
    "pyttb.pyttb_utils.tt_intersect_rows", "pyttb.pyttb_utils.tt_setdiff_rows", "pyttb.pyttb_utils.tt_ismember_rows"])
class _:
    """Binary operators with both operands in every stored order (<= 3 nonzeros each:
    all orders; beyond: sampled): results are well-formed and equal across orders."""

    def cases(self, tier, rng):
        shapes = [(3,), (2, 2)] if tier == "quick" else [(3,), (4,), (2, 2), (2, 3), (2, 1, 2)]
        for shp in shapes:
            pats = list(patterns(shp, rng, 4, samples=5))
            pairs = [(a, b) for a in pats for b in pats if 1 <= len(a) and 1 <= len(b)]
            if tier == "quick":
                pairs = rng.sample(pairs, min(len(pairs), 40))
            else:
                pairs = rng.sample(pairs, min(len(pairs), 150))
            for pa, pb in pairs:
                va = [VALUE_POOL[rng.randrange(len(VALUE_POOL))] for _ in pa]
                vb = [VALUE_POOL[rng.randrange(len(VALUE_POOL))] for _ in pb]
                common = [s for s in pa if s in pb]
                if common:
                    vb[pb.index(common[0])] = va[pa.index(common[0])]
                yield dict(shape=list(shp), asubs=[list(s) for s in pa], avals=va, bsubs=[list(s) for s in pb], bvals=vb, seed=rng.randrange(10**6))

    def run(self, case):
        import random
        ttb = import_pyttb()
        rng = random.Random(case["seed"])
        shp = tuple(case["shape"])
        A = list(zip(case["asubs"], case["avals"]))
        B = list(zip(case["bsubs"], case["bvals"]))
        ops = dict(BIN_OPS)
        ops["innerprod"] = (lambda a, b: a.innerprod(b), None)
        ref = {}
        first = True
        for oa in orders_of(A, rng, 3, samples=2):
            for ob in orders_of(B, rng, 3, samples=2):
                SA = mk_sptensor(ttb, shp, [s for s, _ in oa], [v for _, v in oa])
                SB = mk_sptensor(ttb, shp, [s for s, _ in ob], [v for _, v in ob])
                for name, (f, _) in ops.items():
                    R = f(SA, SB)
                    try:
                        c = _canon(ttb, R)
                    except Fail as f_:
                        raise Fail(f"{f_.sig}:{name}", f"{f_.msg} orders {oa} {ob}")
                    if first:
                        ref[name] = c
                    elif not _same_canon(ref[name], c):
                        raise Fail(f"order-dependent:{name}", f"orders {oa} / {ob}: {c} vs {ref[name]}")
                first = False


@check("c06.allsubs", ["C06", "C03"], ["pyttb.sptensor.sptensor.allsubs"])
class _:
    """Validates the ASSUMED contract of sptensor.allsubs used by the proofs: row l is
    UNRAVEL_C(shape, l) -- every in-range subscript exactly once, last mode fastest."""

    def cases(self, tier, rng):
        from .core import shapes_upto
        for shp in shapes_upto(12 if tier == "quick" else 36, 4):
            yield dict(shape=list(shp))

    def run(self, case):
        from .core import f_linear
        ttb = import_pyttb()
        shp = tuple(case["shape"])
        A = ttb.sptensor(shape=shp).allsubs()
        if A.shape != (int(np.prod(shp)), len(shp)) or not np.issubdtype(A.dtype, np.integer):
            raise Fail("allsubs:shape-or-dtype", f"{case}: {A.shape} {A.dtype}")
        for l, row in enumerate(A.tolist()):
            if f_linear(shp[::-1], row[::-1]) != l or any(not (0 <= r < d) for r, d in zip(row, shp)):
                raise Fail("allsubs:row-is-not-UNRAVEL_C", f"{case}: row {l} = {row}")


@check("c06.sptenmat_setitem", ["C06", "C04", "C01"], ["pyttb.sptenmat.sptenmat.__setitem__", "pyttb.sptenmat.sptenmat.__init__", "pyttb.sptenmat.sptenmat.double"])
class _:
    """Assignments into a sparse matricized tensor, for every stored order of its entries: single new entries that
    sort before / between / after the stored ones, overwrites, blocks given by lists and slices; afterwards the matrix
    equals the dense model, is well-formed, and does not depend on the order the entries were stored in."""

    def cases(self, tier, rng):
        shapes = [((2, 3), [0], [1]), ((3, 2, 2), [0], [1, 2]), ((2, 2, 3), [2, 0], [1])]
        for tshape, rd, cd in shapes:
            R = int(np.prod([tshape[i] for i in rd]))
            C = int(np.prod([tshape[i] for i in cd]))
            cells = [(i, j) for i in range(R) for j in range(C)]
            for nst in (0, 1, 2, 3):
                for trial in range(3 if tier == "quick" else 8):
                    stored = rng.sample(cells, nst)
                    vals = [float(rng.choice([-2, -1, 1, 2, 3])) for _ in stored]
                    free = [c for c in cells if c not in stored]
                    writes = []
                    if free:
                        writes.append(dict(r=min(free)[0], c=min(free)[1], v=7.0))     # sorts early
                        writes.append(dict(r=max(free)[0], c=max(free)[1], v=-5.0))    # sorts late
                        mid = free[len(free) // 2]
                        writes.append(dict(r=mid[0], c=mid[1], v=4.0))
                    if stored:
                        writes.append(dict(r=stored[0][0], c=stored[0][1], v=9.0))     # overwrite
                    writes.append(dict(r=[0, R - 1] if R > 1 else [0], c=[0], v=2.5))   # block by lists
                    writes.append(dict(r="all", c=C - 1, v=1.5))                          # slice
                    for w in writes:
                        yield dict(tshape=list(tshape), rdims=rd, cdims=cd, stored=[list(s) for s in stored], vals=vals, write=w)

    def classify(self, case):
        w = case["write"]
        return "block" if isinstance(w["r"], (list, str)) else ("overwrite" if [w["r"], w["c"]] in case["stored"] else "insert")

    def run(self, case):
        ttb = import_pyttb()
        tshape, rd, cd = tuple(case["tshape"]), np.array(case["rdims"]), np.array(case["cdims"])
        R = int(np.prod([tshape[i] for i in rd]))
        C = int(np.prod([tshape[i] for i in cd]))
        stored, vals, w = case["stored"], case["vals"], case["write"]
        rows = list(range(R)) if w["r"] == "all" else (w["r"] if isinstance(w["r"], list) else [w["r"]])
        cols = w["c"] if isinstance(w["c"], list) else [w["c"]]
        model = np.zeros((R, C))
        for (i, j), v in zip(stored, vals):
            model[i, j] = v
        for i in rows:
            for j in cols:
                model[i, j] = w["v"]
        key = (slice(None) if w["r"] == "all" else (np.array(w["r"]) if isinstance(w["r"], list) else w["r"]),
               np.array(w["c"]) if isinstance(w["c"], list) else w["c"])
        results = []
        perms = list(itertools.permutations(range(len(stored)))) or [()]
        for perm in perms:
            if stored:
                subs = np.array([stored[k] for k in perm], dtype=int).reshape(len(stored), 2)
                vv = np.array([[vals[k]] for k in perm], dtype=float)
                M = ttb.sptenmat(subs, vv, rd.copy(), cd.copy(), tshape, copy=False)
            else:
                M = ttb.sptenmat(rdims=rd.copy(), cdims=cd.copy(), tshape=tshape)
            try:
                M[key] = w["v"]
            except Exception as e:
                raise Fail(f"crash:{type(e).__name__}:{self.classify(case)}", f"{case} stored order {perm}: {e}")
            got = np.asarray(M.double().todense()) if hasattr(M.double(), "todense") else np.asarray(M.double())
            if got.shape != model.shape or not same(got, model):
                raise Fail(f"sptenmat-setitem:{self.classify(case)}", f"{case} stored order {perm}: got {got.tolist()} expected {model.tolist()}")
            wf_sptenmat(M, "after setitem", zero_free=False)
            results.append(got)
