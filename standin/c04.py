"""Bounded stand-in for C04: entry reads / writes behave like an F-ordered mutable array over
any history; dense and sparse driven in lock-step against a reference NumPy model."""

import itertools

import numpy as np

from .core import Fail, check, den_sp, f_linear, import_pyttb, same, wf_sptensor


# ----------------------------------------------------------------- key / value encodings

def _np_key(items):
    out = []
    for it in items:
        if isinstance(it, list) and it and it[0] == "s":
            out.append(slice(it[1], it[2], it[3] if len(it) > 3 else None))
        elif isinstance(it, list) and it and it[0] == "l":
            out.append(list(it[1]))
        else:
            out.append(int(it))
    return tuple(out)


def _keyform(items):
    f = []
    for it in items:
        if isinstance(it, list) and it[0] == "s" and len(it) > 3:
            f.append("sr" if it[3] < 0 else "st")
        elif isinstance(it, list) and it[0] == "s":
            f.append("s" if it[2] is None and it[1] is None else ("sb" if it[2] is not None else "s0"))
        elif isinstance(it, list):
            f.append("l")
        else:
            f.append("n" if it < 0 else "i")
    return "".join(f)


class Model:
    """Reference: an F-ordered mutable array that grows with zeros."""

    def __init__(self, arr):
        self.a = np.array(arr, dtype=float)

    def grow_to(self, ext):
        ext = list(ext)
        cur = list(self.a.shape) + [1] * (len(ext) - self.a.ndim)
        new = [max(c, e) for c, e in zip(cur, ext)]
        if tuple(new) != self.a.shape:
            b = np.zeros(new)
            b[tuple(slice(0, d) for d in self.a.shape) + (0,) * (len(new) - self.a.ndim)] = self.a
            self.a = b

    def need(self, items):
        ext = []
        for m, it in enumerate(items):
            cur = self.a.shape[m] if m < self.a.ndim else 1
            if isinstance(it, list) and it[0] == "s":
                ext.append(cur if it[2] is None else max(cur, it[2]))
            elif isinstance(it, list):
                ext.append(max(cur, max(it[1]) + 1))
            else:
                ext.append(max(cur, it + 1) if it >= 0 else cur)
        return ext

    def set_region(self, items, val):
        self.grow_to(self.need(items))
        self.a[_np_key(items)] = val

    def set_subs(self, rows, vals):
        rows = np.array(rows, dtype=int)
        self.grow_to(list(rows.max(axis=0) + 1))
        self.a[tuple(rows.T)] = vals

    def get_region(self, items):
        return self.a[_np_key(items)]

    def get_subs(self, rows):
        rows = np.array(rows, dtype=int)
        return self.a[tuple(rows.T)]

    def flat(self):
        return self.a.reshape(-1, order="F")


def _apply(ttb, op, T, S, M):
    """Apply one operation to dense T, sparse S and model M; return list of (what, got, expected)."""
    obs = []
    k = op["key"]
    if op["op"] == "set":
        v = op["val"]
        if k["t"] == "tuple":
            key = _np_key(k["items"])
            key1 = key if len(key) > 1 or True else key[0]
            if isinstance(v, dict):
                arr = np.array(v["arr"], dtype=float)
                M.set_region(k["items"], arr)
                T[key1] = ttb.tensor(arr.copy()) if v.get("as") == "tensor" else arr.copy()
                S[key1] = ttb.tensor(arr.copy()).to_sptensor()
            else:
                M.set_region(k["items"], v)
                T[key1] = v
                S[key1] = v
        elif k["t"] == "subs":
            rows = np.array(k["rows"], dtype=int)
            if isinstance(v, list):
                vals = np.array(v, dtype=float)
                M.set_subs(rows, vals)
                T[rows.copy()] = vals.copy()
                S[rows.copy()] = vals.copy()[:, None]
            else:
                M.set_subs(rows, v)
                T[rows.copy()] = v
                S[rows.copy()] = v
        elif k["t"] == "lin":
            idx = k["idx"]
            flat = M.flat()
            if isinstance(idx, list) and idx and idx[0] == "s":
                lin = list(range(flat.size))[slice(idx[1], idx[2])]
                key = slice(idx[1], idx[2])
            elif isinstance(idx, list):
                lin = [i % flat.size for i in idx]
                key = np.array(idx)
            else:
                lin = [idx % flat.size]
                key = idx
            vals = np.array(v, dtype=float) if isinstance(v, list) else v
            flat[lin] = vals
            M.a = flat.reshape(M.a.shape, order="F")
            T[key] = vals.copy() if isinstance(vals, np.ndarray) else vals
            # the sparse tensor receives the same write through subscripts (its API has no
            # linear assignment beyond one mode)
            rows = np.array([np.unravel_index(i, M.a.shape, order="F") for i in lin], dtype=int).reshape(len(lin), M.a.ndim)
            if isinstance(vals, np.ndarray):
                S[rows] = vals.copy()[:, None]
            else:
                S[rows] = vals
    else:  # get
        if k["t"] == "tuple":
            key = _np_key(k["items"])
            exp = M.get_region(k["items"])
            for name, obj in (("dense", T), ("sparse", S)):
                res = obj[key]
                got = res
                if isinstance(got, ttb.tensor):
                    got = got.data
                elif isinstance(got, ttb.sptensor):
                    wf_sptensor(got, "read result")
                    got = den_sp(got)
                obs.append((name, np.array(got, dtype=float), np.asarray(exp, dtype=float)))
                _scribble(ttb, res)
        elif k["t"] == "subs":
            rows = np.array(k["rows"], dtype=int)
            exp = M.get_subs(rows)
            for name, obj in (("dense", T), ("sparse", S)):
                res = obj[rows.copy()]
                got = np.array(res, dtype=float).reshape(-1)
                obs.append((name, got, np.asarray(exp, dtype=float).reshape(-1)))
                _scribble(ttb, res)
        elif k["t"] == "lin":
            idx = k["idx"]
            flat = M.flat()
            if isinstance(idx, list) and idx and idx[0] == "s":
                exp = flat[slice(idx[1], idx[2])]
                key = slice(idx[1], idx[2])
            elif isinstance(idx, list):
                exp = flat[idx]
                key = np.array(idx)
            else:
                exp = flat[idx]
                key = idx
            for name, obj in (("dense", T), ("sparse", S)):
                res = obj[key]
                got = np.array(res, dtype=float).reshape(-1)
                obs.append((name, got, np.asarray(exp, dtype=float).reshape(-1)))
                _scribble(ttb, res)
    return obs


def _scribble(ttb, res):
    """What a read returns belongs to the reader: overwrite it.  The state comparison that follows every step then
    shows whether the tensor it was read from changed with it."""
    try:
        if isinstance(res, ttb.tensor):
            res.data[...] = -777.0
        elif isinstance(res, ttb.sptensor):
            if res.vals.size:
                res.vals[...] = -777.0
            if res.subs.size:
                res.subs[...] = 0
        elif isinstance(res, np.ndarray) and res.ndim > 0 and res.flags.writeable:
            res[...] = -777.0
    except (ValueError, TypeError):
        pass


def _opclass(op):
    k = op["key"]
    if k["t"] == "tuple":
        kf = "region[" + _keyform(k["items"]) + "]"
    elif k["t"] == "subs":
        kf = f"subs[{'1' if len(k['rows']) == 1 else 'p'}]"
    else:
        i = k["idx"]
        kf = "lin[" + ("slice" if isinstance(i, list) and i and i[0] == "s" else ("list" if isinstance(i, list) else ("neg" if i < 0 else "int"))) + "]"
    if op["op"] == "get":
        return "get:" + kf
    v = op["val"]
    if isinstance(v, dict):
        vf = "array"
    elif isinstance(v, list):
        z = [x == 0 for x in v]
        vf = "vals-mixed" if any(z) and not all(z) else ("vals-zero" if all(z) else "vals")
    else:
        vf = "zero" if v == 0 else "scalar"
    return f"set:{kf}={vf}"


def _alphabet(shape, rng):
    """Operation alphabet for a start shape: reads and writes over all key forms."""
    N = len(shape)
    ops = []
    inside = [rng.randrange(d) for d in shape]
    other = [(i + 1) % d for i, d in zip(inside, shape)]
    T = lambda items: {"t": "tuple", "items": items}
    full = ["s", None, None]
    # single entries: positive / negative subscripts, nonzero / zero
    ops.append(dict(op="set", key=T(list(inside)), val=5.0))
    ops.append(dict(op="set", key=T(list(inside)), val=0))
    ops.append(dict(op="set", key=T([i - d for i, d in zip(other, shape)]), val=-3.0))
    ops.append(dict(op="get", key=T(list(inside))))
    ops.append(dict(op="get", key=T([i - d for i, d in zip(other, shape)])))
    # growth of the extent of one mode
    g = list(inside)
    g[0] = shape[0] + 1
    ops.append(dict(op="set", key=T(g), val=2.0))
    if N >= 2:
        # region writes: scalar, zero, array with zeros; bounded / unbounded slices, list
        ops.append(dict(op="set", key=T([full] + list(inside[1:])), val=7.0))
        ops.append(dict(op="set", key=T([full] + list(inside[1:])), val=0))
        ops.append(dict(op="set", key=T([inside[0]] + [full] * (N - 1)), val=4.0))
        ops.append(dict(op="get", key=T([full] + list(inside[1:]))))
        ops.append(dict(op="get", key=T([inside[0]] + [full] * (N - 1))))
        ops.append(dict(op="get", key=T([["s", 0, 1]] + [full] * (N - 1))))
        ops.append(dict(op="get", key=T([full] * N)))
        # slices that run backwards or skip (reads and zeroing writes)
        rev = ["s", None, None, -1]
        ops.append(dict(op="get", key=T([rev] + [full] * (N - 1))))
        ops.append(dict(op="get", key=T([inside[0]] + [rev] * (N - 1))))
        ops.append(dict(op="get", key=T([["s", shape[0] - 1, 0, -1]] + [full] * (N - 1))))
        ops.append(dict(op="get", key=T([["s", 0, None, 2]] + [full] * (N - 1))))
        ops.append(dict(op="set", key=T([rev] + list(inside[1:])), val=0))
        ops.append(dict(op="set", key=T([["s", 0, 2]] + [["s", 0, 1]] + list(inside[2:])), val={"arr": [[1.0], [0.0]]}))
        ops.append(dict(op="set", key=T([["s", 0, 2]] + [["s", 0, 1]] + list(inside[2:])), val={"arr": [[0.0], [6.0]], "as": "tensor"}))
        ops.append(dict(op="set", key=T([["l", [0, shape[0] - 1]] if shape[0] > 1 else ["l", [0]]] + list(inside[1:])), val=9.0))
        ops.append(dict(op="get", key=T([["l", [shape[0] - 1, 0]] if shape[0] > 1 else ["l", [0]]] + [full] * (N - 1))))
        # bounded slice beyond the extent (growth by region)
        ops.append(dict(op="set", key=T([["s", 0, shape[0] + 1]] + list(inside[1:])), val=1.5))
        # growth of the order by one mode
        ops.append(dict(op="set", key=T(list(inside) + [1]), val=8.0))
    # arrays of subscripts: mixed zero / non-zero values, overwrite + insert + delete, growth
    r1, r2 = list(inside), list(other)
    r3 = list(inside)
    r3[-1] = shape[-1]  # one beyond
    if r1 != r2:
        ops.append(dict(op="set", key={"t": "subs", "rows": [r1, r2]}, val=[3.0, 0.0]))
        ops.append(dict(op="set", key={"t": "subs", "rows": [r2, r1]}, val=[0.0, 4.0]))
        ops.append(dict(op="set", key={"t": "subs", "rows": [r1, r2]}, val=[1.0, 2.0]))
        ops.append(dict(op="set", key={"t": "subs", "rows": [r1, r2]}, val=0))
        ops.append(dict(op="get", key={"t": "subs", "rows": [r2, r1]}))
        ops.append(dict(op="set", key={"t": "subs", "rows": [r1, r3]}, val=[0.0, 5.0]))
        # growth caused by a position that receives a zero (alone / as the farthest entry of a mixed batch)
        r4 = [x + 2 for x in r3]
        ops.append(dict(op="set", key={"t": "subs", "rows": [r1, r4]}, val=[5.5, 0.0]))
        ops.append(dict(op="set", key={"t": "subs", "rows": [r2, r1, r4]}, val=[4.5, 0.0, 0.0]))
    r5 = list(inside)
    r5[0] = shape[0] + 2
    ops.append(dict(op="set", key={"t": "subs", "rows": [r5]}, val=0))
    ops.append(dict(op="set", key=T(list(r5)), val=0))
    ops.append(dict(op="set", key={"t": "subs", "rows": [r1]}, val=6.0))
    ops.append(dict(op="get", key={"t": "subs", "rows": [r1]}))
    # linear indices (first index fastest), negative, lists, slices
    tot = int(np.prod(shape))
    ops.append(dict(op="get", key={"t": "lin", "idx": tot - 1}))
    ops.append(dict(op="get", key={"t": "lin", "idx": -1}))
    ops.append(dict(op="get", key={"t": "lin", "idx": [0, tot - 1, 1 % tot]}))
    ops.append(dict(op="get", key={"t": "lin", "idx": ["s", 1, None]}))
    ops.append(dict(op="get", key={"t": "lin", "idx": ["s", None, None]}))
    ops.append(dict(op="set", key={"t": "lin", "idx": 1 % tot}, val=2.5))
    if tot >= 3:
        ops.append(dict(op="set", key={"t": "lin", "idx": [2, 0]}, val=[0.0, 3.5]))
        ops.append(dict(op="set", key={"t": "lin", "idx": ["s", 0, 2]}, val=1.25))
    return ops


STARTS = [
    dict(shape=[2, 3], data=[[0, 0, 0], [0, 0, 0]]),
    dict(shape=[2, 3], data=[[1, 0, -2], [0, 3, 0]]),
    dict(shape=[2, 2, 2], data=[[[1, 0], [0, 2]], [[0, 0], [-1, 4]]]),
    dict(shape=[3], data=[0, 2, 0]),
    dict(shape=[3, 1], data=[[1], [0], [2]]),
]


@check("c04.histories", ["C04", "C06"], [
    "pyttb.tensor.tensor.__getitem__", "pyttb.tensor.tensor.__setitem__", "pyttb.tensor.tensor._set_linear",
    "pyttb.tensor.tensor._set_subtensor", "pyttb.tensor.tensor._set_subscripts", "pyttb.sptensor.sptensor.__getitem__",
    "pyttb.sptensor.sptensor.__setitem__", "pyttb.sptensor.sptensor._set_subscripts", "pyttb.sptensor.sptensor._set_subtensor",
    "pyttb.sptensor.sptensor.extract", "pyttb.sptensor.sptensor.subdims", "pyttb.pyttb_utils.tt_renumber",
    "pyttb.pyttb_utils.tt_irenumber", "pyttb.pyttb_utils.get_index_variant", "pyttb.pyttb_utils.tt_ind2sub",
    "pyttb.pyttb_utils.tt_sub2ind", "pyttb.pyttb_utils.tt_intersect_rows", "pyttb.pyttb_utils.tt_setdiff_rows"])
class _:
    """All operation sequences of length <= 2 over the per-shape alphabet (every key form x
    every right-hand-side form), plus sampled sequences of length 3-4 (thorough: all of length
    3 for the 2-way starts); after every step the dense tensor, the sparse tensor and the
    reference array must agree, reads must return the reference values."""

    def cases(self, tier, rng):
        import random
        for si, st in enumerate(STARTS):
            arng = random.Random(1000 + si)
            alpha = _alphabet(st["shape"], arng)
            for a in alpha:
                yield dict(start=si, ops=[a])
            for a, b in itertools.product(alpha, repeat=2):
                yield dict(start=si, ops=[a, b])
            n3 = 400 if tier == "quick" else 4000
            for _ in range(n3):
                L = rng.choice([3, 3, 4])
                yield dict(start=si, ops=[alpha[rng.randrange(len(alpha))] for _ in range(L)])

    def classify(self, case):
        return _opclass(case["ops"][-1])

    def run(self, case):
        ttb = import_pyttb()
        st = STARTS[case["start"]]
        M = Model(st["data"])
        T = ttb.tensor(np.array(st["data"], dtype=float))
        S = T.to_sptensor()
        for step, op in enumerate(case["ops"]):
            cls = _opclass(op)
            # operations that are not meaningful on the current (possibly grown) state are skipped
            if not _admissible(op, M):
                continue
            try:
                obs = _apply(ttb, op, T, S, M)
            except Fail:
                raise
            except Exception as e:
                import traceback
                tb = traceback.extract_tb(e.__traceback__)
                inrepo = [t for t in tb if "/pyttb/" in t.filename]
                where = inrepo[-1].name if inrepo else "harness"
                side = "sparse" if any("sptensor.py" in t.filename for t in tb) else "dense"
                raise Fail(f"crash:{cls}:{side}:{type(e).__name__}@{where}", f"step {step} of {case['ops']}: {e}")
            for name, got, exp in obs:
                if got.shape != exp.shape or not same(got, exp):
                    raise Fail(f"read:{cls}:{name}", f"step {step} of {case['ops']}: got {got.tolist()} expected {exp.tolist()}")
            if tuple(T.shape) != M.a.shape or not same(T.data, M.a):
                raise Fail(f"state:{cls}:dense", f"step {step} of {case['ops']}: dense {T.data.tolist()} expected {M.a.tolist()}")
            try:
                wf_sptensor(S, "sparse state")
            except Fail as f:
                raise Fail(f"state:{cls}:sparse:{f.sig}", f"step {step} of {case['ops']}: {f.msg}")
            if tuple(S.shape) != M.a.shape or not same(den_sp(S), M.a):
                raise Fail(f"state:{cls}:sparse", f"step {step} of {case['ops']}: sparse {den_sp(S).tolist()} shape {S.shape} expected {M.a.tolist()}")


def _admissible(op, M):
    """Keys are generated for the start shape; after growth of the order a key of the old
    length no longer addresses the tensor -- such steps are skipped, not failed."""
    k = op["key"]
    nd = M.a.ndim
    if k["t"] == "tuple":
        if op["op"] == "get":
            if len(k["items"]) != nd:
                return False
            for m, it in enumerate(k["items"]):
                if isinstance(it, list) and it[0] == "l" and max(it[1]) >= M.a.shape[m]:
                    return False
                if isinstance(it, int) and not (-M.a.shape[m] <= it < M.a.shape[m]):
                    return False
            return True
        if len(k["items"]) < nd:
            return False
        if isinstance(op["val"], dict):
            # region must have exactly the array's shape on the current state
            if len(k["items"]) != nd:
                return False
            try:
                r = M.a[_np_key(k["items"])]
            except Exception:
                return False
            return r.shape == np.array(op["val"]["arr"]).shape
        for m, it in enumerate(k["items"]):
            if isinstance(it, int) and it < 0 and (m >= nd or -it > M.a.shape[m]):
                return False
        return True
    if k["t"] == "subs":
        rows = np.array(k["rows"])
        if rows.shape[1] != nd:
            return False
        if op["op"] == "get":
            return bool((rows < np.array(M.a.shape)).all())
        return True
    # linear: indices refer to the current size
    i = k["idx"]
    tot = M.a.size
    if isinstance(i, list) and i and i[0] == "s":
        if op["op"] == "set" and isinstance(op["val"], list):
            return False
        return True
    if isinstance(i, list):
        return all(-tot <= j < tot for j in i) and len(set(j % tot for j in i)) == len(i)
    return -tot <= i < tot
